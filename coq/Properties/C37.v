(* C37 — Work queues run each accepted task exactly once.

   Three transition systems over the code's own atomic (lock-protected /
   channel / atomic-flag) steps:
     w_run  : BoundedWorkerQueue        (Model/WorkQueue_worker.v)
     d_run  : BoundedPool and BoundedBatchPool, one system (Model/WorkQueue_dpool.v)
     m_run  : ShardedMailbox            (Model/WorkQueue_mailbox.v)
   [x_run cf evs] executes an ARBITRARY interleaving [evs] of any number of
   producer goroutines, the dispatcher / workers / shard drains and one Close
   caller.  Every theorem below is over all [evs].  [x_hist] is the recorded
   history (completed Submit calls, handler deliveries, CancelAccepted hooks,
   Close calls, shard drains; all stamped by the logical clock) and
   [C37_monitor] is the boolean property evaluated by ./check on the histories
   recorded from the real queues.

   The full statement "every admitted task has exactly one terminal event
   before Close returns" is TRUE for BoundedWorkerQueue and for BoundedBatchPool
   without cancel-on-close flags, and FALSE — of the model and of the code — for
   BoundedPool (K1), ShardedMailbox (K2), BoundedBatchPool with
   CancelRunningOnClose only (K3) and with CancelAcceptedOnClose (K4): see the
   [_refuted] theorems (witness schedules, replayed on the real code by
   corpus/C37) and the [_partial] / [_close_waits] theorems, which state exactly
   what does hold. *)
From WK Require Import Base.Base Model.WorkQueue Model.WorkQueue_worker Model.WorkQueue_dpool Model.WorkQueue_mailbox.
From WK Require Proof.WorkQueue Proof.WorkQueue_worker Proof.WorkQueue_dpool Proof.WorkQueue_mailbox.
Open Scope N_scope.

(* ================= BoundedWorkerQueue: the full property ================= *)

(* never run twice *)
Theorem c37_worker_at_most_once : forall cf, c_workers cf <> 0 -> forall evs,
  NoDup (map r_task (w_runs (w_run cf evs))).
Proof. exact WK.Proof.WorkQueue_worker.w_at_most_once. Qed.
Print Assumptions c37_worker_at_most_once.

(* a Submit that returned ErrFull / ErrClosed never reaches the handler *)
Theorem c37_worker_rejected_never_runs : forall cf, c_workers cf <> 0 -> forall evs sb,
  In sb (w_subs (w_run cf evs)) -> s_res sb <> ROk ->
  ~ In (s_task sb) (map r_task (w_runs (w_run cf evs))).
Proof. exact WK.Proof.WorkQueue_worker.w_rejected_never_runs. Qed.
Print Assumptions c37_worker_rejected_never_runs.

(* exactly once + close waits: when Close has returned, every admitted task has
   completed its handler call before that return *)
Theorem c37_worker_close_waits : forall cf, c_workers cf <> 0 -> forall evs c sb,
  In c (w_clos (w_run cf evs)) -> In sb (w_subs (w_run cf evs)) -> s_res sb = ROk ->
  exists r, In r (w_runs (w_run cf evs)) /\ r_task r = s_task sb /\ r_e r < l_e c.
Proof. exact WK.Proof.WorkQueue_worker.w_close_waits. Qed.
Print Assumptions c37_worker_close_waits.

Theorem c37_worker_model_satisfies_monitor : forall cf, c_workers cf <> 0 -> c_kind cf = KWorker ->
  forall evs, C37_monitor (w_hist cf (w_run cf evs)) = 0.
Proof. exact WK.Proof.WorkQueue_worker.w_monitor. Qed.
Print Assumptions c37_worker_model_satisfies_monitor.

Theorem c37_worker_model_accepted : forall cf, c_workers cf <> 0 ->
  forall evs, C37_mismatch (w_hist cf (w_run cf evs)) = false.
Proof. exact WK.Proof.WorkQueue_worker.w_accepts. Qed.
Print Assumptions c37_worker_model_accepted.

(* Why Close publishes both flags in ONE q.mu critical section.  [ws_run] is the worker-queue
   system with that section SPLIT (close(q.stop) first, closed = true under q.mu in a later
   step — seeded change C37-b): a worker sees stop, drains the still-empty queue and exits; a
   Submit whose critical section comes next still sees closed = false, enqueues and returns nil;
   Close then finds workerWG at zero and returns nil.  The admitted task never runs: the monitor
   is 1 (the worker queue has no known-finding code), while on the code's own step function the
   same schedule gives 0 (and so does every schedule: c37_worker_model_satisfies_monitor). *)
Definition c37_cfg_worker : cfg := Cfg KWorker 1 4 1 1 false false.
Definition c37_split_schedule : list wev :=
  [WCall 0 false; WCloseCall; WCloseStep; WWork 0 true; WWork 0 false; WStep 0 false; WCloseStep; WCloseStep].
Theorem c37_worker_split_close_refuted :
  let s := ws_run c37_cfg_worker c37_split_schedule in
  map s_res (w_subs s) = [ROk] /\ w_runs s = [] /\ map l_ok (w_clos s) = [true]
  /\ C37_monitor (w_hist c37_cfg_worker s) = 1
  /\ C37_monitor (w_hist c37_cfg_worker (w_run c37_cfg_worker c37_split_schedule)) = 0.
Proof. vm_compute. repeat split; reflexivity. Qed.
Print Assumptions c37_worker_split_close_refuted.

(* ================= BoundedPool / BoundedBatchPool ================= *)

(* at most one terminal event per task: never run twice, never run and cancelled, never cancelled twice *)
Theorem c37_dpool_at_most_once : forall cf, c_workers cf <> 0 -> forall evs,
  NoDup (map r_task (d_runs (d_run cf evs)) ++ map k_task (d_cans (d_run cf evs))).
Proof. exact WK.Proof.WorkQueue_dpool.d_at_most_once. Qed.
Print Assumptions c37_dpool_at_most_once.

Theorem c37_dpool_rejected_never_runs : forall cf, c_workers cf <> 0 -> forall evs sb,
  In sb (d_subs (d_run cf evs)) -> s_res sb <> ROk ->
  ~ In (s_task sb) (map r_task (d_runs (d_run cf evs)) ++ map k_task (d_cans (d_run cf evs))).
Proof. exact WK.Proof.WorkQueue_dpool.d_rejected_never_runs. Qed.
Print Assumptions c37_dpool_rejected_never_runs.

(* the cancellation hook is used only when CancelAcceptedOnClose is configured *)
Theorem c37_dpool_cancel_only_if_configured : forall cf, c_workers cf <> 0 -> forall evs,
  d_cans (d_run cf evs) <> [] -> ca cf = true.
Proof. exact WK.Proof.WorkQueue_dpool.d_cancel_only_if_configured. Qed.
Print Assumptions c37_dpool_cancel_only_if_configured.

(* FULL statement (exactly once + close waits) for BoundedBatchPool without
   cancel-on-close flags: the monitor — at most once, rejected never runs, every
   admitted task's handler call completed before Close returned — is 0 *)
Theorem c37_batch_exactly_once : forall cf, c_workers cf <> 0 -> c_kind cf = KPool \/ c_kind cf = KBatch ->
  forall evs, is_batch cf = true -> ca cf = false -> cr cf = false ->
  C37_monitor (d_hist cf (d_run cf evs)) = 0.
Proof. exact WK.Proof.WorkQueue_dpool.d_monitor_plain. Qed.
Print Assumptions c37_batch_exactly_once.

(* PARTIAL (all configurations): when Close has returned, an admitted task has
   run, or was cancelled, before that return — or it has no terminal event at all,
   the dispatcher has left, the task is stranded in the queue / was released by
   retryExecutor, and nothing submitted after it has a terminal event either (the
   stranded tasks are a suffix of the admission order).  (BoundedPool: only a Submit that overlapped Close can be
   stranded — that is what [c37_dpool_model_satisfies_monitor] adds.) *)
Theorem c37_dpool_close_waits_partial : forall cf, c_workers cf <> 0 -> forall evs c sb,
  In c (d_clos (d_run cf evs)) -> In sb (d_subs (d_run cf evs)) -> s_res sb = ROk ->
  let s := d_run cf evs in
  (exists r, In r (d_runs s) /\ r_task r = s_task sb /\ r_e r < l_e c)
  \/ (exists k, In k (d_cans s) /\ k_task k = s_task sb /\ k_at k < l_e c)
  \/ (~ In (s_task sb) (map r_task (d_runs s) ++ map k_task (d_cans s))
      /\ d_disp s = DExit /\ s_b sb < l_e c /\ l_b c = d_cb s
      /\ (In (s_task sb) (d_queue s) \/ In (s_task sb) (d_lost s))
      /\ (forall x, In x (d_subs s) -> s_e sb < s_b x ->
            ~ In (s_task x) (map r_task (d_runs s) ++ map k_task (d_cans s)))).
Proof. exact WK.Proof.WorkQueue_dpool.d_close_waits. Qed.
Print Assumptions c37_dpool_close_waits_partial.

(* every history of the model satisfies the monitor or matches EXACTLY the
   known-finding signature of its configuration:
   BoundedPool 2 (K1), batch + CancelAcceptedOnClose 5 (K4),
   batch + CancelRunningOnClose only 4 (K3), plain batch 0 *)
Theorem c37_dpool_model_satisfies_monitor : forall cf, c_workers cf <> 0 -> c_kind cf = KPool \/ c_kind cf = KBatch ->
  forall evs,
  C37_monitor (d_hist cf (d_run cf evs)) = 0
  \/ C37_monitor (d_hist cf (d_run cf evs))
     = (if is_batch cf then (if ca cf then 5 else if cr cf then 4 else 0) else 2).
Proof. exact WK.Proof.WorkQueue_dpool.d_monitor. Qed.
Print Assumptions c37_dpool_model_satisfies_monitor.

Theorem c37_dpool_model_accepted : forall cf, c_workers cf <> 0 ->
  forall evs, C37_mismatch (d_hist cf (d_run cf evs)) = false.
Proof. exact WK.Proof.WorkQueue_dpool.d_accepts. Qed.
Print Assumptions c37_dpool_model_accepted.

(* K1 — BoundedPool: Submit passes closed.Load, Close runs to completion (closed.Store,
   close(stop), dispatcher drains the empty queue and leaves, Close returns nil), then the
   Submit's two selects both pick the non-stop case: accepted, never run. *)
Definition c37_cfg_pool : cfg := Cfg KPool 2 4 1 1 false false.
Definition c37_k1_schedule : list dev :=
  [DCall 0 false; DStep 0 false; DCloseCall; DCloseStep; DCloseStep; DDisp ChStop; DDisp ChTake; DCloseStep;
   DStep 0 false; DStep 0 false].
Theorem c37_pool_exactly_once_refuted :
  let s := d_run c37_cfg_pool c37_k1_schedule in
  map s_res (d_subs s) = [ROk] /\ d_runs s = [] /\ d_cans s = [] /\ map l_ok (d_clos s) = [true]
  /\ C37_monitor (d_hist c37_cfg_pool s) = 2.
Proof. vm_compute. repeat split; reflexivity. Qed.
Print Assumptions c37_pool_exactly_once_refuted.

(* K3 — CancelRunningOnClose only: one worker busy, dispatcher retrying the second item,
   a third item queued; Close cancels the runtime context, retryExecutor takes ctx.Done,
   releases its batch and the dispatcher leaves: two accepted items never run, no hook. *)
Definition c37_submit (t : nat) : list dev := [DCall t false; DStep t false; DStep t false; DStep t false; DStep t false].
Definition c37_cfg_batch_cr : cfg := Cfg KBatch 1 8 1 1 false true.
Definition c37_k3_schedule : list dev :=
  c37_submit 0 ++ [DDisp ChTake; DDisp ChGo; DDisp ChGo; DDisp (ChOk 0); DWork 0] ++ c37_submit 0 ++ c37_submit 0
  ++ [DDisp ChTake; DDisp ChGo; DDisp ChGo; DDisp ChOverload; DCloseCall; DCloseStep; DCloseStep; DDisp ChCtx; DWork 0; DCloseStep].
Theorem c37_batch_cancel_running_refuted :
  let s := d_run c37_cfg_batch_cr c37_k3_schedule in
  map s_res (d_subs s) = [ROk; ROk; ROk] /\ length (d_runs s) = 1%nat /\ d_cans s = [] /\ map l_ok (d_clos s) = [true]
  /\ C37_monitor (d_hist c37_cfg_batch_cr s) = 4.
Proof. vm_compute. repeat split; reflexivity. Qed.
Print Assumptions c37_batch_cancel_running_refuted.

(* K4 — CancelAcceptedOnClose: same situation; retryExecutor takes <-stop, cancels its batch
   and returns false; dispatch returns without cancelQueued: the queued item has neither
   handler nor hook. *)
Definition c37_cfg_batch_ca : cfg := Cfg KBatch 1 8 1 1 true false.
Definition c37_k4_schedule : list dev :=
  c37_submit 0 ++ [DDisp ChTake; DDisp ChGo; DDisp ChGo; DDisp (ChOk 0); DWork 0] ++ c37_submit 0 ++ c37_submit 0
  ++ [DDisp ChTake; DDisp ChGo; DDisp ChGo; DDisp ChOverload; DCloseCall; DCloseStep; DCloseStep; DDisp ChStop; DWork 0; DCloseStep].
Theorem c37_batch_cancel_accepted_refuted :
  let s := d_run c37_cfg_batch_ca c37_k4_schedule in
  map s_res (d_subs s) = [ROk; ROk; ROk] /\ length (d_runs s) = 1%nat /\ length (d_cans s) = 1%nat
  /\ map l_ok (d_clos s) = [true] /\ C37_monitor (d_hist c37_cfg_batch_ca s) = 5.
Proof. vm_compute. repeat split; reflexivity. Qed.
Print Assumptions c37_batch_cancel_accepted_refuted.

(* ================= ShardedMailbox ================= *)

Theorem c37_mailbox_at_most_once : forall cf evs, NoDup (map r_task (m_runs (m_run cf evs))).
Proof. exact WK.Proof.WorkQueue_mailbox.m_at_most_once. Qed.
Print Assumptions c37_mailbox_at_most_once.

Theorem c37_mailbox_rejected_never_runs : forall cf evs sb,
  In sb (m_subs (m_run cf evs)) -> s_res sb <> ROk -> ~ In (s_task sb) (map r_task (m_runs (m_run cf evs))).
Proof. exact WK.Proof.WorkQueue_mailbox.m_rejected_never_runs. Qed.
Print Assumptions c37_mailbox_rejected_never_runs.

(* c37_single_drain: drains of one shard never overlap — a drain of the shard begins
   only after every earlier drain of that shard has gone through finishShardDrain
   ([m_drains] is newest first) ... *)
Theorem c37_single_drain : forall cf evs l1 a l2 d,
  m_drains (m_run cf evs) = l1 ++ a :: l2 -> In d l2 -> d_shard d = d_shard a -> d_e d < d_b a.
Proof. exact WK.Proof.WorkQueue_mailbox.m_drains_ordered. Qed.
Print Assumptions c37_single_drain.

(* ... and handler calls of one shard never overlap (same call, or the older one returned first) *)
Theorem c37_single_drain_batches : forall cf evs l1 a l2 r,
  m_runs (m_run cf evs) = l1 ++ a :: l2 -> In r l2 -> r_shard r = r_shard a -> r_b r = r_b a \/ r_e r < r_b a.
Proof. exact WK.Proof.WorkQueue_mailbox.m_batches_ordered. Qed.
Print Assumptions c37_single_drain_batches.

(* c37_shard_fifo: if Submit a returned before Submit b was called (same shard, both
   admitted) then a is delivered before b: in an earlier handler call, or earlier in the
   same batch slice *)
Theorem c37_shard_fifo : forall cf evs a b ra rb,
  In a (m_subs (m_run cf evs)) -> In b (m_subs (m_run cf evs)) -> s_res a = ROk -> s_res b = ROk ->
  s_shard a = s_shard b -> s_e a < s_b b ->
  In ra (m_runs (m_run cf evs)) -> In rb (m_runs (m_run cf evs)) -> r_task ra = s_task a -> r_task rb = s_task b ->
  r_b ra < r_b rb \/ (r_b ra = r_b rb /\ r_pos ra < r_pos rb).
Proof. exact WK.Proof.WorkQueue_mailbox.m_fifo_spec. Qed.
Print Assumptions c37_shard_fifo.

(* PARTIAL close-waits: when Close has returned, an admitted item was delivered before
   that return, or it was never delivered, its shard had a drain, and no handler call of
   that shard began after the item was admitted (K2 window) *)
Theorem c37_mailbox_close_waits_partial : forall cf evs c sb,
  In c (m_clos (m_run cf evs)) -> In sb (m_subs (m_run cf evs)) -> s_res sb = ROk ->
  let s := m_run cf evs in
  (exists r, In r (m_runs s) /\ r_task r = s_task sb /\ r_e r < l_e c)
  \/ (~ In (s_task sb) (map r_task (m_runs s))
      /\ (exists d, In d (m_drains s) /\ d_shard d = s_shard sb)
      /\ (forall r, In r (m_runs s) -> r_shard r = s_shard sb -> r_b r < s_e sb)).
Proof. exact WK.Proof.WorkQueue_mailbox.m_close_waits. Qed.
Print Assumptions c37_mailbox_close_waits_partial.

Theorem c37_mailbox_model_satisfies_monitor : forall cf, c_kind cf = KMailbox -> forall evs,
  C37_monitor (m_hist cf (m_run cf evs)) = 0 \/ C37_monitor (m_hist cf (m_run cf evs)) = 3.
Proof. exact WK.Proof.WorkQueue_mailbox.m_monitor. Qed.
Print Assumptions c37_mailbox_model_satisfies_monitor.

Theorem c37_mailbox_model_accepted : forall cf evs, C37_mismatch (m_hist cf (m_run cf evs)) = false.
Proof. exact WK.Proof.WorkQueue_mailbox.m_accepts. Qed.
Print Assumptions c37_mailbox_model_accepted.

(* K2 — the drain has seen its queue empty (TFinish) when a Submit is admitted into the
   still-scheduled shard; Close stores closed; finishShardDrain sees closed and does not
   reschedule; wg drops to 0 and Close returns nil: the item is never delivered. *)
Definition c37_cfg_mailbox : cfg := Cfg KMailbox 1 8 2 2 false false.
Definition c37_k2_schedule : list mev :=
  [MCall 0 0; MStep 0; MStep 0; MTok 0 TcStep; MTok 0 TcStep; MTok 0 TcGo; MTok 0 TcStep; MTok 0 TcStep;
   MCall 1 0; MStep 1; MStep 1; MCloseCall; MCloseStep; MTok 0 TcStep; MCloseStep; MCloseStep].
Theorem c37_mailbox_close_waits_refuted :
  let s := m_run c37_cfg_mailbox c37_k2_schedule in
  map s_res (m_subs s) = [ROk; ROk] /\ length (m_runs s) = 1%nat /\ map l_ok (m_clos s) = [true]
  /\ C37_monitor (m_hist c37_cfg_mailbox s) = 3.
Proof. vm_compute. repeat split; reflexivity. Qed.
Print Assumptions c37_mailbox_close_waits_refuted.

(* ================= non-vacuity ================= *)

(* batch pool, MaxItems 2, one worker: three submits; a batch of two and a batch of one
   (the second one retried after an overload) run; Close drains and returns *)
Example c37_example_batch_runs :
  let cf := Cfg KBatch 1 8 1 2 false false in
  let evs := c37_submit 0 ++ c37_submit 1 ++ c37_submit 2 ++
             [DDisp ChTake; DDisp ChTake; DDisp ChGo; DDisp ChGo; DDisp (ChOk 0); DWork 0; DCloseCall; DCloseStep; DCloseStep;
              DDisp ChStop; DDisp ChGo; DDisp ChGo; DDisp ChGo; DDisp ChOverload; DWork 0; DDisp ChTimer; DDisp ChGo;
              DDisp (ChOk 0); DDisp ChGo; DWork 0; DWork 0; DCloseStep] in
  let s := d_run cf evs in
  map r_task (d_runs s) = [11; 1; 6] /\ map r_pos (d_runs s) = [0; 0; 1] /\ map l_ok (d_clos s) = [true]
  /\ C37_monitor (d_hist cf s) = 0.
Proof. vm_compute. repeat split; reflexivity. Qed.

(* mailbox, two shards, batches of 2: FIFO inside shard 0, independent shard 1, a second drain of shard 0 *)
Example c37_example_mailbox_runs :
  let cf := c37_cfg_mailbox in
  let evs := [MCall 0 0; MStep 0; MStep 0; MCall 1 0; MStep 1; MStep 1; MCall 2 1; MStep 2; MStep 2;
              MTok 0 TcStep; MTok 0 TcStep; MTok 0 TcTake; MTok 0 TcGo; MTok 1 TcStep; MTok 1 TcStep; MTok 1 TcGo;
              MTok 0 TcStep; MTok 1 TcStep; MCall 0 0; MStep 0; MStep 0; MTok 0 TcStep; MTok 0 TcGo; MTok 0 TcStep;
              MTok 0 TcStep; MTok 0 TcStep; MTok 1 TcStep; MTok 1 TcStep; MCloseCall; MCloseStep; MCloseStep; MCloseStep] in
  let s := m_run cf evs in
  map r_task (m_runs s) = [19; 7; 1; 4] /\ map r_shard (m_runs s) = [0; 1; 0; 0] /\ length (m_drains s) = 2%nat
  /\ C37_monitor (m_hist cf s) = 0.
Proof. vm_compute. repeat split; reflexivity. Qed.

(* worker queue, one worker, queue size 1: second Submit is rejected (ErrFull), SubmitWait parks and is admitted
   after the worker frees the slot; Close drains *)
Example c37_example_worker_runs :
  let cf := Cfg KWorker 1 1 1 1 false false in
  let evs := [WCall 0 false; WStep 0 false; WCall 1 false; WStep 1 false; WCall 2 true; WStep 2 false;
              WWork 0 false; WWork 0 false; WStep 2 false; WStep 2 false; WWork 0 false;
              WCloseCall; WCloseStep; WWork 0 false; WWork 0 false; WWork 0 false; WWork 0 true; WWork 0 false; WCloseStep] in
  let s := w_run cf evs in
  map s_res (w_subs s) = [ROk; RFull; ROk] /\ map r_task (w_runs s) = [5; 1] /\ map l_ok (w_clos s) = [true]
  /\ C37_monitor (w_hist cf s) = 0.
Proof. vm_compute. repeat split; reflexivity. Qed.
