From WK Require Import Base.Base Model.WorkQueue.
Open Scope N_scope.
Example c37_placeholder : comb 0 2 = 2.
Proof. reflexivity. Qed.
