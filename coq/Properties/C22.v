(* C22 — WKProto frames round-trip exactly. (placeholder while the proofs are being written) *)
From WK Require Import Base.Base Gen.Consts_C22 Model.WKProto.
Open Scope N_scope.
