(* C22 — WKProto frames round-trip exactly.
   For every protocol version v (any N: 0..LatestVersion and beyond), every one
   of the twelve frame types, every header-flag combination and all field values
   within the protocol limits ([within_limits]: Go field widths, strings up to
   math.MaxInt16, SEND payload up to PayloadMaxSize, ClientSeq below 2^32 where it
   travels as uint32, MessageSeq below 2^32 up to LegacyMessageSeqVersion, body up
   to MaxRemaingLength).  [normalize v f] is f with the fields that version v does
   not put on the wire set to zero; [normalize v f = f] for frames that only use
   what the version carries.
   Only statements, each closed by [exact] of a lemma from Proof/WKProto*.v. *)
From WK Require Import Base.Base Base.Bytes Gen.Consts_C22 Model.WKProto.
From WK Require Import Proof.WKProto Proof.WKProto_types Proof.WKProto_frame.
Open Scope N_scope.

(* encode succeeds; decoding the bytes — whatever follows them in the buffer —
   yields the (normalized) frame with the frame type in its Framer, consumes
   exactly the encoded length, and the precomputed size is that length *)
Theorem c22_roundtrip : forall v f tail, within_limits v f = true ->
  exists bs,
    EncodeFrame f v = EncOk bs
    /\ DecodeFrame (bs ++ tail) v
       = DFrame (normalize v f) (Meta (frame_type f) (remlen_of f v) (blen bs + blen tail) false) (blen bs)
    /\ encodedFrameSize f v = blen bs.
Proof. exact roundtrip. Qed.
Print Assumptions c22_roundtrip.

(* frames that use only what the version carries come back equal *)
Theorem c22_roundtrip_exact : forall v f tail, within_limits v f = true -> normalize v f = f ->
  exists bs m,
    EncodeFrame f v = EncOk bs /\ DecodeFrame (bs ++ tail) v = DFrame f m (blen bs)
    /\ encodedFrameSize f v = blen bs.
Proof. exact roundtrip_exact. Qed.
Print Assumptions c22_roundtrip_exact.

(* the size precomputation of every frame type is the number of body bytes written *)
Theorem c22_body_size : forall v f, fields_ok v f = true ->
  encodeBody f v = W (body_bytes f v)
  /\ fst (encodedFrameBodySize f v) = blen (body_bytes f v).
Proof. intros v f H. split; [exact (encodeBody_ok v f H)|exact (proj1 (body_size_ok v f H))]. Qed.
Print Assumptions c22_body_size.

(* no frame type has an empty body, so encodeVariable2 0 = [] (a header with no
   length byte) is unreachable *)
Theorem c22_body_nonzero : forall v f, is_pingpong f = false ->
  snd (encodedFrameBodySize f v) = true -> 3 <= fst (encodedFrameBodySize f v).
Proof. exact body_nonzero. Qed.
Print Assumptions c22_body_nonzero.

(* remaining-length varint, every length a frame can have *)
Theorem c22_varint_roundtrip : forall n r, 0 < n -> n < 268435456 ->
  decodeLength (encodeVariable2 n ++ r) = Some (n, blen (encodeVariable2 n)).
Proof. exact decodeLength_enc. Qed.
Print Assumptions c22_varint_roundtrip.

(* fixed header: frame -> byte -> framer, all types and flag combinations *)
Theorem c22_header_roundtrip : forall f, is_pingpong f = false ->
  FramerFromUint8 (ToFixHeaderUint8 f) = (frame_type f, normalize_flags (frame_type f) (frame_flags f)).
Proof. exact header_roundtrip. Qed.
Print Assumptions c22_header_roundtrip.

(* fixed header: every one of the 256 bytes -> framer -> byte (CONNACK keeps bit 0 only) *)
Theorem c22_header_bytes : forall b, b < 256 ->
  fix_header (fst (FramerFromUint8 b)) (snd (FramerFromUint8 b))
  = if fst (FramerFromUint8 b) =? CONNACK then b - b mod 16 + b mod 2 else b.
Proof. exact header_bytes. Qed.
Print Assumptions c22_header_bytes.

(* the monitor run on implementation traces accepts everything the model produces *)
Theorem c22_model_satisfies_monitor : forall v f tail,
  C22_monitor (C22Case v f tail (encodedFrameSize f v) (EncodeFrame f v)
                 (match EncodeFrame f v with EncOk bs => Some (DecodeFrame (bs ++ tail) v) | _ => None end)
                 true) = 0.
Proof. exact model_satisfies_monitor. Qed.
Print Assumptions c22_model_satisfies_monitor.

(* non-vacuity: frames within limits exist for old and new versions, with the
   version-gated fields present, and are exact *)
Example c22_example_send_v4 :
  let f := FSend (Flags true false true false false) 10 77 4294967295 2
                 (hx "6b") (hx "6e6f") (hx "7331") (hx "6368") (hx "7470") (hx "00ff80") in
  within_limits 4 f = true /\ normalize 4 f = f
  /\ EncodeFrame f 4 = EncOk (hx "35200affffffff00026e6f0002733100026368020000004d00016b0002747000ff80").
Proof. vm_compute. repeat split. Qed.

Example c22_example_recv_v6_drops_stream :
  let f := FRecv (Flags false true false true false) 2 0 1 18446744073709551615 9 1 5 1 0
                 [] [] (hx "73") (hx "63") [] (hx "75") (hx "70") in
  within_limits 6 f = true /\ normalize 6 f <> f /\ within_limits 5 f = false.
Proof. vm_compute. repeat split. discriminate. Qed.
