(* C04 — placeholder while the proofs are being written *)
From WK Require Import Base.Base Model.ReplicaLog Model.QuorumLog Model.Cluster Model.Monitor_C04.
Open Scope N_scope.
Example c04_placeholder : c04_holds [] = true.
Proof. reflexivity. Qed.
