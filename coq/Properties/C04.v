(* C04 — A deposed or fenced authority cannot acknowledge appends.
   Statements only; every proof is [exact] of a lemma of Proof/QuorumLog_C04.v.

   Install / Commit are the transcriptions of quorumLog.Install / quorumLog.Commit
   (Model/QuorumLog.v).  Every theorem quantifies over an arbitrary network [n]
   (replica contents, nodes down, fault plan of the call) and an arbitrary owner state, hence
   over every outcome of recovery, repair, barrier and durability rounds, and — because the
   per-channel mutex makes whole calls atomic — over every interleaving of Install and Commit. *)
From WK Require Import Base.Base.
From WK Require Import Model.ReplicaLog Model.QuorumLog Model.Cluster Model.Monitor_C04 Proof.QuorumLog_C04.
From WK Require Import Proof.QuorumLog_C04_cross.
Open Scope N_scope.

(* compareAuthorityID is the lexicographic order on (epoch, term, fence); the probes printed by
   the compiled code agree with it *)
Theorem c04_compare_is_lexicographic : forall a b,
  (compareAuthorityID a b = Lt <-> aid_lt a b) /\ (compareAuthorityID a b = Eq <-> a = b) /\
  (compareAuthorityID a b = Gt <-> aid_lt b a).
Proof. exact (fun a b => conj (compare_Lt a b) (conj (compare_Eq a b) (compare_Gt a b))). Qed.
Print Assumptions c04_compare_is_lexicographic.

Theorem c04_compare_matches_code :
  compareAuthorityID (2, 2, 2) (3, 1, 1) = Lt /\ cmp_epoch_lt_term_gt = (-1)%Z /\
  compareAuthorityID (2, 2, 2) (2, 3, 1) = Lt /\ cmp_term_lt_fence_gt = (-1)%Z /\
  compareAuthorityID (2, 2, 2) (2, 2, 1) = Gt /\ cmp_fence_gt = 1%Z /\
  compareAuthorityID (2, 2, 2) (2, 2, 2) = Eq /\ cmp_equal = 0%Z.
Proof. exact compare_probes_match_code. Qed.
Print Assumptions c04_compare_matches_code.

(* the authority an owner runs under never decreases, whatever Install returns *)
Theorem c04_authority_monotone : forall cfg n st local a n' st' r,
  Install cfg n st local a = (n', st', r) -> auth_le (qc_auth st) (qc_auth st').
Proof. exact Install_authority_monotone. Qed.
Print Assumptions c04_authority_monotone.

(* Commit never changes the authority or the readiness of the owner *)
Theorem c04_commit_keeps_authority : forall cfg n st local p n' st' r,
  Commit cfg n st local p = (n', st', r) -> qc_auth st' = qc_auth st /\ qc_ready st' = qc_ready st.
Proof. exact Commit_keeps_admission. Qed.
Print Assumptions c04_commit_keeps_authority.

(* an older authority can never be installed again: the call is refused (ErrStaleMeta, or
   ErrInvalidConfig for a malformed request) and neither the owner nor any replica changes *)
Theorem c04_older_install_rejected : forall cfg n st local a cur n' st' r,
  qc_auth st = Some cur -> aid_lt (a_id a) (a_id cur) ->
  Install cfg n st local a = (n', st', r) ->
  n' = n /\ st' = st /\ (r = IErr EStale \/ r = IErr EInvalid).
Proof. exact Install_older_rejected. Qed.
Print Assumptions c04_older_install_rejected.

(* a successful Install returns the requested authority, unfenced and not older than the
   previous one, and leaves the owner ready under exactly that authority *)
Theorem c04_install_ok_exact : forall cfg n st local a n' st' x leo hw,
  Install cfg n st local a = (n', st', IOk x leo hw) ->
  x = a_id a /\ a_wf a = false /\ qc_ready st' = true /\
  (exists b, qc_auth st' = Some b /\ a_id b = a_id a /\ a_wf b = false) /\
  (forall cur, qc_auth st = Some cur -> aid_le (a_id cur) (a_id a)).
Proof. exact Install_ok. Qed.
Print Assumptions c04_install_ok_exact.

(* a higher authority fences the owner even when its Install fails afterwards (recovery,
   repair or barrier error): the owner then sits under the new authority, not ready *)
Theorem c04_failed_higher_install_still_fences : forall cfg n st local a n' st' e,
  (forall cur, qc_auth st = Some cur -> aid_lt (a_id cur) (a_id a)) ->
  Install cfg n st local a = (n', st', IErr e) ->
  (st' = st /\ n' = n /\ e = EInvalid) \/ (qc_auth st' = Some a /\ qc_ready st' = false).
Proof. exact Install_failed_higher_fences. Qed.
Print Assumptions c04_failed_higher_install_still_fences.

(* appends proposed under any authority other than the installed one, under a fenced authority,
   or to an owner that is not ready are rejected; nothing is written anywhere *)
Theorem c04_stale_commit_rejected : forall cfg n st local p a n' st' r,
  qc_auth st = Some a -> (pr_expected p <> a_id a \/ a_wf a = true \/ qc_ready st = false) ->
  Commit cfg n st local p = (n', st', r) ->
  n' = n /\ st' = st /\
  (r = CErr EInvalid \/ r = CErr ENotReady \/ r = CErr EStale \/ r = CErr EFenced).
Proof. exact Commit_stale_rejected. Qed.
Print Assumptions c04_stale_commit_rejected.

(* a receipt is issued only by a ready owner and carries its installed, unfenced authority,
   which is the authority the proposal expected *)
Theorem c04_receipt_authority : forall cfg n st local p n' st' rc,
  owner_inv st -> Commit cfg n st local p = (n', st', COk rc) ->
  qc_ready st = true /\ exists a, qc_auth st = Some a /\ a_wf a = false /\
                                  pr_expected p = a_id a /\ rc_auth rc = a_id a.
Proof. exact Commit_receipt_authority. Qed.
Print Assumptions c04_receipt_authority.

(* WriteFence.Set(): Install fails and touches no replica *)
Theorem c04_fence_blocks_install : forall cfg n st local a n' st' r,
  a_wf a = true -> Install cfg n st local a = (n', st', r) -> exists e, r = IErr e /\ n' = n.
Proof. exact Install_fenced_fails. Qed.
Print Assumptions c04_fence_blocks_install.

(* the owner invariant (ready => unfenced authority; pending / retained work only on ready
   owners; retained receipts carry the current authority) holds initially and is kept *)
Theorem c04_owner_invariant :
  owner_inv qchannel_empty /\
  (forall cfg n st local a n' st' r, owner_inv st -> Install cfg n st local a = (n', st', r) -> owner_inv st') /\
  (forall cfg n st local p n' st' r, owner_inv st -> Commit cfg n st local p = (n', st', r) -> owner_inv st').
Proof. exact (conj owner_inv_empty (conj Install_preserves_inv Commit_preserves_inv)). Qed.
Print Assumptions c04_owner_invariant.

(* appends already admitted reach a terminal result: Commit is a total function whose only
   loop, the completion loop of runDurableRound, never exhausts its fuel (more fuel gives the
   same result), and a pending proposal exists only on a ready owner (so its retry is admitted
   again, see c04_owner_invariant) *)
Theorem c04_admitted_terminates : forall n local voters wq rot p k,
  runDurableRound n local voters wq rot p =
  (let fs := round_followers voters local rot in
   let '(n1, o1) := submitLocal n local p in
   let '(n2, queue) := submit_all n1 local p (firstn (N.to_nat (wq - 1)) fs) [(true, o1)] in
   round_loop (S (S (length voters)) + k) n2 local wq p queue (skipn (N.to_nat (wq - 1)) fs)
              false 0 ONotWritten false false).
Proof. exact runDurableRound_fuel_sufficient. Qed.
Print Assumptions c04_admitted_terminates.

(* the OWNER-LOCAL clauses of the monitor (c04_holds; the cluster-wide clause is treated below) accept
   every trace of the model: for every
   configuration and every schedule of installs, commits, restarts, outages, repairs and
   checkpoints, from the initial cluster *)
Theorem c04_model_satisfies_monitor : forall cfg ops,
  c04_holds (model_trace cfg (cluster_init cfg) ops) = true.
Proof. exact model_satisfies_c04. Qed.
Print Assumptions c04_model_satisfies_monitor.

(* ---- across nodes ------------------------------------------------------------------------------------------------

   The fencing state of quorum_log.go is per owner.  Across nodes an older authority is stopped only by what the
   newer one made durable: its barrier (written when the recovered log is non-empty) or its first business
   proposal.  Over an EMPTY log nothing is written at install time, and the full statement is false:
   known finding C04-K1. *)

(* c04_cross_node_empty_log_refuted: (1,1,1) installed on node 1, the newer (1,2,2) installed on node 2, both
   over an empty log; the deposed leader 1 then gets Receipt 1..1 under (1,1,1); the new leader's first
   proposal fails with ErrLogConflict.  The monitor classifies the model's own trace as C04-K1 (code 2).
   Same input: corpus/C04/cross_node_empty_log.json, replayed on the code every run. *)
Theorem c04_cross_node_empty_log_refuted :
  fst (run_model x_cfg (cluster_init x_cfg) x_ops) =
    [ RInstalled (1, 1, 1) 0 0; RInstalled (1, 2, 2) 0 0; RReceipt (1, 1, 1) (TUser 1) 1 1 1; RErr EConflict ] /\
  C04_monitor (model_case x_cfg x_ops) = 2.
Proof. exact cross_node_empty_log_receipt. Qed.
Print Assumptions c04_cross_node_empty_log_refuted.

(* c04_cross_node_blocked_partial — the positive statement, for every network and fault plan, both stores:
   a durability round (hence a NEW receipt, which is only issued after a successful round, see
   c03_commit_paths / c01_receipt_implies_quorum) is impossible once more than N - WriteQuorum voters hold, at
   the proposal's first index, an entry that is not the proposal's own first entry — in particular once the
   newer authority's barrier or first business proposal is quorum-durable at the deposed leader's next index.
   Explicit hypothesis (hence _partial): the foreign entries sit exactly at the proposal's first index; the
   case of a deposed frontier beyond the new leader's barrier needs log matching across replicas as well. *)
Theorem c04_cross_node_blocked_partial : forall n local voters wq rot p es F n' res,
  NoDup voters -> DeriveProposalEntries (dp_manifest p) (dp_records p) = Some es ->
  NoDup F -> incl F (local :: round_followers voters local rot) ->
  (forall f, In f F -> exists x, ent_at (net_rep n f) (m_base (dp_manifest p) + 1) = Some x /\ hd_error es <> Some x) ->
  (length (local :: round_followers voters local rot) < length F + N.to_nat wq)%nat ->
  runDurableRound n local voters wq rot p = (n', res) -> rr_ok res = false.
Proof. exact round_blocked_by_foreign_entries. Qed.
Print Assumptions c04_cross_node_blocked_partial.

(* the whole monitor (owner-local + cluster-wide clause) on the model's own observations, BOUNDED (finite domain,
   vm_compute), 3 voters, quorum 2, all 2801 schedules of at most 4 operations over {install (1,2,2) on node 2,
   two commands by the deposed leader 1, a command by node 2, restart of node 2, node 3 down / up}:
   after the bare initial install (empty log) the codes are 0 or the known-finding code 2, never 1;
   after one acknowledged proposal (non-empty log: the newer authority writes its barrier) always 0. *)
Theorem c04_cross_node_monitor_bounded :
  c04_codes_in [0; 2] [OInstall 1 (1, 1, 1) false 2 no_faults] 4 = true /\
  c04_codes_in [0] [OInstall 1 (1, 1, 1) false 2 no_faults;
                    OCommit 1 (1, 1, 1) (TUser 5) [Rec (TUser 5) 2 2 40 5 false 1] false no_faults] 4 = true.
Proof. exact (conj c04_bounded_empty_log c04_bounded_non_empty_log). Qed.
Print Assumptions c04_cross_node_monitor_bounded.

(* ---- non-vacuity -------------------------------------------------------------------------------- *)

Definition c04_demo_cfg : qconfig := QCfg SMem 3 2 2 3 65536 0.
Definition c04_demo_rec : record := Rec (TUser 7) 1 1 42 5 false 1.
Definition c04_demo_ops : list qop :=
  [ OInstall 1 (1, 1, 1) false 2 no_faults;
    OCommit 1 (1, 1, 1) (TUser 1) [c04_demo_rec] false no_faults;
    OInstall 1 (1, 2, 2) true 2 no_faults;                              (* higher, fenced *)
    OCommit 1 (1, 1, 1) (TUser 2) [c04_demo_rec] false no_faults;       (* deposed authority *)
    OInstall 1 (1, 1, 1) false 2 no_faults;                             (* older authority again *)
    OInstall 1 (1, 2, 3) false 2 no_faults;                             (* fence cleared by a newer one *)
    OCommit 1 (1, 2, 2) (TUser 3) [c04_demo_rec] false no_faults;
    OCommit 1 (1, 2, 3) (TUser 3) [c04_demo_rec] false no_faults ].

(* the model answers: installed, receipt 1..1, write fenced, not ready, stale meta,
   installed (barrier at 2), stale meta, receipt 3..3 *)
Example c04_demo_trace :
  map snd (model_trace c04_demo_cfg (cluster_init c04_demo_cfg) c04_demo_ops) =
  [ RInstalled (1, 1, 1) 0 0; RReceipt (1, 1, 1) (TUser 1) 1 1 1; RErr EFenced; RErr ENotReady; RErr EStale;
    RInstalled (1, 2, 3) 2 2; RErr EStale; RReceipt (1, 2, 3) (TUser 3) 3 3 3 ].
Proof. vm_compute. reflexivity. Qed.

(* the monitor is not trivially true: a receipt under the deposed authority after the higher
   install, or a successful install of the older authority, is flagged *)
Example c04_monitor_rejects_deposed_receipt :
  c04_holds [ (OInstall 1 (1, 1, 1) false 2 no_faults, RInstalled (1, 1, 1) 0 0);
              (OInstall 1 (1, 2, 2) false 2 no_faults, RInstalled (1, 2, 2) 0 0);
              (OCommit 1 (1, 1, 1) (TUser 1) [c04_demo_rec] false no_faults, RReceipt (1, 1, 1) (TUser 1) 1 1 1) ] = false
  /\
  c04_holds [ (OInstall 1 (1, 2, 2) false 2 no_faults, RInstalled (1, 2, 2) 0 0);
              (OInstall 1 (1, 1, 1) false 2 no_faults, RInstalled (1, 1, 1) 0 0) ] = false
  /\
  c04_holds [ (OInstall 1 (1, 1, 1) false 2 no_faults, RInstalled (1, 1, 1) 0 0);
              (OInstall 1 (1, 2, 2) true 2 no_faults, RErr EFenced);
              (OCommit 1 (1, 1, 1) (TUser 1) [c04_demo_rec] false no_faults, RReceipt (1, 1, 1) (TUser 1) 1 1 1) ] = false.
Proof. repeat split; vm_compute; reflexivity. Qed.
