(* C19 — The controller state file is replaced atomically.

   Only statements, each closed by [exact] of a lemma of Proof/StateFile*.v.
   Model/StateFile.v: a file system with crash semantics (durable directory + any prefix of the
   pending directory operations; unsynced inodes hold arbitrary bytes), [save_ops] = the step
   sequence of statefile.Store.Save, [Load] reads the main path (name 0) only;
   state.Encode / state.Decode over the transcribed cluster state with JSON ([parse], [render])
   and CRC-32C ([ck]) as parameters.  Trusted: POSIX (rename atomicity, fsync). *)
From WK Require Import Base.Base Gen.Consts_C18 Model.CtrlFSM Model.StateFile Model.StateFile_C19.
From WK Require Import Proof.StateFile Proof.StateFile_C19.
Open Scope N_scope.

(* a crash after ANY prefix of Save's steps, with ANY prefix of the pending directory operations on
   disk and ANY bytes in unsynced inodes: the main path reads exactly what it read before or exactly
   the new bytes, and is settled again (temp files never matter: Load reads name 0 only) *)
Theorem c19_old_or_new : forall s0 t data,
  settled s0 = true -> bounded s0 -> t <> 0 ->
  forall k j junk,
    let s := crash (run s0 (firstn k (save_ops t data))) j junk in
    (read s 0 = read s0 0 \/ read s 0 = Some data) /\ settled s = true.
Proof. exact old_or_new. Qed.
Print Assumptions c19_old_or_new.

(* any history of Save attempts each cut by a crash (completed or not): the main path holds the
   initial bytes or the complete bytes of one of the attempts — never a partial or mixed file *)
Theorem c19_history : forall junk l s0 n,
  settled s0 = true -> bounded s0 -> Forall (fun a => a_t a <> 0) l ->
  In (read (history s0 junk n l) 0) (read s0 0 :: map (fun a => Some (a_data a)) l)
  /\ settled (history s0 junk n l) = true.
Proof. exact history_reads. Qed.
Print Assumptions c19_history.

(* without a crash, readers see the old bytes until the rename and the new bytes from then on *)
Theorem c19_visible_switch : forall s0 t data,
  settled s0 = true -> bounded s0 -> t <> 0 ->
  forall k, read (run s0 (firstn k (save_ops t data))) 0 = if (k <? 5)%nat then read s0 0 else Some data.
Proof. exact visible_switch. Qed.
Print Assumptions c19_visible_switch.

(* the hook fails: the temp file is removed and the main path is untouched *)
Theorem c19_hook_failure_keeps_old : forall s0 t data,
  settled s0 = true -> bounded s0 -> t <> 0 ->
  read (run s0 (save_ops_hook_fails t data)) 0 = read s0 0
  /\ dir_get (f_dir (run s0 (save_ops_hook_fails t data))) t = None.
Proof. exact hook_failure_keeps_old. Qed.
Print Assumptions c19_hook_failure_keeps_old.

(* Decode accepts a file only if it parses to a document of the current schema whose non-empty
   checksum field equals the checksum of its own content and which validates; anything else —
   in particular a file whose content no longer matches its checksum — is rejected *)
Theorem c19_reject_corrupt : forall parse ck data s,
  Decode parse ck data = Some s ->
  exists st, parse data = Some st
             /\ s_schema st = CurrentSchemaVersion
             /\ s_checksum st <> [] /\ s_checksum st = ck st
             /\ s = set_checksum (Normalize st) (ck st) /\ Validate s = true.
Proof. exact decode_consistent. Qed.
Print Assumptions c19_reject_corrupt.

(* what Encode writes, Decode reads back (normalized, with its checksum) *)
Theorem c19_encode_decode : forall parse render ck,
  (forall s, parse (render s) = Some s) -> (forall s x, ck (set_checksum s x) = ck s) -> (forall s, ck s <> []) ->
  forall st data, Encode render ck st = Some data ->
  Decode parse ck data = Some (set_checksum (Normalize st) (ck (Normalize st))).
Proof. exact encode_decode. Qed.
Print Assumptions c19_encode_decode.

(* ---- the monitor on the model's runs ---- *)

Theorem c19_model_satisfies_monitor_crash : forall (code : option bytes -> Z) s0 t data,
  settled s0 = true -> bounded s0 -> t <> 0 ->
  forall k j junk,
    old_or_new_b (code (read s0 0)) (code (Some data))
                 (code (read (crash (run s0 (firstn k (save_ops t data))) j junk) 0)) = true.
Proof. exact crash_old_or_new_coded. Qed.
Print Assumptions c19_model_satisfies_monitor_crash.

Theorem c19_model_satisfies_monitor : forall v has_old, v < 4 ->
  let '(h, a, l) := model_hook v has_old in
  C19_monitor (HookCase v has_old h a v l) = 0 /\ C19_mismatch (HookCase v has_old h a v l) = false.
Proof. exact model_hook_ok. Qed.
Print Assumptions c19_model_satisfies_monitor.

(* every history the model can run — any sequence of Saves into one directory, each completed,
   killed inside the hook or failed by the hook, with temp names chosen fresh — satisfies the history
   clause: a Save that returned nil is what Load returns, an interrupted one leaves the previous or the
   new state *)
Theorem c19_model_satisfies_monitor_history : forall plan,
  C19_monitor (HistCase (model_hist (fs_start false) 0 plan)) = 0.
Proof. exact model_hist_monitor. Qed.
Print Assumptions c19_model_satisfies_monitor_history.

(* the kill clause of the monitor is "the last reported state or the next one" *)
Theorem c19_kill_clause : forall n done loaded, n <> 0 ->
  kill_ok n done loaded = true <->
  (loaded = Z.of_N (done mod n) \/ (done <> 0 /\ loaded = Z.of_N ((done - 1) mod n)) \/ (done = 0 /\ loaded = (-1)%Z)).
Proof. exact kill_ok_spec. Qed.
Print Assumptions c19_kill_clause.

(* non-vacuity: a settled, bounded file system with a previous file *)
Example c19_example : settled (fs_start true) = true /\ settled (fs_start false) = true
                      /\ read (run (fs_start true) (save_ops 1 [1])) 0 = Some [1].
Proof. repeat split; vm_compute; reflexivity. Qed.
