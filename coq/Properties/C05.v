(* C05 — An entry identity binds every field of its message.
   Only statements, each closed by [exact] of a lemma from Proof/Identity*.v.
   SHA-256 is an arbitrary function [H]; conclusions are "the fields are equal,
   or here is a collision of H" (resp. "or H maps some pre-image to the all-zero
   digest", which VerifyEntry treats as "no digest"). *)
From WK Require Import Base.Base Base.Bytes Gen.Consts_C05 Model.Identity Model.Identity_sha256 Model.C05Case.
From WK Require Import Proof.Identity Proof.Identity_seal.
Open Scope N_scope.

(* ---- the pre-image is injective in every semantic field ------------------------- *)

(* field domains = the Go types: u64 fields below 2^64, Setting a byte, timestamp
   an int64, CommandID / PreviousDigest 32 bytes, string/byte lengths below 2^64 *)
Theorem c05_preimage_inj : forall e r e' r',
  entry_in_domain e = true -> record_in_domain r = true ->
  entry_in_domain e' = true -> record_in_domain r' = true ->
  preimage e r = preimage e' r' ->
  content_eq e r e' r'.
  (* = index, authority (epoch, term, fence), command, predecessor (term, index,
     digest), id, setting, sync-once, timestamp, sender, client number, payload equal *)
Proof. exact preimage_inj. Qed.
Print Assumptions c05_preimage_inj.

(* changing any single semantic field (or several) changes the pre-image *)
Theorem c05_single_field : forall e r e' r',
  entry_in_domain e = true -> record_in_domain r = true ->
  entry_in_domain e' = true -> record_in_domain r' = true ->
  content_eqb e r e' r' = false -> preimage e r <> preimage e' r'.
Proof. exact field_change_changes_preimage. Qed.
Print Assumptions c05_single_field.

(* ... and nothing else enters the digest *)
Theorem c05_preimage_only_content : forall e r e' r',
  content_eq e r e' r' -> preimage e r = preimage e' r'.
Proof. exact content_eq_preimage. Qed.
Print Assumptions c05_preimage_only_content.

(* ---- the digest binds the content, up to collisions of H ---------------------------- *)

Theorem c05_digest_binds : forall (H : bytes -> bytes) e r e' r',
  entry_in_domain e = true -> record_in_domain r = true ->
  entry_in_domain e' = true -> record_in_domain r' = true ->
  digest_proposal_entry H e r = digest_proposal_entry H e' r' ->
  content_eq e r e' r' \/ collision H.
Proof. exact digest_binds. Qed.
Print Assumptions c05_digest_binds.

(* ---- verification accepts exactly the sealed content ---------------------------------- *)

Theorem c05_verify_iff_sealed : forall (H : bytes -> bytes) e r,
  verify_entry H e r = true <-> verify_guards e r = true /\ H (preimage e r) = e_digest e.
Proof. exact verify_entry_iff. Qed.
Print Assumptions c05_verify_iff_sealed.

(* two accepted pairs under the same identity digest have the same content *)
Theorem c05_verify_exact : forall (H : bytes -> bytes) e r e' r',
  entry_in_domain e = true -> record_in_domain r = true ->
  entry_in_domain e' = true -> record_in_domain r' = true ->
  verify_entry H e r = true -> verify_entry H e' r' = true -> e_digest e = e_digest e' ->
  content_eq e r e' r' \/ collision H.
Proof. exact verify_exact. Qed.
Print Assumptions c05_verify_exact.

(* every entry SealProposalManifest derives verifies against the record it was derived from *)
Theorem c05_sealed_entries_verify : forall (H : bytes -> bytes) m rs m' es,
  seal_proposal_manifest H m rs = Some (m', es) ->
  length es = length rs /\ (all_true (self_verify H es rs) \/ zero_image H).
Proof. exact sealed_entries_verify. Qed.
Print Assumptions c05_sealed_entries_verify.

(* the sealed entries are the chain the manifest describes (authority, command,
   contiguous indexes, each predecessor = the previous entry) and the sealed
   manifest is the input with the tail's digest *)
Theorem c05_sealed_chain : forall (H : bytes -> bytes) m rs m' es,
  seal_proposal_manifest H m rs = Some (m', es) ->
  chain_ok m (m_base m + 1) (m_prev_term m) (m_prev_index m) (m_prev_digest m) es = true
  /\ m_digest m' = last_digest es /\ manifest_with_digest m' (m_digest m) = m.
Proof. exact sealed_chain. Qed.
Print Assumptions c05_sealed_chain.

(* ---- the monitor evaluated on implementation traces is implied by the model ------------ *)

Theorem c05_model_satisfies_monitor : forall (H : bytes -> bytes),
  (forall p, length (H p) = 32%nat) ->
  forall m rs prs,
  manifest_in_domain m = true -> Forall (fun r => record_in_domain r = true) rs ->
  Forall pair_in_domain prs ->
  C05_monitor (model_case H m rs prs) = 0 \/ collision H \/ zero_image H.
Proof. exact model_satisfies_monitor. Qed.
Print Assumptions c05_model_satisfies_monitor.

(* ---- non-vacuity ------------------------------------------------------------------------------ *)

Definition ex_m : manifest :=
  Manifest 1 3 5 7 (1 :: repeat 0 31) 0 2 0 0 zero32 zero32.
Definition ex_rs : list record :=
  [Rec 11 1 3 1 (hx "7531") (hx "6331") 1001 true (hx "6f6e65");
   Rec 12 2 3 2 (hx "7532") (hx "6332") 1002 false (hx "74776f")].

(* the fixture of pkg/quorumlog/proposal_test.go seals, verifies, and the monitor accepts it *)
Example c05_example_seal :
  match seal_proposal_manifest sha256 ex_m ex_rs with
  | Some (m', es) => length es = 2%nat /\ self_verify sha256 es ex_rs = [true; true]
                     /\ structurally_valid m' = true
  | None => False
  end
  /\ C05_monitor (model_case sha256 ex_m ex_rs
                    [(Entry 1 3 5 7 1 0 0 (1 :: repeat 0 31) zero32 zero32, nth 1 ex_rs (Rec 0 0 0 0 [] [] 0 false []))]) = 0.
Proof. vm_compute. repeat split; reflexivity. Qed.

(* each of the fifteen semantic fields, changed alone, changes the pre-image *)
Example c05_example_each_field :
  let e := Entry 1 3 5 7 1 0 0 (1 :: repeat 0 31) zero32 zero32 in
  let r := Rec 11 1 3 1 (hx "7531") (hx "6331") 1001 true (hx "6f6e65") in
  forallb (fun er => negb (bytes_eqb (preimage e r) (preimage (fst er) (snd er))))
    [ (Entry 1 4 5 7 1 0 0 (1 :: repeat 0 31) zero32 zero32, r);
      (Entry 1 3 6 7 1 0 0 (1 :: repeat 0 31) zero32 zero32, r);
      (Entry 1 3 5 8 1 0 0 (1 :: repeat 0 31) zero32 zero32, r);
      (Entry 1 3 5 7 2 0 0 (1 :: repeat 0 31) zero32 zero32, r);
      (Entry 1 3 5 7 1 1 0 (1 :: repeat 0 31) zero32 zero32, r);
      (Entry 1 3 5 7 1 0 1 (1 :: repeat 0 31) zero32 zero32, r);
      (Entry 1 3 5 7 1 0 0 (2 :: repeat 0 31) zero32 zero32, r);
      (Entry 1 3 5 7 1 0 0 (1 :: repeat 0 31) (repeat 0 31 ++ [1]) zero32, r);
      (e, Rec 12 1 3 1 (hx "7531") (hx "6331") 1001 true (hx "6f6e65"));
      (e, Rec 11 1 3 2 (hx "7531") (hx "6331") 1001 true (hx "6f6e65"));
      (e, Rec 11 1 3 1 (hx "753163") (hx "31") 1001 true (hx "6f6e65"));
      (e, Rec 11 1 3 1 (hx "7531") (hx "63316f") 1001 true (hx "6e65"));
      (e, Rec 11 1 3 1 (hx "7531") (hx "6331") 1002 true (hx "6f6e65"));
      (e, Rec 11 1 3 1 (hx "7531") (hx "6331") 1001 false (hx "6f6e65"));
      (e, Rec 11 1 3 1 (hx "7531") (hx "6331") 1001 true (hx "6f6e66")) ] = true.
Proof. vm_compute. reflexivity. Qed.
