(* C27 — Internal cluster codecs round-trip and reject garbage.
   Only statements; each is closed by [exact] of a lemma of Proof/ClusterCodec*.v.

   Reading guide.  [fmt A] is the description language of Model/ClusterCodecBase.v;
   [decode f], [encode f], [wf f] (the encoder's domain, a boolean) and
   [allocs f] (the allocation requests a decoder issues) are its ONE
   interpreter.  Part 1 states the combinator lemmas once, for every format.
   Parts 2-5 instantiate them for the Go codecs (the functions named as in the
   code).  Part 6 ties the monitor run on implementation traces to the
   theorems.  Part 7 is the refuted clause (known finding C27-K1). *)
From WK Require Import Base.Base Base.Bytes Gen.Consts_C27.
From WK Require Import Model.ClusterCodecBase Model.ClusterCodec_Replication Model.ClusterCodec_Propose
  Model.ClusterCodec_Channels Model.ClusterCodec_SlotFSM Model.ClusterCodec_C27.
From WK Require Import Proof.ClusterCodecBase Proof.ClusterCodec_Replication Proof.ClusterCodec_Propose
  Proof.ClusterCodec_Channels Proof.ClusterCodec_SlotFSM Proof.ClusterCodec_C27.
Open Scope N_scope.

(* ================= 1. the combinators, for every format ================================= *)

(* round trip, with any bytes after the encoding left untouched *)
Theorem c27_combinator_roundtrip : forall A (f : fmt A) v rest,
  wf f v = true -> decode f (encode f v ++ rest) = Some (v, rest).
Proof. exact decode_encode. Qed.
Print Assumptions c27_combinator_roundtrip.

(* a successful parse does not depend on what follows the bytes it consumed *)
Theorem c27_combinator_stable : forall A (f : fmt A) a v r b,
  decode f a = Some (v, r) -> decode f (a ++ b) = Some (v, r ++ b).
Proof. exact decode_stable. Qed.
Print Assumptions c27_combinator_stable.

(* every strict prefix of an encoding is rejected by the whole-input decoder *)
Theorem c27_combinator_truncation_rejected : forall A (f : fmt A) v p s,
  wf f v = true -> encode f v = p ++ s -> s <> [] -> decode_full f p = None.
Proof. exact truncation_rejected. Qed.
Print Assumptions c27_combinator_truncation_rejected.

(* ... and so is an encoding followed by anything *)
Theorem c27_combinator_trailing_rejected : forall A (f : fmt A) v s,
  wf f v = true -> s <> [] -> decode_full f (encode f v ++ s) = None.
Proof. exact trailing_rejected. Qed.
Print Assumptions c27_combinator_trailing_rejected.

(* allocation is bounded BEFORE it happens, on every input: a slice whose declared count
   is checked against a constant has at most [c] elements ([r] = false: no other kind of
   count occurs), one checked against the remaining input at most that many, a byte
   copy is never longer than the input *)
Theorem c27_combinator_alloc_bounded : forall A (f : fmt A) r c bs,
  capped r c f -> Forall (alloc_ok r c (blen bs)) (allocs f bs).
Proof. exact allocs_bounded. Qed.
Print Assumptions c27_combinator_alloc_bounded.

(* the declared count of a list is checked before [make] *)
Theorem c27_count_checked_first : forall ck max a n r,
  p_count ck max a = Some (Some n, r) ->
  (ck_rem ck = false -> n <= max) /\ (ck_rem ck = true -> n <= blen r).
Proof. exact p_count_bounded. Qed.
Print Assumptions c27_count_checked_first.

(* encoding/binary.PutUvarint / Uvarint *)
Theorem c27_uvarint_roundtrip : forall x rest,
  x < 18446744073709551616 -> p_uvarint (put_uvarint x ++ rest) = Some (x, rest).
Proof. exact p_uvarint_put. Qed.
Print Assumptions c27_uvarint_roundtrip.

(* the equality the case comparison uses is sound *)
Theorem c27_veqb_sound : forall A (f : fmt A) x y, veqb f x y = true -> x = y.
Proof. exact veqb_sound. Qed.
Print Assumptions c27_veqb_sound.

(* ================= 2. pkg/channel/replication/codec.go ===================================== *)

Theorem c27_replication_result_roundtrip : forall b e,
  wf exchangeBatchResult b = true ->
  EncodeExchangeBatchResult b = Some e -> DecodeExchangeBatchResult e = Some b.
Proof. exact result_roundtrip. Qed.
Print Assumptions c27_replication_result_roundtrip.

Theorem c27_replication_result_truncation_rejected : forall b e p s,
  wf exchangeBatchResult b = true -> EncodeExchangeBatchResult b = Some e ->
  e = p ++ s -> s <> [] -> DecodeExchangeBatchResult p = None.
Proof. exact result_truncation_rejected. Qed.
Print Assumptions c27_replication_result_truncation_rejected.

Theorem c27_replication_result_trailing_rejected : forall b e s,
  wf exchangeBatchResult b = true -> EncodeExchangeBatchResult b = Some e -> s <> [] ->
  DecodeExchangeBatchResult (e ++ s) = None.
Proof. exact result_trailing_rejected. Qed.
Print Assumptions c27_replication_result_trailing_rejected.

(* any input whatever: slices of at most 256 elements, byte copies no longer than the input *)
Theorem c27_replication_result_alloc_bounded : forall data,
  Forall (alloc_ok false 256 (blen data)) (allocs exchangeBatchResult data).
Proof. exact result_alloc_bounded. Qed.
Print Assumptions c27_replication_result_alloc_bounded.

(* request frames; [valid i item] stands for request.Valid() of the item at position i *)
Theorem c27_replication_batch_roundtrip : forall valid b e,
  wf (exchangeBatch valid) b = true ->
  EncodeExchangeBatch valid b = Some e -> DecodeExchangeBatch valid e = Some b.
Proof. exact batch_roundtrip. Qed.
Print Assumptions c27_replication_batch_roundtrip.

Theorem c27_replication_batch_truncation_rejected : forall valid b e p s,
  wf (exchangeBatch valid) b = true -> EncodeExchangeBatch valid b = Some e ->
  e = p ++ s -> s <> [] -> DecodeExchangeBatch valid p = None.
Proof. exact batch_truncation_rejected. Qed.
Print Assumptions c27_replication_batch_truncation_rejected.

Theorem c27_replication_batch_trailing_rejected : forall valid b e s,
  wf (exchangeBatch valid) b = true -> EncodeExchangeBatch valid b = Some e -> s <> [] ->
  DecodeExchangeBatch valid (e ++ s) = None.
Proof. exact batch_trailing_rejected. Qed.
Print Assumptions c27_replication_batch_trailing_rejected.

Theorem c27_replication_batch_alloc_bounded : forall valid data,
  Forall (alloc_ok false 256 (blen data)) (allocs (exchangeBatch valid) data).
Proof. exact batch_alloc_bounded. Qed.
Print Assumptions c27_replication_batch_alloc_bounded.

(* Whatever the decoders accept — from ANY byte string — is within the declared bounds:
   at most 256 items, at most 256 entries / proposals / records / indexes per slice,
   versions within uint16, sizes within int, request ids non-zero, Valid() at every position
   (the accept set is inside the encoder's domain) *)
Theorem c27_replication_result_decoded_in_bounds : forall data b,
  all_bytes data = true -> DecodeExchangeBatchResult data = Some b -> wf exchangeBatchResult b = true.
Proof. exact result_decoded_in_bounds. Qed.
Print Assumptions c27_replication_result_decoded_in_bounds.

Theorem c27_replication_batch_decoded_in_bounds : forall valid data b,
  all_bytes data = true -> DecodeExchangeBatch valid data = Some b -> wf (exchangeBatch valid) b = true.
Proof. exact batch_decoded_in_bounds. Qed.
Print Assumptions c27_replication_batch_decoded_in_bounds.

(* the same for every format whose counts are checked against constants *)
Theorem c27_combinator_decoded_in_domain : forall A (f : fmt A) a v r,
  wfmt f -> all_bytes a = true -> decode f a = Some (v, r) -> wf f v = true /\ all_bytes r = true.
Proof. exact decode_wf. Qed.
Print Assumptions c27_combinator_decoded_in_domain.

(* whatever is decoded has the only version, a valid priority and 1..256 items *)
Theorem c27_replication_batch_decoded_bounds : forall valid data b,
  DecodeExchangeBatch valid data = Some b ->
  eb_version b = ExchangeVersion /\ priority_valid (eb_priority b) = true
  /\ 1 <= blen (eb_items b) <= MaxExchangeBatchItems.
Proof. exact batch_decoded_bounds. Qed.
Print Assumptions c27_replication_batch_decoded_bounds.

(* ================= 3. pkg/cluster/propose/codec.go, pkg/cluster/net/codec.go ================ *)

Theorem c27_propose_payload_roundtrip : forall slot cmd,
  slot < 65536 -> DecodePayload (EncodePayload slot cmd) = Some (slot, cmd).
Proof. exact payload_roundtrip. Qed.
Print Assumptions c27_propose_payload_roundtrip.

Theorem c27_propose_payload_short_rejected : forall p, (length p < 3)%nat -> DecodePayload p = None.
Proof. exact payload_short_rejected. Qed.
Print Assumptions c27_propose_payload_short_rejected.

(* The envelope has no length field: a prefix of at least 3 bytes IS the envelope of a
   shorter command.  The truncation clause of C27 can only be asked of the header. *)
Theorem c27_propose_payload_prefix_is_envelope : forall slot cmd k,
  slot < 65536 -> (k <= length cmd)%nat ->
  firstn (3 + k) (EncodePayload slot cmd) = EncodePayload slot (firstn k cmd).
Proof. exact payload_prefix. Qed.
Print Assumptions c27_propose_payload_prefix_is_envelope.

Theorem c27_propose_forward_roundtrip : forall r,
  forward_wf r = true ->
  exists e, EncodeForwardRequest r = Some e /\ DecodeForwardRequest e = Some r.
Proof. exact forward_roundtrip. Qed.
Print Assumptions c27_propose_forward_roundtrip.

Theorem c27_propose_forward_truncation_rejected : forall r e p s,
  forward_wf r = true -> EncodeForwardRequest r = Some e ->
  e = p ++ s -> s <> [] -> DecodeForwardRequest p = None.
Proof. exact forward_truncation_rejected. Qed.
Print Assumptions c27_propose_forward_truncation_rejected.

Theorem c27_net_header_roundtrip : forall version kind payload,
  CheckHeader (PutHeader [] version kind ++ payload) version kind = Some payload.
Proof. exact header_roundtrip. Qed.
Print Assumptions c27_net_header_roundtrip.

Theorem c27_net_header_short_rejected : forall p v k, (length p < 2)%nat -> CheckHeader p v k = None.
Proof. exact header_short_rejected. Qed.
Print Assumptions c27_net_header_short_rejected.

Theorem c27_net_header_mismatch_rejected : forall v k v' k' payload,
  (v =? v') && (k =? k') = false -> CheckHeader (PutHeader [] v k ++ payload) v' k' = None.
Proof. exact header_mismatch_rejected. Qed.
Print Assumptions c27_net_header_mismatch_rejected.

(* ================= 4. pkg/cluster/channels/codec.go ========================================== *)

(* for EVERY frame format (f_pull, f_append_batch, f_pull_response, ... are instances) *)
Theorem c27_channels_frame_roundtrip : forall A (f : fmt (N * A)) vx e,
  wf f vx = true -> encode_frame f vx = Some e -> decode_frame f e = Some vx.
Proof. exact frame_roundtrip. Qed.
Print Assumptions c27_channels_frame_roundtrip.

Theorem c27_channels_frame_truncation_rejected : forall A (f : fmt (N * A)) vx e p s,
  wf f vx = true -> encode_frame f vx = Some e -> e = p ++ s -> s <> [] -> decode_frame f p = None.
Proof. exact frame_truncation_rejected. Qed.
Print Assumptions c27_channels_frame_truncation_rejected.

Theorem c27_channels_frame_trailing_rejected : forall A (f : fmt (N * A)) vx e s,
  wf f vx = true -> encode_frame f vx = Some e -> s <> [] -> decode_frame f (e ++ s) = None.
Proof. exact frame_trailing_rejected. Qed.
Print Assumptions c27_channels_frame_trailing_rejected.

(* every count of the fourteen modelled frames is checked against the remaining input ... *)
Theorem c27_channels_frames_count_checked :
  capped true 0 f_pull /\ capped true 0 f_pull_batch /\ capped true 0 f_ack /\ capped true 0 f_pull_hint
  /\ capped true 0 f_pull_hint_batch /\ capped true 0 f_notify /\ capped true 0 f_append
  /\ capped true 0 f_append_batch /\ capped true 0 f_last_visible /\ capped true 0 f_conversation_heads
  /\ capped true 0 f_committed_reads /\ capped true 0 f_pull_response /\ capped true 0 f_append_response
  /\ capped true 0 f_last_visible_response.
Proof.
  exact (conj f_pull_capped (conj f_pull_batch_capped (conj f_ack_capped (conj f_pull_hint_capped
        (conj f_pull_hint_batch_capped (conj f_notify_capped (conj f_append_capped (conj f_append_batch_capped
        (conj f_last_visible_capped (conj f_conversation_heads_capped (conj f_committed_reads_capped
        (conj f_pull_response_capped (conj f_append_response_capped f_last_visible_response_capped))))))))))))).
Qed.
Print Assumptions c27_channels_frames_count_checked.

(* ... hence on any input no make([]T, n) has n above the input length *)
Theorem c27_channels_alloc_bounded : forall A (f : fmt A) data,
  capped true 0 f ->
  Forall (fun a => match a with AList n => n <= blen data | ABytes n => n <= blen data end) (allocs f data).
Proof. exact channels_alloc_bounded. Qed.
Print Assumptions c27_channels_alloc_bounded.

Theorem c27_channels_version_refused : forall A (f : fmt (N * A)) vx,
  version_writable (fst vx) = false -> encode_frame f vx = None.
Proof. exact frame_version_refused. Qed.
Print Assumptions c27_channels_version_refused.

(* ================= 5. pkg/slot/fsm/command.go ================================================== *)

Theorem c27_fsm_command_roundtrip : forall c e,
  command_wf c = true -> encodeCommand c = Some e -> decodeCommand e = Some c.
Proof. exact command_roundtrip. Qed.
Print Assumptions c27_fsm_command_roundtrip.

(* A modelled command is decoded only from "header + whole fields": bytes ending inside a
   field are rejected.  (A frame cut AT a field boundary is again a frame — absent fields
   keep their zero value, by the format's design — see c27_fsm_prefix_at_boundary.) *)
Theorem c27_fsm_decoded_is_complete : forall data c,
  decodeCommand data = Some c -> (forall t, c <> CmdOther t) -> tlv_complete data = true.
Proof. exact decoded_is_complete. Qed.
Print Assumptions c27_fsm_decoded_is_complete.

Theorem c27_fsm_prefix_at_boundary : forall u,
  str_ok (u_uid u) = true ->
  decodeCommand ([commandVersion; cmdTypeUpsertUser] ++ enc_fields [(tagUserUID, u_uid u)])
  = Some (CmdUpsertUser (User (u_uid u) [] 0 0)).
Proof. exact user_prefix_at_boundary. Qed.
Print Assumptions c27_fsm_prefix_at_boundary.

Theorem c27_fsm_unknown_type_rejected : forall v t body,
  existsb (N.eqb t) commandTypes = false -> decodeCommand (v :: t :: body) = None.
Proof. exact unknown_type_rejected. Qed.
Print Assumptions c27_fsm_unknown_type_rejected.

(* ================= 6. the monitor accepts every trace of the model ============================== *)

(* value mode: the model's own encoding, decode, accepted prefixes; no allocation *)
Theorem c27_model_satisfies_monitor : forall b e,
  wf exchangeBatchResult b = true -> EncodeExchangeBatchResult b = Some e ->
  C27_monitor (C27Case 0 e true (PReplResult (Some b) (DecodeExchangeBatchResult e)) false
                       (model_trunc_ok DecodeExchangeBatchResult e) 0 0 0) = 0.
Proof. exact result_model_satisfies_monitor. Qed.
Print Assumptions c27_model_satisfies_monitor.

(* truncation mode *)
Theorem c27_model_prefix_satisfies_monitor : forall b e p s,
  wf exchangeBatchResult b = true -> EncodeExchangeBatchResult b = Some e -> e = p ++ s -> s <> [] ->
  C27_monitor (C27Case 1 p true (PReplResult None (DecodeExchangeBatchResult p)) false [] 0 0 0) = 0.
Proof. exact result_prefix_satisfies_monitor. Qed.
Print Assumptions c27_model_prefix_satisfies_monitor.

(* mutated / arbitrary bytes *)
Theorem c27_model_bytes_satisfy_monitor : forall mode data,
  2 <= mode -> all_bytes data = true ->
  C27_monitor (C27Case mode data true (PReplResult None (DecodeExchangeBatchResult data)) false [] 0 0 0) = 0.
Proof. exact result_bytes_satisfy_monitor. Qed.
Print Assumptions c27_model_bytes_satisfy_monitor.

Theorem c27_model_satisfies_monitor_batch : forall bits b e,
  wf (exchangeBatch (valid_of bits)) b = true -> EncodeExchangeBatch (valid_of bits) b = Some e ->
  C27_monitor (C27Case 0 e true (PReplBatch bits (Some b) (DecodeExchangeBatch (valid_of bits) e)) false
                       (model_trunc_ok (DecodeExchangeBatch (valid_of bits)) e) 0 0 0) = 0.
Proof. exact batch_model_satisfies_monitor. Qed.
Print Assumptions c27_model_satisfies_monitor_batch.

Theorem c27_model_satisfies_monitor_forward : forall r e,
  forward_wf r = true -> EncodeForwardRequest r = Some e ->
  C27_monitor (C27Case 0 e true (PForward (Some r) (DecodeForwardRequest e)) false
                       (model_trunc_ok DecodeForwardRequest e) 0 0 0) = 0.
Proof. exact forward_model_satisfies_monitor. Qed.
Print Assumptions c27_model_satisfies_monitor_forward.

Theorem c27_model_satisfies_monitor_channels : forall vx e,
  wf f_append_batch vx = true -> encode_frame f_append_batch vx = Some e ->
  C27_monitor (C27Case 0 e true (PChAppendBatch (Some vx) (decode_frame f_append_batch e)) false
                       (model_trunc_ok (decode_frame f_append_batch) e) 0 0 0) = 0.
Proof. exact append_batch_model_satisfies_monitor. Qed.
Print Assumptions c27_model_satisfies_monitor_channels.

Theorem c27_model_satisfies_monitor_fsm : forall c e,
  command_wf c = true -> encodeCommand c = Some e ->
  C27_monitor (C27Case 0 e true (PFsm (Some c) (decodeCommand e)) false
                       (model_trunc_ok (fun p => match decodeCommand p with
                                                  | Some (CmdOther _) => None | r => r end) e) 0 0 0) = 0.
Proof. exact fsm_model_satisfies_monitor. Qed.
Print Assumptions c27_model_satisfies_monitor_fsm.

(* ================= 7. refuted: the channels codec drops struct fields (C27-K1) =================== *)

(* FULL STATEMENT (false of the faithful model and of the code):
     forall vx e, fields of vx in range -> encode_frame f_append_batch vx = Some e ->
                  decode_frame f_append_batch e = Some vx.
   appendMessage does not write Message.SyncOnce (nor appendRecord Record.SyncOnce, nor
   appendMeta Meta.RouteGeneration): *)
Theorem c27_channels_sync_once_not_encoded : forall ver m,
  encode (readMessage ver) m =
  encode (readMessage ver)
         (CMessage (cm_id m) (cm_seq m) (cm_channel_id m) (cm_channel_type m) (cm_setting m) (cm_from_uid m)
                   (cm_client_msg_no m) (cm_ts m) (cm_trace_id m) (cm_channel_key m) false (cm_payload m)).
Proof. exact message_sync_once_not_encoded. Qed.
Print Assumptions c27_channels_sync_once_not_encoded.

Theorem c27_channels_decoded_sync_once_false : forall ver data m r,
  decode (readMessage ver) data = Some (m, r) -> cm_sync_once m = false.
Proof. exact message_decoded_sync_once_false. Qed.
Print Assumptions c27_channels_decoded_sync_once_false.

(* the witness (corpus/C27/k1_append_batch_synconce.json; reproduced on the code):
   a forwarded append batch with one sync-once message decodes to the same batch
   WITHOUT the flag *)
Theorem c27_channels_roundtrip_refuted :
  exists e, encode_frame f_append_batch (k1_request true) = Some e
            /\ decode_frame f_append_batch e = Some (k1_request false)
            /\ k1_request false <> k1_request true.
Proof. exact append_batch_sync_once_lost. Qed.
Print Assumptions c27_channels_roundtrip_refuted.

(* and the monitor gives that trace the finding's code, not 0 and not 1 *)
Theorem c27_k1_witness_has_code_2 :
  exists e, encode_frame f_append_batch (k1_request true) = Some e /\
    C27_monitor (C27Case 0 e true (PChAppendBatch (Some (k1_request true)) (decode_frame f_append_batch e)) false
                         [] 0 0 0) = 2.
Proof. exact k1_witness_has_code_2. Qed.
Print Assumptions c27_k1_witness_has_code_2.

(* ================= non-vacuity ======================================================================= *)

(* a two-item result frame is in the domain and is encoded *)
Example c27_example_result : wf exchangeBatchResult ex_result = true
                             /\ exists e, EncodeExchangeBatchResult ex_result = Some e.
Proof. split; [exact ex_result_wf|exact ex_result_encodes]. Qed.

(* Go's Uvarint accepts a non-minimal encoding, rejects the 11th byte and a 10th byte above 1 *)
Example c27_example_uvarint :
  p_uvarint (hx "8000") = Some (0, []) /\ p_uvarint (hx "ffffffffffffffffff01") = Some (18446744073709551615, [])
  /\ p_uvarint (hx "ffffffffffffffffff02") = None /\ p_uvarint (hx "8080808080808080808000") = None
  /\ p_uvarint (hx "80") = None.
Proof. repeat split; vm_compute; reflexivity. Qed.

(* a declared count above the bound is rejected before anything is allocated *)
Example c27_example_count_rejected :
  DecodeExchangeBatchResult (hx "038102") = None /\ allocs exchangeBatchResult (hx "038102") = [].
Proof. split; vm_compute; reflexivity. Qed.

(* a legacy forward frame *)
Example c27_example_forward_legacy :
  DecodeForwardRequest (hx "01000000070009000000026869")
  = Some (ForwardRequest 7 9 ProposalClassForeground false (hx "6869")).
Proof. vm_compute. reflexivity. Qed.

(* an upsert-user command, whole and cut inside its second field *)
Example c27_example_fsm :
  decodeCommand (hx "010101000000027531020000000174") = Some (CmdUpsertUser (User (hx "7531") (hx "74") 0 0))
  /\ decodeCommand (hx "0101010000000275310200000001") = None
  /\ decodeCommand (hx "01010100000002753102000000") = None.
Proof. repeat split; vm_compute; reflexivity. Qed.
