(* C11 — placeholder while the harness/model tie is being brought up. *)
From WK Require Import Base.Base Gen.Consts_C11 Model.Backup Model.Backup_C11.
Open Scope N_scope.
Example c11_placeholder : get_uvarint (put_uvarint 300) = Some (300, []).
Proof. vm_compute. reflexivity. Qed.
