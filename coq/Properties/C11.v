(* C11 — Backup and restore reproduce committed data exactly.
   Only statements, each closed by [exact] of a lemma from Proof/Backup*.v.

   Model/Backup.v: the two portable streams (WKMB message snapshots of pkg/db/message, WKDB
   hash-slot snapshots of pkg/db/meta) with their framing concrete, and the streaming
   importers ImportBackupSnapshotReader / importHashSlotSnapshotReader check by check.
   The checksum [ck] is an arbitrary function (conclusions mention an explicit collision
   where one is needed); the row / proposal / identity decoders of the message domain and
   validateBackupProposalSystemEntries are arbitrary tables [orc]. *)
From WK Require Import Base.Base Base.Bytes Gen.Consts_C11 Model.Crc32 Model.Backup Model.Backup_C11.
From WK Require Import Proof.Backup Proof.Backup_import Proof.Backup_roundtrip Proof.Backup_findings Proof.Backup_monitor.
Open Scope N_scope.

(* ---- framing: what is written is what is read ------------------------------------------------ *)

Theorem c11_uvarint_roundtrip : forall x rest, x < 2 ^ 64 -> get_uvarint (put_uvarint x ++ rest) = Some (x, rest).
Proof. exact uvarint_roundtrip. Qed.
Print Assumptions c11_uvarint_roundtrip.

(* a message snapshot (any number of channel sections, system entries, rows) decodes to itself *)
Theorem c11_msg_stream_roundtrip : forall s,
  rs_hash_slot s < 2 ^ 16 -> N.of_nat (length (rs_chans s)) < 2 ^ 32 -> Forall chan_wf (rs_chans s) ->
  dec_msg_payload (enc_msg_payload s) = Some (s, []).
Proof. exact msg_payload_roundtrip. Qed.
Print Assumptions c11_msg_stream_roundtrip.

Theorem c11_meta_stream_roundtrip : forall s,
  rm_slots s <> [] -> N.of_nat (length (rm_slots s)) < 2 ^ 16 -> Forall (fun x => x < 2 ^ 16) (rm_slots s) ->
  rm_count s = N.of_nat (length (rm_entries s)) -> rm_count s <= 9223372036854775807 ->
  Forall entry_wf (rm_entries s) ->
  dec_meta_payload (enc_meta_payload s) = Some (s, []).
Proof. exact meta_payload_roundtrip. Qed.
Print Assumptions c11_meta_stream_roundtrip.

(* ---- restore yields exactly the exported sections ------------------------------------------- *)

(* ImportBackupSnapshotReader, not cancelled, into a store that holds none of the channels:
   success means that the store now holds, for every section of the stream, exactly that
   section (catalog identity, checkpoint, system entries = proposal / identity / idempotency
   state, rows), and that no other channel changed *)
Theorem c11_restore_exact : forall ck orc stream tgt tgt' st,
  (forall key, absent key tgt) ->
  import_reader ck None orc stream tgt = (tgt', Ok st) ->
  exists p s, verify_checksum ck stream = Ok p /\ dec_msg_payload p = Some (s, [])
              /\ (forall c, In c (rs_chans s) -> find_dump (rc_key c) tgt' = restored c)
              /\ (forall key, (forall c, In c (rs_chans s) -> rc_key c <> key) -> find_dump key tgt' = find_dump key tgt).
Proof. exact restore_exact. Qed.
Print Assumptions c11_restore_exact.

(* an exported section holds no row above the committed cut *)
Theorem c11_nothing_above_cut : forall vt d c s,
  export_chan vt d c = Ok s -> Forall (fun r => rr_seq r <= cu_hw c) (rc_rows s).
Proof. exact exported_rows_within_cut. Qed.
Print Assumptions c11_nothing_above_cut.

(* FULL STATEMENT (the restored log ends at the cut): for every source store, cut and restore,
   LEO(restored channel) = hw.  It is FALSE of the faithful model and of the code (known finding
   C11-K1): the retention row is shipped verbatim and its RetainedMaxSeq may lie above the cut. *)
Theorem c11_restored_leo_refuted :
  exists s, export_chan k1_vt k1_src k1_cut = Ok s
            /\ In (se_key k1_retention, se_val k1_retention) (rc_sys s)
            /\ Forall (fun r => rr_seq r <= cu_hw k1_cut) (rc_rows s)
            /\ cu_hw k1_cut < dump_leo (rc_rows s) 3.
Proof. exact k1_restored_leo_above_cut_refuted. Qed.
Print Assumptions c11_restored_leo_refuted.

(* ---- rejected rather than partially applied --------------------------------------------------- *)

(* what the streaming importer accepts is sealed and completely framed *)
Theorem c11_accepts_only_framed : forall ck c orc stream tgt tgt' st,
  import_reader ck c orc stream tgt = (tgt', Ok st) ->
  exists p s, verify_checksum ck stream = Ok p /\ dec_msg_payload p = Some (s, []).
Proof. exact import_accepts_framed. Qed.
Print Assumptions c11_accepts_only_framed.

(* all-or-nothing: without cancellation, on a store that holds none of the channels, the importer
   either rejects and returns the store untouched, or installs the whole stream *)
Theorem c11_reject_all_or_nothing : forall ck orc stream tgt tgt' r,
  (forall key, absent key tgt) ->
  import_reader ck None orc stream tgt = (tgt', r) ->
  (exists e, r = Err e /\ tgt' = tgt) \/ (exists st, r = Ok st).
Proof. exact import_all_or_nothing. Qed.
Print Assumptions c11_reject_all_or_nothing.

(* EVERY truncation of an accepted stream is rejected — by the framing alone, whatever the
   checksum function, the tables, the context and the target are — and the target is untouched *)
Theorem c11_truncation_rejected : forall ck c orc stream tgt tgt' st n,
  import_reader ck c orc stream tgt = (tgt', Ok st) -> (n < length stream)%nat ->
  forall c2 orc2 tgt2, exists e, import_reader ck c2 orc2 (firstn n stream) tgt2 = (tgt2, Err e).
Proof. exact truncation_rejected. Qed.
Print Assumptions c11_truncation_rejected.

(* corruption of the payload under an unchanged trailer: same payload, or an explicit collision *)
Theorem c11_payload_corruption_detected : forall ck s1 s2 p1 p2,
  verify_checksum ck s1 = Ok p1 -> verify_checksum ck s2 = Ok p2 ->
  skipn (length s1 - 4) s1 = skipn (length s2 - 4) s2 ->
  p1 = p2 \/ ck_collision ck.
Proof. exact same_trailer_same_payload. Qed.
Print Assumptions c11_payload_corruption_detected.

(* corruption of the trailer: rejected *)
Theorem c11_trailer_corruption_rejected : forall ck p t t',
  verify_checksum ck (p ++ t) = Ok p -> length t = 4%nat -> length t' = 4%nat ->
  all_bytes t = true -> all_bytes t' = true -> t' <> t ->
  verify_checksum ck (p ++ t') = Err EChecksum.
Proof. exact trailer_change_rejected. Qed.
Print Assumptions c11_trailer_corruption_rejected.

(* metadata: accepted streams are sealed, framed, addressed to the request, and every key lies
   in the requested hash slots (a wrong hash slot is a rejection) *)
Theorem c11_meta_accepts_only_framed : forall ck c req preserve invalidate stream db db' cnt,
  import_meta ck c req preserve invalidate stream db = (db', Ok cnt) ->
  exists p s, verify_meta_checksum ck stream = Ok p /\ dec_meta_payload p = Some (s, [])
              /\ rm_slots s = normalize_slots req
              /\ forallb (fun e => in_slots (normalize_slots req) (fst e)) (rm_entries s) = true.
Proof. exact import_meta_accepts_framed. Qed.
Print Assumptions c11_meta_accepts_only_framed.

(* metadata, without token invalidation: a rejection (anything but a cancelled context) returns
   the store untouched — checksum, framing, slot list, foreign keys are all found before the
   delete batch *)
Theorem c11_meta_reject_untouched : forall ck c req preserve stream db db' e,
  import_meta ck c req preserve false stream db = (db', Err e) -> e <> EOther -> db' = db.
Proof. exact import_meta_rejected_untouched. Qed.
Print Assumptions c11_meta_reject_untouched.

(* FULL STATEMENT for the restore flavour (token invalidation on): FALSE of the faithful model
   and of the code (known finding C11-K4) — values are decoded after the delete batch *)
Theorem c11_meta_invalidate_partial_refuted :
  exists db', import_meta crc None [7] true true k4_stream [k4_old] = (db', Err ECorruptValue)
              /\ db' <> [k4_old] /\ in_slots [7] (fst k4_bad) = true.
Proof. exact k4_invalidate_partial_refuted. Qed.
Print Assumptions c11_meta_invalidate_partial_refuted.

Theorem c11_meta_truncation_rejected : forall ck c req preserve invalidate stream db db' cnt n,
  import_meta ck c req preserve invalidate stream db = (db', Ok cnt) -> (n < length stream)%nat ->
  forall c2 req2 pr2 inv2 db2, exists e, import_meta ck c2 req2 pr2 inv2 (firstn n stream) db2 = (db2, Err e).
Proof. exact meta_truncation_rejected. Qed.
Print Assumptions c11_meta_truncation_rejected.

(* ---- the rejection clauses of the case monitor are these theorems ---------------------------- *)
(* on what the model answers (checksum = CRC-32, any stream, any tables, no cancellation) the
   monitor's "rejected => untouched" clauses hold: message importer on an empty store; metadata
   importer without token invalidation on any store *)
Theorem c11_model_satisfies_monitor :
  (forall orc stream tgt' e,
     import_reader crc None orc stream [] = (tgt', Err e) ->
     mstep_monitor (MImport true [] stream orc None (Err e) tgt') = 0)
  /\ (forall mode req stream before db' e, mode <= 2 ->
        import_meta crc None req (1 <=? mode) false stream before = (db', Err e) ->
        xstep_monitor (XImport mode before req stream None (Err e) db') = 0).
Proof. exact model_satisfies_monitor. Qed.
Print Assumptions c11_model_satisfies_monitor.

(* ---- non-vacuity ------------------------------------------------------------------------------- *)
Example c11_example_uvarint : put_uvarint 300 = [172; 2] /\ get_uvarint [172; 2; 9] = Some (300, [9])
                              /\ get_uvarint [128; 0] = Some (0, []).     (* not canonical, still read *)
Proof. vm_compute. repeat split; reflexivity. Qed.

(* an empty snapshot of hash slot 5: export, import into an empty store, export again *)
Example c11_example_empty_roundtrip :
  export_msg crc [] [] 5 [] = Ok (hx "574b4d42000100050000000033e8c812")
  /\ import_reader crc None [] (hx "574b4d42000100050000000033e8c812") [] = ([], Ok (ST 5 0 0 0))
  /\ import_reader crc None [] (hx "574b4d42000100050000000033e8c8") [] = ([], Err ECorruptValue)
  /\ import_reader crc None [] (hx "574b4d42000100050000000033e8c813") [] = ([], Err EChecksum).
Proof. vm_compute. repeat split; reflexivity. Qed.

(* the metadata importer installs a one-entry stream and rejects a key of another hash slot *)
Example c11_example_meta :
  import_meta crc None [7] false false (seal crc (enc_meta_payload (RM [7] 1 [k4_bad]))) [] = ([k4_bad], Ok 1)
  /\ import_meta crc None [8] false false (seal crc (enc_meta_payload (RM [8] 1 [k4_bad]))) [k4_old] = ([k4_old], Err EInvalid).
Proof. vm_compute. repeat split; reflexivity. Qed.
