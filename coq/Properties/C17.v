(* Properties/C17.v — C17: channel migration cutover is fenced and irreversible.

   Model: Model/ChanMigration.v (task rows, the twelve migration commands of
   pkg/db/meta/compat.go applied through the ApplyBatch of pkg/slot/fsm: staging, commit
   with overlay maps, stale fallback), runtime-meta rows from Model/RuntimeMeta.v.
   Monitor: Model/ChanMigration_C17.v.  Every theorem is closed under the global context. *)
From WK Require Import Base.Base.
From WK Require Import Gen.Consts_C15 Gen.Consts_C17 Model.RuntimeMeta Model.ChanMigration Model.ChanMigration_C17.
From WK Require Import Proof.RuntimeMeta Proof.ChanMigration Proof.ChanMigration_cmds Proof.ChanMigration_inv
                       Proof.ChanMigration_step Proof.ChanMigration_meta Proof.ChanMigration_trace
                       Proof.ChanMigration_monitor Proof.ChanMigration_link Proof.ChanMigration_temporal
                       Proof.ChanMigration_case Proof.ChanMigration_witness.
Open Scope N_scope.

(* ---- 1. a cutover commits only with a matching drain proof ---------------------------------------

   Whenever the commit of a batch (any batch, any position) accepts a
   CommitChannelLeaderTransfer or PromoteLearnerAndRemoveReplica, the task row [t] and the
   runtime-meta row [m] it loaded satisfy [cutover_proof_matches]: the drain proof stored in
   the task is complete, DrainedFenceVersion = m.WriteFenceVersion = the expected version <> 0,
   DrainedChannelEpoch / DrainedLeaderEpoch / DrainedLeaderNode are m's current channel epoch,
   leader epoch and leader, the fence token is the task id (task and meta agree on token and
   version), NowMS <= m.WriteFenceUntilMS, and both optimistic guards match. *)
Theorem c17_commit_needs_proof :
  forall d cs c h cs',
    is_cutover c = true -> cmd_trans c = Some h ->
    stageChannelMigrationTaskAndMeta d cs c = Ok cs' ->
    exists t m,
      loadChannelMigrationTask d cs (tguard_key (tr_guard h)) = Some t
      /\ loadRuntimeMeta d cs (rguard_chan (tr_rguard h)) = Some m
      /\ cutover_proof_matches t m h (cutover_now c) = true.
Proof. exact stage_cutover_needs_proof. Qed.
Print Assumptions c17_commit_needs_proof.

(* ---- 2. at most one active task per channel ---------------------------------------------------------

   [db_inv d]: task rows have distinct keys and every active task is the one the active index of
   its channel points at.  It holds of the empty database, every one-command ApplyBatch
   preserves it (whatever the command and its outcome), and under it two active tasks of one
   channel are the same row.  (Multi-command batches: see c17_batch_double_active_refuted.) *)
Theorem c17_single_active_step :
  forall d c d' r, db_inv d -> apply_one d c = (d', r) -> db_inv d'.
Proof. exact apply_one_inv. Qed.
Print Assumptions c17_single_active_step.

Theorem c17_single_active :
  forall cs t1 t2,
    let d := run_singles db_empty cs in
    In t1 (db_tasks d) -> In t2 (db_tasks d) ->
    isActive t1 = true -> isActive t2 = true -> task_chan t1 = task_chan t2 ->
    t1 = t2 /\ active_get d (task_chan t1) = Some (t_task_id t1).
Proof. exact run_singles_single_active. Qed.
Print Assumptions c17_single_active.

(* ---- 3. a committed or promoted task can no longer be aborted (per command) ------------------------

   An Abort applied to a task that is terminal or whose phase is VerifyNewLeader,
   VerifyMembership or ClearFence is rejected: the mutator returns ErrConflict, so the stage
   function returns a stale-class error and writes nothing. *)
Theorem c17_abort_rejected_post_commit :
  forall d cs h completed last_error t,
    loadChannelMigrationTask d cs (tguard_key (tr_guard h)) = Some t ->
    isTerminal t || post_commit_phase (t_phase t) = true ->
    exists e, stageChannelMigrationTaskAndMeta d cs (CAbort h completed last_error) = Err e
              /\ isStaleMetaCommitError e = true.
Proof. exact stage_abort_rejected_post_commit. Qed.
Print Assumptions c17_abort_rejected_post_commit.

(* ---- 4. no command overwrites or clears another task's fence ----------------------------------------

   A guarded task+meta command applied to task [t] and meta row [m] either leaves the four
   write-fence fields alone, or the fence was free or held by t's id before AND is free or held
   by t's id afterwards.  (Normalisation and the route-generation bump of the stage function do
   not touch the fence fields: fence_stored.) *)
Theorem c17_fence_ownership :
  forall c t m t' m',
    mutate_task_meta c t m = Ok (t', m') ->
    fence_eqb m m' = true
    \/ (fence_free_or m (t_task_id t) /\ fence_free_or m' (t_task_id t)).
Proof. exact mutate_fence_ownership. Qed.
Print Assumptions c17_fence_ownership.

Theorem c17_fence_untouched_by_normalisation :
  forall ex m, fence_eqb m (bumpRuntimeRoute ex (normalizeChannelRuntimeMeta m) true) = true.
Proof. exact fence_stored. Qed.
Print Assumptions c17_fence_untouched_by_normalisation.

(* ---- 5. every accepted step leaves the channel metadata valid ----------------------------------------

   Whatever stageChannelMigrationTaskAndMeta writes passed validateChannelRuntimeMeta (and the
   task row validateChannelMigrationTask); a row that passes it has, after normalisation, a
   non-empty replica set, 1 <= MinISR <= |replicas|, ISR within replicas, and a leader that is
   0 or a member of both. *)
Theorem c17_meta_valid :
  forall d cs c cs',
    stageChannelMigrationTaskAndMeta d cs c = Ok cs' ->
    cs' = cs
    \/ exists h t m, cmd_trans c = Some h
         /\ loadChannelMigrationTask d cs' (tguard_key (tr_guard h)) = Some t
         /\ loadRuntimeMeta d cs' (rguard_chan (tr_rguard h)) = Some m
         /\ validateChannelMigrationTask t = true /\ validateChannelRuntimeMeta m = true
         /\ meta_get (cs_pend cs') (rguard_chan (tr_rguard h)) = Some m.
Proof. exact stage_writes_valid. Qed.
Print Assumptions c17_meta_valid.

Theorem c17_valid_meta_meaning :
  forall m, validateChannelRuntimeMeta m = true -> meta_wellformed (normalizeChannelRuntimeMeta m).
Proof. exact validate_meaning. Qed.
Print Assumptions c17_valid_meta_meaning.

(* MinISR stays satisfiable: a task+meta command applied to a stored (normalized) row keeps MinISR and
   never shrinks the ISR; the stage function stores normalizeUint64Set of the mutator's ISR. *)
Theorem c17_isr_not_shrunk :
  forall c t m t' m',
    ssorted (rm_isr m) ->
    mutate_task_meta c t m = Ok (t', m') ->
    rm_min_isr m' = rm_min_isr m
    /\ (length (rm_isr m) <= length (normalizeUint64Set (rm_isr m')))%nat.
Proof. exact mutate_isr. Qed.
Print Assumptions c17_isr_not_shrunk.

Theorem c17_stored_isr :
  forall ex nm,
    rm_isr (bumpRuntimeRoute ex (normalizeChannelRuntimeMeta nm) true) = normalizeUint64Set (rm_isr nm)
    /\ rm_min_isr (bumpRuntimeRoute ex (normalizeChannelRuntimeMeta nm) true) = rm_min_isr nm.
Proof. exact stored_isr. Qed.
Print Assumptions c17_stored_isr.

(* ---- 6. terminal tasks are immutable by the task+meta commands ----------------------------------------- *)
Theorem c17_terminal_immutable_by_meta_cmds :
  forall d cs c cs' h t,
    cmd_trans c = Some h ->
    loadChannelMigrationTask d cs (tguard_key (tr_guard h)) = Some t ->
    isTerminal t = true ->
    stageChannelMigrationTaskAndMeta d cs c = Ok cs' ->
    loadChannelMigrationTask d cs' (tguard_key (tr_guard h)) = Some t.
Proof. exact stage_terminal_immutable. Qed.
Print Assumptions c17_terminal_immutable_by_meta_cmds.

(* ---- the temporal reading, under executor discipline -------------------------------------------------------

   FULL STATEMENT (false, see section 7): in every history, once a task is committed / promoted no
   AbortChannelMigration on it is accepted later.
   PARTIAL: it holds for histories of one-command batches that respect executor discipline
   ([history_disciplined]: no ResetChannelWriteFenceToPreCutover on, and no phase / embedded-flag
   change by Claim/Advance of, a task that is in a post-commit phase — what the migration executor
   does): once the cutover of a task is done ([cutover_locked]: phase VerifyNewLeader /
   VerifyMembership / ClearFence, not the embedded leader-transfer leg of a replica replacement)
   it stays done for as long as the row exists and no abort on it is accepted. *)
Theorem c17_cutover_locked_step :
  forall d c k t,
    db_inv d -> disciplined d c ->
    task_get (db_tasks d) k = Some t -> cutover_locked t = true ->
    match task_get (db_tasks (fst (apply_one d c))) k with
    | None => True
    | Some t' => cutover_locked t' = true
    end.
Proof. exact locked_step. Qed.
Print Assumptions c17_cutover_locked_step.

Theorem c17_no_abort_after_commit_partial :
  forall cs d k t,
    db_inv d -> history_disciplined d cs ->
    task_get (db_tasks d) k = Some t -> cutover_locked t = true ->
    no_abort_while_present d k cs.
Proof. exact no_abort_after_commit. Qed.
Print Assumptions c17_no_abort_after_commit_partial.

(* ---- the monitor is the predicate of these theorems ----------------------------------------------------------

   [model_trace chs db_empty cs]: what the harness would print if the implementation were the model
   (one-command batches cs, channel alphabet chs).  On every such trace the monitor returns 0, 2 (K1)
   or 3 (K2): never 1, never 4; it returns 0 when the history is disciplined.  Hence
   (c17_case_link) on a case file of one-command batches with C17_mismatch = false the verdict is 0, 2
   or 3: a code 1 (or 4) there means the implementation left the model. *)
Theorem c17_model_satisfies_monitor :
  forall chs cs, Forall (covers chs) cs -> good (C17_monitor_on (model_trace chs db_empty cs)).
Proof. exact model_satisfies_monitor. Qed.
Print Assumptions c17_model_satisfies_monitor.

Theorem c17_model_satisfies_monitor_disciplined :
  forall chs cs,
    Forall (covers chs) cs -> history_disciplined db_empty cs ->
    C17_monitor_on (model_trace chs db_empty cs) = 0.
Proof. exact model_satisfies_monitor_disciplined. Qed.
Print Assumptions c17_model_satisfies_monitor_disciplined.

Theorem c17_model_trace_agrees :
  forall chs cs d, run_mismatch d (model_trace chs d cs) = false.
Proof. exact model_trace_no_mismatch. Qed.
Print Assumptions c17_model_trace_agrees.

Theorem c17_case_link :
  forall chs c,
    case_shape chs (c_steps c) -> Forall (covers chs) (map cmd_of (c_steps c)) ->
    C17_mismatch c = false -> good (C17_monitor c).
Proof. exact case_link. Qed.
Print Assumptions c17_case_link.

(* ---- 7. the temporal reading is FALSE of the code: three refutations (known findings) -----------------

   K1: histories of one-command batches in which CommitChannelLeaderTransfer is accepted, a
   generic AdvanceChannelMigrationTask (or Claim) then moves the task back to a pre-commit phase
   and AbortChannelMigration is accepted.  K2: same with ResetChannelWriteFenceToPreCutover on an
   expired fence.  K3: one two-command batch after which a channel has two active tasks.
   Each witness is corpus/C17/k*.json; the model reproduces every row the real code showed. *)
Theorem c17_rewind_abort_refuted :
  exists bs, all_single bs = true /\ abort_after_cutover db_empty [] bs = true.
Proof. exact rewind_abort_refuted. Qed.
Print Assumptions c17_rewind_abort_refuted.

Theorem c17_rewind_abort_monitor_code :
  C17_mismatch k1_advance_rewind_abort_case = false /\ C17_monitor k1_advance_rewind_abort_case = 2
  /\ C17_mismatch k1_claim_rewind_abort_case = false /\ C17_monitor k1_claim_rewind_abort_case = 2.
Proof. exact rewind_abort_monitor_code. Qed.
Print Assumptions c17_rewind_abort_monitor_code.

Theorem c17_reset_rewind_abort_refuted :
  C17_mismatch k2_reset_rewind_abort_case = false
  /\ all_single (batches_of k2_reset_rewind_abort_case) = true
  /\ abort_after_cutover db_empty [] (batches_of k2_reset_rewind_abort_case) = true
  /\ C17_monitor k2_reset_rewind_abort_case = 3.
Proof. exact c17_reset_rewind_abort_refuted_witness. Qed.
Print Assumptions c17_reset_rewind_abort_refuted.

Theorem c17_batch_double_active_refuted :
  C17_mismatch k3_batch_double_active_case = false
  /\ double_active (run_batches db_empty (removelast (batches_of k3_batch_double_active_case))) = false
  /\ double_active (run_batches db_empty (batches_of k3_batch_double_active_case)) = true
  /\ C17_monitor k3_batch_double_active_case = 4.
Proof. exact c17_batch_double_active_refuted_witness. Qed.
Print Assumptions c17_batch_double_active_refuted.

(* ---- non-vacuity ------------------------------------------------------------------------------------------ *)

(* a replica replacement whose embedded leader-transfer leg commits, ends with ClearFence ->
   AddLearner, and is then aborted: accepted by the code and NOT a violation *)
Example c17_embedded_leg_then_abort_is_fine :
  C17_mismatch r03_embedded_leg_then_abort_case = false /\ C17_monitor r03_embedded_leg_then_abort_case = 0.
Proof. exact c17_embedded_leg_then_abort_ok. Qed.
Print Assumptions c17_embedded_leg_then_abort_is_fine.

(* executor-like walks (corpus/C17/r01, r02, r04): the model reproduces them and the monitor is silent;
   in r01 a CommitChannelLeaderTransfer is accepted and the AbortChannelMigration after it is rejected *)
Example c17_happy_paths_ok :
  C17_mismatch r01_leader_transfer_happy_case = false /\ C17_monitor r01_leader_transfer_happy_case = 0
  /\ C17_mismatch r02_replica_replace_happy_case = false /\ C17_monitor r02_replica_replace_happy_case = 0
  /\ C17_mismatch r04_stale_proofs_rejected_case = false /\ C17_monitor r04_stale_proofs_rejected_case = 0.
Proof. exact happy_paths_ok. Qed.
Print Assumptions c17_happy_paths_ok.

Example c17_happy_path_commits_and_rejects_abort :
  existsb (fun s => match s with
                    | ([CCommit _ _ _ _ _], Full o) => bres_eqb (o_res o) (BResults [0])
                    | _ => false end) (c_raw_steps r01_leader_transfer_happy_case) = true
  /\ existsb (fun s => match s with
                       | ([CAbort _ _ _], Same r) => bres_eqb r (BResults [1])
                       | _ => false end) (c_raw_steps r01_leader_transfer_happy_case) = true.
Proof. exact happy_path_commits_and_rejects_abort. Qed.
Print Assumptions c17_happy_path_commits_and_rejects_abort.
