(* Properties/C17.v — placeholder while the proofs are being written. *)
From WK Require Import Base.Base Model.RuntimeMeta Model.ChanMigration Model.ChanMigration_C17.
Theorem c17_placeholder : C17_monitor (C17Case []) = 0.
Proof. reflexivity. Qed.
Print Assumptions c17_placeholder.
