(* C34 — Conversation unread counts and visibility are exact.
   Only statements, each closed by [exact] of a lemma from Proof/Conversation.v.

   Vocabulary (Model/Conversation.v): [mrow] = the user's membership row,
   [head] = the committed channel head the hydrator returned,
   [conversationFromMembership] = the row+head -> list item computation of
   List/Retry, [List]/[Retry] = what the two read paths report for the row,
   [ClearUnread]/[SetUnread]/[DeleteConversation] = the commands composed with
   the pkg/db/meta membership mutations they issue.  All sequence numbers are
   arbitrary naturals (no bound); [N.sub] is truncated subtraction.
     spec_floor row hd          = max (join-1, deletedTo, retention)
     spec_effective_read row hd = max (spec_floor, readSeq, ownLastSend)
     committed_after er last    = #{ s | 1 <= s <= last /\ er < s }           *)
From WK Require Import Base.Base Gen.Consts_C34 Model.Conversation Proof.Conversation.
Open Scope N_scope.

(* maxMembershipFloor (variadic) is the maximum of its arguments *)
Theorem c34_max_floor_is_max : forall l,
  (forall v, In v l -> v <= maxMembershipFloor l) /\ (l <> [] -> In (maxMembershipFloor l) l).
Proof. intro l. split; [exact (mmf_upper l)|exact (mmf_attained l)]. Qed.
Print Assumptions c34_max_floor_is_max.

(* the visibility floor and effective read point of the code are the spec's *)
Theorem c34_read_point : forall row hd,
  visibilityFloor row hd = spec_floor row hd
  /\ maxMembershipFloor [visibilityFloor row hd; r_read row; h_own hd] = spec_effective_read row hd.
Proof. intros row hd. split; [exact (floor_spec row hd)|exact (eread_spec row hd)]. Qed.
Print Assumptions c34_read_point.

(* unread = last - effective read (truncated at 0) = the number of committed
   messages after the effective read point *)
Theorem c34_unread_formula : forall row hd c, conversationFromMembership row hd = Some c ->
  c_unread c = h_last hd - spec_effective_read row hd
  /\ c_unread c = committed_after (spec_effective_read row hd) (h_last hd).
Proof. exact unread_formula. Qed.
Print Assumptions c34_unread_formula.

(* never "negative": no wrap-around, the count is at most the head *)
Theorem c34_nonneg_le_last : forall row hd c, conversationFromMembership row hd = Some c ->
  c_unread c <= h_last hd.
Proof. exact unread_le_last. Qed.
Print Assumptions c34_nonneg_le_last.

(* a last message is shown only if it is the head's message, lies above the
   visibility floor: at/after the join point, after the delete-to boundary and
   after the retention boundary — and a post-join, post-delete message exists *)
Theorem c34_last_visible : forall row hd c s,
  conversationFromMembership row hd = Some c -> c_last c = Some s ->
  h_msg hd = Some s /\ spec_floor row hd < s
  /\ r_join row <= s /\ r_deleted row < s /\ h_ret hd < s
  /\ r_join row <= h_last hd /\ r_deleted row < h_last hd.
Proof. exact last_visible. Qed.
Print Assumptions c34_last_visible.

(* a row is omitted exactly when nothing is visible and it was never activated *)
Theorem c34_hidden_when_nothing_visible : forall row hd,
  conversationFromMembership row hd = None <->
  visibleMessage row hd = false /\ (r_activated row <= 0)%Z.
Proof. exact cfm_none. Qed.
Print Assumptions c34_hidden_when_nothing_visible.

(* List and Retry only ever show items for live rows, computed by the above *)
Theorem c34_listing_sound : forall st hd c,
  List st hd = LItem c \/ Retry st hd = LItem c ->
  exists row, st = Some row /\ r_tomb row = false /\ conversationFromMembership row hd = Some c.
Proof. exact list_item. Qed.
Print Assumptions c34_listing_sound.

(* SetUnread's target read cursor *)
Theorem c34_set_target : forall row hd n,
  setUnreadTarget row hd n = N.max (spec_floor row hd) (h_last hd - n).
Proof. exact set_target_spec. Qed.
Print Assumptions c34_set_target.

(* after an accepted ClearUnread, the listing under the same head reports 0 *)
Theorem c34_clear_zero : forall st hd now c,
  res_err (ClearUnread st hd now) = 0 ->
  List (res_st (ClearUnread st hd now)) hd = LItem c \/ Retry (res_st (ClearUnread st hd now)) hd = LItem c ->
  c_unread c = 0.
Proof. exact clear_zero. Qed.
Print Assumptions c34_clear_zero.

(* after an accepted SetUnread n, the listing under the same head reports at most n *)
Theorem c34_set_at_most_n : forall st hd now n c,
  res_err (SetUnread st hd now n) = 0 ->
  List (res_st (SetUnread st hd now n)) hd = LItem c \/ Retry (res_st (SetUnread st hd now n)) hd = LItem c ->
  (0 <= n)%Z /\ (Z.of_N (c_unread c) <= n)%Z.
Proof. exact set_at_most. Qed.
Print Assumptions c34_set_at_most_n.

(* after an accepted DeleteConversation nothing is listed under the same head *)
Theorem c34_delete_hides : forall st hd now,
  res_err (DeleteConversation st hd now) = 0 ->
  List (res_st (DeleteConversation st hd now)) hd = LNone
  /\ Retry (res_st (DeleteConversation st hd now)) hd = LNone.
Proof. exact delete_hides. Qed.
Print Assumptions c34_delete_hides.

(* along ANY history of clear / set / delete / activate / observe ops with
   arbitrary heads and clocks, the read cursor and the delete-to boundary never
   move backwards, the join point and liveness are untouched, no row appears *)
Theorem c34_cursors_monotone : forall ops row,
  exists row', final (Some row) ops = Some row'
    /\ r_read row <= r_read row' /\ r_deleted row <= r_deleted row'
    /\ r_join row' = r_join row /\ r_tomb row' = r_tomb row.
Proof. exact history_monotone_prop. Qed.
Print Assumptions c34_cursors_monotone.

Theorem c34_no_row_created : forall ops, final None ops = None.
Proof. exact history_no_row. Qed.
Print Assumptions c34_no_row_created.

(* the monitor evaluated on implementation traces accepts every trace the model
   can produce: any initial row (or none), any history *)
Theorem c34_model_satisfies_monitor : forall st ops,
  C34_monitor (C34Case st (combine ops (run st ops))) = 0.
Proof. exact model_satisfies_monitor. Qed.
Print Assumptions c34_model_satisfies_monitor.

Theorem c34_model_no_mismatch : forall st ops,
  C34_mismatch (C34Case st (combine ops (run st ops))) = false.
Proof. exact model_no_mismatch. Qed.
Print Assumptions c34_model_no_mismatch.

(* ---- non-vacuity ------------------------------------------------------------------ *)

(* joined at 5, read 6, deleted to 3, head 10 with retention 4, own last send 8:
   effective read 8, two unread, message 10 shown *)
Example c34_ex_item :
  conversationFromMembership (MRow 5 6 3 0%Z false 0%Z) (Head 1 10 4 8 (Some 10))
  = Some (Conv 5 0%Z 6 3 0%Z (Some 10) 2).
Proof. vm_compute. reflexivity. Qed.

(* joined at 12 > head 10, never activated: omitted; activated: shown empty, unread 0 *)
Example c34_ex_hidden :
  conversationFromMembership (MRow 12 0 0 0%Z false 0%Z) (Head 1 10 0 0 (Some 10)) = None
  /\ conversationFromMembership (MRow 12 0 0 7%Z false 0%Z) (Head 1 10 0 0 (Some 10))
     = Some (Conv 12 7%Z 0 0 0%Z None 0).
Proof. vm_compute. split; reflexivity. Qed.

(* a history: set-unread 2, clear, delete — on a row with 9 unread *)
Example c34_ex_history :
  let hd := Head 1 10 0 0 (Some 10) in
  map (fun b => (b_err b, b_call b, unread_of (b_retry b)))
      (run (Some (MRow 1 1 0 0%Z false 0%Z))
           [Op OObserve 1%Z hd; Op (OSet 2%Z) 2%Z hd; Op OClear 3%Z hd; Op ODelete 4%Z hd])
  = [(0, CNone, Some 9); (0, CAdvance 8 2%Z, Some 2); (0, CAdvance 10 3%Z, Some 0); (0, CHide 10 4%Z, None)].
Proof. vm_compute. reflexivity. Qed.

(* values at the top of the uint64 range *)
Example c34_ex_edge :
  conversationFromMembership (MRow 0 0 0 0%Z false 0%Z)
    (Head 1 18446744073709551615 0 0 (Some 18446744073709551615))
  = Some (Conv 0 0%Z 0 0 0%Z (Some 18446744073709551615) 18446744073709551615).
Proof. vm_compute. reflexivity. Qed.
