(* C18 — The controller state machine applies a committed command log deterministically.

   Only statements, each closed by [exact] of a lemma of Proof/CtrlFSM_*.v.
   Objects (Model/CtrlFSM.v, Model/CtrlFSM_C18.v):
     applyMutation            the transcribed fsm.applyMutation with all 15 command kinds
     ApplyBatch / apply_parts  the transcribed frame of fsm.ApplyBatch, generic in the mutation function
     ck                        state.Checksum: ANY function of the state that ignores the checksum field
     S_ref ck log k / R_ref ck log k   published state after / result of entry k when the log is
                               applied one entry per ApplyBatch on a fresh machine
     monitor_gen               the predicate the harness evaluates on the implementation's observations
   Logs are lists of entries with STRICTLY INCREASING Raft indices (as Raft delivers them);
   [c18_nonincreasing_log_differs] shows the hypothesis is needed. *)
From WK Require Import Base.Base Gen.Consts_C18 Model.CtrlFSM Model.CtrlFSM_C18.
From WK Require Import Proof.CtrlFSM_norm Proof.CtrlFSM_getset Proof.CtrlFSM_handlers Proof.CtrlFSM_frame Proof.CtrlFSM_C18.
From Coq Require Import Sorting.Sorted.
Open Scope N_scope.

(* ---- the handler contract, proved for the transcribed applyMutation (all kinds) ---------- *)

(* Good: passes Validate, is normalized, revision below 2^64 (and therefore <> 0) *)
Theorem c18_good_is_valid : forall s, Good s -> Validate s = true /\ Normalize s = s /\ s_rev s <> 0.
Proof. exact Good_unfold. Qed.
Print Assumptions c18_good_is_valid.

(* on a Good state every command is exactly one of: Noop/Rejected with the state untouched;
   Changed with revision + 1; Updated with the same revision and the same logical state —
   and the resulting state is Good again (validated or rolled back) *)
Theorem c18_handler_contract_post : forall s i t c,
    Good s ->
    let s' := fst (applyMutation s i t c) in
    let r := snd (applyMutation s i t c) in
    Good s' /\ s_applied s' = s_applied s
    /\ (((r_class r = cNoop \/ r_class r = cRejected) /\ s' = s)
        \/ (r_class r = cChanged /\ s_rev s' = s_rev s + 1)
        \/ (r_class r = cUpdated /\ s_rev s' = s_rev s /\ logical_eq s' s = true)).
Proof. exact H_HC_post. Qed.
Print Assumptions c18_handler_contract_post.

(* before init: nothing changes unless an init installs a validated state with revision 1 *)
Theorem c18_handler_contract_pre : forall i t c,
    let s' := fst (applyMutation empty_state i t c) in
    let r := snd (applyMutation empty_state i t c) in
    (s_rev s' = 0 -> s' = empty_state /\ (r_class r = cNoop \/ r_class r = cRejected))
    /\ (s_rev s' <> 0 -> r_class r = cChanged /\ s_rev s' = 1 /\ s_applied s' <= i /\ Good s').
Proof. exact H_HC_pre. Qed.
Print Assumptions c18_handler_contract_pre.

(* no handler looks at the checksum field (inside a batch it is the stale one) *)
Theorem c18_handler_contract_blind : forall s1 s2 i t c,
    set_checksum s1 [] = set_checksum s2 [] ->
    set_checksum (fst (applyMutation s1 i t c)) [] = set_checksum (fst (applyMutation s2 i t c)) []
    /\ snd (applyMutation s1 i t c) = snd (applyMutation s2 i t c).
Proof. exact applyMutation_blind. Qed.
Print Assumptions c18_handler_contract_blind.

(* ---- batch-partition invariance ------------------------------------------------------------ *)

(* any partition of the log into ApplyBatch calls ends in the same machine (published state,
   persisted state, degraded flag) and yields the same per-entry results as one entry at a time *)
Theorem c18_partition_invariant : forall ck, (forall s x, ck (set_checksum s x) = ck s) ->
  forall log, StronglySorted N.lt (map e_idx log) ->
  forall parts, concat parts = log ->
  c_parts ck parts = c_parts ck (map (fun e => [e]) log).
Proof. exact model_partition. Qed.
Print Assumptions c18_partition_invariant.

(* ---- replay after restart ---------------------------------------------------------------------- *)

(* restart from the persisted state after h entries (revision <> 0); re-applying any entries among
   the first h returns already_applied no-ops, publishes and persists the same state *)
Theorem c18_replay_noop : forall ck, (forall s x, ck (set_checksum s x) = ck s) ->
  forall log, StronglySorted N.lt (map e_idx log) ->
  forall h c cnt, (h <= length log)%nat -> (c + cnt <= h)%nat -> s_rev (S_ref ck log h) <> 0 ->
  ApplyBatch s_rev s_applied set_applied set_checksum applyMutation ck (restart empty_state (M_ref ck log h)) 0
             (map (entry_at log) (seq c cnt))
  = (M_ref ck log h,
     BO (repeat (Rs cNoop ReasonAlreadyApplied (s_rev (S_ref ck log h)) (s_applied (S_ref ck log h)) [] 0) cnt)
        false (Some (S_ref ck log h)) (Some (S_ref ck log h))).
Proof. exact model_replay_noop. Qed.
Print Assumptions c18_replay_noop.

(* before init nothing was persisted; re-applying gives the same results and persists nothing *)
Theorem c18_replay_preinit : forall ck, (forall s x, ck (set_checksum s x) = ck s) ->
  forall log, StronglySorted N.lt (map e_idx log) ->
  forall h c cnt, (h <= length log)%nat -> (c + cnt <= h)%nat -> s_rev (S_ref ck log h) = 0 ->
  ApplyBatch s_rev s_applied set_applied set_checksum applyMutation ck (restart empty_state (M_ref ck log h)) 0
             (map (entry_at log) (seq c cnt))
  = (M_ref ck log h, BO (map (R_ref ck log) (seq c cnt)) false (Some empty_state) None).
Proof. exact model_replay_preinit. Qed.
Print Assumptions c18_replay_preinit.

(* ---- per-entry clauses on the reference run ------------------------------------------------------ *)

(* for every entry k of the log applied one at a time (pre = state before, post = state after, r = result):
   the result is exactly one of the four classes; Changed raises the revision by exactly one;
   Updated keeps the revision and the logical state; Noop and Rejected leave the state untouched
   (but for applied index and checksum); while the revision is 0 the state is ClusterState{} and
   nothing was persisted; every persisted / published state passes Validate, carries its own
   checksum, and its applied index is the entry's Raft index *)
Theorem c18_step_contract : forall ck, (forall s x, ck (set_checksum s x) = ck s) ->
  forall log, StronglySorted N.lt (map e_idx log) -> forall k, (k < length log)%nat ->
  let pre := S_ref ck log k in let post := S_ref ck log (S k) in let r := R_ref ck log k in
  (r_class r = cChanged \/ r_class r = cUpdated \/ r_class r = cNoop \/ r_class r = cRejected)
  /\ (r_class r = cChanged -> s_rev post = s_rev pre + 1)
  /\ (r_class r = cUpdated -> s_rev post = s_rev pre /\ logical_eq post pre = true)
  /\ (r_class r = cNoop \/ r_class r = cRejected -> body_eq post pre = true)
  /\ (s_rev post = 0 -> post = empty_state)
  /\ (s_rev post <> 0 -> Validate post = true /\ ckokS ck post = true /\ r_rev r = s_rev post
                          /\ s_applied post = fst (fst (entry_at log k)) /\ r_applied r = s_applied post).
Proof. exact model_step_contract. Qed.
Print Assumptions c18_step_contract.

(* ---- the monitor ------------------------------------------------------------------------------------ *)

(* For every log and every list of well-formed scenarios (any batch partition, failed Saves of
   both kinds each followed by a restart, restarts replaying from any acknowledged position) the
   model's observations satisfy the predicate C18_monitor evaluates on the implementation:
   every published and persisted state of every scenario is the reference state of the log prefix
   it contains, every result is the reference result or an already_applied no-op, and the
   reference run satisfies the per-entry clauses above.  [c_wf] is [scen_wf] of Proof/CtrlFSM_frame.v. *)
Theorem c18_model_satisfies_monitor : forall ck, (forall s x, ck (set_checksum s x) = ck s) ->
  forall log, StronglySorted N.lt (map e_idx log) ->
  forall scens, Forall (c_wf ck log) scens ->
  monitor_gen s_rev s_applied Validate (ckokS ck) CState_eqb body_eq logical_eq empty_state
              (map e_idx log) (c_run ck log (repeat (CBatch 1 0) (length log))) (map (c_run ck log) scens) = true.
Proof. exact model_monitor. Qed.
Print Assumptions c18_model_satisfies_monitor.

(* C18_monitor is that predicate on the implementation's observations *)
Theorem c18_monitor_is_monitor_gen : forall c,
  C18_monitor c = 0 <->
  monitor_gen (fun r => s_rev (body_of c r)) sr_applied sr_valid sr_ckok (sref_eq c) (sref_body_eq c)
              (sref_logical_eq c) (c_init c) (map e_idx (c_log c)) (c_ref c) (c_scens c) = true.
Proof. exact monitor_is_gen. Qed.
Print Assumptions c18_monitor_is_monitor_gen.

(* ---- non-vacuity ---------------------------------------------------------------------------------------- *)

(* the constant checksum function of the case evaluation satisfies the hypothesis on ck *)
Example c18_ck0_blind : forall s x, ck0 (set_checksum s x) = ck0 s.
Proof. exact ck0_blind. Qed.

(* a log with a pre-init reject, an init, a change and a no-op; two batches *)
Example c18_example_run :
  map r_class (snd (c_parts ck0 [[En 3 1 (ex_upsert NodeStatusDown); En 5 1 ex_init];
                                  [En 6 1 (ex_upsert NodeStatusSuspect); En 9 2 (ex_upsert NodeStatusSuspect)]]))
  = [cRejected; cChanged; cChanged; cNoop]
  /\ map r_rev (snd (c_parts ck0 (map (fun e => [e]) ex_log))) = [0; 1; 2; 2]
  /\ map r_applied (snd (c_parts ck0 (map (fun e => [e]) ex_log))) = [3; 5; 6; 9].
Proof. exact ex_run_classes. Qed.

Example c18_example_sorted : StronglySorted N.lt (map e_idx ex_log).
Proof. exact ex_log_sorted. Qed.

(* a scenario with both kinds of failed Save, three restarts and replays is well formed *)
Example c18_example_scenario_wf :
  c_wf ck0 ex_log [CBatch 3 2; CRestart 1; CBatch 3 0; CRestart 0; CBatch 4 1; CRestart 2; CBatch 2 0].
Proof. exact ex_scenario_wf. Qed.

(* with indices out of order (not a Raft log) one batch and one-at-a-time differ: the
   already-applied test of a batch uses the revision the batch started with *)
Example c18_nonincreasing_log_differs :
  snd (c_parts ck0 [ex_unsorted]) <> snd (c_parts ck0 (map (fun e => [e]) ex_unsorted)).
Proof. exact ex_unsorted_differs. Qed.
