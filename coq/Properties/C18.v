(* C18 — placeholder while the proofs are being written *)
From WK Require Import Base.Base Gen.Consts_C18 Model.CtrlFSM Model.CtrlFSM_C18.
Open Scope N_scope.
