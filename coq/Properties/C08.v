(* C08 — placeholder while the model is being tied; replaced by the theorem file. *)
From WK Require Import Base.Base Model.MsgStore Model.MsgStore_C07 Model.MsgStore_C08.
Example c08_stub : C08_monitor (C07Case false [] []) = 0.
Proof. reflexivity. Qed.
