(* C08 — A sender's client message number maps to at most one message; a message
   id is stored at most once across all channels (strict mode).
   Model: Model/MsgStore.v; monitor Model/MsgStore_C08.v = the plain sequential
   logs of C07 + "what must be rejected is rejected" ([must_reject]).
   Theorems are for EVERY membership filter that is sound ([f_may (f_add f k) k],
   monotone); the production two-layer Bloom filter is shown sound for arbitrary
   hash functions.  Histories of any length over the harness' channels; the
   multi-channel StoreAppendBatch op is excluded ([op_ok]) -- it is exactly where
   the genuine defect C08-K1 lives ([c08_k1_refuted]). *)
From WK Require Import Base.Base Model.KV Gen.Consts_C07 Model.MsgStore Model.MsgStore_C07 Model.MsgStore_C08
     Proof.KV Proof.MsgStore_base Proof.MsgStore_rel Proof.MsgStore_reads Proof.MsgStore_C07 Proof.MsgStore_C08.

(* The production filter (idempotency_filter.go) never forgets: for arbitrary hash functions. *)
Theorem c08_filter_sound :
  forall (h1 h2 : bytes * bytes -> N) (f : bloom) (k : bytes * bytes),
    bloom_may h1 h2 (bloom_add h1 h2 f k) k = true.
Proof. exact bloom_add_sound. Qed.
Print Assumptions c08_filter_sound.

Theorem c08_filter_monotone :
  forall (h1 h2 : bytes * bytes -> N) (f : bloom) (k k' : bytes * bytes),
    bloom_may h1 h2 f k' = true -> bloom_may h1 h2 (bloom_add h1 h2 f k) k' = true.
Proof. exact bloom_add_mono. Qed.
Print Assumptions c08_filter_monotone.

(* Coverage is an invariant of every step: a loaded filter answers "maybe" for
   every durable idempotency key of its channel (so a negative answer may skip
   the point read) -- after appends in any mode, failed appends, truncation,
   trims, lease release and database reopen. *)
Theorem c08_filter_covers :
  forall (F : Type) (f_empty : F) (f_may : F -> bytes * bytes -> bool) (f_add : F -> bytes * bytes -> F),
    (forall f k, f_may (f_add f k) k = true) ->
    (forall f k k', f_may f k' = true -> f_may (f_add f k) k' = true) ->
    forall (compact : bool) (st : mstate F) (o : op),
      Inv F f_may st -> (forall items, o <> OCBatch items) ->
      Inv F f_may (fst (fst (step_dump F f_empty f_may f_add compact st o))).
Proof. exact Inv_step. Qed.
Print Assumptions c08_filter_covers.

(* Rejection: whatever the plain log must reject -- an id or a non-empty pair
   twice in one batch (every mode), a pair the channel stores (strict and
   server-allocated-id mode), an id any channel stores (strict mode) -- the three
   append APIs reject, in every state related to the logs with covering filters. *)
Theorem c08_append_rejects :
  forall (F : Type) (f_may : F -> bytes * bytes -> bool) (f_add : F -> bytes * bytes -> F),
    (forall f k, f_may (f_add f k) k = true) ->
    (forall f k k', f_may f k' = true -> f_may (f_add f k) k' = true) ->
    forall (st : mstate F) (s : aspec) (c mode base : N) (recs : list rec),
      R F st s -> Inv F f_may st -> must_reject s c mode recs = true ->
      exists e, snd (Append F f_may f_add st c recs mode base) = inr e.
Proof. exact append_rejects. Qed.
Print Assumptions c08_append_rejects.

Theorem c08_compat_append_rejects :
  forall (F : Type) (f_may : F -> bytes * bytes -> bool) (f_add : F -> bytes * bytes -> F),
    (forall f k, f_may (f_add f k) k = true) ->
    (forall f k k', f_may f k' = true -> f_may (f_add f k) k' = true) ->
    forall (st : mstate F) (s : aspec) (c mode : N) (recs : list rec),
      R F st s -> Inv F f_may st -> must_reject s c mode recs = true ->
      exists e, snd (CAppend F f_may f_add st c recs mode) = inr e.
Proof. exact capp_rejects. Qed.
Print Assumptions c08_compat_append_rejects.

(* The monitor evaluated on implementation traces is what this theorem shows of
   every model trace, for every sound filter ... *)
Theorem c08_model_satisfies_monitor :
  forall (F : Type) (f_empty : F) (f_may : F -> bytes * bytes -> bool) (f_add : F -> bytes * bytes -> F),
    (forall f k, f_may (f_add f k) k = true) ->
    (forall f k k', f_may f k' = true -> f_may (f_add f k) k' = true) ->
    forall (compact : bool) (ops : list op),
      Forall op_ok ops ->
      c08_run as_init (entries ops (snd (run F f_empty f_may f_add compact (st_init F f_empty) ops))) = 0.
Proof. exact c08_model_ok. Qed.
Print Assumptions c08_model_satisfies_monitor.

(* ... in particular with the production Bloom filter under arbitrary hashes
   (filter transparency: the observable behaviour does not depend on the hashes) ... *)
Theorem c08_filter_transparent :
  forall (h1 h2 : bytes * bytes -> N) (compact : bool) (ops : list op),
    Forall op_ok ops ->
    c08_run as_init (entries ops (snd (run bloom bloom_empty (bloom_may h1 h2) (bloom_add h1 h2) compact
                                           (st_init bloom bloom_empty) ops))) = 0.
Proof. exact c08_bloom_model_ok. Qed.
Print Assumptions c08_filter_transparent.

(* ... and with the exact filter of the executable model used by the correspondence check. *)
Theorem c08_monitor_zero_on_model_trace :
  forall (compact : bool) (ops : list op) (kv : list kvent),
    Forall op_ok ops -> C08_monitor (C07Case compact (entries ops (snd (xrun compact ops))) kv) = 0.
Proof. exact c08_monitor_zero_on_model. Qed.
Print Assumptions c08_monitor_zero_on_model_trace.

(* Uniqueness in reachable states: two different rows with the same non-empty
   pair exist only if a trusted-contiguous duplicate tainted the pair ... *)
Theorem c08_unique_pair :
  forall (F : Type) (st : mstate F) (s : aspec) (c : N) (r1 r2 : row),
    R F st s -> In r1 (rows_of (st_kv F st) c) -> In r2 (rows_of (st_kv F st) c) -> r1 <> r2 ->
    r_uid r1 = r_uid r2 -> r_cno r1 = r_cno r2 -> r_uid r1 <> [] -> r_cno r1 <> [] ->
    pair_tainted (as_log s c) (r_uid r1) (r_cno r1) = true.
Proof. exact unique_pair. Qed.
Print Assumptions c08_unique_pair.

(* ... and without trusted appends it is absolute: strict / server-allocated-id
   histories never store a pair twice (same batch, later batch, after release,
   reopen, truncation, trim) ... *)
Theorem c08_unique_pair_strict :
  forall (F : Type) (f_empty : F) (f_may : F -> bytes * bytes -> bool) (f_add : F -> bytes * bytes -> F),
    (forall f k, f_may (f_add f k) k = true) ->
    (forall f k k', f_may f k' = true -> f_may (f_add f k) k' = true) ->
    forall (compact : bool) (ops : list op) (c : N) (r1 r2 : row),
      Forall op_ok ops -> Forall no_trusted ops ->
      let kv := st_kv F (fst (run F f_empty f_may f_add compact (st_init F f_empty) ops)) in
      In r1 (rows_of kv c) -> In r2 (rows_of kv c) ->
      r_uid r1 = r_uid r2 -> r_cno r1 = r_cno r2 -> r_uid r1 <> [] -> r_cno r1 <> [] -> r1 = r2.
Proof. exact unique_pair_strict. Qed.
Print Assumptions c08_unique_pair_strict.

(* ... and strict histories never store a message id twice on the node. *)
Theorem c08_unique_id_strict :
  forall (F : Type) (f_empty : F) (f_may : F -> bytes * bytes -> bool) (f_add : F -> bytes * bytes -> F),
    (forall f k, f_may (f_add f k) k = true) ->
    (forall f k k', f_may f k' = true -> f_may (f_add f k) k' = true) ->
    forall (compact : bool) (ops : list op) (c1 q1 : N) (r1 : row) (c2 q2 : N) (r2 : row),
      Forall op_ok ops -> Forall strict_only ops ->
      let kv := st_kv F (fst (run F f_empty f_may f_add compact (st_init F f_empty) ops)) in
      kget (KyRow c1 q1) kv = Some (VRow r1) -> kget (KyRow c2 q2) kv = Some (VRow r2) ->
      r_id r1 = r_id r2 -> (c1, q1) = (c2, q2).
Proof. exact unique_id_strict. Qed.
Print Assumptions c08_unique_id_strict.

(* Finding C08-K1 (genuine defect, KNOWN_FINDINGS.json): the full statement "a
   message id is stored at most once across all channels" is FALSE for the
   multi-channel StoreAppendBatch: the model (= the code, replayed on /repo from
   corpus/C08/k1_same_id_two_channels_one_batch.json) accepts the same id in the
   strict items of two channels; the monitor returns its code 2 for exactly this. *)
Theorem c08_k1_refuted :
  map fst (snd (xrun false k1_ops))
  = [ XBatch [(0, 0, 1); (0, 0, 1)]; XMsgO None;
      XMsgO (Some (M 1 14 2 [] [] (hashPayload [121]) [121] 1%Z)); XErr EConflict ]
  /\ (exists r0 r2, kget (KyRow 0 1) (st_kv _ (fst (xrun false k1_ops))) = Some (VRow r0)
                    /\ kget (KyRow 2 1) (st_kv _ (fst (xrun false k1_ops))) = Some (VRow r2)
                    /\ r_id r0 = 14 /\ r_id r2 = 14)
  /\ C08_monitor (C07Case false (entries k1_ops (snd (xrun false k1_ops))) []) = 2.
Proof. exact k1_refuted. Qed.
Print Assumptions c08_k1_refuted.

(* ---- non-vacuity -------------------------------------------------------------------------------------- *)

Definition c08_rec (i : N) (uid cno : string) : rec := MsgStore.R i (hx cno) (hx uid) [97] 5%Z 0 0 0.

(* duplicates in the same batch, in a later batch, after release and reopen, in
   strict and server mode are rejected by the model; a trusted duplicate is stored *)
Example c08_ex_run :
  map fst (snd (xrun true
    [ OAppend 0 0 0 [c08_rec 1 "7531" "6e31"];
      OAppend 0 1 0 [c08_rec 2 "7531" "6e32"; c08_rec 3 "7531" "6e32"];
      OAppend 0 1 0 [c08_rec 4 "7531" "6e31"];
      ORelease 0; OReopen;
      OAppend 0 0 0 [c08_rec 5 "7531" "6e31"];
      OAppend 1 0 0 [c08_rec 1 "" ""];
      OAppend 1 1 0 [c08_rec 1 "" ""];
      OApply 0 0 [c08_rec 6 "7531" "6e31"] None None ]))
  = [ XApp 1 1 1; XErr EConflict; XErr EConflict; XOk; XOk; XErr EConflict; XErr EConflict; XApp 1 1 1; XApp 2 2 1 ].
Proof. vm_compute. reflexivity. Qed.

(* the monitor is not vacuous: an implementation that accepted the later-batch duplicate is flagged *)
Example c08_monitor_rejects_duplicate :
  C08_monitor (C07Case true
    [E (OAppend 0 0 0 [c08_rec 1 "7531" "6e31"]) (XApp 1 1 1) [];
     E (OAppend 0 1 0 [c08_rec 4 "7531" "6e31"]) (XApp 2 2 1) []] []) = 1.
Proof. vm_compute. reflexivity. Qed.

Example c08_hypotheses_satisfiable :
  (forall f k, x_may (x_add f k) k = true) /\ (forall f k k', x_may f k' = true -> x_may (x_add f k) k' = true).
Proof. split; [exact x_add_sound|exact x_add_mono]. Qed.
