(* C25 — End-to-end payload encryption is correct and tamper-evident.
   Only statements, each closed by [exact] of a lemma from Proof/WkEnc*.v.

   The AES block cipher, MD5 and X25519 are universally quantified; what is
   assumed of them is exactly (Proof/WkEnc.v):
     aes_ok E D  :=  (forall k b, is_block b -> D k (E k b) = b)
                  /\ (forall k b, is_block b -> is_block (E k b))
                     where is_block b := length b = 16 /\ all bytes < 256
     md5_ok H    :=  forall m, length (H m) = 16 /\ all bytes of H m < 256
     dh_ok X     :=  (forall a b pa pb, X a base = Some pa -> X b base = Some pb -> X a pb = X b pa)
                  /\ (forall a p r, X a p = Some r -> length r = 32 /\ all bytes of r < 256)
   Nothing is assumed about collision resistance: tamper evidence concludes
   "rejected, or here is an explicit collision of H". *)
From WK Require Import Base.Base Base.Bytes Gen.Consts_C25 Model.WkEnc.
From WK Require Import Proof.WkEnc_b64 Proof.WkEnc_blocks Proof.WkEnc Proof.WkEnc_monitor.
Open Scope N_scope.

(* ---- concrete layers ------------------------------------------------------------------- *)

(* the padding size is in 1..16 and completes the last block, for every payload length *)
Theorem c25_pad_range : forall n,
  let k := pkcs7PaddingSize n AesBlockSize in 1 <= k <= 16 /\ (n + k) mod 16 = 0.
Proof. exact pkcs7PaddingSize_spec. Qed.
Print Assumptions c25_pad_range.

(* unpadding inverts padding for every payload (empty and block-multiple lengths included) *)
Theorem c25_unpad_pad : forall p, pkcs7UnpadView (pkcs7_pad p) AesBlockSize = Some p.
Proof. exact pkcs7_unpad_pad. Qed.
Print Assumptions c25_unpad_pad.

(* base64 (alphabet regenerated from encoding/base64.StdEncoding): decode inverts encode *)
Theorem c25_b64_roundtrip : forall d, all_bytes d = true -> b64_decode (b64_encode d) = Some d.
Proof. exact b64_decode_encode. Qed.
Print Assumptions c25_b64_roundtrip.

(* CBC: decryptCBCBlocks inverts encryptCBCBlocks on whole blocks, for every key and IV *)
Theorem c25_cbc_roundtrip : forall aesE aesD, aes_ok aesE aesD ->
  forall key blocks prev, is_block prev -> Forall is_block blocks ->
  cbc_dec aesD key prev (cbc_enc aesE key prev blocks) = blocks.
Proof. exact cbc_dec_enc. Qed.
Print Assumptions c25_cbc_roundtrip.

(* ---- decrypt (encrypt p) = p ------------------------------------------------------------------ *)

Theorem c25_decrypt_encrypt : forall aesE aesD, aes_ok aesE aesD ->
  forall keys p e, all_bytes (AESIV keys) = true -> all_bytes p = true ->
  EncryptPayload aesE p keys = Ok e -> DecryptPayload aesD e keys = Ok p.
Proof. exact decrypt_encrypt. Qed.
Print Assumptions c25_decrypt_encrypt.

(* with at least 16 bytes of key and of IV, encryption never fails *)
Theorem c25_encrypt_total : forall aesE keys p, usable keys -> exists e, EncryptPayload aesE p keys = Ok e.
Proof. exact encrypt_total. Qed.
Print Assumptions c25_encrypt_total.

(* ---- both sides derive the same keys ---------------------------------------------------------- *)

(* a client that sent its genuine public key and is handed the server's public key and salt
   derives exactly the session keys the server derived *)
Theorem c25_same_keys : forall md5 x25519, dh_ok x25519 ->
  forall cpriv cpub rnd skeys spub_enc,
  x25519 cpriv X25519Basepoint = Some cpub ->
  NegotiateServerSession md5 x25519 (EncodePublicKey cpub) rnd = Ok (skeys, spub_enc) ->
  DeriveClientSession md5 x25519 cpriv spub_enc (AESIV skeys) = Ok skeys.
Proof. exact same_keys. Qed.
Print Assumptions c25_same_keys.

(* and those keys have the sizes NewSessionCrypto needs *)
Theorem c25_negotiated_usable : forall md5 x25519, md5_ok md5 ->
  forall ckey rnd skeys spub_enc,
  NegotiateServerSession md5 x25519 ckey rnd = Ok (skeys, spub_enc) ->
  length (AESKey skeys) = 16%nat /\ length (AESIV skeys) = iv_size.
Proof. exact negotiated_usable. Qed.
Print Assumptions c25_negotiated_usable.

(* ---- tamper evidence of SEND ------------------------------------------------------------------- *)

(* the packet carrying the key computed for it validates *)
Theorem c25_validate_honest : forall aesE md5 keys p k,
  SendMsgKey aesE md5 p keys = Ok k -> sp_msgkey p = k -> ValidateSendPacket aesE md5 p keys = 0.
Proof. exact validate_honest. Qed.
Print Assumptions c25_validate_honest.

(* altered message key, same covered bytes: rejected *)
Theorem c25_tamper_key : forall aesE md5 keys p p' k,
  SendMsgKey aesE md5 p keys = Ok k ->
  send_sign_bytes p' = send_sign_bytes p -> sp_msgkey p' <> k ->
  ValidateSendPacket aesE md5 p' keys = E_MsgKeyMismatch.
Proof. exact tamper_key. Qed.
Print Assumptions c25_tamper_key.

(* altered payload, every other field (message key included) kept: rejected, or an MD5 collision *)
Theorem c25_tamper_payload : forall aesE aesD md5, aes_ok aesE aesD -> md5_ok md5 ->
  forall keys p p' k,
  all_bytes (AESIV keys) = true -> all_bytes (send_sign_bytes p) = true -> all_bytes (send_sign_bytes p') = true ->
  SendMsgKey aesE md5 p keys = Ok k -> sp_msgkey p' = k ->
  sp_seq p' = sp_seq p -> sp_msgno p' = sp_msgno p -> sp_chid p' = sp_chid p -> sp_chtype p' = sp_chtype p ->
  sp_payload p' <> sp_payload p ->
  ValidateSendPacket aesE md5 p' keys = E_MsgKeyMismatch \/ md5_collision md5.
Proof. exact tamper_payload. Qed.
Print Assumptions c25_tamper_payload.

(* altered covered header fields / payload in any combination that changes the covered bytes *)
Theorem c25_tamper_covered : forall aesE aesD md5, aes_ok aesE aesD -> md5_ok md5 ->
  forall keys p p' k,
  all_bytes (AESIV keys) = true -> all_bytes (send_sign_bytes p) = true -> all_bytes (send_sign_bytes p') = true ->
  SendMsgKey aesE md5 p keys = Ok k -> sp_msgkey p' = k ->
  send_sign_bytes p' <> send_sign_bytes p ->
  ValidateSendPacket aesE md5 p' keys = E_MsgKeyMismatch \/ md5_collision md5.
Proof. exact tamper_covered. Qed.
Print Assumptions c25_tamper_covered.

(* observation (DESIGN §7, not part of the property): only the covered BYTES are authenticated —
   a packet with other fields but the same concatenation is accepted (see the example at the end) *)
Theorem c25_same_sign_bytes_accepted : forall aesE md5 keys p p' k,
  SendMsgKey aesE md5 p keys = Ok k ->
  send_sign_bytes p' = send_sign_bytes p -> sp_msgkey p' = k ->
  ValidateSendPacket aesE md5 p' keys = 0.
Proof. exact same_sign_bytes_accepted. Qed.
Print Assumptions c25_same_sign_bytes_accepted.

(* the gateway adapter, reading a session that holds the client's keys (cached SessionCrypto or
   key/IV values), validates before it decrypts: it returns the decrypted payload exactly when
   ValidateSendPacket accepts *)
Theorem c25_adapter_validates_first : forall aesE aesD md5 keys sc s p,
  NewSessionCrypto keys = Ok sc -> sess_consistent keys s = true ->
  decryptSendPacketForSession aesE aesD md5 s p =
  match ValidateSendPacket aesE md5 p keys with
  | 0 => DecryptPayload aesD (sp_payload p) keys
  | e => Err e
  end.
Proof. exact adapter_send_eq. Qed.
Print Assumptions c25_adapter_validates_first.

(* ---- the monitor evaluated on implementation traces ---------------------------------------------- *)

(* every trace the model can produce on byte-string inputs satisfies the monitor, or an MD5
   collision is exhibited; so "model = implementation on this case" + the theorems above give
   the monitor on the implementation's trace *)
Theorem c25_model_satisfies_monitor : forall aesE aesD md5 x25519,
  aes_ok aesE aesD -> md5_ok md5 -> dh_ok x25519 ->
  forall ops tE tD tM tDH, Forall wf_op ops ->
  C25_monitor (C25Case (map (model_op aesE aesD md5 x25519) ops) tE tD tM tDH) = 0 \/ md5_collision md5.
Proof. exact model_satisfies_monitor. Qed.
Print Assumptions c25_model_satisfies_monitor.

(* the correspondence predicate is not vacuous in the other direction: observations produced by
   the model with the case's tables as primitives are never a mismatch *)
Theorem c25_model_no_mismatch : forall ops tE tD tM tDH,
  let aesE := lookup_block tE in
  let aesD := lookup_block tD in
  let md5 := fun m => lookup1 tM m [] in
  let dh := fun a p => lookup2 tDH a p None in
  C25_mismatch (C25Case (map (model_op aesE aesD md5 dh) ops) tE tD tM tDH) = false.
Proof. exact model_no_mismatch. Qed.
Print Assumptions c25_model_no_mismatch.

(* ---- non-vacuity ---------------------------------------------------------------------------------- *)

(* the assumptions are satisfiable (toy primitives: block reversal, constant digest, constant
   shared secret) *)
Example c25_assumptions_satisfiable :
  aes_ok (fun _ b => rev b) (fun _ b => rev b)
  /\ md5_ok (fun _ => repeat 7 16)
  /\ dh_ok (fun _ _ => Some (repeat 9 32)).
Proof. exact toy_primitives_ok. Qed.

(* a concrete run with the toy cipher: 17-byte payload, two blocks, round trip *)
Example c25_example_roundtrip :
  let keys := Keys (repeat 1 16) (repeat 2 16) in
  let p := repeat 65 17 in
  exists e, EncryptPayload (fun _ b => rev b) p keys = Ok e
            /\ length e = 44%nat
            /\ DecryptPayload (fun _ b => rev b) e keys = Ok p.
Proof. eexists. vm_compute. repeat split; reflexivity. Qed.

(* observation recorded in DESIGN §7 (not part of the property): the covered bytes are a plain
   concatenation, so they do not determine the covered FIELDS — ClientSeq 1 / ClientMsgNo "2x" and
   ClientSeq 12 / ClientMsgNo "x" (or a character moved between ClientMsgNo and ChannelID) have the
   same sign bytes and therefore the same message key *)
Example c25_sign_bytes_not_injective :
  let p1 := SendPkt [] 1 [50; 120] [117; 49] 1 [65] in
  let p2 := SendPkt [] 12 [120] [117; 49] 1 [65] in
  let p3 := SendPkt [] 1 [50] [120; 117; 49] 1 [65] in
  p1 <> p2 /\ p1 <> p3 /\ send_sign_bytes p1 = send_sign_bytes p2 /\ send_sign_bytes p1 = send_sign_bytes p3.
Proof. repeat split; try discriminate; vm_compute; reflexivity. Qed.
