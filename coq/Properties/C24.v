(* C24 — placeholder while the harness is brought up *)
From WK Require Import Base.Base Model.JsonRpcBridge.
