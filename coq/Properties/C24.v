(* C24 — The JSON-RPC protocol is a faithful frame bridge.
   Only statements, each closed by [exact] of a lemma from Proof/JsonRpcBridge*.v.

   The bridge has two halves for two directions: ToFrame turns the messages a client SENDS
   (connect / send / ping / disconnect requests, recvack notification) into frames, FromFrame
   turns the frames a server SENDS (CONNACK, SENDACK, RECV, EVENT, DISCONNECT, PONG) into
   messages.  "Frame -> message -> back" is therefore stated per direction, with the peer's
   half (msg_of_frame, frame_of_msg: field-by-field inverses, in Model/JsonRpcBridge.v) closing
   the loop; frame_equiv compares exactly the fields the bridge carries.  JSON syntax
   (encoding/json) is outside the model and exercised by the differential run. *)
From WK Require Import Base.Base Gen.Consts_C24 Model.JsonRpcBridge.
From WK Require Import Proof.JsonRpcBridge_num Proof.JsonRpcBridge.
Open Scope N_scope.

(* ---- client -> server -------------------------------------------------------------------------- *)

(* every CONNECT / SEND / RECVACK / DISCONNECT / PING frame (any field values of the Go types), sent
   as its JSON-RPC message with request id [id], comes out of ToFrame as an equivalent frame
   together with the same request id (RECVACK is a notification: empty reply token) *)
Theorem c24_inbound_roundtrip : forall id f, wf_frame f -> inbound_supported f = true ->
  exists m f', msg_of_frame id f = Some m /\ ToFrame m = Some (f', expected_token id f) /\ frame_equiv f f' = true.
Proof. exact inbound_roundtrip. Qed.
Print Assumptions c24_inbound_roundtrip.

(* ---- server -> client ---------------------------------------------------------------------------- *)

(* every CONNACK / SENDACK / RECV / EVENT / DISCONNECT / PONG frame becomes a message from which the
   peer rebuilds an equivalent frame; responses (CONNACK, SENDACK, PONG) carry the request id *)
Theorem c24_outbound_faithful : forall id f, wf_frame f -> outbound_supported f = true ->
  exists m f', FromFrame id f = Some m
               /\ frame_of_msg m = Some (f', if is_response_frame f then Some id else None)
               /\ frame_equiv f f' = true.
Proof. exact outbound_faithful. Qed.
Print Assumptions c24_outbound_faithful.

(* ---- the request id ----------------------------------------------------------------------------------- *)

Theorem c24_reqid_preserved_in : forall m f tok, ToFrame m = Some (f, tok) ->
  tok = match msg_id m with Some i => i | None => [] end.
Proof. exact reqid_preserved_in. Qed.
Print Assumptions c24_reqid_preserved_in.

Theorem c24_reqid_preserved_out : forall id f m, FromFrame id f = Some m -> is_response_frame f = true ->
  msg_id m = Some id.
Proof. exact reqid_preserved_out. Qed.
Print Assumptions c24_reqid_preserved_out.

(* ---- message ids as decimal strings ------------------------------------------------------------------- *)

(* strconv.ParseInt inverts strconv.FormatInt on the whole int64 range (RECVACK / SENDACK / RECV ids) *)
Theorem c24_message_id_roundtrip : forall z, (-9223372036854775808 <= z <= 9223372036854775807)%Z ->
  parse_int64_value (format_int z) = z.
Proof. exact parse_int_format. Qed.
Print Assumptions c24_message_id_roundtrip.

Theorem c24_stream_id_roundtrip : forall n, n <= max_u64 -> parse_uint64_value (format_uint n) = n.
Proof. exact parse_uint64_value_format. Qed.
Print Assumptions c24_stream_id_roundtrip.

(* ---- determineMessageType ------------------------------------------------------------------------------- *)

(* the decision table, for every probe *)
Theorem c24_classify_table : forall p,
  determineMessageType p =
  if negb (version_ok p) then inr (match pr_jsonrpc p with RawOther => EUnmarshalFieldFailed | _ => EInvalidVersion end)
  else match present (pr_id p), negb (is_nil (pr_method p)) with
       | true, true => inl msgTypeRequest
       | true, false =>
         match present (pr_result p), present (pr_error p) with
         | true, true => inr EResponseFormat
         | false, false => inr EOther
         | _, _ => inl msgTypeResponse
         end
       | false, true => if known_notification (pr_method p) then inl msgTypeNotification else inr EOther
       | false, false => inr EOther
       end.
Proof. exact classify_table. Qed.
Print Assumptions c24_classify_table.

(* exactly one of request / response / notification / error *)
Theorem c24_classify_total : forall p,
  determineMessageType p = inl msgTypeRequest \/ determineMessageType p = inl msgTypeResponse
  \/ determineMessageType p = inl msgTypeNotification \/ exists e, determineMessageType p = inr e /\ 1 <= e <= 9.
Proof. exact classify_total. Qed.
Print Assumptions c24_classify_total.

Theorem c24_msg_types_distinct :
  msgTypeRequest <> msgTypeResponse /\ msgTypeRequest <> msgTypeNotification /\ msgTypeResponse <> msgTypeNotification.
Proof. exact msg_types_distinct. Qed.
Print Assumptions c24_msg_types_distinct.

(* a message Decode returns has the id of the document; only the four notification kinds have none *)
Theorem c24_decode_id : forall p b k i, decode_dispatch p b = OMsg k i ->
  match i with
  | Some id => pr_id p = RawString id
  | None => pr_id p = RawAbsent /\ (k = KRecvNotification \/ k = KRecvAckNotification \/ k = KDisconnectNotification \/ k = KEventNotification)
  end.
Proof. exact decode_id. Qed.
Print Assumptions c24_decode_id.

(* ---- what the bridge does NOT carry, and three observations about the code ------------------------------- *)

(* ToFrame leaves HasServerVersion / FrameType / RemainingLength / FrameSize zero, SEND has ClientSeq 0 and
   only the Receipt / Signal / Stream / Topic Setting bits (NoEncrypt cannot be expressed) *)
Theorem c24_to_frame_untouched : forall m f tok, ToFrame m = Some (f, tok) ->
  match f with
  | FConnect fr _ _ _ _ _ _ _ | FRecvack fr _ _ | FDisconnect fr _ _ | FPing fr =>
    fr_hsv fr = false /\ fr_type fr = 0 /\ fr_remlen fr = 0 /\ fr_size fr = 0%Z
  | FSend fr s _ _ cs _ _ _ _ _ _ =>
    fr_hsv fr = false /\ fr_type fr = 0 /\ fr_remlen fr = 0 /\ fr_size fr = 0%Z /\ cs = 0 /\ N.land s setting_mask = s
  | _ => False
  end.
Proof. exact to_frame_untouched. Qed.
Print Assumptions c24_to_frame_untouched.

(* the literal composition ToFrame (FromFrame id f) is never defined: the halves serve opposite directions *)
Theorem c24_directions_disjoint : forall id f m, FromFrame id f = Some m -> ToFrame m = None.
Proof. exact directions_disjoint. Qed.
Print Assumptions c24_directions_disjoint.

(* the answer to a PING has neither "result" nor "error": the package's own Decode rejects it *)
Theorem c24_pong_response_not_decodable : forall id fr, model_out_decode (FromFrame id (FPong fr)) = OErr EOther.
Proof. exact pong_response_not_decodable. Qed.
Print Assumptions c24_pong_response_not_decodable.

(* a DISCONNECT frame is written as a notification; Decode accepts it, ToFrame has no case for it *)
Theorem c24_disconnect_echo_refused : forall id fr rc reason,
  exists m, FromFrame id (FDisconnect fr rc reason) = Some m
            /\ model_out_decode (Some m) = OMsg KDisconnectNotification None
            /\ ToFrame m = None.
Proof. exact disconnect_echo_refused. Qed.
Print Assumptions c24_disconnect_echo_refused.

(* ---- the monitor evaluated on implementation traces ---------------------------------------------------------- *)

Theorem c24_model_satisfies_monitor : forall ops, Forall wf_op ops -> C24_monitor (C24Case (map model_op ops)) = 0.
Proof. exact model_satisfies_monitor. Qed.
Print Assumptions c24_model_satisfies_monitor.

Theorem c24_model_no_mismatch : forall ops, C24_mismatch (C24Case (map model_op ops)) = false.
Proof. exact model_no_mismatch. Qed.
Print Assumptions c24_model_no_mismatch.

(* ---- non-vacuity ----------------------------------------------------------------------------------------------- *)

(* a SEND frame with every carried field set, through the client's message and back *)
Example c24_example_send :
  let f := FSend (Framer true false true false true false 0 0 0%Z) 170 [107] 60 0 [110; 111] [115] [99; 104] 2 [116] [1; 2; 255] in
  wf_frame f /\ inbound_supported f = true /\
  match msg_of_frame [114; 49] f with
  | Some m => ToFrame m = Some (f, [114; 49])
  | None => False
  end.
Proof. cbv zeta. split; [split; reflexivity|]. split; vm_compute; reflexivity. Qed.

(* message-id strings: the corners of ParseInt *)
Example c24_example_parse_int :
  parse_int64_value [57; 57; 57; 57; 57; 57; 57; 57; 57; 57; 57; 57; 57; 57; 57; 57; 57; 57; 57; 57; 120] = 9223372036854775807%Z
  /\ parse_int64_value [49; 50; 120] = 0%Z /\ parse_int64_value [43; 53] = 5%Z
  /\ parse_int64_value (format_int (-9223372036854775808)) = (-9223372036854775808)%Z.
Proof. vm_compute. repeat split; reflexivity. Qed.

(* ChannelType is an int on the JSON side and a uint8 in the frame: 300 arrives as 44 *)
Example c24_example_channel_type_truncated : to_u8 300 = 44.
Proof. reflexivity. Qed.
