(* C26 — Node transport frames and RPC responses are correctly correlated.
   Only statements, each closed by [exact] of a lemma from Proof/*.v.
   Part (a): wire header codec, ReadFrame, WriteFrames (Model/Wire.v). *)
From WK Require Import Base.Base Base.Bytes Gen.Consts_C26 Model.Wire Model.C26Case.
From WK Require Import Proof.Wire Proof.Wire_monitor.
Open Scope N_scope.

(* ---- (a) every frame header round-trips ---------------------------------- *)

(* a header with a known kind and priority, field values in their Go types'
   ranges and BodyLen <= max decodes to itself from its 24-byte encoding,
   whatever follows it on the wire *)
Theorem c26_header_roundtrip : forall h rest max, header_ok h max = true ->
  decode_header (encode_header h ++ rest) max = WOk h.
Proof. exact header_roundtrip. Qed.
Print Assumptions c26_header_roundtrip.

(* DecodeHeader after EncodeHeader is exactly the outbound validation, for every header *)
Theorem c26_decode_encode : forall h rest max, header_in_domain h = true ->
  decode_header (encode_header h ++ rest) max =
  match validate_outbound_header h max with Some e => WErr e | None => WOk h end.
Proof. exact decode_encode. Qed.
Print Assumptions c26_decode_encode.

(* the other direction: whatever DecodeHeader accepts is the encoding of what it
   returns (no two distinct 24-byte headers decode to the same Header) *)
Theorem c26_accepted_is_encoding : forall enc max h, all_bytes enc = true ->
  decode_header enc max = WOk h -> firstn header_size enc = encode_header h.
Proof. exact decode_ok_is_encoding. Qed.
Print Assumptions c26_accepted_is_encoding.

(* ---- (a) malformed headers are rejected ----------------------------------- *)

(* bad magic, version, flags, reserved bits, kind, priority, oversize body (or a
   short buffer) => a validation error, never a header *)
Theorem c26_reject : forall enc max, hdr_malformed enc max = true ->
  exists e, decode_header enc max = WErr e /\ validation_error e = true.
Proof. exact malformed_rejected. Qed.
Print Assumptions c26_reject.

(* and only those are rejected *)
Theorem c26_accept_iff_wellformed : forall enc max,
  (exists h, decode_header enc max = WOk h) <-> hdr_malformed enc max = false.
Proof.
  intros enc max. split.
  - intros [h D]. exact (decode_ok_wellformed enc max h D).
  - exact (wellformed_accepted enc max).
Qed.
Print Assumptions c26_accept_iff_wellformed.

(* ---- (a) ... before the body is allocated ---------------------------------- *)

(* ReadFrame reaches the body allocator only with the BodyLen of a header that
   passed every check; that length is within [0, max] *)
Theorem c26_validate_before_alloc : forall stream max n,
  ro_alloc (read_frame stream max) = Some n ->
  exists h, decode_header (firstn header_size stream) max = WOk h /\ n = h_bodylen h
            /\ body_exceeds_max n max = false /\ (0 <= max)%Z /\ (Z.of_N n <= max)%Z.
Proof. exact read_alloc_validated. Qed.
Print Assumptions c26_validate_before_alloc.

(* a header that fails validation ends ReadFrame right after the 24 header
   bytes: no allocation, no byte of the body consumed *)
Theorem c26_rejected_header_stops_reader : forall stream max e,
  ro_res (read_frame stream max) = WErr e -> validation_error e = true ->
  ro_alloc (read_frame stream max) = None /\ ro_consumed (read_frame stream max) = HeaderSize.
Proof. exact read_validation_error. Qed.
Print Assumptions c26_rejected_header_stops_reader.

(* ---- (a) frames round-trip through WriteFrames / ReadFrame ------------------ *)

Theorem c26_frames_roundtrip : forall fs max b rest, forallb frame_in_domain fs = true ->
  write_frames fs max = WOk b ->
  read_frames (length fs) (b ++ rest) max = written_frames fs.
Proof. exact write_read_roundtrip. Qed.
Print Assumptions c26_frames_roundtrip.

(* ---- the monitor of part (a) accepts every trace of the model -------------- *)

Theorem c26_wire_model_satisfies_monitor :
  (forall enc max, all_bytes enc = true ->
     C26_monitor (C26Dec enc max (decode_header enc max) (reenc_of (decode_header enc max))) = 0)
  /\ (forall h max, header_in_domain h = true ->
     C26_monitor (C26Enc h max (encode_header h) (decode_header (encode_header h) max)) = 0)
  /\ (forall stream max, all_bytes stream = true ->
     let o := read_frame stream max in
     C26_monitor (C26Read stream max (ro_res o) (ro_consumed o) (ro_beyond o) (ro_alloc_over o)
                          (reenc_of_hb (ro_res o))) = 0)
  /\ (forall fs max, forallb frame_in_domain fs = true ->
     C26_monitor (C26Write fs max (write_frames fs max)
        (match write_frames fs max with WOk b => read_frames (length fs) b max | WErr _ => [] end)) = 0).
Proof.
  repeat split; intros; cbn [C26_monitor].
  - rewrite mon_dec_model by assumption. reflexivity.
  - rewrite mon_enc_model by assumption. reflexivity.
  - rewrite mon_read_model by assumption. reflexivity.
  - rewrite mon_write_model by assumption. reflexivity.
Qed.
Print Assumptions c26_wire_model_satisfies_monitor.

(* non-vacuity *)
Example c26_example_header :
  let h := Header FrameKindRPCRequest PriorityRPC 7 42 5 in
  header_ok h 64 = true
  /\ encode_header h = hx "574b010003030007000000000000002a0000000500000000"
  /\ decode_header (encode_header h) 4 = WErr ETooLarge
  /\ hdr_malformed (hx "574b020003030007000000000000002a0000000500000000") 64 = true.
Proof. vm_compute. repeat split; reflexivity. Qed.
