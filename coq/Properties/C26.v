(* C26 — Node transport frames and RPC responses are correctly correlated.
   Only statements, each closed by [exact] of a lemma from Proof/*.v.
   Part (a): wire header codec, ReadFrame, WriteFrames (Model/Wire.v).
   Part (b): the RPC pending table and Conn.Call correlation (Model/Pending.v):
   theorems over ALL interleavings of the table's atomic steps. *)
From WK Require Import Base.Base Base.Bytes Gen.Consts_C26 Model.Wire Model.Pending Model.C26Case.
From WK Require Import Proof.Wire Proof.Wire_monitor Proof.Pending Proof.Pending_monitor Proof.Pending_conn.
Open Scope N_scope.

(* ---- (a) every frame header round-trips ---------------------------------- *)

(* a header with a known kind and priority, field values in their Go types'
   ranges and BodyLen <= max decodes to itself from its 24-byte encoding,
   whatever follows it on the wire *)
Theorem c26_header_roundtrip : forall h rest max, header_ok h max = true ->
  decode_header (encode_header h ++ rest) max = WOk h.
Proof. exact header_roundtrip. Qed.
Print Assumptions c26_header_roundtrip.

(* DecodeHeader after EncodeHeader is exactly the outbound validation, for every header *)
Theorem c26_decode_encode : forall h rest max, header_in_domain h = true ->
  decode_header (encode_header h ++ rest) max =
  match validate_outbound_header h max with Some e => WErr e | None => WOk h end.
Proof. exact decode_encode. Qed.
Print Assumptions c26_decode_encode.

(* the other direction: whatever DecodeHeader accepts is the encoding of what it
   returns (no two distinct 24-byte headers decode to the same Header) *)
Theorem c26_accepted_is_encoding : forall enc max h, all_bytes enc = true ->
  decode_header enc max = WOk h -> firstn header_size enc = encode_header h.
Proof. exact decode_ok_is_encoding. Qed.
Print Assumptions c26_accepted_is_encoding.

(* ---- (a) malformed headers are rejected ----------------------------------- *)

(* bad magic, version, flags, reserved bits, kind, priority, oversize body (or a
   short buffer) => a validation error, never a header *)
Theorem c26_reject : forall enc max, hdr_malformed enc max = true ->
  exists e, decode_header enc max = WErr e /\ validation_error e = true.
Proof. exact malformed_rejected. Qed.
Print Assumptions c26_reject.

(* and only those are rejected *)
Theorem c26_accept_iff_wellformed : forall enc max,
  (exists h, decode_header enc max = WOk h) <-> hdr_malformed enc max = false.
Proof.
  intros enc max. split.
  - intros [h D]. exact (decode_ok_wellformed enc max h D).
  - exact (wellformed_accepted enc max).
Qed.
Print Assumptions c26_accept_iff_wellformed.

(* ---- (a) ... before the body is allocated ---------------------------------- *)

(* ReadFrame reaches the body allocator only with the BodyLen of a header that
   passed every check; that length is within [0, max] *)
Theorem c26_validate_before_alloc : forall stream max n,
  ro_alloc (read_frame stream max) = Some n ->
  exists h, decode_header (firstn header_size stream) max = WOk h /\ n = h_bodylen h
            /\ body_exceeds_max n max = false /\ (0 <= max)%Z /\ (Z.of_N n <= max)%Z.
Proof. exact read_alloc_validated. Qed.
Print Assumptions c26_validate_before_alloc.

(* a header that fails validation ends ReadFrame right after the 24 header
   bytes: no allocation, no byte of the body consumed *)
Theorem c26_rejected_header_stops_reader : forall stream max e,
  ro_res (read_frame stream max) = WErr e -> validation_error e = true ->
  ro_alloc (read_frame stream max) = None /\ ro_consumed (read_frame stream max) = HeaderSize.
Proof. exact read_validation_error. Qed.
Print Assumptions c26_rejected_header_stops_reader.

(* ---- (a) frames round-trip through WriteFrames / ReadFrame ------------------ *)

Theorem c26_frames_roundtrip : forall fs max b rest, forallb frame_in_domain fs = true ->
  write_frames fs max = WOk b ->
  read_frames (length fs) (b ++ rest) max = written_frames fs.
Proof. exact write_read_roundtrip. Qed.
Print Assumptions c26_frames_roundtrip.

(* ---- the monitor of part (a) accepts every trace of the model -------------- *)

Theorem c26_wire_model_satisfies_monitor :
  (forall enc max, all_bytes enc = true ->
     C26_monitor (C26Dec enc max (decode_header enc max) (reenc_of (decode_header enc max))) = 0)
  /\ (forall h max, header_in_domain h = true ->
     C26_monitor (C26Enc h max (encode_header h) (decode_header (encode_header h) max)) = 0)
  /\ (forall stream max, all_bytes stream = true ->
     let o := read_frame stream max in
     C26_monitor (C26Read stream max (ro_res o) (ro_consumed o) (ro_beyond o) (ro_alloc_over o)
                          (reenc_of_hb (ro_res o))) = 0)
  /\ (forall fs max, forallb frame_in_domain fs = true ->
     C26_monitor (C26Write fs max (write_frames fs max)
        (match write_frames fs max with WOk b => read_frames (length fs) b max | WErr _ => [] end)) = 0).
Proof.
  repeat split; intros; cbn [C26_monitor].
  - rewrite mon_dec_model by assumption. reflexivity.
  - rewrite mon_enc_model by assumption. reflexivity.
  - rewrite mon_read_model by assumption. reflexivity.
  - rewrite mon_write_model by assumption. reflexivity.
Qed.
Print Assumptions c26_wire_model_satisfies_monitor.

(* ---- (b) each call receives exactly its own response or an error -------------------

   [trun cap ginit tr = Some g]: tr is any interleaving of the table's atomic steps
   (insert under the shard lock, Complete's lookup+delete, FailAll's close and
   per-entry sweep, every individual trySend, every receive) performed by
   well-formed clients: request ids are never reused and every call registers its
   own buffered channel (Conn.Call: atomic counter + make(chan, 1)). *)

(* never another call's response: a message completed for request id [id] that
   channel [c] received was registered by the call that owns [c], and [c] has no
   other owner *)
Theorem c26_exactly_own : forall cap tr g c m id,
  trun cap ginit tr = Some g -> In (c, m) (g_recvd g) -> m_tag m = Some id ->
  In (c, id) (g_owner g) /\ forall id', In (c, id') (g_owner g) -> id' = id.
Proof. exact own_response. Qed.
Print Assumptions c26_exactly_own.

(* a response completed for [id] is never in flight to, buffered in, or received
   from any channel but the one [id] was registered with *)
Theorem c26_response_goes_to_owner : forall cap tr g c c' m id,
  trun cap ginit tr = Some g -> In (c, m) (msgs g) -> m_tag m = Some id ->
  In (c', id) (g_owner g) -> c = c'.
Proof. exact response_goes_to_owner. Qed.
Print Assumptions c26_response_goes_to_owner.

(* a caller receives at most one value (response or error) *)
Theorem c26_at_most_one : forall cap tr g c,
  trun cap ginit tr = Some g -> count_chan c (g_recvd g) <= 1.
Proof. exact at_most_one. Qed.
Print Assumptions c26_at_most_one.

(* the non-blocking send never finds the caller's buffer full: no response is
   dropped although trySend may drop *)
Theorem c26_no_drop : forall cap tr g, trun cap ginit tr = Some g -> g_drops g = 0.
Proof. exact no_drop. Qed.
Print Assumptions c26_no_drop.

(* FailAll empties and closes the table; afterwards no method registers anything *)
Theorem c26_no_leak_after_failall : forall caps e s,
  let s1 := fail_all (cap_of caps) e s in
  ps_entries s1 = [] /\ ps_closed s1 = true
  /\ forall ops, let final := fold_left (fun st o => fst (pstep caps st o)) ops s1 in
                 ps_entries final = [] /\ ps_closed final = true.
Proof.
  intros caps e s. cbv zeta. destruct (fail_all_empties (cap_of caps) e s) as [E C].
  split; [exact E|]. split; [exact C|].
  intro ops. revert E C. generalize (fail_all (cap_of caps) e s).
  induction ops as [|o ops IH]; intros s1 E C; cbn [fold_left]; [split; assumption|].
  destruct (closed_stays_empty caps s1 o C E) as [C' E']. exact (IH _ E' C').
Qed.
Print Assumptions c26_no_leak_after_failall.

(* the methods used for the sequential correspondence are the step sequences a
   single uninterrupted call performs *)
Theorem c26_complete_is_remove_then_send : forall cap id p e g,
  ps_inflight (g_st g) = [] ->
  exists g', trun cap g [TRemove id p e; TSend 0] = Some g'
             /\ g_st g' = fst (complete cap id p e (g_st g)).
Proof. exact complete_as_steps. Qed.
Print Assumptions c26_complete_is_remove_then_send.

Theorem c26_store_is_insert_or_fail : forall cap id c g,
  ps_inflight (g_st g) = [] -> id_used id g = false -> chan_used c g = false -> 1 <= cap c ->
  exists g', trun cap g (if ps_closed (g_st g) then [TStoreClosed c; TSend 0] else [TInsert id c]) = Some g'
             /\ g_st g' = store cap id c (g_st g).
Proof. exact store_as_steps. Qed.
Print Assumptions c26_store_is_insert_or_fail.

(* the table monitor accepts every sequential history of the model *)
Theorem c26_pending_model_satisfies_monitor : forall nshards caps ops,
  C26_monitor (C26Pend nshards caps (combine ops (prun caps pinit ops))
                       (shard_count nshards) []) = 0.
Proof. intros. cbn [C26_monitor]. rewrite mon_pend_model. reflexivity. Qed.
Print Assumptions c26_pending_model_satisfies_monitor.

(* conn level (conn.Conn.Call over a scripted peer): every script the model's
   acceptor accepts satisfies the conn monitor — a call only returns a payload or
   remote error that the peer wrote for the request id that carried that call's
   request, and request ids on the wire are pairwise distinct.  [closes_local]:
   the error handed to a local Close is not one of the peer-originated classes. *)
Theorem c26_conn_accept_implies_monitor : forall script final,
  closes_local script = true ->
  C26_mismatch (C26Conn script final) = false -> C26_monitor (C26Conn script final) = 0.
Proof. exact conn_case_monitor. Qed.
Print Assumptions c26_conn_accept_implies_monitor.

(* stress runs: the monitor is the acceptance predicate itself *)
Theorem c26_stress_monitor_is_acceptance : forall calls,
  C26_mismatch (C26Stress calls) = false <-> C26_monitor (C26Stress calls) = 0.
Proof.
  intro calls. cbn [C26_mismatch C26_monitor]. destruct (forallb stress_allowed calls); cbn; split; intro H; try reflexivity; discriminate.
Qed.
Print Assumptions c26_stress_monitor_is_acceptance.

(* non-vacuity of (b): a concrete interleaving where a duplicate response and a
   late response race with a cancellation *)
Example c26_example_interleaving :
  match trun (fun _ => 1) ginit
          [TInsert 1 10; TInsert 2 20; TRemove 2 (hx "62") 0; TRemove 1 (hx "61") 0;
           TRemove 2 (hx "ff") 0; TSend 1; TDelete 1; TSend 0; TRecv 20; TRecv 10; TRecv 20] with
  | Some g => g_recvd g = [(10, Msg (Some 1) (hx "61") 0); (20, Msg (Some 2) (hx "62") 0)]
              /\ g_drops g = 0 /\ ps_entries (g_st g) = []
  | None => False
  end.
Proof. vm_compute. repeat split; reflexivity. Qed.

(* non-vacuity *)
Example c26_example_header :
  let h := Header FrameKindRPCRequest PriorityRPC 7 42 5 in
  header_ok h 64 = true
  /\ encode_header h = hx "574b010003030007000000000000002a0000000500000000"
  /\ decode_header (encode_header h) 4 = WErr ETooLarge
  /\ hdr_malformed (hx "574b020003030007000000000000002a0000000500000000") 64 = true.
Proof. vm_compute. repeat split; reflexivity. Qed.
