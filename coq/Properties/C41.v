(* C41 — Stopping the send pipeline never drops accepted sends.

   Model (Model/StopPipeline_C41.v): the stop / drain protocol shared by the
   three stages of the send pipeline — gateway sendExecutor (DrainSends / stop),
   channelappend.Group (SubmitLocal / Stop / finishStop) and delivery.Runtime
   (EnqueueRecipientDeliveryPlan / Quiesce / Stop) — as one transition system
   over the code's atomic steps: the admission critical section (rejected once
   stopping, otherwise the in-flight counter grows), the task's terminal result
   (counter shrinks), stop callers (set stopping, start the single background
   drainer once, wait for it or for their own deadline) and the drainer (when
   nothing is in flight: cancel the runtime, done).  [sc_cod c] is the one
   structural difference between the stages: Runtime.Stop cancels the run
   context when its caller's deadline expires; Group.Stop, DrainSends and
   Runtime.Quiesce do not.  [srun c evs] executes an ARBITRARY interleaving of
   any number of tasks and stop callers.  The gateway stage is additionally
   modelled in full detail in Model/GatewaySend.v (C28: c28_drain_fence,
   c28_drain_completes, c28_quiescent_complete, c28_mailbox_closed_after_drain). *)
From WK Require Import Base.Base Model.GatewaySend Model.StopPipeline_C41 Proof.GatewaySend_lib
  Proof.StopPipeline_C41.
Open Scope N_scope.

(* after a stop began nothing is admitted: stopping stays set and the in-flight counter never grows *)
Theorem c41_no_admission_after_stop : forall c st e,
  s_stopping st = true ->
  s_stopping (sstep c st e) = true /\ s_inflight (sstep c st e) <= s_inflight st.
Proof. exact no_admission_after_stop. Qed.
Print Assumptions c41_no_admission_after_stop.

(* real-time form: a task admitted by the pipeline was submitted no later than the
   return of every stop call *)
Theorem c41_no_admission_after_stop_realtime : forall c evs x s,
  In x (s_subs (srun c evs)) -> hb_acc x = true -> In s (s_stops (srun c evs)) -> hb_t0 x <= hp_t1 s.
Proof. exact fence_rt. Qed.
Print Assumptions c41_no_admission_after_stop_realtime.

(* every task admitted before the stop has its terminal result once the drain is done ... *)
Theorem c41_admitted_get_terminal : forall c evs x,
  s_done (srun c evs) = true -> In x (s_subs (srun c evs)) -> hb_acc x = true ->
  exists e, In e (s_terms (srun c evs)) /\ ht_task e = hb_task x.
Proof. exact admitted_get_terminal. Qed.
Print Assumptions c41_admitted_get_terminal.

(* ... strictly before any stop call returns nil *)
Theorem c41_stop_returns_after_terminal : forall c evs s x,
  In s (s_stops (srun c evs)) -> hp_ok s = true -> In x (s_subs (srun c evs)) -> hb_acc x = true ->
  exists e, In e (s_terms (srun c evs)) /\ ht_task e = hb_task x /\ ht_t e < hp_t1 s.
Proof. exact stop_after_terminal. Qed.
Print Assumptions c41_stop_returns_after_terminal.

(* at most one terminal result per task, and only for admitted tasks *)
Theorem c41_terminal_once : forall c evs,
  NoDup (map ht_task (s_terms (srun c evs)))
  /\ forall e, In e (s_terms (srun c evs)) ->
       exists x, In x (s_subs (srun c evs)) /\ hb_task x = ht_task e /\ hb_acc x = true.
Proof. exact terminal_once. Qed.
Print Assumptions c41_terminal_once.

(* a stop whose caller deadline expires does not cancel or discard admitted work
   (Group.Stop, DrainSends, Quiesce: no cancel-on-deadline):
   structurally — the deadline step touches nothing but the caller's bookkeeping — *)
Theorem c41_deadline_does_not_cancel : forall c st d,
  sc_cod c = false ->
  let st' := sstep c st (SStop d true) in
  s_tpc st' = s_tpc st /\ s_inflight st' = s_inflight st /\ s_cancelled st' = s_cancelled st
  /\ s_subs st' = s_subs st /\ s_terms st' = s_terms st /\ s_done st' = s_done st
  /\ (s_dstarted st = true -> s_dstarted st' = true).
Proof. exact deadline_step_structural. Qed.
Print Assumptions c41_deadline_does_not_cancel.

(* — and globally: the runtime is cancelled only after the drain found nothing in
   flight, so no admitted task ever ends cancelled *)
Theorem c41_cancel_only_after_drain : forall c evs,
  sc_cod c = false -> s_cancelled (srun c evs) = true ->
  s_done (srun c evs) = true /\ s_inflight (srun c evs) = 0.
Proof. exact cancel_only_after_drain. Qed.
Print Assumptions c41_cancel_only_after_drain.

Theorem c41_never_cancelled : forall c evs e,
  sc_cod c = false -> In e (s_terms (srun c evs)) -> ht_res e <> RCancel.
Proof. exact never_cancelled. Qed.
Print Assumptions c41_never_cancelled.

(* a later stop call reuses the drain that is already running *)
Theorem c41_second_stop_reuses : forall c st d timeout,
  s_dstarted st = true ->
  let st' := sstep c st (SStop d timeout) in
  s_dstarted st' = true /\ s_tpc st' = s_tpc st /\ s_inflight st' = s_inflight st
  /\ s_subs st' = s_subs st /\ s_terms st' = s_terms st /\ (s_done st = true -> s_done st' = true).
Proof. exact second_stop_reuses. Qed.
Print Assumptions c41_second_stop_reuses.

(* the monitor evaluated on implementation histories accepts every history of the model *)
Theorem c41_model_satisfies_monitor : forall c evs comp final,
  sc_cod c = false -> (final = true -> squiescent (srun c evs)) ->
  smonitor comp final (shist_of (srun c evs)) = 0.
Proof. exact smonitor_model. Qed.
Print Assumptions c41_model_satisfies_monitor.

(* delivery.Runtime.Stop is the one stop of the pipeline that cancels on an expired
   deadline: the third clause of the property is FALSE for it.  Witness (model): two
   admitted plans, a Stop whose deadline expires while they are pending, both end
   cancelled; reproduced on the real code (corpus/C41, known-finding signature 2). *)
Theorem c41_runtime_stop_refuted :
  exists c evs e, sc_cod c = true /\ In e (s_terms (srun c evs)) /\ ht_res e = RCancel
                  /\ smonitor 3 true (shist_of (srun c evs)) = 2.
Proof. exact runtime_stop_refuted. Qed.
Print Assumptions c41_runtime_stop_refuted.

(* and that signature is the only way the monitor can be non-zero on the model of Runtime.Stop *)
Theorem c41_runtime_stop_only_known_signature : forall c evs final,
  (final = true -> squiescent (srun c evs)) ->
  smonitor 3 final (shist_of (srun c evs)) = 0 \/ smonitor 3 final (shist_of (srun c evs)) = 2.
Proof. exact smonitor_model_cod. Qed.
Print Assumptions c41_runtime_stop_only_known_signature.

(* the atomicity the theorems rest on is the code's: lifecycle check and admission under ONE
   lock.  On the variant [sstep_split] (check and admission in separate critical sections —
   the seeded change C41-a) a stop completes in between: the drain is done, yet a task is
   admitted afterwards, stays in flight without terminal result, and the monitor is 1 *)
Theorem c41_split_check_refuted :
  let c := SCfg 1 false in
  let evs := [SSubmit 0; STask 0 ROk; SStopCall 0; SStop 0 false; SStop 0 false; SDrainer; SStop 0 false; STask 0 ROk] in
  let st := srun_split c evs in
  s_done st = true /\ s_inflight st = 1 /\ s_tpc st 0%nat = TWork
  /\ map hb_acc (s_subs st) = [true] /\ s_terms st = [] /\ map hp_ok (s_stops st) = [true]
  /\ smonitor 1 false (shist_of st) = 1
  /\ smonitor 1 false (shist_of (srun c evs)) = 0.
Proof. exact split_check_refuted. Qed.
Print Assumptions c41_split_check_refuted.

(* non-vacuity: a stop with an expiring deadline, a second stop that joins the same drain,
   a submit after the stop is rejected, the admitted task completes normally *)
Example c41_example_run :
  let c := SCfg 3 false in
  let evs := [SSubmit 0; STask 0 ROk; SStopCall 0; SStop 0 false; SStop 0 false; SStop 0 true;
              SSubmit 1; STask 1 ROk; STask 0 ROk; SStopCall 1; SStop 1 false; SStop 1 false; SDrainer; SStop 1 false] in
  let st := srun c evs in
  map (fun x => (hb_task x, hb_acc x)) (s_subs st) = [(0%nat, true); (1%nat, false)]
  /\ map (fun e => (ht_task e, ht_res e)) (s_terms st) = [(0%nat, ROk)]
  /\ map hp_ok (s_stops st) = [false; true] /\ s_cancelled st = true /\ s_inflight st = 0
  /\ smonitor 1 true (shist_of st) = 0.
Proof. vm_compute. repeat split; reflexivity. Qed.
