(* C21 — Every component routes a key to the same hash slot.
   Only statements, each closed by [exact] of a lemma from Proof/Crc32.v. *)
From WK Require Import Base.Base Gen.Consts_C21 Model.Crc32 Proof.Crc32.
Open Scope N_scope.

(* the table the code reads is the table of the IEEE polynomial 0xEDB88320 *)
Theorem c21_table_is_ieee : gen_table = IEEETable.
Proof. exact table_is_ieee. Qed.
Print Assumptions c21_table_is_ieee.

(* checksumIEEEString (table loop) = CRC-32 definition, for every byte string *)
Theorem c21_table_eq_spec : forall key, all_bytes key = true ->
  crc32_table key = crc32_bitwise key.
Proof. exact crc32_table_eq_bitwise. Qed.
Print Assumptions c21_table_eq_spec.

(* every component computes the same hash slot for the same key and count *)
Theorem c21_components_agree : forall key count, all_bytes key = true ->
  routing_slot key count = hashslot_slot key count.
Proof. exact slots_agree. Qed.
Print Assumptions c21_components_agree.

(* the value is below the count (counts 1..65535 and beyond) *)
Theorem c21_lt_count : forall key count, 0 < count ->
  routing_slot key count < count /\ hashslot_slot key count < count.
Proof. intros key count H. split; [exact (routing_slot_lt key count H) | exact (hashslot_slot_lt key count H)]. Qed.
Print Assumptions c21_lt_count.

(* the monitor evaluated on implementation traces accepts exactly what the model produces *)
Theorem c21_model_satisfies_monitor : forall key count, all_bytes key = true ->
  C21_monitor (C21Case key count (routing_slot key count) (hashslot_slot key count)
                       (hashslot_slot key count) (crc32_table key) (crc32_bitwise key)) = 0.
Proof. exact model_satisfies_monitor. Qed.
Print Assumptions c21_model_satisfies_monitor.

(* non-vacuity: a concrete key *)
Example c21_example : routing_slot (hx "7531") 1024 = hashslot_slot (hx "7531") 1024
                      /\ crc32_bitwise (hx "313233343536373839") = 3421780262.
Proof. split; vm_compute; reflexivity. Qed.
