(* C38 — Backup archives are self-verifying.
   Only statements, each closed by [exact] of a lemma from Proof/Archive*.v.

   Everything below is about Model/Archive.v (pkg/backup) at the instance where stored
   objects are byte strings, json.Marshal is the concrete canonical encoder
   [enc_*_bytes] and the canonical-form check is byte equality with it
   ([canon_*_bytes]).  SHA-256 is an arbitrary function [H] (conclusions are
   "verification fails, or here is a collision of H"), Zstandard decoding [unz] and
   the strict JSON decoders [json_*] are arbitrary functions; what a theorem needs from
   them is an explicit hypothesis. *)
From WK Require Import Base.Base Gen.Consts_C38 Model.Archive Model.Archive_C38.
From WK Require Import Proof.Archive Proof.Archive_binding Proof.Archive_publish Proof.Archive_bytes Proof.Archive_monitor.
Open Scope N_scope.

(* ---- VerifyPublishedArchive accepts exactly the complete, bound archives --------------------- *)

(* [consistentb st id m] (Model/Archive.v) says, object by object: no CORRUPT marker;
   manifest.json and COMPLETE exist with honestly reported sizes within the cap; the manifest is
   the canonical encoding of the valid manifest m with m.ID = id; COMPLETE is the canonical valid
   marker naming the manifest's size and digest; the i-th Slot reference has hash slot i and its
   manifest object is a canonical valid Slot manifest of that slot with the referenced digest
   and totals; every chunk object has the size the store reports, decodes, and matches both
   sizes and both digests of its descriptor. *)
Theorem c38_verify_iff_consistent :
  forall H unz json_archive json_slot json_marker st id m,
    verify_b H unz json_archive json_slot json_marker st id = Ok m
    <-> consistent_b H unz json_archive json_slot json_marker st id m = true.
Proof. exact verify_iff_consistent_b. Qed.
Print Assumptions c38_verify_iff_consistent.

(* ---- a published archive verifies and reproduces its manifest -------------------------------- *)

(* PublishArchive (internal/runtime/backup) answered Ok m on a repository that had no CORRUPT
   marker for the id  =>  VerifyPublishedArchive on the resulting repository answers Ok m.
   Needed from the JSON layer: the strict decoder gives back a valid marker from its encoding,
   and decoding a manifest's encoding canonically can only give that manifest. *)
Theorem c38_published_verifies :
  forall H unz json_archive json_slot json_marker json_repo st rq st' m,
    (forall k, validate_complete_marker k = None -> json_marker (enc_complete_marker_bytes k) = Some k) ->
    (forall a a', json_archive (enc_archive_manifest_bytes a) = Some a' ->
                  canon_archive_bytes a' (enc_archive_manifest_bytes a) = true -> a' = a) ->
    publish_b H unz json_archive json_slot json_marker json_repo st rq = (st', Ok m) ->
    get bytes st (corrupt_key (pr_id rq)) = None ->
    verify_b H unz json_archive json_slot json_marker st' (pr_id rq) = Ok m.
Proof. exact published_verifies_b. Qed.
Print Assumptions c38_published_verifies.

(* ---- any change is detected -------------------------------------------------------------------- *)

(* st verifies; st' is ANY repository that keeps manifest.json or COMPLETE of st and differs from
   st (contents, reported size, presence) on at least one object the archive reaches (the two
   top-level objects, every Slot manifest, every chunk): then verification of st' fails, or
   an explicit collision of H is exhibited.  Covers single and multiple mutations, swaps
   (reordering), truncation/extension, deletion, size lies. *)
Theorem c38_mutation_detected :
  forall H unz json_archive json_slot json_marker st st' id m,
    verify_b H unz json_archive json_slot json_marker st id = Ok m ->
    (get bytes st' (manifest_key id) = get bytes st (manifest_key id)
     \/ get bytes st' (complete_key id) = get bytes st (complete_key id)) ->
    (exists k, In k (reachable_b json_slot st id m) /\ get bytes st' k <> get bytes st k) ->
    (exists e, verify_b H unz json_archive json_slot json_marker st' id = Err e) \/ collision_b H.
Proof. exact mutation_detected_b. Qed.
Print Assumptions c38_mutation_detected.

(* one object replaced: other contents and/or another reported size *)
Theorem c38_single_mutation_detected :
  forall H unz json_archive json_slot json_marker st id m k b sz b' sz',
    verify_b H unz json_archive json_slot json_marker st id = Ok m ->
    In k (reachable_b json_slot st id m) -> get bytes st k = Some (b, sz) -> (b', sz') <> (b, sz) ->
    (exists e, verify_b H unz json_archive json_slot json_marker (put bytes k b' sz' st) id = Err e) \/ collision_b H.
Proof. exact single_put_detected_b. Qed.
Print Assumptions c38_single_mutation_detected.

(* one object removed *)
Theorem c38_deletion_detected :
  forall H unz json_archive json_slot json_marker st id m k,
    verify_b H unz json_archive json_slot json_marker st id = Ok m ->
    In k (reachable_b json_slot st id m) -> get bytes st k <> None ->
    (exists e, verify_b H unz json_archive json_slot json_marker (del bytes k st) id = Err e) \/ collision_b H.
Proof. exact delete_detected_b. Qed.
Print Assumptions c38_deletion_detected.

(* two objects exchanged (chunk or manifest order) *)
Theorem c38_swap_detected :
  forall H unz json_archive json_slot json_marker st id m k1 k2 b1 s1 b2 s2,
    verify_b H unz json_archive json_slot json_marker st id = Ok m -> In k1 (reachable_b json_slot st id m) ->
    k1 <> manifest_key id -> k2 <> manifest_key id -> k1 <> k2 ->
    get bytes st k1 = Some (b1, s1) -> get bytes st k2 = Some (b2, s2) -> (b1, s1) <> (b2, s2) ->
    (exists e, verify_b H unz json_archive json_slot json_marker (put bytes k1 b2 s2 (put bytes k2 b1 s1 st)) id = Err e)
    \/ collision_b H.
Proof. exact swap_detected_b. Qed.
Print Assumptions c38_swap_detected.

(* the general form, for any type of object contents: two repositories holding consistent
   archives whose top-level manifests have the same digest agree on every reachable object *)
Theorem c38_archives_bound :
  forall (body : Type) blen H unz json_archive json_slot json_marker canon_archive canon_slot canon_marker enc_marker
         (body_eq_dec : forall a b : body, {a = b} + {a <> b}),
    (forall k kb, canon_marker k kb = true -> kb = enc_marker k) ->
    forall st st' id m m' mb mb' sz sz',
    consistentb body blen H unz json_archive json_slot json_marker canon_archive canon_slot canon_marker st id m = true ->
    consistentb body blen H unz json_archive json_slot json_marker canon_archive canon_slot canon_marker st' id m' = true ->
    get body st (manifest_key id) = Some (mb, sz) -> get body st' (manifest_key id) = Some (mb', sz') ->
    H mb = H mb' ->
    collision body H
    \/ (m = m' /\ forall k, In k (reachable body json_slot canon_slot st id m) -> get body st k = get body st' k).
Proof. exact archives_bound. Qed.
Print Assumptions c38_archives_bound.

(* ---- the decoders are strict and bounded -------------------------------------------------------- *)

(* a manifest decoder accepts a byte string iff it is exactly the canonical encoding of a
   manifest that passes validation (so: no unknown / duplicate / reordered fields, no other
   spelling of a value, no surrounding bytes — whatever the JSON layer tolerates) *)
Theorem c38_decoder_strict_archive :
  forall json_archive b m,
    load_archive_manifest bytes json_archive canon_archive_bytes b = Ok m <->
    json_archive b = Some m /\ validate_archive_manifest m = None /\ b = enc_archive_manifest_bytes m.
Proof. exact load_archive_strict. Qed.
Print Assumptions c38_decoder_strict_archive.

Theorem c38_decoder_strict_slot :
  forall json_slot b m,
    load_slot_manifest bytes json_slot canon_slot_bytes b = Ok m <->
    json_slot b = Some m /\ validate_slot_manifest m = None /\ b = enc_slot_manifest_bytes m.
Proof. exact load_slot_strict. Qed.
Print Assumptions c38_decoder_strict_slot.

Theorem c38_decoder_strict_marker :
  forall H json_archive json_marker kb mb k,
    load_complete_marker bytes blen_bytes H json_archive json_marker canon_archive_bytes canon_marker_bytes kb mb = Ok k ->
    kb = enc_complete_marker_bytes k /\ validate_complete_marker k = None
    /\ cm_bytes k = blen_bytes mb /\ cm_sha k = H mb
    /\ exists m, mb = enc_archive_manifest_bytes m /\ validate_archive_manifest m = None.
Proof. exact load_marker_strict. Qed.
Print Assumptions c38_decoder_strict_marker.

(* message chunk indexes: strict, and at most maxMessageChunks entries *)
Theorem c38_decoder_strict_msg :
  forall json_msg b m,
    load_message_chunk_manifest bytes json_msg canon_msg_bytes b = Ok m ->
    json_msg b = Some m /\ validate_message_chunk_manifest m = None /\ b = enc_msg_manifest_bytes m
    /\ N.of_nat (length (mm_chunks m)) <= maxMessageChunks.
Proof. exact load_msg_strict. Qed.
Print Assumptions c38_decoder_strict_msg.

(* ReadStoredObject pulls at most maxBytes+1 bytes from the object, and what it returns is the
   stored object, honestly sized, non-empty and within the cap *)
Theorem c38_read_bounded :
  forall (body : Type) (blen : body -> N) st key maxb,
    read_pulled body blen st key maxb <= maxb + 1
    /\ forall b, read_stored_object body blen st key maxb = Ok b ->
                 get body st key = Some (b, blen b) /\ 0 < blen b /\ blen b <= maxb.
Proof. exact read_bounded. Qed.
Print Assumptions c38_read_bounded.

(* the encoding of a valid COMPLETE marker is a small non-empty object *)
Theorem c38_marker_encoding_small :
  forall k, validate_complete_marker k = None -> cm_bytes k <= maxArchiveManifestBytes ->
    0 < blen_bytes (enc_complete_marker_bytes k) /\ blen_bytes (enc_complete_marker_bytes k) <= maxStoredManifestBytes.
Proof. exact enc_marker_small. Qed.
Print Assumptions c38_marker_encoding_small.

(* ---- the monitor evaluated on implementation traces is this property ----------------------- *)

(* on every case (codec ops or archive history) on which the implementation's answers agree
   with the model's, the monitor holds: its clauses are consequences of the theorems above
   (verify <-> consistent, published => consistent, accepted <-> canonical valid encoding) *)
Theorem c38_model_satisfies_monitor : forall c, C38_mismatch c = false -> C38_monitor c = 0.
Proof. exact agree_monitor. Qed.
Print Assumptions c38_model_satisfies_monitor.

(* ---- non-vacuity ------------------------------------------------------------------------------- *)

(* the canonical encoder on a small marker; key and digest validators *)
Example c38_example_marker :
  enc_complete_marker_bytes (CM CompleteMarkerFormat 1 (sx "00") 7)
  = sx "{""format"":""wukongim-full-backup-complete"",""version"":1,""manifest_sha256"":""00"",""manifest_bytes"":7}".
Proof. vm_compute. reflexivity. Qed.

(* json string escaping: a < b U+2028 (invalid byte ff) "   ->   "a\u003cb\u2028\ufffd\"" *)
Example c38_example_escapes :
  jstr (hx "613c62e280a8ff22") = hx "22615c7530303363625c75323032385c75666666645c2222".
Proof. vm_compute. reflexivity. Qed.

Example c38_example_keys :
  validate_repository_key (sx "slots/007/manifest.json") = true
  /\ validate_repository_key (sx "slots/../x") = false
  /\ validate_slot_manifest_key 7 (sx "slots/007/attempts/00000001/manifest.json") = true
  /\ validate_slot_manifest_key 8 (sx "slots/007/manifest.json") = false.
Proof. vm_compute. repeat split; reflexivity. Qed.

(* a tiny repository on which reads behave as stated *)
Example c38_example_read :
  read_stored_object bytes blen_bytes (put bytes (sx "k") (sx "abc") 3 []) (sx "k") 10 = Ok (sx "abc")
  /\ read_stored_object bytes blen_bytes (put bytes (sx "k") (sx "abc") 4 []) (sx "k") 10 = Err ECorrupt
  /\ read_stored_object bytes blen_bytes (put bytes (sx "k") (sx "abc") 3 []) (sx "k") 2 = Err ECorrupt.
Proof. vm_compute. repeat split; reflexivity. Qed.
