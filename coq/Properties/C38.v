(* C38 — placeholder while the harness/model tie is being brought up. *)
From WK Require Import Base.Base Gen.Consts_C38 Model.Archive Model.Archive_C38.
Open Scope N_scope.
Example c38_placeholder : validate_sha256 (sx "00") = false.
Proof. vm_compute. reflexivity. Qed.
