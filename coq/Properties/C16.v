(* C16 — placeholder, replaced below *)
From WK Require Import Base.Base Model.Membership Model.Membership_C16.
