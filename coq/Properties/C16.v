(* C16 — Per-user conversation cursors are monotonic.
   Only statements, each closed by [exact] of a lemma from Proof/Membership*.v.

   Vocabulary (Model/Membership.v, Model/Membership_C16.v): [mut] = one public
   meta.Shard / meta.WriteBatch call on a UserChannelMembership or
   UserCMDChannelMembership row; [c16_op] = a direct call, a committed-or-refused
   write batch, or a complete paginated directory pass; [c16_exec] = the state
   after a history from an empty DB; [get_row] / [get_cmd] = what
   GetUserChannelMembership / GetUserCMDChannelMembership return;
   [membership_boundary k a us] / [cmd_boundary k a us] = the monitor's
   classification "the mutations [us] contain a delete / recreate boundary for
   the row [a] of key k" (a delete; an Upsert of a live row with a newer source
   version on a (possibly) tombstoned row; an Ensure with a newer source version
   on a row that (possibly) already has a non-zero one; for CMD rows a live
   Upsert on a (possibly) tombstoned binding).  "Incarnation" reading of the
   property text as fixed in DESIGN.md §7: cursors never move backwards within
   one incarnation of the row. *)
From WK Require Import Base.Base Gen.Consts_C16 Model.Membership Model.Membership_C16
  Proof.Membership Proof.Membership_C16 Proof.Membership_order Proof.Membership_scan
  Proof.Membership_monitor.
From Coq Require Import Sorting.Sorted.
Open Scope N_scope.

(* ---- cursors ----------------------------------------------------------------------------- *)

(* c16_cursor_monotone: between any two points of any history (direct calls,
   batches, passes, replays, in any interleaving), if the mutations in between
   contain no boundary for the row, the row is still there and ReadSeq,
   DeletedToSeq and SourceVersion have not moved backwards *)
Theorem c16_cursor_monotone : forall pre ops k a,
  get_row (c16_exec mstate_empty pre) k = Some a ->
  membership_boundary k a (flat_map op_muts ops) = false ->
  exists b, get_row (c16_exec mstate_empty (pre ++ ops)) k = Some b
            /\ m_read_seq a <= m_read_seq b /\ m_deleted_to_seq a <= m_deleted_to_seq b
            /\ m_source_version a <= m_source_version b.
Proof. exact cursor_monotone_fields. Qed.
Print Assumptions c16_cursor_monotone.

(* the command-channel acknowledgement sequence likewise *)
Theorem c16_ack_monotone : forall pre ops k a,
  get_cmd (c16_exec mstate_empty pre) k = Some a ->
  cmd_boundary k a (flat_map op_muts ops) = false ->
  exists b, get_cmd (c16_exec mstate_empty (pre ++ ops)) k = Some b /\ c_ack_seq a <= c_ack_seq b.
Proof. exact history_ack_monotone. Qed.
Print Assumptions c16_ack_monotone.

(* c16_recreate_needs_newer_source: the only steps at which a cursor may decrease
   are a delete of the key or an Upsert / Ensure of that key carrying a source
   version strictly greater than the stored row's *)
Theorem c16_recreate_needs_newer_source : forall k a us,
  membership_boundary k a us = true ->
  exists u, In u us /\
    (u = MDelete k
     \/ exists slot m, (u = MUpsert slot m \/ u = MEnsure slot m)
                       /\ membership_key slot m = k /\ m_source_version a < m_source_version m).
Proof. exact recreate_needs_newer_source. Qed.
Print Assumptions c16_recreate_needs_newer_source.

(* for CMD rows the only such step is rebinding: an Upsert of a live binding *)
Theorem c16_ack_reset_needs_rebind : forall k a us,
  cmd_boundary k a us = true ->
  exists slot c, In (MCmdUpsert slot c) us /\ cmd_membership_key slot c = k /\ c_tombstone c = false.
Proof. exact ack_reset_needs_rebind. Qed.
Print Assumptions c16_ack_reset_needs_rebind.

(* c16_stale_source_refused: a subscriber-derived Upsert with an older source
   version, or an Ensure with a source version not newer than the stored one,
   leaves the row unchanged (any state) *)
Theorem c16_stale_source_refused : forall st slot m a,
  get_row st (membership_key slot m) = Some a ->
  (m_source_version m < m_source_version a ->
   get_row (snd (direct_apply st (MUpsert slot m))) (membership_key slot m) = Some a)
  /\ (m_source_version m <= m_source_version a ->
      get_row (snd (direct_apply st (MEnsure slot m))) (membership_key slot m) = Some a).
Proof. exact stale_source_refused. Qed.
Print Assumptions c16_stale_source_refused.

(* c16_tombstone_ignores_personal: read advance / activate / hide on a tombstoned
   membership change nothing *)
Theorem c16_tombstone_ignores_personal : forall st u k a,
  get_row st k = Some a -> m_tombstone a = true -> personal_call u k ->
  snd (direct_apply st u) = st.
Proof. exact tombstone_ignores_personal. Qed.
Print Assumptions c16_tombstone_ignores_personal.

(* ---- directory index and passes -------------------------------------------------------------- *)

(* c16_index_consistent: in every reachable state the activation index holds
   exactly one entry per row, keyed by the row's current ActivatedAt *)
Theorem c16_index_consistent : forall ops e,
  let st := c16_exec mstate_empty ops in
  (In e (st_index st) <-> exists k row, get_row st k = Some row /\ e = activation_entry (k_slot k) row)
  /\ NoDup (st_index st).
Proof. exact index_consistent_full. Qed.
Print Assumptions c16_index_consistent.

(* the listing of (slot, uid): exactly its rows, once each, ordered by
   (ActivatedAt descending, channel id in key order, channel type) *)
Theorem c16_directory_listing_exact : forall pre slot uid,
  let st := c16_exec mstate_empty pre in
  (forall m, In m (directory_listing st slot uid) <->
             exists k, k_slot k = slot /\ k_uid k = uid /\ get_row st k = Some m)
  /\ NoDup (directory_listing st slot uid)
  /\ StronglySorted (fun a b => entry_compare (activation_entry slot a) (activation_entry slot b) = Lt)
       (directory_listing st slot uid).
Proof. exact listing_exact. Qed.
Print Assumptions c16_directory_listing_exact.

(* c16_pagination_exact: from any reachable state, a complete pass with any
   positive page sizes, interleaved with any calls on other users' rows, ends
   with done and returns exactly that listing, provided the listed rows have
   non-negative activation times (the cursor validation of the code refuses
   negative ones: c16_negative_activation_stops_pass) and the page budget exceeds
   the number of rows *)
Theorem c16_pagination_exact : forall pre slot uid limits between fuel,
  let st := c16_exec mstate_empty pre in
  validateKeyString uid = true ->
  Forall (fun l => (0 < l)%Z) limits ->
  Forall (fun u => bytes_eqb (mut_uid u) uid = false) between ->
  (forall m, In m (directory_listing st slot uid) -> (0 <= m_activated_at m)%Z) ->
  (length (directory_listing st slot uid) < fuel)%nat ->
  let '(ps, _, _) := scan_pass fuel st slot uid limits between 0 page_cursor_zero in
  pages_well_formed ps = true /\ pages_rows ps = directory_listing st slot uid.
Proof. exact pagination_exact. Qed.
Print Assumptions c16_pagination_exact.

(* ---- the monitor evaluated on implementation traces accepts every model trace ------------------ *)

(* [ops_covered mkeys ops]: the alphabet contains every membership key a valid
   mutation of the history addresses (the harness builds it that way) *)
Theorem c16_model_satisfies_monitor : forall mkeys ckeys ops,
  NoDup mkeys -> ops_covered mkeys ops ->
  C16_monitor (C16History mkeys ckeys (c16_run mkeys ckeys mstate_empty ops)) = 0.
Proof. exact history_model_satisfies_monitor. Qed.
Print Assumptions c16_model_satisfies_monitor.

Theorem c16_resolve_model_satisfies_monitor : forall existing exists_ incoming,
  C16_monitor (C16Resolve existing exists_ incoming
                 (resolveUserChannelMembership existing exists_ incoming)
                 (resolveEnsuredUserChannelMembership existing exists_ incoming)) = 0.
Proof. exact resolve_model_satisfies_monitor. Qed.
Print Assumptions c16_resolve_model_satisfies_monitor.

Theorem c16_resolve_cmd_model_satisfies_monitor : forall existing exists_ incoming,
  C16_monitor (C16ResolveCmd existing exists_ incoming
                 (resolveUserCMDChannelMembership existing exists_ incoming)) = 0.
Proof. exact resolve_cmd_model_satisfies_monitor. Qed.
Print Assumptions c16_resolve_cmd_model_satisfies_monitor.

(* ---- Examples ------------------------------------------------------------------------------------ *)

(* read advance, hide, and an older read: cursors only grow *)
Example c16_example_history :
  let k := example_key (hx "61") in
  let st := c16_exec mstate_empty
              [OpDirect (MUpsert 5 (example_row (hx "61") 3 0 10%Z false 1));
               OpDirect (MAdvanceRead k 8 200%Z); OpDirect (MHide k 5 300%Z);
               OpBatch [MAdvanceRead k 4 400%Z; MActivate k 30%Z 400%Z]] in
  get_row st k = Some (Membership (hx "7531") (hx "61") 2%Z 1 8 5 30%Z false 0%Z 1 400%Z).
Proof. vm_compute. reflexivity. Qed.

(* the recreate boundary: a rejoin with a newer source version on a tombstone
   installs the incoming row (cursors restart), and the monitor classifies it *)
Example c16_example_recreate :
  let k := example_key (hx "61") in
  let pre := [OpDirect (MUpsert 5 (example_row (hx "61") 9 9 10%Z false 1));
              OpDirect (MUpsert 5 (example_row (hx "61") 0 0 0%Z true 2))] in
  let u := MUpsert 5 (example_row (hx "61") 2 0 0%Z false 3) in
  (exists a, get_row (c16_exec mstate_empty pre) k = Some a /\ m_read_seq a = 9
             /\ membership_boundary k a [u] = true)
  /\ (exists b, get_row (c16_exec mstate_empty (pre ++ [OpDirect u])) k = Some b /\ m_read_seq b = 2).
Proof. vm_compute. split; eexists; repeat split; reflexivity. Qed.

(* the same write with the stored source version is refused as far as cursors go *)
Example c16_example_same_version_keeps_cursors :
  let k := example_key (hx "61") in
  let st := c16_exec mstate_empty
              [OpDirect (MUpsert 5 (example_row (hx "61") 9 9 10%Z false 1));
               OpDirect (MUpsert 5 (example_row (hx "61") 0 0 0%Z true 2));
               OpDirect (MUpsert 5 (example_row (hx "61") 2 0 0%Z false 2))] in
  exists b, get_row st k = Some b /\ m_read_seq b = 9 /\ m_tombstone b = false.
Proof. vm_compute. eexists. repeat split; reflexivity. Qed.

(* a pass over three rows with page sizes 1,2 in key order: (act 30, "b"), (act 10, "a"), (act 10, "ab"):
   the shorter channel id sorts first inside one activation time *)
Example c16_example_pass :
  let st := c16_exec mstate_empty
              [OpBatch [MUpsert 5 (example_row (hx "6162") 0 0 10%Z false 1);
                        MUpsert 5 (example_row (hx "61") 0 0 10%Z false 1);
                        MUpsert 5 (example_row (hx "62") 0 0 30%Z false 1)]] in
  map m_channel_id (directory_listing st 5 (hx "7531")) = [hx "62"; hx "61"; hx "6162"]
  /\ (let '(ps, _, _) := scan_pass 8 st 5 (hx "7531") [1%Z; 2%Z] [] 0 page_cursor_zero in
      map (fun p => match p with PageObs rows _ done _ => (length rows, done) end) ps
      = [(1%nat, false); (2%nat, true)]).
Proof. vm_compute. split; reflexivity. Qed.

(* c16_negative_activation_stops_pass: an Upsert may store a negative ActivatedAt;
   the cursor returned after such a row is refused by the next page call, so the
   pass cannot be completed (hence the hypothesis of c16_pagination_exact) *)
Example c16_negative_activation_stops_pass :
  let st := c16_exec mstate_empty
              [OpBatch [MUpsert 5 (example_row (hx "61") 0 0 (-5)%Z false 1);
                        MUpsert 5 (example_row (hx "62") 0 0 (-7)%Z false 1)]] in
  let '(ps, _, _) := scan_pass 8 st 5 (hx "7531") [1%Z] [] 0 page_cursor_zero in
  map (fun p => match p with PageObs rows _ done err => (length rows, done, err) end) ps
  = [(1%nat, false, PageOk); (0%nat, false, PageInvalid)].
Proof. vm_compute. reflexivity. Qed.
