(* C32 — placeholder while the model is being tied; replaced by the theorem file. *)
From WK Require Import Base.Base Model.AckTracker.
Example c32_stub : t_count (NewAckTracker 0 0) = 0%Z.
Proof. reflexivity. Qed.
