(* C32 — Receive-acknowledgement tracking is exact.
   Statements only; each is closed by [exact] of a lemma of Proof/AckTracker*.v.
   Model: Model/AckTracker.v (internal/runtime/delivery/ack_tracker.go).

   [reachable t]: t is the tracker state after some sequential history of API
   calls (BindResult, Bind, BindBatch, FinishBind, FinishBindBatch, CancelBind,
   Ack, SessionClosed, Expire, Reset, clock moves) on a fresh tracker with any
   shard count and any per-session limit, the injected clock staying in
   [0, MaxInt64] and Expire's ttl being an int64. *)
From WK Require Import Base.Base Gen.Consts_C32 Model.AckTracker.
From WK Require Import Proof.AckTracker_sim3 Proof.AckTracker_sim4 Proof.AckTracker.
Open Scope N_scope.

(* the pending counter equals the number of rows of byMessage, whose keys are
   pairwise distinct (uid, session, message) identities *)
Theorem c32_count_exact : forall t,
  reachable t ->
  t_count t = Z.of_nat (length (t_byMessage t)) /\ NoDup (map fst (t_byMessage t)).
Proof. exact count_exact. Qed.
Print Assumptions c32_count_exact.

(* bySession is exactly the projection of byMessage (no stale, no missing message id) *)
Theorem c32_index_consistent : forall t,
  reachable t ->
  forall u s m,
    (exists ms, al_get skey_eqb (u, s) (t_bySession t) = Some ms /\ In m ms)
    <-> al_get key_eqb (u, s, m) (t_byMessage t) <> None.
Proof. exact index_consistent. Qed.
Print Assumptions c32_index_consistent.

(* an acknowledgement removes the matching identity and nothing else; it reports
   the stored delivery and decrements the counter iff the identity was pending *)
Theorem c32_ack_only_matching : forall t u s m,
  reachable t ->
  let '(t', r) := Ack t u s m in
  (forall k, k <> (u, s, m) -> al_get key_eqb k (t_byMessage t') = al_get key_eqb k (t_byMessage t))
  /\ al_get key_eqb (u, s, m) (t_byMessage t') = None
  /\ match al_get key_eqb (u, s, m) (t_byMessage t) with
     | Some e => r = RAck true (e_pending e) /\ t_count t' = (t_count t - 1)%Z
     | None => r = RAck false zero_pending /\ t' = t
     end.
Proof. exact ack_only_matching. Qed.
Print Assumptions c32_ack_only_matching.

(* rolling back the reservation [tok] of a (failed) delivery never removes an
   identity that has a committed (successful) delivery or another live
   reservation; no other identity changes and the counter stays *)
Theorem c32_cancel_keeps_committed : forall t p tok e,
  reachable t -> al_get key_eqb (key_of p) (t_byMessage t) = Some e ->
  e_committed e = true
  \/ ((e_primary e <> 0 /\ e_primary e <> tok) \/ exists a, In a (e_extra e) /\ a_token a <> tok) ->
  let '(t', r) := CancelBind t p tok in
  al_get key_eqb (key_of p) (t_byMessage t') <> None
  /\ (forall k, k <> key_of p -> al_get key_eqb k (t_byMessage t') = al_get key_eqb k (t_byMessage t))
  /\ t_count t' = t_count t
  /\ exists c, r = RCancel c false (t_count t).
Proof. exact cancel_keeps_committed. Qed.
Print Assumptions c32_cancel_keeps_committed.

(* closing a session removes exactly that session's identities and returns
   exactly their stored deliveries, each once *)
Theorem c32_session_closed_exact : forall t u s,
  reachable t ->
  let '(t', r) := SessionClosed t u s in
  exists ps, r = RList ps
  /\ (forall k, al_get key_eqb k (t_byMessage t') =
                if skey_eqb (key_skey k) (u, s) then None else al_get key_eqb k (t_byMessage t))
  /\ (forall p, In p ps <->
                exists k e, key_skey k = (u, s) /\ al_get key_eqb k (t_byMessage t) = Some e /\ p = e_pending e)
  /\ t_count t' = (t_count t - Z.of_nat (length ps))%Z
  /\ NoDup (map key_of ps).
Proof. exact session_closed_exact. Qed.
Print Assumptions c32_session_closed_exact.

(* Expire(ttl) at clock [now] removes an identity iff ttl > 0 and every delivery
   candidate of it (the committed snapshot / primary attempt and every extra
   in-flight attempt) is at least ttl old: (now - DeliveredAt) seconds >= ttl ns.
   Kept rows are unchanged, nothing appears, the result lists the removed rows. *)
Theorem c32_expire_only_idle : forall t now ttl,
  reachable t -> (0 <= now <= i64_max)%Z -> (ttl <= i64_max)%Z ->
  let '(t', r) := Expire t now ttl in
  (forall k e, al_get key_eqb k (t_byMessage t) = Some e ->
     (al_get key_eqb k (t_byMessage t') = None <->
      (0 < ttl)%Z /\ forall a, In a (entry_candidates e) -> (ttl <= (now - a) * time_second)%Z)
     /\ (al_get key_eqb k (t_byMessage t') = None \/ al_get key_eqb k (t_byMessage t') = Some e))
  /\ (forall k, al_get key_eqb k (t_byMessage t) = None -> al_get key_eqb k (t_byMessage t') = None)
  /\ exists ps, r = RList ps /\ t_count t' = (t_count t - Z.of_nat (length ps))%Z
     /\ (forall p, In p ps <-> exists k e, al_get key_eqb k (t_byMessage t) = Some e
                                /\ al_get key_eqb k (t_byMessage t') = None /\ p = e_pending e).
Proof. exact expire_only_idle. Qed.
Print Assumptions c32_expire_only_idle.

(* with MaxPendingPerSession > 0 no session ever holds more identities than the limit *)
Theorem c32_per_session_bound : forall t,
  reachable t -> (0 < t_limit t)%Z ->
  forall sk ms, al_get skey_eqb sk (t_bySession t) = Some ms -> (Z.of_nat (length ms) <= t_limit t)%Z.
Proof. exact per_session_bound. Qed.
Print Assumptions c32_per_session_bound.

(* the monitor evaluated on implementation traces (the specification tracker:
   set of outstanding identities, committed flag and live reservations per
   identity) accepts every history the model can produce: a monitor failure on
   a trace on which model and implementation agree is impossible *)
Theorem c32_model_satisfies_monitor : forall shards limit now ops,
  (0 <= now <= i64_max)%Z -> Forall op_in_range ops ->
  let '((t, _), tr) := run (NewAckTracker shards limit, now) ops in
  C32_monitor (C32Case shards limit now tr (t_byMessage t) (t_bySession t)) = 0.
Proof. exact model_satisfies_monitor. Qed.
Print Assumptions c32_model_satisfies_monitor.

(* ---- non-vacuity ------------------------------------------------------------------ *)
Definition ex_p (at_ : Z) : pending := Pend 1 7 3 0 0 0 at_.
(* three overlapping deliveries of one message, the middle extra attempt finishes
   first (swap-remove + primary moved into the slot), the primary rolls back,
   a fresher in-flight attempt protects the stale committed snapshot from
   expiry; then it expires, a second identity is closed with its session *)
Definition ex_ops : list op :=
  [ OBind (ex_p 100); OBind (ex_p 101); OClock 103; OBind (ex_p 0); OFinish (ex_p 0) 2; OCancel (ex_p 0) 1;
    OBind (Pend 1 7 4 0 0 0 0%Z); OClock 104; OExpire 3000000000; OCancel (ex_p 0) 3;
    OExpire 3000000000; OClose 1 7 ].

Example c32_example_history :
  Forall op_in_range ex_ops
  /\ map (fun s => snd s) (snd (run (NewAckTracker 0 2, 100%Z) ex_ops)) = [1; 1; 1; 1; 1; 1; 2; 2; 2; 2; 1; 0]%Z
  /\ (let '((t, _), tr) := run (NewAckTracker 0 2, 100%Z) ex_ops in
      C32_monitor (C32Case 0 2 100 tr (t_byMessage t) (t_bySession t))) = 0.
Proof.
  split; [|split; vm_compute; reflexivity].
  unfold ex_ops. repeat (apply Forall_cons; [cbn; try exact I; unfold i64_max; lia|]). apply Forall_nil.
Qed.

(* the monitor is not vacuous: the trace of the defect repaired in /repo commit
   db5f13b04 (ttl + time.Second - 1 wrapped for ttl near MaxInt64, so Expire
   dropped a delivery made in the same second) is rejected *)
Example c32_monitor_rejects_fresh_expiry :
  C32_monitor (C32Case 0 0 1000
    [ (OBind (ex_p 1000), RBind true true 1 1, 1%Z);
      (OFinish (ex_p 1000) 1, RBool true, 1%Z);
      (OExpire 9223372036854775807, RList [ex_p 1000], 0%Z) ] [] []) = 1.
Proof. vm_compute. reflexivity. Qed.

(* ... nor a rollback that drops a committed delivery, nor a counter that drifts *)
Example c32_monitor_rejects_lost_commit :
  C32_monitor (C32Case 0 0 1000
    [ (OBind (ex_p 1000), RBind true true 1 1, 1%Z);
      (OFinish (ex_p 1000) 1, RBool true, 1%Z);
      (OBind (ex_p 1001), RBind true false 2 1, 1%Z);
      (OCancel (ex_p 1001) 2, RCancel true true 0, 0%Z) ] [] []) = 1
  /\ C32_monitor (C32Case 0 0 1000
    [ (OBind (ex_p 1000), RBind true true 1 1, 1%Z);
      (OAck 1 7 3, RAck true (ex_p 1000), 1%Z) ] [((1, 7, 3), Ent (ex_p 1000) false 1 [])] [((1, 7), [3])]) = 1.
Proof. split; vm_compute; reflexivity. Qed.
