(* C33 — placeholder while the model is being tied; replaced by the theorem file. *)
From WK Require Import Base.Base Model.Presence.
Example c33_stub : d_touch (NewDirectory 0) = 0.
Proof. reflexivity. Qed.
