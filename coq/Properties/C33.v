(* C33 — Presence routing is fenced by slot authority.
   Statements only; each is closed by [exact] of a lemma of Proof/Presence*.v.
   Model: Model/Presence.v (internal/runtime/presence/{directory,expiry_index,types}.go).

   [reachable d]: d is the directory after some sequential history of API calls
   on a fresh directory (any local node id). *)
From WK Require Import Base.Base Gen.Consts_C33 Model.Presence.
From WK Require Import Proof.Presence_ops Proof.Presence_dir Proof.Presence Proof.Presence_mon.
From Coq Require Import Permutation Sorted.
Open Scope N_scope.

(* validateTargetLocked fails exactly when the target names another leader than
   the local node, or no authority is installed for the hash slot, or the
   installed identity differs in hash slot / slot id / leader / term / config epoch *)
Theorem c33_fence_condition : forall d g,
  validateTargetLocked d g = None <->
  (d_local d <> 0 /\ g_leader g <> d_local d)
  \/ al_get N.eqb (g_hs g) (d_slots d) = None
  \/ exists s, al_get N.eqb (g_hs g) (d_slots d) = Some s
               /\ (g_hs (sl_target s) <> g_hs g \/ g_slot (sl_target s) <> g_slot g \/ g_leader (sl_target s) <> g_leader g
                   \/ g_term (sl_target s) <> g_term g \/ g_epoch (sl_target s) <> g_epoch g).
Proof.
  intros d g. rewrite validate_none_iff. split; (intros [H|[H|[s [H1 H2]]]]; [left; exact H|right; left; exact H|]);
    right; right; exists s; (split; [exact H1|]); apply sameAuthorityIdentity_false; exact H2.
Qed.
Print Assumptions c33_fence_condition.

(* every targeted call (register, commit, abort, unregister, touch, lookups) whose
   target is not the installed authority returns ErrNotLeader, returns nothing
   else, and leaves the whole directory unchanged — in every state *)
Theorem c33_fenced : forall d o g,
  op_target o = Some g -> validateTargetLocked d g = None ->
  fst (step d o) = d /\ out_err (snd (step d o)) = Some ENotLeader
  /\ match snd (step d o) with
     | RRegister _ tok acts => tok = 0 /\ acts = []
     | RRoutes _ rs => rs = []
     | _ => True
     end.
Proof. exact fenced. Qed.
Print Assumptions c33_fenced.

(* the same per group of EndpointsByTargets (which never changes state) *)
Theorem c33_fenced_group : forall d gs i g uids,
  nth_error gs i = Some (g, uids) -> validateTargetLocked d g = None ->
  nth_error (EndpointsByTargets d gs) i = Some (ENotLeader, []).
Proof. exact fenced_groups. Qed.
Print Assumptions c33_fenced_group.

(* after an accepted UnregisterRoute(id, q) — any q, zero included — and for as
   long as the authority identity of that hash slot lasts (no LoseAuthority of the
   slot, no BecomeAuthority with a different identity), whatever is registered,
   committed or touched, id is active only with an owner sequence above q.
   (A new authority identity clears the fences by design.) *)
Theorem c33_tombstone : forall d g k q ops,
  reachable d -> validateTargetLocked d g <> None ->
  let d1 := fst (UnregisterRoute d g k q) in
  forall s1, al_get N.eqb (g_hs g) (d_slots d1) = Some s1 ->
  tenure_lasts (g_hs g) (sl_target s1) ops ->
  forall s2 r, al_get N.eqb (g_hs g) (d_slots (fst (run d1 ops))) = Some s2 ->
               al_get ikey_eqb k (sl_active s2) = Some r -> q < r_oseq r.
Proof. exact tombstone. Qed.
Print Assumptions c33_tombstone.

(* invariant form: no active route sits at or below its identity's fence *)
Theorem c33_active_above_fence : forall d hs s k r t,
  reachable d -> al_get N.eqb hs (d_slots d) = Some s -> al_get ikey_eqb k (sl_active s) = Some r ->
  al_get ikey_eqb k (sl_tomb s) = Some t -> t < r_oseq r.
Proof. exact active_above_fence. Qed.
Print Assumptions c33_active_above_fence.

(* ExpireRoutesDetailed(now, ttl) removes from every slot exactly the active
   routes with a set activity second s such that s + ttl < now (strictly; nothing
   when ttl <= 0 or now is the zero time), keeps the others unchanged and in
   place, and keeps authorities and fences *)
Theorem c33_expire_exact : forall d nowS nowN ttl,
  reachable d ->
  let d' := fst (ExpireRoutesDetailed d nowS nowN ttl) in
  forall hs, match al_get N.eqb hs (d_slots d), al_get N.eqb hs (d_slots d') with
             | Some s, Some s' =>
               sl_active s' = filter (fun kr : ikey * route => negb (route_due nowS nowN ttl (snd kr))) (sl_active s)
               /\ sl_target s' = sl_target s /\ sl_tomb s' = sl_tomb s
             | None, None => True
             | _, _ => False
             end.
Proof. exact expire_exact. Qed.
Print Assumptions c33_expire_exact.

(* lookups: for every slot of a reachable directory the routes returned for a uid
   are exactly the active routes of that uid, strictly increasing in
   (uid, session, node, boot) — hence without duplicates and independent of map order *)
Theorem c33_lookup_sorted : forall d hs s u,
  reachable d -> al_get N.eqb hs (d_slots d) = Some s ->
  Permutation (endpointsByUIDLocked s u)
              (map snd (filter (fun kr : ikey * route => r_uid (snd kr) =? u) (sl_active s)))
  /\ StronglySorted (fun a b => lessIdentityKey (makeRouteIdentityKey a) (makeRouteIdentityKey b) = true)
                    (endpointsByUIDLocked s u).
Proof.
  intros d hs s u R G. apply endpoints_sorted. apply (di_slots d (reachable_inv d R) hs s G).
Qed.
Print Assumptions c33_lookup_sorted.

(* a pending route is promoted only if every route that conflicts with it at
   commit time was acknowledged when it was registered *)
Theorem c33_conflict_commit : forall s tok s',
  commitRouteLocked s tok = (s', EOk) ->
  exists r acked, al_get N.eqb tok (sl_pending s) = Some (r, acked)
                  /\ forall ck, In ck (conflictsLocked s r) -> In ck acked.
Proof. exact conflict_commit. Qed.
Print Assumptions c33_conflict_commit.

(* the monitor evaluated on implementation traces accepts every trace of the model *)
Theorem c33_model_satisfies_monitor : forall localNode shards ops final,
  C33_monitor (C33Case localNode shards (encode_steps (snd (run (NewDirectory localNode) ops))) final) = 0.
Proof. exact model_satisfies_monitor. Qed.
Print Assumptions c33_model_satisfies_monitor.

(* ---- non-vacuity -------------------------------------------------------------------------- *)
Definition ex_g : target := Tg 1 1 1 2 1 1 0.
Definition ex_r (sess oseq : N) (seen : Z) : route := Rt 1 1 1 oseq sess sess 0 0 0 1000 seen.  (* device = session *)
Definition ex_ops : list op :=
  [ OBecome ex_g;
    ORegister ex_g (ex_r 2 3 0);
    ORegister (Tg 1 1 1 1 1 1 0) (ex_r 1 1 0);          (* stale term: fenced *)
    ORegister ex_g (ex_r 1 1 1002);
    OLookup ex_g [1];
    OUnregister ex_g (1, 1, 1, 1) 4;
    OTouch ex_g [ex_r 1 4 1003; ex_r 1 5 1004];          (* at the fence: ignored; above: recreated *)
    OExpire 1003 1 3000000000;                           (* 1000 + 3 s < 1003.000000001: the first route goes *)
    OLookup ex_g [1] ].

Example c33_example_history :
  map (fun s => snd (fst s)) (snd (run (NewDirectory 1) ex_ops))
  = [ RUnit; RRegister EOk 0 []; RRegister ENotLeader 0 []; RRegister EOk 0 [];
      RRoutes EOk [ex_r 1 1 1002; ex_r 2 3 1000]; RErr EOk; RErr EOk; RExpire 1 1 1 1 1;
      RRoutes EOk [ex_r 1 5 1004] ]
  /\ C33_monitor (C33Case 1 0 (encode_steps (snd (run (NewDirectory 1) ex_ops))) []) = 0.
Proof. split; vm_compute; reflexivity. Qed.

(* the monitor is not vacuous: a stale-term register that is accepted, a route
   revived at its unregister sequence (the defect repaired in /repo 5179e0ee9,
   sequence 0), a route expired exactly at its deadline and an unsorted lookup
   are all rejected *)
Example c33_monitor_rejects :
  C33_monitor (C33Case 1 0
    [ (OBecome ex_g, RUnit, None);
      (ORegister (Tg 1 1 1 1 1 1 0) (ex_r 1 1 0), RRegister EOk 0 [], Some [(1, (1, 1, 1, 1), 1, 1000%Z)]) ] []) = 1
  /\ C33_monitor (C33Case 1 0
    [ (OBecome ex_g, RUnit, None);
      (ORegister ex_g (ex_r 1 0 0), RRegister EOk 0 [], Some [(1, (1, 1, 1, 1), 0, 1000%Z)]);
      (OUnregister ex_g (1, 1, 1, 1) 0, RErr EOk, Some []);
      (OTouch ex_g [ex_r 1 0 1001], RErr EOk, Some [(1, (1, 1, 1, 1), 0, 1001%Z)]) ] []) = 1
  /\ C33_monitor (C33Case 1 0
    [ (OBecome ex_g, RUnit, None);
      (ORegister ex_g (ex_r 1 1 0), RRegister EOk 0 [], Some [(1, (1, 1, 1, 1), 1, 1000%Z)]);
      (OExpire 1003 0 3000000000, RExpire 1 1 1 0 0, Some []) ] []) = 1
  /\ C33_monitor (C33Case 1 0
    [ (OBecome ex_g, RUnit, None);
      (ORegister ex_g (ex_r 2 1 0), RRegister EOk 0 [], Some [(1, (1, 1, 1, 2), 1, 1000%Z)]);
      (ORegister ex_g (ex_r 1 1 0), RRegister EOk 0 [],
       Some [(1, (1, 1, 1, 1), 1, 1000%Z); (1, (1, 1, 1, 2), 1, 1000%Z)]);
      (OLookup ex_g [1], RRoutes EOk [ex_r 2 1 1000; ex_r 1 1 1000], None) ] []) = 1.
Proof. repeat split; vm_compute; reflexivity. Qed.
