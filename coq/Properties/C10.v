(* C10 — Reads respect the committed and retention boundaries; the retention
   boundaries never move backwards; physical trim is gated.
   Only statements, each closed by [exact] of a lemma from Proof/ReadBounds*.v. *)
From WK Require Import Base.Base Gen.Consts_C10 Model.ReadBounds
  Proof.ReadBounds Proof.ReadBounds_trim Proof.ReadBounds_monitor.
Open Scope N_scope.

(* ---- reads ---------------------------------------------------------------------- *)

(* readLocalCommitted: for EVERY request (any FromSeq / MaxSeq / MinSeq / Limit / MaxBytes, both
   directions), any caller-supplied authoritative boundary and any MinISR, over ANY stored rows
   (holes, any order), every returned message is a stored row strictly above
   max(authoritative, local) retention and at or below the committed watermark
   (LEO when MinISR <= 1, min(checkpoint HW, LEO) otherwise).
   Hypothesis: no stored row carries sequence 2^64-1 (nextSeq saturates there). *)
Theorem c10_read_window : forall s q retention minISR m,
  rows_below_max s ->
  In m (fst (readLocalCommitted s q retention minISR)) ->
  In m (s_rows s)
  /\ N.max retention (s_local s) < row_seq m
  /\ row_seq m <= committed_of s minISR.
Proof. exact readLocalCommitted_window. Qed.
Print Assumptions c10_read_window.

(* SyncMessages (message_reader.go on top of readLocalCommitted): every returned sequence is that
   of a stored row inside the same window whose SyncOnce flag is false — recovery barrier /
   command-sync records never appear in a sync page (c10_no_barrier) *)
Theorem c10_sync_window_no_barrier : forall s y retention minISR x,
  rows_below_max s ->
  In x (fst (SyncMessages s y retention minISR)) ->
  exists m, In m (s_rows s) /\ row_seq m = x /\ row_sync m = false
            /\ N.max retention (s_local s) < x /\ x <= committed_of s minISR.
Proof. exact SyncMessages_window. Qed.
Print Assumptions c10_sync_window_no_barrier.

(* the store adapter emits only rows passing the request's MinSeq floor and MaxSeq cap (when non-zero) *)
Theorem c10_adapter_floor_and_cap : forall s q m,
  In m (fst (ReadCommitted s q)) ->
  In m (s_rows s) /\ (q_min q <> 0 -> q_min q <= row_seq m) /\ (q_max q <> 0 -> row_seq m <= q_max q).
Proof. exact ReadCommitted_spec. Qed.
Print Assumptions c10_adapter_floor_and_cap.

(* ---- boundaries are monotone ------------------------------------------------------- *)

(* one step of ANY kind (append, HW/meta change, checkpoint, retention apply with any — also
   regressing — boundary, direct adopt / trim with any arguments, reads): the store's local and
   physical boundaries and the runtime's RetentionThroughSeq / Local / Physical never decrease;
   a row disappears only through an Apply or Trim step, and then only as [deletion_ok] allows *)
Theorem c10_boundary_monotone_step : forall y o y1 res,
  step y o = (y1, res) ->
  boundaries_le y y1
  /\ s_leo (y_store y) <= s_leo (y_store y1)
  /\ (forall r, In r (s_rows (y_store y)) -> ~ In r (s_rows (y_store y1)) -> deletion_ok y o r).
Proof. exact step_spec. Qed.
Print Assumptions c10_boundary_monotone_step.

(* over whole histories, from any state *)
Theorem c10_boundary_monotone : forall ops y, boundaries_le y (run y ops).
Proof. exact run_boundaries_le. Qed.
Print Assumptions c10_boundary_monotone.

(* handleApplyRetentionBoundary publishes RetentionThroughSeq := max(old, request) *)
Theorem c10_apply_publishes_max : forall y through mm mb y1 res,
  apply_retention y through mm mb = (y1, res) -> through <> 0 ->
  r_retention (y_r y1) = N.max (r_retention (y_r y)) through.
Proof. exact apply_raises_retention. Qed.
Print Assumptions c10_apply_publishes_max.

(* ---- trim gate ------------------------------------------------------------------------ *)

(* retentionTrimDecision: allowed implies every gate; the ISR clause uses the code's own
   notion of a member's progress (isr_match: local LEO, recorded Progress.Match, and — for a
   member WITHOUT recorded progress — RetentionThroughSeq) *)
Theorem c10_trim_gated : forall st through c,
  retentionTrimDecision st through = (true, c) ->
  through <> 0 /\ r_phys st < through
  /\ through <= r_hw st /\ through <= r_ckpt st /\ through <= r_leo st
  /\ (r_role st = RoleLeader -> forall n, In n (r_isr st) -> through <= isr_match st n).
Proof. exact trim_gated. Qed.
Print Assumptions c10_trim_gated.

(* the ISR clause for members whose progress is actually known *)
Theorem c10_trim_gated_known_progress : forall st through c,
  retentionTrimDecision st through = (true, c) -> r_role st = RoleLeader ->
  forall n m, In n (r_isr st) -> known_progress st n = Some m -> through <= m.
Proof. exact trim_gated_known_progress. Qed.
Print Assumptions c10_trim_gated_known_progress.

(* a row deleted by a retention Apply is covered by HW, CheckpointHW and LEO of the runtime
   state the Apply started from and, on a leader, by every ISR member's known progress *)
Theorem c10_deletion_covered : forall y through mm mb r,
  deletion_ok y (OApply through mm mb) r ->
  let st := y_r y in
  row_seq r <= r_hw st /\ row_seq r <= r_ckpt st /\ row_seq r <= r_leo st
  /\ (r_role st = RoleLeader ->
      forall n m, In n (r_isr st) -> known_progress st n = Some m -> row_seq r <= m).
Proof. exact apply_deletion_gated. Qed.
Print Assumptions c10_deletion_covered.

(* store side (TrimMessagesThroughLimit -> trimPrefixThroughLimit, adoptBoundary = false): only rows in
   (physical, through] are deleted and only when through is already adopted; local never changes,
   physical never decreases and never passes max(physical, through) *)
Theorem c10_store_trim : forall s through mm mb s1 e tr,
  TrimMessagesThrough s through mm mb = (s1, e, tr) ->
  s_local s1 = s_local s /\ s_phys s <= s_phys s1 /\ s_leo s <= s_leo s1
  /\ s_ckpt s1 = s_ckpt s /\ s_rmax s <= s_rmax s1 /\ s_phys s1 <= N.max (s_phys s) through
  /\ (forall r, In r (s_rows s1) -> In r (s_rows s))
  /\ (forall r, In r (s_rows s) -> ~ In r (s_rows s1) ->
        e = 0 /\ s_phys s < row_seq r /\ row_seq r <= through /\ through <= s_local s).
Proof. exact Trim_spec. Qed.
Print Assumptions c10_store_trim.

(* ---- the monitor is the property the theorems are about ------------------------------ *)

(* every trace the model can produce (any op list; the log stays below 2^64-1) is accepted by
   the monitor that ./check evaluates on implementation traces, and replays without mismatch *)
Theorem c10_model_satisfies_monitor : forall ops,
  leo_bounded init_sys ops = true -> C10_monitor (C10Hist (trace init_sys ops)) = 0.
Proof. exact model_satisfies_monitor. Qed.
Print Assumptions c10_model_satisfies_monitor.

Theorem c10_model_trace_replays : forall ops y, replay_mismatch y (trace y ops) = false.
Proof. exact trace_replays. Qed.
Print Assumptions c10_model_trace_replays.

Theorem c10_pure_model_satisfies_monitor : forall st through,
  let '(a, r) := retentionTrimDecision st through in
  C10_monitor (C10Pure st through a r (minISRMatchOffset st)) = 0.
Proof. exact pure_model_satisfies_monitor. Qed.
Print Assumptions c10_pure_model_satisfies_monitor.

(* ---- non-vacuity ------------------------------------------------------------------------ *)

(* ex_ops / ex_snap are defined at the end of Proof/ReadBounds_monitor.v *)
Example c10_example_run :
  leo_bounded init_sys ex_ops = true
  /\ map o_res (trace init_sys ex_ops) =
     [ RUnit; RAppend 0 1 4; RUnit; RErr 0;
       RRead 0 [(1, false); (2, true); (3, false)] 4;
       RSync 0 [1; 3] false;
       RApply 0 2 2 2 2 2 false 0 false true true;
       RRead 0 [(4, false); (3, false)] 2;
       RApply 0 1 2 2 0 0 false 0 false false false;
       RApply 0 4 4 2 0 0 false 2 true true false ]
  /\ map row_seq (s_rows (y_store (run init_sys ex_ops))) = [3; 4]
  /\ C10_monitor (C10Hist (trace init_sys ex_ops)) = 0.
Proof. repeat split; vm_compute; reflexivity. Qed.

(* the monitor is not trivially 0: a page with a message above the committed watermark, a page below
   the retention boundary, a SyncOnce record in a sync page, a regressing boundary and an ungated
   deletion are each rejected *)
Example c10_monitor_rejects :
  let st := mkRState RoleLeader 1 [1; 2] [(2, 1)] 3 3 3 0 0 0 in
  let pre := ex_snap [1; 2; 3] 2 1 st in
  monitor_steps pre [] [mkStep (ORead (mkReq 0 0 0 10 0 false) 0 2) (RRead 0 [(2, false); (3, false)] 4) pre] = 1
  /\ monitor_steps pre [] [mkStep (ORead (mkReq 0 0 0 10 0 false) 0 2) (RRead 0 [(1, false); (2, false)] 3) pre] = 1
  /\ monitor_steps pre [2] [mkStep (OSync 0 0 0 10 PullModeUp 0 2) (RSync 0 [2] false) pre] = 1
  /\ monitor_steps pre [] [mkStep (OAdopt 1) (RAdopt 0 3) (ex_snap [1; 2; 3] 2 0 st)] = 1
  /\ monitor_steps pre [] [mkStep (OApply 2 0 0) (RApply 0 2 2 2 2 2 false 0 false true true)
                             (mkSnap [3] 3 2 2 2 3 (mkRState RoleLeader 1 [1; 2] [(2, 1)] 3 3 3 2 2 2))] = 1
  /\ monitor_steps pre [] [mkStep (ORead (mkReq 0 0 0 10 0 false) 0 2) (RRead 0 [(2, false)] 3) pre] = 0.
Proof. repeat split; vm_compute; reflexivity. Qed.

(* fixed finding C10-K1 (repo commit d06215a91): forward read, FromSeq = 0, committed watermark 0.
   The guard returns the empty page; without it the clamped request (MaxSeq = 0 = "unbounded")
   handed to the store adapter returns every uncommitted row. *)
Example c10_k1_fixed :
  let s := fst (fst (AppendLeader empty_store [1; 1; 1] [false; false; false])) in
  let q := mkReq 0 0 0 10 0 false in
  committed_of s 2 = 0
  /\ readLocalCommitted s q 0 2 = ([], 1)
  /\ map row_seq (fst (ReadCommitted s (clamp_req s q 0 2))) = [1; 2; 3].
Proof. repeat split; vm_compute; reflexivity. Qed.

(* modelling note of DESIGN §7 C10: for an ISR member WITHOUT recorded progress the decision
   substitutes RetentionThroughSeq, which handleApplyRetentionBoundary has just raised to the
   request — the ISR clause is vacuous for such members (here node 2) *)
Example c10_unknown_progress_is_vacuous :
  let st := mkRState RoleLeader 1 [1; 2] [] 5 5 5 0 0 0 in
  retentionTrimDecision (with_retention st 4) 4 = (true, 0)
  /\ retentionTrimDecision (mkRState RoleLeader 1 [1; 2] [(2, 3)] 5 5 5 4 0 0) 4 = (false, 4).
Proof. split; vm_compute; reflexivity. Qed.
