(* C10 — stub, replaced once the proofs exist *)
From WK Require Import Base.Base Model.ReadBounds.
Example c10_stub : C10_monitor (C10Hist []) = 0.
Proof. vm_compute. reflexivity. Qed.
