(* C02 — Replica logs agree on every committed offset.
   Statements only; proofs in Proof/ReplicaLog_WF.v (store level), Proof/Cluster_WF.v (lifting through
   every owner / cluster operation) and Proof/Cluster_C02.v (witness, bounded checks).

   Proved unbounded, for every schedule of installs, commits, restarts, outages, follower gap repairs
   and (bounded) standalone checkpoints, under every fault plan, on both store back ends:
     each replica log is an unbroken predecessor hash chain from genesis, committed <= log end,
     the committed watermark never moves backwards and no entry at or below it ever changes.
   The pairwise agreement clause is FALSE of the faithful model and of the code once the deposed
   leader's standalone checkpoint is in the schedule (c02_checkpoint_refuted, known finding C02-K1,
   same root cause as C01-K1); without it, it is checked on a bounded schedule family only. *)
From WK Require Import Base.Base.
From WK Require Import Model.ReplicaLog Model.QuorumLog Model.Cluster Model.Monitor_C02.
From WK Require Import Proof.ReplicaLog Proof.ReplicaLog_WF Proof.Cluster_WF Proof.Cluster_C02.
Open Scope N_scope.

(* the invariant of one replica (chain, committed <= log end, by-last index rows name the stored
   entries) holds for the empty replica and is preserved, together with "committed never regresses
   and no entry at or below it changes", by every Sync ... *)
Theorem c02_sync_preserves : forall k rp mu rp' o nf,
  WF rp -> sync k rp mu = (rp', o, nf) -> WF rp' /\ keeps rp rp'.
Proof. exact sync_WF. Qed.
Print Assumptions c02_sync_preserves.

(* ... by every recovery suffix replacement (it refuses cuts below committed) ... *)
Theorem c02_replace_preserves : forall k rp q rp' lo,
  WF rp -> replace k rp q = inr (rp', lo) -> WF rp' /\ keeps rp rp'.
Proof. exact replace_WF. Qed.
Print Assumptions c02_replace_preserves.

(* ... and by a standalone checkpoint of a watermark within the log *)
Theorem c02_checkpoint_preserves : forall rp w,
  WF rp -> w <= rp_leo rp -> WF (storeCheckpoint rp w) /\ keeps rp (storeCheckpoint rp w).
Proof. exact storeCheckpoint_WF. Qed.
Print Assumptions c02_checkpoint_preserves.

(* one step of a schedule: every replica is related by (WF -> WF /\ keeps) *)
Theorem c02_step_preserves : forall cfg c op c' r,
  ckpt_bounded c op -> q_step cfg c op = (c', r) ->
  forall v, WF (net_rep (cl_net c) v) -> WF (net_rep (cl_net c') v) /\ keeps (net_rep (cl_net c) v) (net_rep (cl_net c') v).
Proof. exact (fun cfg c op c' r Hb H v => proj2 (q_step_ok cfg c op c' r Hb H) v). Qed.
Print Assumptions c02_step_preserves.

(* c02_chain, c02_committed_le_leo, c02_committed_monotone — every schedule from the initial cluster
   whose standalone checkpoints stay within the log of their node:
   in the reached cluster every replica is a chain with committed <= log end, and relative to ANY
   earlier point of the schedule its committed watermark did not regress and its committed prefix is
   unchanged (stated here from the initial cluster and, by c02_step_preserves, step by step) *)
Theorem c02_chain_and_watermark : forall cfg ops,
  run_bounded cfg (cluster_init cfg) ops ->
  (forall v, WF (net_rep (cl_net (run_cluster cfg (cluster_init cfg) ops)) v)) /\
  (forall v, keeps (net_rep (cl_net (cluster_init cfg)) v) (net_rep (cl_net (run_cluster cfg (cluster_init cfg) ops)) v)).
Proof. exact (fun cfg ops H => run_cluster_WF cfg ops (cluster_init cfg) (all_WF_init cfg) H). Qed.
Print Assumptions c02_chain_and_watermark.

Theorem c02_invariant_from_any_point : forall cfg ops c,
  (forall v, WF (net_rep (cl_net c) v)) -> run_bounded cfg c ops ->
  (forall v, WF (net_rep (cl_net (run_cluster cfg c ops)) v)) /\
  (forall v, keeps (net_rep (cl_net c) v) (net_rep (cl_net (run_cluster cfg c ops)) v)).
Proof. exact (fun cfg ops c H1 H2 => run_cluster_WF cfg ops c H1 H2). Qed.
Print Assumptions c02_invariant_from_any_point.

(* what the invariant says, spelled out *)
Theorem c02_invariant_meaning : forall rp, WF rp ->
  chain_raw 1 0 0 D0 (rp_log rp) /\ rp_hw rp <= rp_leo rp.
Proof. exact (fun rp H => conj (proj1 H) (proj1 (proj2 H))). Qed.
Print Assumptions c02_invariant_meaning.

(* c02_checkpoint_refuted (C02-K1): F1 extended by the deposed leader's checkpoint of the acknowledged
   watermark: node 1 and node 2 both consider offset 1 committed and hold different entries
   (commands 1 and 2); the checkpoints of the schedule are within the log; monitor code 2 *)
Theorem c02_checkpoint_refuted :
  let c := snd (run_model k1_cfg (cluster_init k1_cfg) k1_ops) in
  fst (run_model k1_cfg (cluster_init k1_cfg) k1_ops) =
    [ RInstalled (1, 1, 1) 0 0; RNone; RReceipt (1, 1, 1) (TUser 1) 1 1 1; RBool true; RNone; RNone;
      RInstalled (1, 2, 2) 0 0; RReceipt (1, 2, 2) (TUser 2) 1 1 1; RReceipt (1, 2, 2) (TUser 3) 2 2 2 ] /\
  option_map i_cmd (committed_entry c 1 1) = Some (TUser 1) /\
  option_map i_cmd (committed_entry c 2 1) = Some (TUser 2) /\
  C02_monitor (model_case k1_cfg k1_ops) = 2.
Proof. exact k1_checkpointed_entry_replaced. Qed.
Print Assumptions c02_checkpoint_refuted.

(* c02_checkpoint_k2_refuted (C02-K2, monitor code 3): the C01-K2 history extended by the deposed leader's
   checkpoint of the acknowledged watermark: an Install whose frontier round every voter answers, but which
   loses the identity-page reply of a holder while the stable voters still reproduce the quorum LEO, drops the
   acknowledged (and checkpointed) entry; after the next failover node 1 considers offset 1 committed with the
   old entry, nodes 2 and 3 with the new one. *)
Theorem c02_checkpoint_k2_refuted :
  let c := snd (run_model k1_cfg (cluster_init k1_cfg) k2_ops) in
  fst (run_model k1_cfg (cluster_init k1_cfg) k2_ops) =
    [ RInstalled (1, 1, 1) 0 0; RErr EQuorumUnavailable; RInstalled (1, 2, 2) 0 0;
      RReceipt (1, 2, 2) (TUser 2) 1 1 1; RBool true; RInstalled (1, 3, 3) 0 0; RNone;
      RInstalled (1, 4, 4) 0 0; RReceipt (1, 4, 4) (TUser 3) 1 1 1; RReceipt (1, 4, 4) (TUser 4) 2 2 2 ] /\
  option_map i_cmd (committed_entry c 1 1) = Some (TUser 2) /\
  option_map i_cmd (committed_entry c 2 1) = Some (TUser 3) /\
  option_map i_cmd (committed_entry c 3 1) = Some (TUser 3) /\
  C02_monitor (model_case k1_cfg k2_ops) = 3.
Proof. exact k2_checkpointed_entry_replaced. Qed.
Print Assumptions c02_checkpoint_k2_refuted.

Theorem c02_k2_refuting_schedule_is_bounded : run_bounded k1_cfg (cluster_init k1_cfg) k2_ops.
Proof. exact k2_ops_bounded. Qed.
Print Assumptions c02_k2_refuting_schedule_is_bounded.

Theorem c02_refuting_schedule_is_bounded : run_bounded k1_cfg (cluster_init k1_cfg) k1_ops.
Proof. exact k1_ops_bounded. Qed.
Print Assumptions c02_refuting_schedule_is_bounded.

(* c02_agreement, BOUNDED (finite domain, vm_compute): all schedules of at most 4 operations over a
   9-operation alphabet (bare-quorum commit, full commit, nodes 1 and 3 down / up, failover install on
   node 2, commit by node 2, gap repair of node 3) after the initial install: the whole monitor
   (chain, bounds, monotone, pairwise agreement) returns 0 on the model's own observations; with the
   standalone checkpoint added to the alphabet only 0 or the known-finding code 2 *)
Theorem c02_model_satisfies_monitor_bounded :
  c02_codes_in [0] (c02_alphabet false) 4 = true /\ c02_codes_in [0; 2] (c02_alphabet true) 4 = true.
Proof. exact (conj c02_bounded_no_checkpoint c02_bounded_with_checkpoint). Qed.
Print Assumptions c02_model_satisfies_monitor_bounded.
