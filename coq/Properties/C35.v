(* C35 — stub, replaced below *)
From WK Require Import Base.Base Model.ChannelId.
