(* C35 — Person and command channel ids are canonical.
   Only statements, each closed by [exact] of a lemma from Proof/ChannelId.v.
   Strings are arbitrary byte lists (no length bound, any bytes).
   [join l r] = l ++ "@" ++ r;  [clean u] = u is non-empty and contains no "@";
   None = ErrInvalidPersonChannel / ErrInvalidAgentChannel. *)
From WK Require Import Base.Base Model.Crc32 Gen.Consts_C35 Model.ChannelId Proof.ChannelId.
Open Scope N_scope.

(* the person-channel id of two users is the same whichever user sends — for all
   pairs: equal uids, equal CRCs (tie broken by string order), any bytes *)
Theorem c35_symmetric : forall a b, EncodePersonChannel a b = EncodePersonChannel b a.
Proof. exact encode_sym. Qed.
Print Assumptions c35_symmetric.

(* the id is a@b or b@a; the uid with the larger CRC-32 is written first, on
   equal CRCs the larger string *)
Theorem c35_encode_shape : forall a b,
  exists x y, EncodePersonChannel a b = join x y
    /\ ((x = a /\ y = b) \/ (x = b /\ y = a))
    /\ (crc32_bitwise y < crc32_bitwise x
        \/ (crc32_bitwise y = crc32_bitwise x /\ bytes_gtb y x = false)).
Proof. exact encode_first. Qed.
Print Assumptions c35_encode_shape.

(* DecodePersonChannel succeeds exactly on l@r with l, r non-empty and "@"-free *)
Theorem c35_decode_spec : forall c p0 p1,
  DecodePersonChannel c = Some (p0, p1) <->
  c = join p0 p1 /\ clean p0 = true /\ clean p1 = true.
Proof. exact decode_spec. Qed.
Print Assumptions c35_decode_spec.

(* decoding the canonical id yields the two users (in the written order) *)
Theorem c35_decode_encode : forall a b, clean a = true -> clean b = true ->
  exists x y, DecodePersonChannel (EncodePersonChannel a b) = Some (x, y)
    /\ EncodePersonChannel a b = join x y
    /\ ((x = a /\ y = b) \/ (x = b /\ y = a))
    /\ (crc32_bitwise y < crc32_bitwise x
        \/ (crc32_bitwise y = crc32_bitwise x /\ bytes_gtb y x = false)).
Proof. exact decode_encode. Qed.
Print Assumptions c35_decode_encode.

(* whatever the uids, a successful decode of the canonical id never yields
   anything but the two users *)
Theorem c35_decode_encode_sound : forall a b x y,
  DecodePersonChannel (EncodePersonChannel a b) = Some (x, y) ->
  EncodePersonChannel a b = join x y /\ ((x = a /\ y = b) \/ (x = b /\ y = a))
  /\ clean a = true /\ clean b = true.
Proof. exact decode_encode_sound. Qed.
Print Assumptions c35_decode_encode_sound.

(* uids that are empty or contain "@" (the package does not exclude them) give an
   id that is rejected by the decoder — fail closed, never a wrong pair *)
Theorem c35_at_sign_rejected : forall a b, clean a && clean b = false ->
  DecodePersonChannel (EncodePersonChannel a b) = None.
Proof. exact decode_encode_unclean. Qed.
Print Assumptions c35_at_sign_rejected.

(* NormalizePersonChannel: exact characterisation of success *)
Theorem c35_normalize_spec : forall s c r,
  NormalizePersonChannel s c = Some r <->
  s <> [] /\ c <> [] /\
  ((contains at_sign c = false /\ r = EncodePersonChannel s c)
   \/ (exists l r', c = join l r' /\ clean l = true /\ clean r' = true
                    /\ (l = s \/ r' = s) /\ r = EncodePersonChannel l r')).
Proof. exact normalize_spec. Qed.
Print Assumptions c35_normalize_spec.

(* a sender can only address a person channel that contains them: every id
   returned to sender s is the id of s and one other uid, written s@o or o@s … *)
Theorem c35_sender_must_belong : forall s c r,
  NormalizePersonChannel s c = Some r ->
  s <> [] /\ exists o, r = EncodePersonChannel s o /\ (r = join s o \/ r = join o s).
Proof. exact normalize_sender_belongs. Qed.
Print Assumptions c35_sender_must_belong.

(* … an id of two other users is rejected, and so is an undecodable id *)
Theorem c35_foreign_channel_rejected : forall s c l r',
  DecodePersonChannel c = Some (l, r') -> l <> s -> r' <> s ->
  NormalizePersonChannel s c = None.
Proof. exact normalize_rejects_foreign. Qed.
Print Assumptions c35_foreign_channel_rejected.

Theorem c35_undecodable_rejected : forall s c,
  contains at_sign c = true -> DecodePersonChannel c = None -> NormalizePersonChannel s c = None.
Proof. exact normalize_rejects_undecodable. Qed.
Print Assumptions c35_undecodable_rejected.

(* both users obtain the same canonical id, from the peer's uid and from the id
   itself: normalizing an already canonical id changes nothing *)
Theorem c35_normalize_canonical : forall a b, clean a = true -> clean b = true ->
  NormalizePersonChannel a b = Some (EncodePersonChannel a b)
  /\ NormalizePersonChannel b a = Some (EncodePersonChannel a b)
  /\ NormalizePersonChannel a (EncodePersonChannel a b) = Some (EncodePersonChannel a b)
  /\ NormalizePersonChannel b (EncodePersonChannel a b) = Some (EncodePersonChannel a b).
Proof. exact normalize_canonical. Qed.
Print Assumptions c35_normalize_canonical.

(* normalization is idempotent on every input, for a sender uid without "@" *)
Theorem c35_normalize_idempotent : forall s c r, contains at_sign s = false ->
  NormalizePersonChannel s c = Some r -> NormalizePersonChannel s r = Some r.
Proof. exact normalize_idempotent. Qed.
Print Assumptions c35_normalize_idempotent.

(* the "@"-in-sender corner, stated exactly: the id is produced but can be
   neither decoded nor normalized again (so idempotence needs its hypothesis) *)
Theorem c35_at_sender_corner : forall s c,
  contains at_sign s = true -> c <> [] -> contains at_sign c = false ->
  exists r, NormalizePersonChannel s c = Some r
            /\ DecodePersonChannel r = None /\ NormalizePersonChannel s r = None.
Proof. exact normalize_at_sender_not_idempotent. Qed.
Print Assumptions c35_at_sender_corner.

(* command channels: idempotent … *)
Theorem c35_cmd_idempotent : forall x,
  ToCommandChannel (ToCommandChannel x) = ToCommandChannel x
  /\ IsCommandChannel (ToCommandChannel x) = true.
Proof. intro x. split; [exact (to_command_idempotent x)|exact (to_command_is_command x)]. Qed.
Print Assumptions c35_cmd_idempotent.

(* … and reversible on ids that do not already carry the suffix *)
Theorem c35_cmd_reversible : forall x, IsCommandChannel x = false ->
  FromCommandChannel (ToCommandChannel x) = (x, true).
Proof. exact from_to_command. Qed.
Print Assumptions c35_cmd_reversible.

Theorem c35_cmd_injective : forall x y, IsCommandChannel x = false -> IsCommandChannel y = false ->
  ToCommandChannel x = ToCommandChannel y -> x = y.
Proof. exact to_command_injective. Qed.
Print Assumptions c35_cmd_injective.

(* FromCommandChannel: identity+false without the suffix, else strips exactly one *)
Theorem c35_cmd_from_spec : forall x,
  (IsCommandChannel x = false /\ FromCommandChannel x = (x, false))
  \/ (IsCommandChannel x = true /\ exists y, FromCommandChannel x = (y, true)
        /\ x = y ++ CommandChannelSuffix).
Proof. exact from_command_spec. Qed.
Print Assumptions c35_cmd_from_spec.

Theorem c35_cmd_to_from : forall x y,
  FromCommandChannel x = (y, true) -> IsCommandChannel y = false -> ToCommandChannel y = x.
Proof. exact to_from_command. Qed.
Print Assumptions c35_cmd_to_from.

(* the non-injective corner inherent to "apply once": an id already ending in the
   suffix is left alone, so From(To x) strips a suffix x already had *)
Theorem c35_cmd_suffix_corner : forall x, IsCommandChannel x = true ->
  ToCommandChannel x = x
  /\ exists y, FromCommandChannel (ToCommandChannel x) = (y, true) /\ x = y ++ CommandChannelSuffix.
Proof. exact command_suffix_corner. Qed.
Print Assumptions c35_cmd_suffix_corner.

(* agent channels decode back to (uid, agent) *)
Theorem c35_agent_roundtrip : forall u g, clean u = true -> clean g = true ->
  DecodeAgentChannel (EncodeAgentChannel u g) = Some (u, g).
Proof. exact agent_decode_encode. Qed.
Print Assumptions c35_agent_roundtrip.

Theorem c35_agent_sound : forall u g x y,
  DecodeAgentChannel (EncodeAgentChannel u g) = Some (x, y) ->
  x = u /\ y = g /\ clean u = true /\ clean g = true.
Proof. exact agent_decode_encode_sound. Qed.
Print Assumptions c35_agent_sound.

(* the monitor evaluated on implementation traces accepts every trace the model
   can produce (all inputs, no hypothesis), and the model never mismatches itself *)
Theorem c35_model_satisfies_monitor : forall a b c x, C35_monitor (c35_model a b c x) = 0.
Proof. exact model_satisfies_monitor. Qed.
Print Assumptions c35_model_satisfies_monitor.

Theorem c35_model_no_mismatch : forall a b c x, C35_mismatch (c35_model a b c x) = false.
Proof. exact model_no_mismatch. Qed.
Print Assumptions c35_model_no_mismatch.

(* ---- non-vacuity --------------------------------------------------------------- *)

(* "u1" / "u2": distinct CRCs *)
Example c35_ex_plain :
  EncodePersonChannel (hx "7531") (hx "7532") = hx "7532407531"
  /\ DecodePersonChannel (hx "7532407531") = Some (hx "7532", hx "7531")
  /\ NormalizePersonChannel (hx "7531") (hx "7531407532") = Some (hx "7532407531")
  /\ NormalizePersonChannel (hx "7533") (hx "7531407532") = None.
Proof. vm_compute. repeat split. Qed.

(* "vkqmni" and "etchd": a genuine CRC-32 collision (both 3737586044) — the
   string-order tie-break decides, and both argument orders give vkqmni@etchd *)
Example c35_ex_collision :
  crc32_bitwise (hx "766b716d6e69") = 3737586044 /\ crc32_bitwise (hx "6574636864") = 3737586044
  /\ EncodePersonChannel (hx "766b716d6e69") (hx "6574636864") = hx "766b716d6e69406574636864"
  /\ EncodePersonChannel (hx "6574636864") (hx "766b716d6e69") = hx "766b716d6e69406574636864".
Proof. vm_compute. repeat split. Qed.

(* the "@" corner is inhabited: sender "a@b", peer "x" *)
Example c35_ex_at_corner :
  NormalizePersonChannel (hx "614062") (hx "78") = Some (hx "6140624078")
  /\ NormalizePersonChannel (hx "614062") (hx "6140624078") = None.
Proof. vm_compute. split; reflexivity. Qed.

(* command corner: "g____cmd____cmd" *)
Example c35_ex_cmd :
  ToCommandChannel (hx "67") = hx "675f5f5f5f636d64"
  /\ FromCommandChannel (hx "675f5f5f5f636d64") = (hx "67", true)
  /\ ToCommandChannel (hx "675f5f5f5f636d64") = hx "675f5f5f5f636d64"
  /\ FromCommandChannel (hx "675f5f5f5f636d645f5f5f5f636d64") = (hx "675f5f5f5f636d64", true).
Proof. vm_compute. repeat split. Qed.
