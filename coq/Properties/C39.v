(* Properties/C39.v — placeholder while the model is being tied to the code. *)
From WK Require Import Base.Base Model.SlotFSM Model.SlotFSM_C13 Model.SlotFSM_C39.
