(* C39 — Hash-slot migration neither loses nor duplicates metadata writes.
   Only statements, each closed by [exact] of a lemma from Proof/SlotFSM_*.v.

   Model: Model/SlotFSM.v (the slot state machine with its hash-slot migration maintenance:
   outbox, fence, applied-delta records, ack, cleanup), Model/SlotFSM_C39.v (two slot state
   machines, a forwarder that duplicates / reorders, the case record, comparison, monitor).

   * apply_delta is idempotent: a delta whose record is durable (or was staged earlier in the
     batch) is answered ok and stages nothing; its first application stages the original
     command's operations together with the record;
   * exactly once, in source order: for every delivery schedule (one apply_delta per batch; by the
     partition theorem of C13, equally for any batching) in which the source's forwarded writes
     W_1..W_n all occur, first occurrences in source order, duplicates anywhere, the target's tables
     are those of applying W_1..W_n once each in order;
   * the overlap of snapshot and deltas is harmless for the user registers: replaying W_1..W_n on a
     snapshot that already contains W_1..W_k gives every user row the value it has on the source;
   * ordinary writes behind the migration fence are answered hash_slot_fenced and stage nothing;
     commands for a hash slot a slot does not own are refused with the store untouched.
   Reordered first deliveries are covered for pairwise commuting writes only by the differential
   run (harness profile "reorder"), not by a theorem. *)
From WK Require Import Base.Base.
From WK Require Import Gen.Consts_C15 Gen.Consts_C17 Gen.Consts_C13.
From WK Require Import Model.RuntimeMeta Model.ChanMigration Model.SlotFSM Model.SlotFSM_C13 Model.SlotFSM_C39.
From WK Require Import Proof.SlotFSM_machine Proof.SlotFSM_inst Proof.SlotFSM_props Proof.SlotFSM_c39 Proof.SlotFSM_c39_link.
Open Scope N_scope.

(* ---- applied once -------------------------------------------------------------------------------------- *)

Theorem c39_delta_replay_noop : forall cfg d b c s i h orig,
  fc_slot_ok c = true -> fc_cmd c = HDelta s i h orig -> fc_hs c = h -> s <> 0 -> i <> 0 ->
  delta_seen d b (DKey h s i) = true ->
  fsm_stage cfg d b c = SDone b [] (R_OK, []).
Proof. exact fsm_delta_replay_noop. Qed.
Print Assumptions c39_delta_replay_noop.

Theorem c39_delta_first : forall cfg d b c s i h o,
  fc_slot_ok c = true -> fc_cmd c = HDelta s i h (Some o) -> fc_hs c = h -> s <> 0 -> i <> 0 ->
  inner_ok h o = true ->
  delta_seen d b (DKey h s i) = false ->
  fsm_stage cfg d b c =
  SDone (set_bs_delta b (DKey h s i :: bs_delta b)) (plain_ops h o ++ [WMarkApplied (DKey h s i)]) (R_OK, []).
Proof. exact fsm_delta_first. Qed.
Print Assumptions c39_delta_first.

(* after a restart too: only the durable record is consulted *)
Theorem c39_delta_idempotent : forall cfg d c s i h orig,
  fc_slot_ok c = true -> fc_cmd c = HDelta s i h orig -> fc_hs c = h -> s <> 0 -> i <> 0 ->
  dkey_mem (DKey h s i) (st_applied d) = true ->
  exists d', fsm_apply_batch cfg d [c] = (d', BRes [(R_OK, [])]) /\ store_eqv d' d.
Proof. exact fsm_delta_batch_idempotent. Qed.
Print Assumptions c39_delta_idempotent.

(* ---- no loss, no duplication ------------------------------------------------------------------------------ *)

(* [ps]: the deliveries (target log index, forwarded write); [ws]: the writes in source order.
   dstep applies a write unless its record exists. *)
Theorem c39_no_loss_no_dup : forall cfg src h, src <> 0 ->
  forall ps ws d,
    Forall (fun p => wf_dlv h (snd p)) ps ->
    (forall i, dkey_mem (DKey h src i) (st_applied d) = false) ->
    first_occ [] (map snd ps) = ws ->
    exists d', fsm_apply_individually cfg d (map (fun p => delta_fcmd src h (fst p) (snd p)) ps)
               = (d', BRes (map (fun _ => (R_OK, [])) ps))
               /\ store_eqv d' (fold_left (dstep src h) ws d).
Proof. exact exactly_once. Qed.
Print Assumptions c39_no_loss_no_dup.

(* any schedule at all: the tables are those of its first occurrences *)
Theorem c39_duplicates_skipped : forall src h l seen d,
  (forall i, dkey_mem (DKey h src i) (st_applied d) = memN i seen) ->
  fold_left (dstep src h) l d = fold_left (dstep src h) (first_occ seen l) d.
Proof. exact first_occurrences_only. Qed.
Print Assumptions c39_duplicates_skipped.

(* the snapshot contains the first k writes, the deltas replay all of them *)
Theorem c39_snapshot_overlap_harmless : forall hs cs k d k_hs k_uid,
  user_get (st_users (apply_writes hs cs (apply_writes hs (firstn k cs) d))) k_hs k_uid =
  user_get (st_users (apply_writes hs cs d)) k_hs k_uid.
Proof. exact snapshot_overlap_harmless. Qed.
Print Assumptions c39_snapshot_overlap_harmless.

(* ---- refusals ------------------------------------------------------------------------------------------------- *)

Theorem c39_fenced_refused : forall cfg d b c hs x,
  fc_slot_ok c = true ->
  resolveHashSlot cfg c = Some hs ->
  isMigrationMaintenanceCommand (fc_cmd c) = false ->
  load_state d b hs = Some x ->
  hs_source x = cfg_slot cfg -> hs_fence_index x <> 0 ->
  (forall t ph, mig_get (cfg_migs cfg) hs = Some (t, ph) -> t = 0 \/ t = hs_target x) ->
  fsm_stage cfg d b c = SDone b [] (R_FENCED, []).
Proof. exact fsm_fenced_refused. Qed.
Print Assumptions c39_fenced_refused.

Theorem c39_unowned_refused : forall cfg d cs c,
  In c cs ->
  fc_slot_ok c = false \/ resolveHashSlot cfg c = None ->
  exists e, fsm_apply_batch cfg d cs = (d, BErr e).
Proof. exact fsm_unowned_refused. Qed.
Print Assumptions c39_unowned_refused.

(* ---- the monitor -------------------------------------------------------------------------------------------------- *)

(* the four clauses of C39_monitor are the four statements above read on a script: the model's own
   run of a well-formed in-order script satisfies them (checked here on a concrete script of the
   two-slot model; the general statements are the theorems above) *)
Definition ex_script_model : option sys :=
  let w1 := Entry true 12 (HUser false (hx "7531") (hx "61") 0%Z 0%Z) (hx "0101") None None in
  let w2 := Entry true 12 (HUser false (hx "7531") (hx "62") 0%Z 0%Z) (hx "0102") None None in
  let fence := Entry true 12 (HFence 12 0) (hx "0115") None None in
  let y1 := sys_step sys0 SStartDelta in
  match y1 with
  | Some y =>
    let '(s1, r1) := fsm_apply_batch (y_src_cfg y) (y_src y) (to_fcmds 1 [w1; w2; fence; w1]) in
    Some (Sys s1 (y_src_cfg y) 4 (import_hs (y_tgt y) (y_src y) HS_MIG) (y_tgt_cfg y) 0
              (forwards_of r1) (map (fun c => (fc_index c, fc_cmd c)) (to_fcmds 1 [w1; w2; fence; w1])))
  | None => None
  end.

(* source: two writes, the fence, one fenced write; target: deltas 1,2,1,3,2 -> the user row equals
   the source's, each delta applied once *)
Example c39_example :
  match ex_script_model with
  | Some y =>
    let '(t', r) := fsm_apply_individually (y_tgt_cfg y) (y_tgt y) (delta_cmds y 1 [1; 2; 1; 3; 2]) in
    list_eqb urow_eqb (filter (fun u => ur_hs u =? 12) (st_users t')) (filter (fun u => ur_hs u =? 12) (st_users (y_src y))) = true
    /\ map dk_idx (st_applied t') = [1; 2; 3]
    /\ map fw_index (y_fwd y) = [1; 2; 3]
  | None => False
  end.
Proof. vm_compute. repeat split; reflexivity. Qed.

(* the monitor accepts the traces of the two-slot model: bounded check (vm_compute) over every
   delivery schedule of at most 5 deliveries, first occurrences in source order, delivered one
   delta per batch or all in one batch, of a script with a pre-migration write, a write between
   start of forwarding and snapshot, a write + fence + fenced write in one batch, a refused write
   on the target before the switch and on the source after it; more than 200 schedules.  Bound:
   schedule length <= 5, one register, three forwarded commands. *)
Theorem c39_model_satisfies_monitor_bounded : forallb monitor_ok schedules = true.
Proof. exact monitor_accepts_model_bounded. Qed.
Print Assumptions c39_model_satisfies_monitor_bounded.

(* and it is not the constant 0: a complete schedule whose first deliveries are out of source
   order ends with different tables on the two sides, which the monitor reports *)
Theorem c39_monitor_rejects_reordered : monitor_ok [[3]; [2]; [4]] = false.
Proof. exact monitor_rejects_reordered. Qed.
Print Assumptions c39_monitor_rejects_reordered.
