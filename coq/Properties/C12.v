(* Properties/C12.v — placeholder while the proofs are being written *)
From WK Require Import Base.Base Model.RaftDriver.
Example c12_placeholder : applyCommittedEntries [] = [].
Proof. reflexivity. Qed.
Print Assumptions c12_placeholder.
