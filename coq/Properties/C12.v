(* Properties/C12.v — C12 "slot Raft replicas apply identical command sequences".

   The object is the multiraft DRIVER (Model/RaftDriver.v transcribes
   pkg/slot/multiraft ready.go / slot.go / apply_pipeline.go / compaction.go /
   future.go).  go.etcd.io/raft is not modelled: the content of every Ready is an
   input of the model, and what the library guarantees about it is the explicit
   hypothesis [sched_ok] / [csched_ok] (per Ready: [ready_ok]):

     SMS   every replica learns the committed entries of ONE committed log [clog],
           in index order, without gaps above its own cursor;
           a snapshot comes alone, beyond the cursor, and carries what the state
           machine of the replica that took it held ([snap_good]; replicas only
           store such snapshots: c12_stored_snapshot_good);
     Ready contract: committed entries are never rewritten, the commit index
           never decreases, committed entries belong to the log the Ready leaves
           in stable storage, and its messages may be sent once its entries and
           hard state are stable ([msg_ok], [applied_ok] after the Save).

   A schedule is ANY list of steps: Ready (asynchronous, synchronous, pipeline
   busy), apply task, proposal, compaction, Close / kill, restart; a crash may cut
   any step after any number of micro-operations ([exec_cut]).  State machine with
   a durable applied index (the production configuration, pkg/slot/fsm). *)
From WK Require Import Base.Base Model.RaftDriver.
From WK Require Import Proof.RaftDriver_lists Proof.RaftDriver_exec Proof.RaftDriver_inv Proof.RaftDriver_steps
  Proof.RaftDriver_trace Proof.RaftDriver_futures Proof.RaftDriver_monitor Proof.RaftDriver_props.
From Coq Require Import Sorted.
Open Scope N_scope.

(* In every reachable state -- whatever the schedule, wherever crashes cut it -- the state machine holds
   exactly the commands of the committed log up to its own index, each once, in index order; and the
   sequence of ApplyBatch/Apply/Restore calls passes the monitor's order check against ANY set of
   applied commands of the committed log (strictly increasing, nothing at or below the state machine's
   position, nothing skipped). *)
Theorem c12_apply_in_order_once :
  forall (clog : N -> entry), (forall i, e_idx (clog i) = i) ->
  forall (GS : entry -> Prop) (sched : list step),
  sched_ok clog GS NoTrack sched start_node ->
  let s := run true sched in
  StronglySorted (fun a b => e_idx a < e_idx b) (sm_hist s)
  /\ (forall e, In e (sm_hist s) -> e = clog (e_idx e) /\ is_normal e = true /\ 0 < e_idx e <= sm_idx s)
  /\ (forall i, 0 < i <= sm_idx s -> is_normal (clog i) = true -> In (clog i) (sm_hist s))
  /\ (forall G, Gsound clog G -> check_order G 0 (n_tr s) = true).
Proof. exact apply_in_order_once_lemma. Qed.
Print Assumptions c12_apply_in_order_once.

(* A restart resumes at newSlot's applied index (the stored snapshot's index if there is one -- the
   snapshot is restored first --, otherwise the larger of Storage's applied index and the state
   machine's own), with an idle pipeline, and the state machine holds exactly the commands up to there:
   nothing is re-applied on top of its effect, nothing is skipped. *)
Theorem c12_restart_resumes :
  forall (clog : N -> entry), (forall i, e_idx (clog i) = i) ->
  forall (GS : entry -> Prop) (sched : list step),
  sched_ok clog GS NoTrack sched start_node ->
  let s := run true sched in
  v_up s = false ->
  let s' := newSlot false s in
  v_applying s' = newSlot_applied true (d_snap s) (d_applied s) (sm_idx s)
  /\ v_applied s' = v_applying s'
  /\ (forall i, 0 < i <= v_applying s' -> is_normal (clog i) = true -> In (clog i) (sm_hist s'))
  /\ (forall e, In e (sm_hist s') -> e_idx e <= v_applying s').
Proof. exact restart_resumes_lemma. Qed.
Print Assumptions c12_restart_resumes.

(* Two replicas (two runs over the same committed log) never hand different entries to their state
   machines at the same index, in whatever incarnation. *)
Theorem c12_same_command_per_index :
  forall (clog : N -> entry), (forall i, e_idx (clog i) = i) ->
  forall (GS1 GS2 : entry -> Prop) (sched1 sched2 : list step),
  sched_ok clog GS1 NoTrack sched1 start_node ->
  sched_ok clog GS2 NoTrack sched2 start_node ->
  forall e1 e2,
  In e1 (applied_tr (n_tr (run true sched1))) ->
  In e2 (applied_tr (n_tr (run true sched2))) ->
  e_idx e1 = e_idx e2 -> e1 = e2.
Proof. exact same_command_lemma. Qed.
Print Assumptions c12_same_command_per_index.

(* Nothing is sent and nothing is applied before the Ready that carries it is in stable storage: the
   event list passes check_persist (every message against the hard state / log / snapshot saved so far,
   every applied entry against the saved log and commit index). *)
Theorem c12_persist_before_send :
  forall (clog : N -> entry), (forall i, e_idx (clog i) = i) ->
  forall (GS : entry -> Prop) (sched : list step),
  sched_ok clog GS NoTrack sched start_node ->
  check_persist dur0 (n_tr (run true sched)) = true.
Proof. exact persist_before_send_lemma. Qed.
Print Assumptions c12_persist_before_send.

(* FULL statement of the future clause: "a future resolved successfully for (i, t) on a node belongs to
   the entry applied at i: clog i = (i, t, command of the future)", for every schedule in which the
   library honours SMS, the Ready contract and Log Matching.  It is FALSE: see c12_future_index_refuted.
   What holds is the statement under LocalAppend (TrackFut = Log Matching + "every entry that takes a
   waiting future carries that future's command"): *)
Theorem c12_future_index_partial :
  forall (clog : N -> entry), (forall i, e_idx (clog i) = i) ->
  forall (GS : entry -> Prop) (sched : list step),
  sched_ok clog GS (TrackFut clog) sched start_node ->
  forall f i t d, In (f, FutOk i t d) (n_futs (run true sched)) ->
  clog i = Entry i t KNormal f /\ d = Some f /\ In (clog i) (applied_tr (n_tr (run true sched))).
Proof. exact future_index_partial_lemma. Qed.
Print Assumptions c12_future_index_partial.

(* Without LocalAppend (only SMS, the Ready contract and Log Matching are kept): a proposal accepted
   while the cached status said "leader" and forwarded by etcd/raft after the step-down is bound by
   slot.trackReadyEntries to the next entry with a payload -- another node's proposal -- and its future
   reports that entry's index and result.  Witness: schedW over clogW (node 1 of the standalone
   reproduction; replayed on the real code by corpus/C12/k1_*.json). *)
Theorem c12_future_index_refuted :
  exists (clog : N -> entry) (sched : list step),
    (forall i, e_idx (clog i) = i)
    /\ sched_ok clog (fun _ => False) (LMonly clog) sched start_node
    /\ exists f i t d, In (f, FutOk i t d) (n_futs (run true sched)) /\ e_cmd (clog i) <> f.
Proof. exact future_index_refuted_lemma. Qed.
Print Assumptions c12_future_index_refuted.

(* The monitor of ./check is the predicate the theorems are about: on the case produced by ANY cluster
   of driver models (k replicas, each stepping on its own, snapshots exchanged between them) under the
   hypotheses, C12_monitor returns 0. *)
Theorem c12_model_satisfies_monitor :
  forall (clog : N -> entry), (forall i, e_idx (clog i) = i) ->
  forall (k : nat) (sched : list (nat * step)),
  csched_ok clog sched (cluster_init true k) ->
  C12_monitor (case_of (crun true k sched)) = 0.
Proof. exact model_satisfies_monitor_lemma. Qed.
Print Assumptions c12_model_satisfies_monitor.

(* The hypothesis on received snapshots is what replicas store: every snapshot a reachable replica
   holds is good, and everything in it has been applied by some replica of the cluster. *)
Theorem c12_stored_snapshot_good :
  forall (clog : N -> entry), (forall i, e_idx (clog i) = i) ->
  forall (k : nat) (sched : list (nat * step)),
  csched_ok clog sched (cluster_init true k) ->
  forall n, In n (crun true k sched) -> d_snap n <> 0 ->
  snap_good clog (d_snap n) (d_snapc n) /\ (forall e, In e (d_snapc n) -> In e (Gall (crun true k sched))).
Proof. exact stored_snapshot_good_lemma. Qed.
Print Assumptions c12_stored_snapshot_good.

(* ---- the hypotheses are satisfiable ----------------------------------------------------------------------- *)

(* a schedule with local proposals, one batch, a compaction, a synchronous Ready killed after its Save,
   a restart from the snapshot and the re-delivery: it satisfies sched_ok with the future hypotheses ... *)
Example c12_hypotheses_satisfiable : sched_ok clogV (fun _ => False) (TrackFut clogV) schedV start_node.
Proof. exact schedV_ok. Qed.

(* ... and this is what it produces *)
Example c12_hypotheses_satisfiable_result :
  sm_hist (run true schedV) = [clogV 5; clogV 6; clogV 8]
  /\ sm_idx (run true schedV) = 8
  /\ In (700, FutOk 5 2 (Some 700)) (n_futs (run true schedV))
  /\ In (701, FutOk 6 2 (Some 701)) (n_futs (run true schedV))
  /\ d_snap (run true schedV) = 6
  /\ applied_tr (n_tr (run true schedV)) = [clogV 5; clogV 6; clogV 8].
Proof. exact schedV_result. Qed.

(* the state machine WITHOUT a durable applied index (not the production configuration): a kill
   between ApplyBatch and Storage.MarkApplied makes the restart apply the batch a second time *)
Example c12_plain_state_machine_reapplies :
  applied_tr (n_tr (run false schedPlain)) = [clogV 5; clogV 6; clogV 5; clogV 6].
Proof. exact plain_reapplies. Qed.
