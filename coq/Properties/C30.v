(* C30 — Message ids are unique and increasing.
   The model is the allocator's transition system over its atomic steps
   (Generate / floor.Load / floor.CompareAndSwap); [run evs] executes an
   ARBITRARY interleaving [evs] of any number of threads, with ARBITRARY
   generator outputs.  [log] lists completed calls, newest first, stamped with
   the logical time of call and return. *)
From WK Require Import Base.Base Model.MsgIds Proof.MsgIds.
Open Scope N_scope.

(* in completion (CAS) order ids strictly increase — hence are pairwise distinct *)
Theorem c30_unique_increasing : forall evs l1 b l2 a ida idb,
  log (run evs) = l1 ++ b :: l2 -> In a l2 ->
  d_ret a = RNext ida -> d_ret b = RNext idb -> ida < idb.
Proof. exact unique_increasing. Qed.
Print Assumptions c30_unique_increasing.

(* once SetFloor f has returned nil, every id issued by a later CAS is > f *)
Theorem c30_floor_respected : forall evs l1 b l2 a f idb,
  log (run evs) = l1 ++ b :: l2 -> In a l2 ->
  d_ret a = RSetOk f -> d_ret b = RNext idb -> f < idb.
Proof. exact floor_respected. Qed.
Print Assumptions c30_floor_respected.

(* the same, phrased on what a caller can observe (call/return real-time order):
   any two Next calls return different ids, and if one returned before the
   other was called its id is smaller *)
Theorem c30_realtime_next : forall evs i j a b ida idb,
  i <> j -> nth_error (log (run evs)) i = Some a -> nth_error (log (run evs)) j = Some b ->
  d_ret a = RNext ida -> d_ret b = RNext idb ->
  ida <> idb /\ (d_end a < d_start b -> ida < idb).
Proof. exact realtime_next. Qed.
Print Assumptions c30_realtime_next.

Theorem c30_realtime_floor : forall evs i j a b f idb,
  i <> j -> nth_error (log (run evs)) i = Some a -> nth_error (log (run evs)) j = Some b ->
  d_ret a = RSetOk f -> d_ret b = RNext idb -> d_end a < d_start b -> f < idb.
Proof. exact realtime_floor. Qed.
Print Assumptions c30_realtime_floor.

(* every change of the floor is a strict increase (no ABA on the CAS word) *)
Theorem c30_floor_strict : forall evs e,
  floor (run (evs ++ [e])) = floor (run evs) \/ floor (run evs) < floor (run (evs ++ [e])).
Proof. exact floor_strict. Qed.
Print Assumptions c30_floor_strict.

(* SetFloor never synthesises ids: the floor only ever holds generator outputs *)
Theorem c30_never_synthesises : forall evs,
  incl (stored (run evs)) (gens (run evs))
  /\ (floor (run evs) = 0 \/ In (floor (run evs)) (gens (run evs))).
Proof. exact never_synthesises. Qed.
Print Assumptions c30_never_synthesises.

(* the monitor evaluated on implementation histories accepts every history the model produces *)
Theorem c30_model_satisfies_monitor : forall evs sq fls,
  C30_monitor (C30Case sq (log (run evs)) fls) = 0.
Proof. exact model_satisfies_monitor. Qed.
Print Assumptions c30_model_satisfies_monitor.

(* non-vacuity: two threads race; thread 1's CAS fails and it retries with a fresh value;
   a SetFloor above the floor is accepted, a later one whose probe is too small is rejected *)
Example c30_example_race :
  let evs := [ECallNext 0; ECallNext 1; EStep 0 10; EStep 1 11; EStep 0 0; EStep 1 0;
              EStep 0 0 (* CAS ok: 10 *); EStep 1 0 (* CAS fails *); EStep 1 12; EStep 1 0; EStep 1 0;
              ECallSetFloor 0 20; EStep 0 0; EStep 0 25; EStep 0 0; EStep 0 0;
              ECallSetFloor 1 40; EStep 1 0; EStep 1 30] in
  map d_ret (log (run evs)) = [RSetErr 40; RSetOk 20; RNext 12; RNext 10] /\ floor (run evs) = 25.
Proof. vm_compute. split; reflexivity. Qed.
