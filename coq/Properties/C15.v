(* C15 — Channel routing metadata never regresses.
   Only statements, each closed by [exact] of a lemma from Proof/RuntimeMeta*.v.

   Vocabulary (Model/RuntimeMeta.v, Model/RuntimeMeta_C15.v):
     resolveMonotonicChannelRuntimeMeta, normalizeChannelRuntimeMeta, ... transcribe
     pkg/db/meta/table_runtime_meta.go;  c15_op / c15_step / c15_exec are the public
     meta.Shard and meta.WriteBatch operations on runtime-metadata rows and the store
     after a history starting from an empty DB;  [runtime_meta_advances a b] is
     "row a was replaced by row b without regressing" (the relation C15_monitor
     checks on the implementation's GetChannelRuntimeMeta observations).

   Reading of the property text fixed in DESIGN.md §7: the pair
   (ChannelEpoch, LeaderEpoch) is non-decreasing lexicographically (the code
   accepts a higher channel epoch carrying a lower leader epoch, see
   c15_leader_epoch_only_lexicographic), and the strict route-generation
   increase excludes the saturation value 2^64-1 of nextChannelRouteGeneration
   (c15_route_generation_saturates). *)
From WK Require Import Base.Base Gen.Consts_C15 Model.RuntimeMeta Model.RuntimeMeta_C15
  Proof.RuntimeMeta Proof.RuntimeMeta_C15.
Open Scope N_scope.

(* ---- the resolver, all rows and candidates ---------------------------------------- *)

(* an accepted write returns a row that advances the stored (normalized) row, and
   its candidate was not older than the stored row nor switching the leader
   inside unchanged epochs *)
Theorem c15_resolve_applied_advances : forall existing candidate next,
  resolveMonotonicChannelRuntimeMeta existing true candidate = (next, MonotonicApplied) ->
  runtime_meta_advances (normalizeChannelRuntimeMeta existing) next = true
  /\ candidate_not_regressing (normalizeChannelRuntimeMeta existing) candidate = true.
Proof. exact resolve_applied_advances. Qed.
Print Assumptions c15_resolve_applied_advances.

(* every other outcome is IgnoredStale or Conflict and returns the stored row *)
Theorem c15_resolve_rejected_returns_stored : forall existing candidate next result,
  resolveMonotonicChannelRuntimeMeta existing true candidate = (next, result) ->
  result <> MonotonicApplied ->
  (result = MonotonicIgnoredStale \/ result = MonotonicConflict)
  /\ next = normalizeChannelRuntimeMeta existing.
Proof. exact resolve_rejected_returns_stored. Qed.
Print Assumptions c15_resolve_rejected_returns_stored.

(* ---- arbitrary histories of Shard / WriteBatch operations ----------------------------
   In the next six theorems: [a] is the row of key k after the history [pre]
   (from an empty DB), [b] the row of k after [pre ++ ops], and no operation of
   [ops] deletes k (a direct delete of k or a batch containing one). *)

Theorem c15_history_advances : forall pre ops k a b,
  store_get (c15_exec [] pre) k = Some a ->
  (forall op, In op ops -> op_deletes op k = false) ->
  store_get (c15_exec [] (pre ++ ops)) k = Some b ->
  runtime_meta_advances a b = true.
Proof. exact clause_advances. Qed.
Print Assumptions c15_history_advances.

(* channel epoch never decreases; leader epoch never decreases within a channel epoch *)
Theorem c15_epochs_monotone : forall pre ops k a b,
  store_get (c15_exec [] pre) k = Some a ->
  (forall op, In op ops -> op_deletes op k = false) ->
  store_get (c15_exec [] (pre ++ ops)) k = Some b ->
  rm_channel_epoch a < rm_channel_epoch b
  \/ (rm_channel_epoch a = rm_channel_epoch b /\ rm_leader_epoch a <= rm_leader_epoch b).
Proof. exact clause_epochs. Qed.
Print Assumptions c15_epochs_monotone.

(* same epochs: the leader is the same and the lease was not shortened *)
Theorem c15_same_epoch_leader_fixed_lease_not_shortened : forall pre ops k a b,
  store_get (c15_exec [] pre) k = Some a ->
  (forall op, In op ops -> op_deletes op k = false) ->
  store_get (c15_exec [] (pre ++ ops)) k = Some b ->
  rm_channel_epoch a = rm_channel_epoch b -> rm_leader_epoch a = rm_leader_epoch b ->
  rm_leader a = rm_leader b /\ (rm_lease_until_ms a <= rm_lease_until_ms b)%Z.
Proof. exact clause_same_epochs. Qed.
Print Assumptions c15_same_epoch_leader_fixed_lease_not_shortened.

(* retention boundary and write-fence version never decrease *)
Theorem c15_retention_fence_monotone : forall pre ops k a b,
  store_get (c15_exec [] pre) k = Some a ->
  (forall op, In op ops -> op_deletes op k = false) ->
  store_get (c15_exec [] (pre ++ ops)) k = Some b ->
  rm_retention_through_seq a <= rm_retention_through_seq b
  /\ rm_write_fence_version a <= rm_write_fence_version b.
Proof. exact clause_retention_fence. Qed.
Print Assumptions c15_retention_fence_monotone.

(* the route generation never decreases, and any difference in the 14 route
   fields (epochs, leader, replicas, ISR, MinISR, status, lease, retention
   boundary and time, the four fence fields) comes with a strictly larger route
   generation, below the saturation point *)
Theorem c15_route_generation_strict : forall pre ops k a b,
  store_get (c15_exec [] pre) k = Some a ->
  (forall op, In op ops -> op_deletes op k = false) ->
  store_get (c15_exec [] (pre ++ ops)) k = Some b ->
  rm_route_generation a <= rm_route_generation b
  /\ (runtimeRouteChanged a b = true -> rm_route_generation a <> u64max ->
      rm_route_generation a < rm_route_generation b).
Proof. exact clause_route_generation. Qed.
Print Assumptions c15_route_generation_strict.

(* a step that reports stale / conflict / any error / a failed Commit leaves the
   whole store unchanged (any store) *)
Theorem c15_rejects_leave_row : forall s op o s',
  c15_step s op = (o, s') -> obs_rejected o = true -> s' = s.
Proof. exact rejected_unchanged. Qed.
Print Assumptions c15_rejects_leave_row.

(* a direct upsert whose candidate is older than the stored row, or switches the
   leader inside unchanged epochs, is reported rejected and changes nothing *)
Theorem c15_regressing_write_rejected : forall pre hash_slot m stored,
  let s := c15_exec [] pre in
  store_get s (meta_key hash_slot m) = Some stored ->
  candidate_not_regressing stored m = false ->
  obs_rejected (fst (shard_upsert s hash_slot m)) = true /\ snd (shard_upsert s hash_slot m) = s.
Proof. exact regressing_upsert_rejected. Qed.
Print Assumptions c15_regressing_write_rejected.

(* every stored row is in normal form (so the codec's normalization is the identity) *)
Theorem c15_stored_rows_normalized : forall pre k m,
  store_get (c15_exec [] pre) k = Some m -> normalizeChannelRuntimeMeta m = m.
Proof. exact reachable_rows_normalized. Qed.
Print Assumptions c15_stored_rows_normalized.

(* ---- the monitor evaluated on implementation traces accepts every model trace ------------ *)

Theorem c15_model_satisfies_monitor : forall keys ops,
  C15_monitor (C15History keys (c15_run keys [] ops)) = 0.
Proof. exact history_model_satisfies_monitor. Qed.
Print Assumptions c15_model_satisfies_monitor.

Theorem c15_resolve_model_satisfies_monitor : forall existing exists_ candidate,
  C15_monitor (C15Resolve existing exists_ candidate
                 (normalizeChannelRuntimeMeta existing) (normalizeChannelRuntimeMeta candidate)
                 (fst (resolveMonotonicChannelRuntimeMeta existing exists_ candidate))
                 (snd (resolveMonotonicChannelRuntimeMeta existing exists_ candidate))
                 (validateChannelRuntimeMeta candidate)) = 0.
Proof. exact resolve_model_satisfies_monitor. Qed.
Print Assumptions c15_resolve_model_satisfies_monitor.

(* ---- Examples: the hypotheses are satisfiable, and the boundary cases ------------------------ *)

(* a leader change with a new leader epoch is accepted and bumps the route generation 5 -> 6 *)
Example c15_example_history :
  let pre := [OpUpsert 3 (example_row 1 1 5 1 100%Z)] in
  let ops := [OpUpsert 3 (example_row 1 2 0 2 50%Z)] in
  store_get (c15_exec [] pre) example_key = Some (example_row 1 1 5 1 100%Z)
  /\ store_get (c15_exec [] (pre ++ ops)) example_key = Some (example_row 1 2 6 2 50%Z).
Proof. vm_compute. split; reflexivity. Qed.

(* same epochs: a leader switch is a conflict, a shorter lease is clamped *)
Example c15_example_conflict_and_clamp :
  let s := c15_exec [] [OpUpsert 3 (example_row 1 1 5 1 100%Z)] in
  fst (c15_step s (OpUpsert 3 (example_row 1 1 0 2 100%Z))) = ObsUpsert MonotonicConflict EConflict
  /\ store_get (snd (c15_step s (OpUpsert 3 (example_row 1 1 0 1 50%Z)))) example_key
     = Some (example_row 1 1 5 1 100%Z).
Proof. vm_compute. split; reflexivity. Qed.

(* c15_delete_then_create: after a delete the next write is unconstrained — the
   reason the theorems (and the monitor) exclude steps that delete the key *)
Example c15_delete_then_create :
  store_get (c15_exec [] [OpUpsert 3 (example_row 3 3 9 1 100%Z); OpDelete example_key;
                          OpUpsert 3 (example_row 1 1 0 2 0%Z)]) example_key
  = Some (example_row 1 1 1 2 0%Z).
Proof. vm_compute. reflexivity. Qed.

(* c15_route_generation_saturates: at 2^64-1 a lease change is accepted and the
   route generation cannot grow *)
Example c15_route_generation_saturates :
  let a := example_row 1 1 u64max 1 100%Z in
  let b := example_row 1 1 u64max 1 200%Z in
  store_get (c15_exec [] [OpUpsert 3 a; OpUpsert 3 (example_row 1 1 0 1 200%Z)]) example_key = Some b
  /\ runtimeRouteChanged a b = true /\ rm_route_generation b = rm_route_generation a.
Proof. vm_compute. repeat split; reflexivity. Qed.

(* the strict per-field reading "leader epoch never decreases" is false of the
   code: a higher channel epoch may carry a lower leader epoch *)
Example c15_leader_epoch_only_lexicographic :
  exists pre ops a b,
    store_get (c15_exec [] pre) example_key = Some a
    /\ (forall op, In op ops -> op_deletes op example_key = false)
    /\ store_get (c15_exec [] (pre ++ ops)) example_key = Some b
    /\ rm_leader_epoch b < rm_leader_epoch a.
Proof.
  exists [OpUpsert 3 (example_row 1 5 0 1 100%Z)], [OpUpsert 3 (example_row 2 0 0 1 100%Z)],
         (example_row 1 5 5 1 100%Z), (example_row 2 0 6 1 100%Z).
  split; [vm_compute; reflexivity|]. split.
  - intros op [<-|[]]. reflexivity.
  - split; vm_compute; reflexivity.
Qed.
