(* C15 — placeholder, replaced below *)
From WK Require Import Base.Base Model.RuntimeMeta Model.RuntimeMeta_C15.
