(* C06 — placeholder while the harness/model tie is brought up; replaced by the real statements. *)
From WK Require Import Base.Base Gen.Consts_C06 Model.Machine.
Open Scope N_scope.
Example c06_example_init : wm_ok (init_state 1 1 1 0 5 3 2) = true.
Proof. vm_compute. reflexivity. Qed.
