(* C06 — The channel runtime state machine keeps watermark and reply invariants.
   Only statements, each closed by [exact] of a lemma from Proof/Machine*.v.

   Vocabulary (Model/Machine.v): [init_state key local gen id leo hw cp] is
   machine.NewChannelState plus the watermarks the reactor loads from the store;
   [step s e] is one transition (ApplyMeta, ProposeAppendBatch / ProposeAppend,
   ApplyAppendStored, ApplyQuorumCommitted, a follower ack on one of the four routes —
   three of them the reactor call sites of ApplyFollowerAck with their guards —,
   CancelAppendWaiter, AbortAppendBatchProposal) returning the new state and the Decision;
   [run_state s evs] folds [step]; [run s evs] is the trace (event, decision, state). *)
From WK Require Import Base.Base Gen.Consts_C06 Model.Machine.
From WK Require Import Proof.Machine Proof.Machine_steps Proof.Machine_trans Proof.Machine_monitor
     Proof.Machine_props Proof.Machine_range.
Open Scope N_scope.

(* checkpointed <= committed <= log end in every reachable state (and every Progress match <= LEO,
   the fact AdvanceHW relies on) — arbitrary event lists, arbitrary valid initial watermarks *)
Theorem c06_watermarks : forall key local gen id leo hw cp, cp <= hw -> hw <= leo -> forall evs,
  let s := run_state (init_state key local gen id leo hw cp) evs in
  s_cp s <= s_hw s /\ s_hw s <= s_leo s /\ forall n, pr_get n (s_progress s) <= s_leo s.
Proof. exact watermarks. Qed.
Print Assumptions c06_watermarks.

(* the committed watermark (and the log end) never decrease, the checkpoint is never moved by the
   machine — at every step, hence in particular within one metadata fence *)
Theorem c06_hw_monotone : forall key local gen id leo hw cp, cp <= hw -> hw <= leo -> forall evs e,
  let s := run_state (init_state key local gen id leo hw cp) evs in
  let s' := fst (step s e) in
  s_hw s <= s_hw s' /\ s_leo s <= s_leo s' /\ s_cp s' = s_cp s.
Proof. exact monotone. Qed.
Print Assumptions c06_hw_monotone.

(* a successful reply goes to an op that was waiting; its items end at the waiter's (non-zero)
   target, and for a quorum-mode waiter the committed watermark after the step covers it *)
Theorem c06_quorum_reply_covered :
  forall key local gen id leo hw cp, cp <= hw -> hw <= leo -> forall evs e r,
  let s := run_state (init_state key local gen id leo hw cp) evs in
  let s' := fst (step s e) in
  In r (d_replies (snd (step s e))) -> r_err r = 0 ->
  exists w target,
    find_w (r_op r) (s_pending s) = Some w /\ target <> 0
    /\ (forall q, last_idx (r_items r) = Some q -> q = target)
    /\ (w_mode w = CommitModeQuorum -> target <= s_hw s').
Proof. exact quorum_reply_covered. Qed.
Print Assumptions c06_quorum_reply_covered.

(* per step: replies go only to waiting ops, remove them, are pairwise distinct; ops enter
   PendingAppends only through an accepted proposal, under ids that were not waiting *)
Theorem c06_reply_once_step :
  forall key local gen id leo hw cp, cp <= hw -> hw <= leo -> forall evs e,
  let s := run_state (init_state key local gen id leo hw cp) evs in
  let s' := fst (step s e) in
  let d := snd (step s e) in
  (forall r, In r (d_replies d) ->
     In (r_op r) (pend_ids (s_pending s)) /\ ~ In (r_op r) (pend_ids (s_pending s')))
  /\ NoDup (map r_op (d_replies d))
  /\ (forall x, In x (pend_ids (s_pending s')) ->
        In x (pend_ids (s_pending s)) \/ In x (admitted_ids e d))
  /\ (forall x, In x (admitted_ids e d) -> ~ In x (pend_ids (s_pending s)))
  /\ NoDup (admitted_ids e d).
Proof. exact reply_once_step. Qed.
Print Assumptions c06_reply_once_step.

(* over a whole history: an op id is answered at most as often as it was admitted *)
Theorem c06_reply_once :
  forall key local gen id leo hw cp, cp <= hw -> hw <= leo -> forall evs x,
  (replies_to x (run (init_state key local gen id leo hw cp) evs)
   <= admissions_of x (run (init_state key local gen id leo hw cp) evs))%nat.
Proof. exact reply_once. Qed.
Print Assumptions c06_reply_once.

(* the same bound for ANY trace the monitor accepts — in particular for implementation traces *)
Theorem c06_monitor_implies_reply_once : forall tr s0 x,
  trace_ok s0 tr = true ->
  (replies_to x tr + waiting x (final_state s0 tr) <= admissions_of x tr + waiting x s0)%nat.
Proof. exact trace_ok_reply_once. Qed.
Print Assumptions c06_monitor_implies_reply_once.

(* a stored result / quorum receipt whose fence does not match changes nothing (any state) *)
Theorem c06_stale_fence_noop : forall s f, matches_fence s f = false ->
  (forall base last err, step s (EvStored f base last err) = (s, dec_empty))
  /\ (forall first last hw err, step s (EvQuorum f first last hw err) = (s, dec_empty)).
Proof. exact stale_fence_noop. Qed.
Print Assumptions c06_stale_fence_noop.

(* metadata with an older epoch / leader epoch or a same-fence leader switch is rejected and
   changes nothing (any state) *)
Theorem c06_meta_rejects : forall s m,
  m_epoch m < s_epoch s
  \/ (m_epoch m = s_epoch s /\ m_lepoch m < s_lepoch s)
  \/ (m_epoch m = s_epoch s /\ m_lepoch m = s_lepoch s /\ m_leader m <> s_leader s) ->
  exists e, e <> 0 /\ step s (EvMeta m) = (s, dec_err e).
Proof. exact meta_rejects. Qed.
Print Assumptions c06_meta_rejects.

(* the leader rejects an ack above LEO on every route (harness guard, progress ack, stopped ack, pull) *)
Theorem c06_ack_guard_all_routes : forall s r key epoch lepoch follower off ver_ok,
  s_leo s < off ->
  exists e, e <> 0 /\ step s (EvAck r key epoch lepoch follower off ver_ok) = (s, dec_err e).
Proof. exact ack_guard_all_routes. Qed.
Print Assumptions c06_ack_guard_all_routes.

(* ... and the guard is necessary: with ApplyFollowerAck called unguarded a two-event history
   reaches HW > LEO *)
Theorem c06_unguarded_ack_refuted :
  exists evs, let s := run_state_unguarded (init_state 1 1 1 0 0 0 0) evs in s_leo s < s_hw s.
Proof. exact unguarded_ack_refuted. Qed.
Print Assumptions c06_unguarded_ack_refuted.

(* the model's one totalised Go panic (slice bounds in assignInflightRecordsToWaiters) is
   unreachable: in every reachable state with an in-flight batch the slicing stays in range *)
Theorem c06_no_slice_out_of_range : forall key local gen id leo hw cp evs i base,
  let s := run_state (init_state key local gen id leo hw cp) evs in
  s_infl s = Some i ->
  assign_in_range (assign_offsets (f_recs i) base) 0 (f_ids i) (f_counts i) (s_pending s) = true.
Proof. exact no_slice_out_of_range. Qed.
Print Assumptions c06_no_slice_out_of_range.

(* the monitor evaluated on implementation traces accepts every trace the model can produce
   (so: model = implementation on a case, plus the theorems above, implies the monitor holds;
   a monitor failure on an implementation trace is a real property failure) *)
Theorem c06_model_satisfies_monitor : forall key local gen id leo hw cp evs,
  cp <= hw -> hw <= leo -> C06_monitor (model_case key local gen id leo hw cp evs) = 0.
Proof. exact model_satisfies_monitor. Qed.
Print Assumptions c06_model_satisfies_monitor.

Theorem c06_model_case_no_mismatch : forall key local gen id leo hw cp evs,
  C06_mismatch (model_case key local gen id leo hw cp evs) = false.
Proof. exact model_case_no_mismatch. Qed.
Print Assumptions c06_model_case_no_mismatch.

(* ---- non-vacuity ------------------------------------------------------------------------------ *)
Definition ex_meta : meta := Meta 1 1 1 1 1 [1; 2; 3] [1; 2] 2%Z StatusActive.
Definition ex_history : list event :=
  [ EvMeta ex_meta;
    EvPropose 100 [BWaiter 7 CommitModeQuorum [501; 502] true; BWaiter 8 CommitModeLocal [503] true];
    EvStored (Fence 1 1 1 1 100) 4 6 0;            (* local waiter 8 answered, quorum waiter 7 waits *)
    EvAck RProgress 1 1 1 2 9 true;                (* above LEO: rejected *)
    EvAck RPull 1 1 1 2 5 true;                    (* HW = 5 >= target 5: waiter 7 answered *)
    EvStored (Fence 1 1 1 1 100) 7 7 0;            (* stale: no inflight any more *)
    EvMeta (Meta 1 1 1 1 3 [1; 2; 3] [1; 2] 2%Z StatusActive) ]. (* same fence, other leader: rejected *)

(* the history really exercises the hypotheses: replies, a quorum completion by ack, rejections *)
Example c06_example_history :
  map (fun x => match x with (_, d, s) => (d_err d, map r_op (d_replies d), s_leo s, s_hw s) end)
      (run (init_state 1 1 1 0 3 3 2) ex_history)
  = [ (0, [], 3, 3); (0, [], 3, 3); (0, [8], 6, 3); (EStaleMeta, [], 6, 3); (0, [7], 6, 5);
      (0, [], 6, 5); (EStaleMeta, [], 6, 5) ].
Proof. vm_compute. reflexivity. Qed.

Example c06_example_monitor_accepts :
  C06_monitor (model_case 1 1 1 0 3 3 2 ex_history) = 0
  /\ replies_to 7 (run (init_state 1 1 1 0 3 3 2) ex_history) = 1%nat
  /\ admissions_of 7 (run (init_state 1 1 1 0 3 3 2) ex_history) = 1%nat.
Proof. vm_compute. repeat split. Qed.

(* the monitor is not trivially 0: a trace that answers quorum waiter 7 before HW covers it, a
   trace with HW above LEO, and a double answer are all rejected *)
Definition bad_state (hw : N) (pend : list waiter) : state :=
  State 1 1 1 1 1 1 RoleLeader StatusActive 1 [1; 2] [1; 2] 2%Z 6 hw 2 true [(1, 6)] pend
        (map w_op pend) None.
Example c06_example_monitor_rejects :
  let w7 := Waiter 7 5 CommitModeQuorum [(501, 4); (502, 5)] in
  (* early quorum reply: HW = 3 < target 5 *)
  trace_ok (bad_state 3 [w7])
           [(EvAck RDirect 1 1 1 2 3 true, dec_replies [Reply 7 0 [(501, 4); (502, 5)]], bad_state 3 [])] = false
  (* HW above LEO *)
  /\ trace_ok (bad_state 3 []) [(EvAck RPull 1 1 1 2 9 true, dec_empty, bad_state 9 [])] = false
  (* answered while still waiting afterwards (would be answered again) *)
  /\ trace_ok (bad_state 6 [w7])
           [(EvAck RDirect 1 1 1 2 6 true, dec_replies [Reply 7 0 [(501, 4); (502, 5)]], bad_state 6 [w7])] = false.
Proof. vm_compute. repeat split. Qed.
