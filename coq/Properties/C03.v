(* C03 — Append receipts are exact, contiguous and retry-stable.
   Statements only; proofs are in Proof/QuorumLog_C03.v, Proof/QuorumLog_Commit.v, Proof/ReplicaLog.v.

   The full statement is FALSE of the faithful model (and of the code): with the Pebble store,
   ServerAllocatedMessageIDs, a command evicted from the retained cache (or an owner restart) and
   no stored idempotency key pair, the sequencedFresh fast path stores the command again — known
   finding C03-K1 = DESIGN §0 F4 — see c03_fastpath_refuted.  The partial statements below hold
   for every owner state and every network (all fault outcomes). *)
From WK Require Import Base.Base.
From WK Require Import Model.ReplicaLog Model.QuorumLog Model.Cluster Model.Monitor_C03.
From WK Require Import Proof.ReplicaLog Proof.QuorumLog_Commit Proof.QuorumLog_C03.
Open Scope N_scope.

(* the exact append of both stores: a Durable Sync found the log end exactly at the proposal's
   base and appended exactly the derived entries and rows (and bound both proposal indexes);
   AlreadyDurable leaves log and indexes untouched; every other outcome leaves the replica unchanged *)
Theorem c03_sync_effect : forall k rp mu rp' o nf,
  sync k rp mu = (rp', o, nf) -> sync_effect rp mu rp' o.
Proof. exact sync_effect_holds. Qed.
Print Assumptions c03_sync_effect.

(* an entry once stored is never altered by a Sync: the old log is a prefix of the new one *)
Theorem c03_sync_log_prefix : forall k rp mu rp' o nf,
  sync k rp mu = (rp', o, nf) -> exists ext, rp_log rp' = rp_log rp ++ ext.
Proof. exact sync_log_prefix. Qed.
Print Assumptions c03_sync_log_prefix.

(* content comparison is exact: a sealed proposal accepts precisely its own records
   (the digest is injective in the records) *)
Theorem c03_same_content_iff_same_records : forall d recs,
  well_sealed d -> sameProposalContent d recs = true -> recs = dp_records d.
Proof. exact sameProposalContent_records. Qed.
Print Assumptions c03_same_content_iff_same_records.

(* c03_contiguous: a fresh command that passes the durability round gets First = frontier + 1,
   one sequence per record, HW = Last; the owner's frontier becomes Last; on the leader's replica
   the proposal was appended exactly at the log end (or was already there, unchanged) *)
Theorem c03_contiguous : forall cfg n st local p a d n1 res st2 rc,
  commit_admitted cfg st a p ->
  sealBusinessProposal a (qc_frontier st) (qc_hw st) (pr_cmd p) (pr_records p) (pr_sa p) = Some d ->
  runDurableRound n local (a_voters a) (a_q a) (cf_rot cfg) d = (n1, res) ->
  finishCommit cfg (set_pending st (Some (Retained d receipt_zero false))) a (Retained d receipt_zero false) res = (st2, COk rc) ->
  rc = Receipt (a_id a) (pr_cmd p) (rs_leo (qc_frontier st) + 1) (rs_leo (qc_frontier st) + lenN (pr_records p))
               (rs_leo (qc_frontier st) + lenN (pr_records p)) /\
  rs_leo (qc_frontier st2) = rc_last rc /\ qc_hw st2 = rc_last rc /\ qc_pending st2 = None /\
  (exists es, DeriveProposalEntries (dp_manifest d) (pr_records p) = Some es /\
     ((rp_leo (net_rep n local) = rs_leo (qc_frontier st) /\
       rp_log (net_rep n1 local) = rp_log (net_rep n local) ++ combine es (pr_records p)) \/
      (rp_log (net_rep n1 local) = rp_log (net_rep n local) /\
       by_cmd (rp_bycmd (net_rep n local)) (pr_cmd p) = Some (dp_manifest d)))).
Proof. exact Commit_fresh_exact. Qed.
Print Assumptions c03_contiguous.

(* every path of an admitted Commit (used to read the theorems above as a case analysis) *)
Theorem c03_commit_paths : forall cfg n st local p a n' st' r,
  commit_admitted cfg st a p -> Commit cfg n st local p = (n', st', r) ->
  commit_shape cfg n st local p a n' st' r.
Proof. exact Commit_shape. Qed.
Print Assumptions c03_commit_paths.

(* c03_retry_stable / c03_conflicting_retry_rejected, command still retained: identical content
   returns the stored receipt, different content ErrLogConflict; no replica, no owner field changes *)
Theorem c03_retained_retry : forall cfg n st local p a rt n' st' r,
  commit_admitted cfg st a p ->
  get_retained (qc_retained st) (pr_cmd p) = Some rt -> rt_durable rt = true ->
  Commit cfg n st local p = (n', st', r) ->
  n' = n /\ st' = st /\
  ((sameProposalContent (rt_prop rt) (pr_records p) = true /\ r = COk (rt_receipt rt)) \/
   (sameProposalContent (rt_prop rt) (pr_records p) = false /\ r = CErr EConflict)).
Proof. exact Commit_retained. Qed.
Print Assumptions c03_retained_retry.

(* conflicting reuse of the pending (ambiguous) command: ErrLogConflict, nothing changes *)
Theorem c03_pending_conflict_rejected : forall cfg n st local p a pend n' st' r,
  commit_admitted cfg st a p ->
  get_retained (qc_retained st) (pr_cmd p) = None -> qc_pending st = Some pend ->
  tag_eqb (m_cmd (dp_manifest (rt_prop pend))) (pr_cmd p) = true ->
  sameProposalContent (rt_prop pend) (pr_records p) = false ->
  Commit cfg n st local p = (n', st', r) -> n' = n /\ st' = st /\ r = CErr EConflict.
Proof. exact Commit_pending_conflict. Qed.
Print Assumptions c03_pending_conflict_rejected.

(* c03_retry_stable_partial — evicted or restarted retry (not retained, nothing pending) of a command
   the leader's store knows under manifest m0, when the store takes the slow path (memory store;
   Pebble unless ServerAllocatedMessageIDs and base = log end): the leader's replica is not
   written, the only possible success is m0's own range (First = base+1, Last, HW = Last) and then
   the proposal's records are exactly the stored ones — a reuse with different content is never
   acknowledged *)
Theorem c03_retry_stable_partial : forall cfg n st local p a m0 n' st' r,
  commit_admitted cfg st a p ->
  get_retained (qc_retained st) (pr_cmd p) = None -> qc_pending st = None ->
  by_cmd (rp_bycmd (net_rep n local)) (pr_cmd p) = Some m0 ->
  (forall d, sealBusinessProposal a (qc_frontier st) (qc_hw st) (pr_cmd p) (pr_records p) (pr_sa p) = Some d ->
             m0 <> dp_manifest d /\ slow_path (nt_kind n) (net_rep n local) (dp_mutation d)) ->
  Commit cfg n st local p = (n', st', r) ->
  net_rep n' local = net_rep n local /\
  (forall rc, r = COk rc ->
     exists recs, lookupCommand (nt_kind n) (net_rep n local) (pr_cmd p) (cf_maxrecs cfg) = inr (Some (m0, recs)) /\
                  rc = Receipt (a_id a) (pr_cmd p) (m_base m0 + 1) (m_last m0) (m_last m0) /\ pr_records p = recs).
Proof. exact Commit_known_command_slow_path. Qed.
Print Assumptions c03_retry_stable_partial.

(* c03_retry_stable_memory: the memory store always takes the slow path *)
Theorem c03_retry_stable_memory : forall rp mu, slow_path SMem rp mu.
Proof. exact slow_path_memory. Qed.
Print Assumptions c03_retry_stable_memory.

(* c03_fastpath_refuted (C03-K1): on the Pebble model, capacity-1 retained cache, server allocated
   ids, records without a stored key pair: command 1, command 2, command 1 again
   (a) with identical content is acknowledged at 3..3 instead of 1..1 (stored twice), and
   (b) with different content is acknowledged at 3..3 instead of being rejected;
   the monitor classifies both traces as known finding (code 2) *)
Theorem c03_fastpath_refuted :
  (fst (run_model (f4_cfg SPebble) (cluster_init (f4_cfg SPebble)) (f4_ops f4_r1)) =
     [ RInstalled (1, 1, 1) 0 0; RReceipt (1, 1, 1) (TUser 1) 1 1 1; RReceipt (1, 1, 1) (TUser 2) 2 2 2;
       RReceipt (1, 1, 1) (TUser 1) 3 3 3 ] /\
   C03_monitor (model_case (f4_cfg SPebble) (f4_ops f4_r1)) = 2) /\
  (fst (run_model (f4_cfg SPebble) (cluster_init (f4_cfg SPebble)) (f4_ops f4_r3)) =
     [ RInstalled (1, 1, 1) 0 0; RReceipt (1, 1, 1) (TUser 1) 1 1 1; RReceipt (1, 1, 1) (TUser 2) 2 2 2;
       RReceipt (1, 1, 1) (TUser 1) 3 3 3 ] /\
   C03_monitor (model_case (f4_cfg SPebble) (f4_ops f4_r3)) = 2).
Proof. exact (conj f4_identical_retry_stored_again f4_conflicting_reuse_accepted). Qed.
Print Assumptions c03_fastpath_refuted.

(* the same two schedules on the memory store: same range returned / ErrLogConflict, monitor 0 *)
Theorem c03_same_schedules_memory_ok :
  fst (run_model (f4_cfg SMem) (cluster_init (f4_cfg SMem)) (f4_ops f4_r1)) =
    [ RInstalled (1, 1, 1) 0 0; RReceipt (1, 1, 1) (TUser 1) 1 1 1; RReceipt (1, 1, 1) (TUser 2) 2 2 2;
      RReceipt (1, 1, 1) (TUser 1) 1 1 1 ] /\
  fst (run_model (f4_cfg SMem) (cluster_init (f4_cfg SMem)) (f4_ops f4_r3)) =
    [ RInstalled (1, 1, 1) 0 0; RReceipt (1, 1, 1) (TUser 1) 1 1 1; RReceipt (1, 1, 1) (TUser 2) 2 2 2;
      RErr EConflict ] /\
  C03_monitor (model_case (f4_cfg SMem) (f4_ops f4_r1)) = 0 /\
  C03_monitor (model_case (f4_cfg SMem) (f4_ops f4_r3)) = 0.
Proof. exact f4_memory_is_stable. Qed.
Print Assumptions c03_same_schedules_memory_ok.

(* c03_model_satisfies_monitor, BOUNDED (finite domain, vm_compute): for all 2801 schedules of at most 4
   operations over a 7-operation alphabet (two commands x two contents, a commit whose responses are
   all lost, owner restart, reinstall) after the initial install, 3 voters, quorum 2, cache capacity 1,
   the monitor evaluated on the model's own observations returns
     0 on the memory store, 0 on the Pebble store with client-supplied ids, and only 0 or the
     known-finding code 2 (never 1) on the Pebble store with server allocated ids.
   The unbounded link between model and monitor is given step-wise by the theorems above. *)
Theorem c03_model_satisfies_monitor_bounded :
  all_codes_in [0] (f4_cfg SMem) (c03_alphabet true) 4 = true /\
  all_codes_in [0] (f4_cfg SPebble) (c03_alphabet false) 4 = true /\
  all_codes_in [0; 2] (f4_cfg SPebble) (c03_alphabet true) 4 = true.
Proof. exact (conj c03_bounded_memory (conj c03_bounded_pebble_client_ids c03_bounded_pebble_server_ids)). Qed.
Print Assumptions c03_model_satisfies_monitor_bounded.

(* non-vacuity of commit_admitted and of the slow-path hypothesis *)
Example c03_admitted_example :
  let a := Auth (1, 1, 1) 1 [1; 2; 3] 2 false in
  commit_admitted (f4_cfg SMem) (QChan (Some a) rstate_zero 0 true None [] []) a
                  (Proposal (1, 1, 1) (TUser 1) [f4_r1] true).
Proof. repeat split; reflexivity. Qed.
