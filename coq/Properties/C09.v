(* C09 — Storage mutations are crash-atomic (level: PARTIAL).
   Proved on the model (Model/MsgStore.v over Model/KV.v): every API call commits at
   most one batch carrying rows, secondary indexes, checkpoint, epoch point and
   retention state together; under Pebble's contract -- a batch committed with
   Sync is atomic and durable when Commit returns, batches become durable in
   commit order (Model/KV.v [crash_states]; TRUSTED, exercised by the crash
   harness, not proved) -- a stop while a call is in flight recovers the store
   before or after that call, a stop after its return recovers the store after
   it, and every recoverable store is related to the plain sequential logs
   (consistent indexes, log end = last row or retained maximum).
   For every membership-filter implementation; histories of any length; the
   multi-channel StoreAppendBatch is included ([op_okb]). *)
From WK Require Import Base.Base Model.KV Gen.Consts_C07 Model.MsgStore Model.MsgStore_C07 Model.MsgStore_C09
     Proof.KV Proof.MsgStore_base Proof.MsgStore_rel Proof.MsgStore_reads Proof.MsgStore_C07 Proof.MsgStore_discard Proof.MsgStore_C09.

(* One mutation API call = at most one committed batch (append, apply, compat
   append, multi-channel batch, truncations, trim call, checkpoint), and the call
   changes the store only through that batch.  The one exception is the PAGED compat
   DiscardForRestore ([not_paged] excludes it here): see c09_call_commits_batches and
   c09_discard_* below. *)
Theorem c09_one_batch_per_call :
  forall (F : Type) (f_empty : F) (f_may : F -> bytes * bytes -> bool) (f_add : F -> bytes * bytes -> F)
         (st : mstate F) (o : op),
    not_paged o ->
    let st' := fst (step F f_empty f_may f_add st o) in
    (st_kv F st' = st_kv F st /\ st_log F st' = st_log F st)
    \/ exists b, st_kv F st' = kapply (st_kv F st) b /\ st_log F st' = st_log F st ++ [b].
Proof. exact step_one_batch. Qed.
Print Assumptions c09_one_batch_per_call.

(* EVERY call, the paged one included, changes the store only through the list of
   batches it commits, in order. *)
Theorem c09_call_commits_batches :
  forall (F : Type) (f_empty : F) (f_may : F -> bytes * bytes -> bool) (f_add : F -> bytes * bytes -> F)
         (st : mstate F) (o : op),
    let st' := fst (step F f_empty f_may f_add st o) in
    exists bs, st_log F st' = st_log F st ++ bs /\ st_kv F st' = run_batches key_eqb (st_kv F st) bs.
Proof. exact step_batches. Qed.
Print Assumptions c09_call_commits_batches.

(* The store is exactly the fold of the committed batches (nothing changes it behind their back). *)
Theorem c09_store_is_fold_of_batches :
  forall (F : Type) (f_empty : F) (f_may : F -> bytes * bytes -> bool) (f_add : F -> bytes * bytes -> F)
         (st : mstate F) (o : op),
    kv_is_log F st -> kv_is_log F (fst (step F f_empty f_may f_add st o)).
Proof. exact kv_is_log_preserved. Qed.
Print Assumptions c09_store_is_fold_of_batches.

(* Atomicity: a crash while a call is in flight recovers the store before the
   call or the store after it -- never a part of its batch. *)
Theorem c09_prefix_in_flight :
  forall (F : Type) (f_empty : F) (f_may : F -> bytes * bytes -> bool) (f_add : F -> bytes * bytes -> F)
         (st : mstate F) (o : op) (s : kvs),
    not_paged o ->
    kv_is_log F st ->
    crash_states key_eqb [] (st_log F (fst (step F f_empty f_may f_add st o))) (length (st_log F st)) s ->
    s = st_kv F st \/ s = st_kv F (fst (step F f_empty f_may f_add st o)).
Proof. exact crash_in_flight. Qed.
Print Assumptions c09_prefix_in_flight.

(* ... for any call: the store after a PREFIX of the batches of that call. *)
Theorem c09_prefix_in_flight_paged :
  forall (F : Type) (f_empty : F) (f_may : F -> bytes * bytes -> bool) (f_add : F -> bytes * bytes -> F)
         (st : mstate F) (o : op) (s : kvs),
    kv_is_log F st ->
    crash_states key_eqb [] (st_log F (fst (step F f_empty f_may f_add st o))) (length (st_log F st)) s ->
    exists bs k, st_log F (fst (step F f_empty f_may f_add st o)) = st_log F st ++ bs /\ (k <= length bs)%nat
                 /\ s = run_batches key_eqb (st_kv F st) (firstn k bs).
Proof. exact crash_in_flight_many. Qed.
Print Assumptions c09_prefix_in_flight_paged.

(* The paged DiscardForRestore: its batches (one per page: the rows of the page with
   ALL their index entries; then the partition range delete + catalog row) each keep
   the index invariant [IdxInv] (= the monitor's [chk_entry] on every binding: no
   index entry dangles, every stored row has its global-id / client-msg-no /
   idempotency / sender entries unless tainted by a trusted duplicate), so it holds
   after every prefix of them; after the call no key of the channel is left.
   Needs nothing but the invariant itself on the store the call starts from. *)
Theorem c09_discard_pages_keep_index_inv :
  forall (F : Type) (t : aspec) (st : mstate F) (c : N),
    swf (st_kv F st) -> IdxInv (st_kv F st) t ->
    exists bs,
      st_log F (fst (DiscardForRestore F st c)) = st_log F st ++ bs
      /\ st_kv F (fst (DiscardForRestore F st c)) = run_batches key_eqb (st_kv F st) bs
      /\ (forall k, IdxInv (run_batches key_eqb (st_kv F st) (firstn k bs)) t)
      /\ (snd (DiscardForRestore F st c) = ok tt ->
          forall k, in_partition c k = true \/ k = KyCat c -> kget k (st_kv F (fst (DiscardForRestore F st c))) = None).
Proof. exact discard_batches. Qed.
Print Assumptions c09_discard_pages_keep_index_inv.

(* ... in particular from every store related to the plain logs: whatever a stop
   inside the call recovers passes the monitor's per-binding index check. *)
Theorem c09_discard_crash_inv :
  forall (F : Type) (st : mstate F) (s : aspec) (c : N) (x : kvs),
    Rkv (st_kv F st) s -> kv_is_log F st ->
    crash_states key_eqb [] (st_log F (fst (DiscardForRestore F st c))) (length (st_log F st)) x ->
    forallb (chk_entry x s) x = true.
Proof. exact discard_crash_inv. Qed.
Print Assumptions c09_discard_crash_inv.

(* the building blocks: one stored row with its index entries; the terminal batch *)
Theorem c09_delete_row_keeps_index_inv :
  forall (kv : kvs) (t : aspec) (c q : N) (r : row),
    IdxInv kv t -> kget (KyRow c q) kv = Some (VRow r) -> IdxInv (kapply kv (stageDeleteMessage c r)) t.
Proof. exact del_row_IdxInv. Qed.
Print Assumptions c09_delete_row_keeps_index_inv.

(* Durability: after the call has returned, every crash recovers the store after it. *)
Theorem c09_durable_after_return :
  forall (F : Type) (f_empty : F) (f_may : F -> bytes * bytes -> bool) (f_add : F -> bytes * bytes -> F)
         (st : mstate F) (o : op) (s : kvs),
    kv_is_log F st ->
    crash_states key_eqb [] (st_log F (fst (step F f_empty f_may f_add st o)))
                 (length (st_log F (fst (step F f_empty f_may f_add st o)))) s ->
    s = st_kv F (fst (step F f_empty f_may f_add st o)).
Proof. exact crash_after_return. Qed.
Print Assumptions c09_durable_after_return.

(* Generic form (Model/KV.v): an invariant kept by every single batch holds in every crash state. *)
Theorem c09_crash_inv :
  forall (Inv : kvs -> Prop) (s0 : kvs) (bs : list kbatch),
    Inv s0 -> (forall s b, Inv s -> In b bs -> Inv (kapply s b)) ->
    forall durable s, crash_states key_eqb s0 bs durable s -> Inv s.
Proof. exact (crash_inv key_eqb (K := key) (V := value)). Qed.
Print Assumptions c09_crash_inv.

(* Recovery: a recoverable store, opened with empty caches, is related to the
   plain logs whenever it was before: all of C07 (reads total, indexes sound,
   contiguity, LEO = last row or retained maximum) holds after restart. *)
Theorem c09_recovered_related :
  forall (F : Type) (f_empty : F) (kv : kvs) (s : aspec) (log : list kbatch),
    Rkv kv s -> R F (MS F kv (fun _ => cc_init F f_empty) log) s.
Proof. exact recovered_related. Qed.
Print Assumptions c09_recovered_related.

(* The monitor's per-crash predicates hold of every store related to the logs:
   it shows exactly the logs and satisfies the index invariant ... *)
Theorem c09_inv :
  forall (kv : kvs) (s : aspec), Rkv kv s ->
    recovered_is kv (leos_of kv) s = true /\ kv_inv kv (leos_of kv) s = true.
Proof. exact related_passes_monitor. Qed.
Print Assumptions c09_inv.

(* ... hence the monitor accepts every crash observation the model can produce
   (recovered keys = the model's store after j ops, j inside every label's window). *)
Theorem c09_model_satisfies_monitor :
  forall (ops : list op) (crashes : list crash) (kvfinal : list kvent),
    Forall op_okb ops -> Forall (model_crash (run_kvs xinit ops)) crashes ->
    C09_monitor (C09Case (C07Case true (entries ops (snd (xrun true ops))) kvfinal) crashes) = 0.
Proof. exact c09_monitor_zero_on_model. Qed.
Print Assumptions c09_model_satisfies_monitor.

(* ---- non-vacuity ------------------------------------------------------------------------------------------ *)

Definition c09_rec (i : N) (uid cno : string) : rec := MsgStore.R i (hx cno) (hx uid) [97] 5%Z 0 0 0.

Definition c09_ops : list op :=
  [ OAppend 0 0 0 [c09_rec 1 "7531" "6e31"; c09_rec 2 "" "6e32"];
    OApply 0 3 [c09_rec 3 "7532" ""] (Some (1, 0, 2)) (Some (1, 2));
    OTrim 0 1 0%Z 0%Z; OTrunc 0 3; OCkpt 0 1 0 2 ].

(* every call of this history commits exactly one batch: 5 batches, and the
   append's batch carries row, global id index, idempotency / client index,
   sender index and catalog together *)
Example c09_ex_batches :
  length (st_log _ (fst (xrun true c09_ops))) = 5%nat
  /\ length (nth_or [] 0 (st_log _ (fst (xrun true c09_ops)))) = 8%nat.
Proof. split; vm_compute; reflexivity. Qed.

(* the monitor is not vacuous: a recovered store that holds the row of an append
   but not its idempotency index entry (a torn batch) is flagged *)
Example c09_monitor_rejects_torn_batch :
  C09_monitor (C09Case
    (C07Case true [E (OAppend 0 0 0 [c09_rec 1 "7531" "6e31"]) (XApp 1 1 1) []] [])
    [Cr [(0, 1, 0)] [1; 0; 0]
        [KRow 0 1 1 0 (hx "6e31") (hx "7531") (hashPayload [97]) [97] 5%Z 0; KGid 1 0 1;
         KSseq 0 (hx "7531") 1 1; KCat 0 0]]) = 1.
Proof. vm_compute. reflexivity. Qed.

(* ... and so is a lost acknowledged mutation (store before the call although it had returned) *)
Example c09_monitor_rejects_lost_durable :
  C09_monitor (C09Case
    (C07Case true [E (OAppend 0 0 0 [c09_rec 1 "7531" "6e31"]) (XApp 1 1 1) []] [])
    [Cr [(1, 1, 0)] [0; 0; 0] []]) = 1.
Proof. vm_compute. reflexivity. Qed.

(* ... while the whole batch, present or absent, is accepted in flight *)
Example c09_monitor_accepts_atomic :
  C09_monitor (C09Case
    (C07Case true [E (OAppend 0 0 0 [c09_rec 1 "7531" "6e31"]) (XApp 1 1 1) []] [])
    [Cr [(0, 1, 50)] [0; 0; 0] [];
     Cr [(0, 1, 100); (1, 1, 0)] [1; 0; 0]
        [KRow 0 1 1 0 (hx "6e31") (hx "7531") (hashPayload [97]) [97] 5%Z 0; KGid 1 0 1;
         KIdem 0 (hx "6e31") (hx "7531") 1 1 (hashPayload [97]); KSseq 0 (hx "7531") 1 1; KCat 0 0]]) = 0.
Proof. vm_compute. reflexivity. Qed.

(* the paged DiscardForRestore: the call commits TWO batches here (one page with the
   row, its global-id, idempotency and sender entries, then the partition / catalog batch); the model
   offers exactly one store between them (the row and its entries gone, catalog still
   there); afterwards the channel restarts at sequence 1 *)
Definition c09_discard_ops : list op :=
  [ OAppend 0 0 0 [c09_rec 1 "7531" "6e31"]; ODiscard 0; OLeo 0; OAppend 0 0 0 [c09_rec 2 "7531" "6e31"] ].

Example c09_ex_discard :
  length (st_log _ (fst (xrun true c09_discard_ops))) = 4%nat
  /\ map (@length (@wop key value)) (st_log _ (fst (xrun true c09_discard_ops))) = [5%nat; 4%nat; 2%nat; 5%nat]
  /\ map (fun l => map (@length (key * value)) l) (run_mids xinit c09_discard_ops) = [[]; [1%nat]; []; []]
  /\ map fst (snd (xrun true c09_discard_ops)) = [XApp 1 1 1; XOk; XN 0; XApp 1 1 1].
Proof. repeat split; vm_compute; reflexivity. Qed.

(* the monitor flags the TORN page of the seeded change C09-b: a stop inside the
   discard recovers the row with its channel-local index entries but WITHOUT its
   global message-id entry ... *)
Example c09_monitor_rejects_torn_discard_page :
  C09_monitor (C09Case
    (C07Case true [E (OAppend 0 0 0 [c09_rec 1 "7531" "6e31"]) (XApp 1 1 1) []; E (ODiscard 0) XOk []] [])
    [Cr [(1, 2, 100)] [1; 0; 0]
        [KRow 0 1 1 0 (hx "6e31") (hx "7531") (hashPayload [97]) [97] 5%Z 0;
         KIdem 0 (hx "6e31") (hx "7531") 1 1 (hashPayload [97]); KSseq 0 (hx "7531") 1 1; KCat 0 0]]) = 1.
Proof. vm_compute. reflexivity. Qed.

(* ... and accepts the store between a whole page and the terminal batch, the store
   before the call and the store after it *)
Example c09_monitor_accepts_whole_discard_pages :
  C09_monitor (C09Case
    (C07Case true [E (OAppend 0 0 0 [c09_rec 1 "7531" "6e31"]) (XApp 1 1 1) []; E (ODiscard 0) XOk []] [])
    [Cr [(1, 2, 100); (1, 2, 0)] [0; 0; 0] [KCat 0 0];
     Cr [(1, 2, 0)] [1; 0; 0]
        [KRow 0 1 1 0 (hx "6e31") (hx "7531") (hashPayload [97]) [97] 5%Z 0; KGid 1 0 1;
         KIdem 0 (hx "6e31") (hx "7531") 1 1 (hashPayload [97]); KSseq 0 (hx "7531") 1 1; KCat 0 0];
     Cr [(1, 2, 100); (2, 2, 0)] [0; 0; 0] []]) = 0.
Proof. vm_compute. reflexivity. Qed.
