(* C09 — placeholder while the model is being tied; replaced by the theorem file. *)
From WK Require Import Base.Base Model.MsgStore Model.MsgStore_C07 Model.MsgStore_C09.
Example c09_stub : C09_monitor (C09Case (C07Case true [] []) []) = 0.
Proof. reflexivity. Qed.
