(* C23 — placeholder while the proofs are being written *)
From WK Require Import Base.Base Gen.Consts_C22 Model.WKProto Model.WKStream.
Open Scope N_scope.
