(* C23 — Client stream decoding is robust to arbitrary bytes and splits.
   DecodeFrame / Adapter_Decode / onData / feed are the transcriptions of
   codec.WKProto.DecodeFrame, wkproto.Adapter.Decode and core.Server.onData
   (Model/WKProto.v).  The session's protocol version sv is arbitrary (unset and 0
   mean LatestVersion); the frames of a valid stream are within the protocol limits
   of C22.  Only statements, each closed by [exact] of a lemma from Proof/WKStream*.v. *)
From WK Require Import Base.Base Base.Bytes Gen.Consts_C22 Model.WKProto Model.WKStream.
From WK Require Import Proof.WKProto Proof.WKProto_types Proof.WKProto_frame.
From WK Require Import Proof.WKStream Proof.WKStream_feed Proof.WKStream_monitor.
Open Scope N_scope.

(* a decoded frame is determined by the n bytes it consumed: n is at least 1 and
   within the input (nothing is read past it — including decodeLength's cut-off
   after four continuation bytes, where the length-of-length is reported as 5),
   and whatever follows those n bytes the result is the same frame and the same n *)
Theorem c23_prefix_determined : forall bs v f m n, DecodeFrame bs v = DFrame f m n ->
  1 <= n /\ n <= blen bs /\
  forall x, DecodeFrame (firstn (N.to_nat n) bs ++ x) v = DFrame f (with_fsize m (n + blen x)) n.
Proof. exact DecodeFrame_prefix. Qed.
Print Assumptions c23_prefix_determined.

(* a non-empty strict prefix of an encoded frame is "need more data": never a
   frame, never an error, never a different length *)
Theorem c23_incomplete_no_progress : forall v f p q, within_limits v f = true ->
  p ++ q = frame_bytes f v -> p <> [] -> q <> [] -> DecodeFrame p v = DNeed.
Proof. exact DecodeFrame_incomplete. Qed.
Print Assumptions c23_incomplete_no_progress.

(* the adapter reports no frames and no consumed bytes on any strict prefix (the empty one included) *)
Theorem c23_adapter_incomplete : forall sv f p q,
  within_limits (sessionVersion_inbound sv) f = true ->
  p ++ q = frame_bytes f (sessionVersion_inbound sv) -> q <> [] ->
  Adapter_Decode sv p = AOk [] 0.
Proof. exact Adapter_Decode_incomplete. Qed.
Print Assumptions c23_adapter_incomplete.

(* sticky frames: complete frames followed by an incomplete rest p are all
   returned, in order, and exactly their bytes are consumed *)
Theorem c23_adapter_frames : forall sv fs p,
  Forall (fun f => within_limits (sessionVersion_inbound sv) f = true) fs ->
  needy p (sessionVersion_inbound sv) ->
  Adapter_Decode sv (stream_of (sessionVersion_inbound sv) fs ++ p)
  = AOk (decoded (sessionVersion_inbound sv) fs (blen p)) (blen (stream_of (sessionVersion_inbound sv) fs)).
Proof. exact Adapter_Decode_frames. Qed.
Print Assumptions c23_adapter_frames.

(* ANY chunking of the concatenated encodings of fs, fed to the gateway's buffering
   loop, dispatches exactly the frames fs (normalized as in C22) in order, leaves
   nothing buffered and does not close the session — provided the stream fits the
   inbound limit (limit 0 = none) *)
Theorem c23_stream : forall sv limit fs chunks,
  Forall (fun f => within_limits (sessionVersion_inbound sv) f = true) fs ->
  concat chunks = stream_of (sessionVersion_inbound sv) fs ->
  limit_ok limit (blen (stream_of (sessionVersion_inbound sv) fs)) ->
  exists batches,
    feed limit sv gw_init chunks = (GW [] false false, batches)
    /\ map fst (concat batches) = map (normalize (sessionVersion_inbound sv)) fs.
Proof. exact feed_any_chunking. Qed.
Print Assumptions c23_stream.

(* arbitrary bytes: the adapter never reaches the panic outcome (DecodeFrame is only
   called on non-empty input, the only place where the Go code indexes unguarded) and
   never reports more consumed bytes than it was given *)
Theorem c23_total : forall sv inp,
  Adapter_Decode sv inp <> APanic /\
  (forall fs c, Adapter_Decode sv inp = AOk fs c -> c <= blen inp).
Proof. exact Adapter_Decode_total. Qed.
Print Assumptions c23_total.

Theorem c23_decode_no_panic : forall b rest v, DecodeFrame (b :: rest) v <> DPanic.
Proof. exact DecodeFrame_no_panic. Qed.
Print Assumptions c23_decode_no_panic.

(* arbitrary chunks of arbitrary bytes: the gateway loop never reaches the panic outcome *)
Theorem c23_gateway_total : forall limit sv chunks,
  gw_panicked (fst (feed limit sv gw_init chunks)) = false.
Proof. intros limit sv chunks. exact (feed_no_panic limit sv chunks gw_init eq_refl). Qed.
Print Assumptions c23_gateway_total.

(* the monitor run on implementation traces accepts every trace the model produces,
   for arbitrary chunks (safety part) and for valid streams (exact frames, no
   progress on incomplete frames, nothing left over) *)
Theorem c23_model_satisfies_monitor : forall sv limit frames chunks,
  C23_monitor (model_case sv limit frames chunks) = 0.
Proof. exact model_satisfies_monitor. Qed.
Print Assumptions c23_model_satisfies_monitor.

(* non-vacuity and the quirks of the code, by computation *)
Example c23_example_chunked :
  let f1 := FSend (Flags false true false false false) 0 0 7 2 [] (hx "6d31") [] (hx "6731") [] (hx "6869") in
  let f2 := FPing (Flags false false false false false) in
  let s := stream_of 6 [f1; f2; f1] in
  within_limits 6 f1 = true
  /\ map fst (concat (snd (feed 0 None gw_init [firstn 1 s; firstn 7 (skipn 1 s); skipn 8 s]))) = [f1; f2; f1]
  /\ Adapter_Decode None (firstn 20 s) = AOk [] 0.
Proof. vm_compute. repeat split. Qed.

(* four continuation bytes: length 0 with a reported length-of-length of 5; five
   bytes are "need more", with a sixth the (empty) body is decoded — here an error *)
Example c23_example_varint_cutoff :
  DecodeFrame (hx "3080808080") 6 = DNeed /\ DecodeFrame (hx "308080808041") 6 = DErr
  /\ DecodeFrame (hx "30ffffff7f") 6 = DErr /\ DecodeFrame (hx "00" ++ hx "0501") 6 = DNeed
  /\ DecodeFrame [] 6 = DPanic /\ Adapter_Decode None [] = AOk [] 0.
Proof. vm_compute. repeat split. Qed.
