(* C01 — Acknowledged channel appends survive failover and crashes.
   Statements only; proofs in Proof/QuorumLog_C01.v (and Proof/ReplicaLog.v, Proof/QuorumLog_Commit.v).

   The full statement is FALSE of the faithful model and of the code: c01_refuted is the F1 schedule
   (DESIGN §0 F1, known finding C01-K1): 3 voters, write quorum 2, every install reaches 2 voters, never
   more than 1 node down, and the new writable leader lacks the acknowledged entry. *)
From WK Require Import Base.Base.
From WK Require Import Model.ReplicaLog Model.QuorumLog Model.Cluster Model.Monitor_C01.
From WK Require Import Proof.ReplicaLog Proof.QuorumLog_Commit Proof.QuorumLog_C01.
From WK Require Import Proof.ReplicaLog_WF Proof.LogMatching Proof.Cluster_WF Proof.QuorumLog_C01_partial.
Open Scope N_scope.

(* a durable Sync (Durable or AlreadyDurable) leaves the replica holding every entry of the
   proposal, identical, at its index — both store back ends *)
Theorem c01_durable_vote_holds : forall k rp mu rp' o nf,
  sync k rp mu = (rp', o, nf) -> outcome_durable o = true ->
  holds_proposal rp' (mu_manifest mu) (mu_records mu) = true.
Proof. exact sync_durable_holds. Qed.
Print Assumptions c01_durable_vote_holds.

(* c01_receipt_implies_quorum, one durability round (business proposal or barrier), for every
   network and fault plan: success means the local node holds the proposal and at least wq DISTINCT
   voters do (the local one among local :: followers) *)
Theorem c01_round_success_implies_quorum : forall n local voters wq rot p n' res,
  NoDup voters -> runDurableRound n local voters wq rot p = (n', res) -> rr_ok res = true ->
  holdsP p n' local = true /\
  exists S, NoDup S /\ incl S (local :: round_followers voters local rot) /\ wq <= H_count p n' S.
Proof. exact runDurableRound_quorum. Qed.
Print Assumptions c01_round_success_implies_quorum.

(* ... and a round only succeeds with a durable local write, >= wq durable votes, outcome Durable *)
Theorem c01_round_success_needs_local : forall n local voters wq rot p n' res,
  runDurableRound n local voters wq rot p = (n', res) ->
  exists n1 o1, submitLocal n local p = (n1, o1) /\
    net_rep n' local = net_rep n1 local /\
    (rr_ok res = true -> rr_local res = true /\ wq <=? rr_votes res = true /\ rr_outcome res = ODurable) /\
    (rr_local res = true -> outcome_durable o1 = true).
Proof. exact runDurableRound_local. Qed.
Print Assumptions c01_round_success_needs_local.

(* c01_receipt_implies_quorum for Commit: on the only path that issues a new receipt (sealed
   proposal, successful round) the leader and >= WriteQuorum distinct voters hold the range *)
Theorem c01_receipt_implies_quorum : forall cfg n st local p a d n1 res,
  NoDup (a_voters a) -> In local (a_voters a) ->
  sealBusinessProposal a (qc_frontier st) (qc_hw st) (pr_cmd p) (pr_records p) (pr_sa p) = Some d ->
  runDurableRound n local (a_voters a) (a_q a) (cf_rot cfg) d = (n1, res) -> rr_ok res = true ->
  holdsP d n1 local = true /\
  exists S, NoDup S /\ incl S (a_voters a) /\ a_q a <= H_count d n1 S.
Proof. exact Commit_fresh_receipt_quorum. Qed.
Print Assumptions c01_receipt_implies_quorum.

(* c01_fail_closed: when the local replica's persisted committed watermark exceeds the selected
   prefix, repair returns an error and no replica is written ... *)
Theorem c01_repair_fails_closed : forall n local voters q sel maxBytes s es,
  load (nt_kind n) (net_rep n local) [] = Some (s, es) -> sl_index sel < rs_committed s ->
  exists e, repairQuorumPrefix n local voters q sel maxBytes = (n, inl e).
Proof. exact repair_fails_closed. Qed.
Print Assumptions c01_repair_fails_closed.

(* ... hence Install returns an error and leaves every replica log unchanged (or never reached
   recovery because the owner was already ready under this authority) *)
Theorem c01_fail_closed : forall cfg n st local a s es sel,
  load (nt_kind n) (net_rep n local) [] = Some (s, es) ->
  recoverQuorumPrefix n local (a_voters a) (a_q a) = inr sel -> sl_index sel < rs_committed s ->
  forall n' st' r, Install cfg n st local a = (n', st', r) -> n' = n /\ exists e, r = IErr e \/
    (exists x leo hw, r = IOk x leo hw /\ st' = st /\ qc_ready st = true).
Proof. exact Install_fails_closed. Qed.
Print Assumptions c01_fail_closed.

(* c01_refuted (C01-K1): leader 1 commits one proposal with node 3 down (Receipt 1..1, held by {1,2});
   node 1 goes down, node 3 returns empty; authority (1,2,2) is installed on node 2 whose recovery probe
   is answered by {2,3}: Install succeeds with LEO = 0 — node 2 truncated the acknowledged entry and is
   writable.  The monitor classifies the model's own trace as known finding (code 2). *)
Theorem c01_refuted :
  fst (run_model f1_cfg (cluster_init f1_cfg) f1_ops) =
    [ RInstalled (1, 1, 1) 0 0; RNone; RReceipt (1, 1, 1) (TUser 1) 1 1 1; RNone; RNone;
      RInstalled (1, 2, 2) 0 0 ] /\
  rp_leo (net_rep (cl_net (snd (run_model f1_cfg (cluster_init f1_cfg) f1_ops))) 2) = 0 /\
  C01_monitor (model_case f1_cfg f1_ops) = 2.
Proof. exact f1_acked_entry_lost. Qed.
Print Assumptions c01_refuted.

(* c01_k2_refuted (C01-K2, same root cause as C01-K1 one probe round later): leader 3 writes X at index 1
   locally only (never acknowledged); leader 1 (1,2,2) commits Y: Receipt 1..1, held by {1,2}.  Authority
   (1,3,3) is installed on node 2; all three voters answer the frontier round, node 1's identity-page reply
   is lost; the stable voters {2,3} still reproduce quorum LEO 1 and quorum watermark 0 (node 3's divergent
   log is as long), so recoverQuorumPrefix does not fail closed, finds no 2 identical copies at index 1 and
   the Install succeeds with LEO = 0: node 2 truncated the acknowledged entry and is writable.  The monitor
   classifies the model's own trace as known finding C01-K2 (code 3). *)
Theorem c01_k2_refuted :
  fst (run_model f1_cfg (cluster_init f1_cfg) k2_ops) =
    [ RInstalled (1, 1, 1) 0 0; RErr EQuorumUnavailable; RInstalled (1, 2, 2) 0 0;
      RReceipt (1, 2, 2) (TUser 2) 1 1 1; RInstalled (1, 3, 3) 0 0 ] /\
  rp_leo (net_rep (cl_net (snd (run_model f1_cfg (cluster_init f1_cfg) k2_ops))) 2) = 0 /\
  C01_monitor (model_case f1_cfg k2_ops) = 3.
Proof. exact k2_acked_entry_lost. Qed.
Print Assumptions c01_k2_refuted.

(* the same install when node 3 holds no longer divergent log: the stable voters {2,3} have quorum LEO 0,
   not 1, the post-page guard fails closed (ErrRecoveryProbeIncomplete), node 2 keeps the entry; monitor 0 *)
Theorem c01_k2_guard_false_fails_closed :
  fst (run_model f1_cfg (cluster_init f1_cfg) k2_closed_ops) =
    [ RInstalled (1, 1, 1) 0 0; RInstalled (1, 2, 2) 0 0;
      RReceipt (1, 2, 2) (TUser 2) 1 1 1; RErr EProbeIncomplete ] /\
  rp_leo (net_rep (cl_net (snd (run_model f1_cfg (cluster_init f1_cfg) k2_closed_ops))) 2) = 1 /\
  C01_monitor (model_case f1_cfg k2_closed_ops) = 0.
Proof. exact k2_guard_false_fails_closed. Qed.
Print Assumptions c01_k2_guard_false_fails_closed.

(* BOUNDED, lost identity-page replies: all 37449 schedules of at most 5 operations over k2_alphabet after
   leader 3's install: the monitor returns 0, 2 (C01-K1) or 3 (C01-K2), never 1 *)
Theorem c01_model_satisfies_monitor_bounded_page_faults :
  c01_codes_in_from (OInstall 3 (1, 1, 1) false 2 no_faults) [0; 2; 3] k2_alphabet 5 = true.
Proof. exact c01_bounded_lost_page_replies. Qed.
Print Assumptions c01_model_satisfies_monitor_bounded_page_faults.

(* the two-commit variant of F1 is safe: the replica-persisted watermark (1) exceeds the selected
   prefix (0), the install fails closed; with node 1 back it succeeds with a barrier at 3; monitor 0 *)
Theorem c01_two_commits_fail_closed :
  fst (run_model f1_cfg (cluster_init f1_cfg) f1_two_commits_ops) =
    [ RInstalled (1, 1, 1) 0 0; RNone; RReceipt (1, 1, 1) (TUser 1) 1 1 1; RReceipt (1, 1, 1) (TUser 2) 2 2 2;
      RNone; RNone; RErr EConflict; RNone; RInstalled (1, 2, 2) 3 3 ] /\
  C01_monitor (model_case f1_cfg f1_two_commits_ops) = 0.
Proof. exact f1_two_commits_fail_closed. Qed.
Print Assumptions c01_two_commits_fail_closed.

(* c01_partial / c01_model_satisfies_monitor, BOUNDED (finite domain, vm_compute), 3 voters, quorum 2:
   (a) all 3906 schedules of at most 5 operations over {bare-quorum commit, full commit, failover install
       on node 2, commit by node 2, restart of node 2} after the initial install — every voter answers
       every recovery probe (the probe_covers situation): the monitor returns 0, every acknowledged
       entry is on every later installed leader;
   (b) all 7381 schedules of at most 4 operations when nodes 1 and 3 may also go down / come back:
       the monitor returns 0 or the known-finding code 2, never 1. *)
Theorem c01_model_satisfies_monitor_bounded :
  c01_codes_in [0] (c01_alphabet false) 5 = true /\ c01_codes_in [0; 2] (c01_alphabet true) 4 = true.
Proof. exact (conj c01_bounded_all_answer c01_bounded_with_outages). Qed.
Print Assumptions c01_model_satisfies_monitor_bounded.

(* ---- c01_partial (unbounded, conditional) -------------------------------------------------------------------

   WF2 = the replica log is an unbroken hash chain from genesis whose digests are the (structural) hash
   of the entry's own fields, row and predecessor digest.  It holds for every replica reached by every
   schedule (c01_all_replicas_well_formed).

   selection_covers n sel idx e = idx <= selected index, and some well-formed voter holds e at idx and the
   selected identity at the selected index.  This is what `probe_covers` (>= Q of the probe's respondents hold
   the acknowledged entry) yields through quorum intersection with the >= Q supporters of the selection
   WHEN the selected index reaches idx; in F1 it fails because the selected index (0) is below the entry (1). *)

(* log matching: two well-formed logs holding the same identity at index k agree on every index <= k *)
Theorem c01_log_matching : forall (A B : replica) k e,
  WF A -> WF B -> digests_ok A -> digests_ok B ->
  ent_at A k = Some e -> ent_at B k = Some e ->
  forall idx, idx <= k -> ent_at A idx = ent_at B idx.
Proof. exact log_matching. Qed.
Print Assumptions c01_log_matching.

(* a successful repair leaves the installing node ending exactly in the selected identity *)
Theorem c01_repair_installs_selection : forall n local voters q sel maxBytes n1 recovered,
  repairQuorumPrefix n local voters q sel maxBytes = (n1, inr recovered) -> 0 < sl_index sel ->
  rs_leo recovered = sl_index sel /\ rs_tail recovered = sl_ident sel /\
  ent_at (net_rep n1 local) (sl_index sel) = Some (sl_ident sel).
Proof. exact repair_success_tail. Qed.
Print Assumptions c01_repair_installs_selection.

(* every successful Install either was the idempotent answer of an already ready owner, or is
   recoverQuorumPrefix ; repairQuorumPrefix ; optional barrier *)
Theorem c01_install_is_recover_repair_barrier : forall cfg n st local a n' st' x leo hw,
  Install cfg n st local a = (n', st', IOk x leo hw) ->
  (n' = n /\ st' = st /\ qc_ready st = true) \/
  exists sel n1 recovered,
    recoverQuorumPrefix n local (a_voters a) (a_q a) = inr sel /\
    repairQuorumPrefix n local (a_voters a) (a_q a) sel (cf_pagebytes cfg) = (n1, inr recovered) /\
    (n' = n1 \/ exists bs, writeCurrentTermBarrier n1 a recovered (cf_rot cfg) = (n', inr bs)).
Proof. exact Install_ok_recovery_path. Qed.
Print Assumptions c01_install_is_recover_repair_barrier.

(* c01_partial: an Install that succeeds through recovery with a selection covering the entry leaves
   the installed, writable node holding that entry, identical, at its index *)
Theorem c01_partial : forall cfg n st local a n' st' x leo hw idx e,
  Install cfg n st local a = (n', st', IOk x leo hw) -> qc_ready st = false ->
  WF2 (net_rep n local) ->
  (forall sel, recoverQuorumPrefix n local (a_voters a) (a_q a) = inr sel -> selection_covers n sel idx e) ->
  ent_at (net_rep n' local) idx = Some e.
Proof. exact Install_keeps_covered_entry. Qed.
Print Assumptions c01_partial.

(* the well-formedness premise of c01_partial holds on every schedule *)
Theorem c01_all_replicas_well_formed : forall cfg ops,
  run_bounded cfg (cluster_init cfg) ops ->
  forall v, WF2 (net_rep (cl_net (run_cluster cfg (cluster_init cfg) ops)) v).
Proof. exact all_replicas_WF2. Qed.
Print Assumptions c01_all_replicas_well_formed.
