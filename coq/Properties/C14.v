(* C14 — placeholder until the proofs land *)
From WK Require Import Base.Base Model.RaftLog.
Open Scope N_scope.
Example c14_placeholder : C14_monitor (C14Case []) = 0.
Proof. reflexivity. Qed.
Print Assumptions c14_placeholder.
