(* C14 — The durable Raft log behaves as a correct Raft storage.
   Only statements; each closed by [exact] of a lemma from Proof/RaftLog_*.v.

   Vocabulary (Model/RaftLog.v, Proof/RaftLog_monitor.v):
     mdl0 / mdl_step / mdl_after   the model of pkg/raftlog: one Pebble DB (rows per scope,
                                    DB.stateCache, snapshot payload files) + one memoryStore per scope
     ref_req / ref_run             the reference Raft storage (etcd MemoryStorage driven the way
                                    multiraft drives its own copy), one per scope
     hist_valid rs ops             every write group has pairwise different scopes and every request is
                                    Raft-valid for the reference state it meets (req_valid) and does not
                                    carry the signature of known finding K1 (k1_signature)
     observe c sc                  InitialState + FirstIndex + LastIndex + Snapshot + all entry rows
     pebble_entries / pebble_term  pebbleStore.Entries / pebbleStore.Term *)
From WK Require Import Base.Base Gen.Consts_C14 Model.RaftLog
     Proof.RaftLog_lists Proof.RaftLog_ref Proof.RaftLog_pebble Proof.RaftLog_ops
     Proof.RaftLog_mem Proof.RaftLog_db Proof.RaftLog_monitor.
Open Scope N_scope.

(* Forward simulation, all histories: after any Raft-valid history (any number of scopes in
   one database, write groups merged into one batch, refused commits, kills at the commit cut,
   reopens, reads that persist a reconstructed meta row) every scope of the durable store
   returns what its reference returns: initial state (hard state, conf state, applied and
   config-applied index), first/last index, snapshot, entries, terms. *)
Theorem c14_refines_memory : forall ops, hist_valid [] ops = true ->
  forall sc,
    let c := md_c (mdl_after mdl0 ops) in
    let r := ref_of sc (ref_run [] ops) in
    snd (observe c sc) = ref_observe r
    /\ (forall lo hi mx, r_first r <= lo -> lo <= hi -> hi <= r_last r + 1 ->
                         pebble_entries c sc lo hi mx = ref_entries r lo hi mx)
    /\ (forall i, snd (pebble_term c sc i) = Some (match r_term r i with Some t => t | None => 0 end)).
Proof. exact refines_memory. Qed.
Print Assumptions c14_refines_memory.

(* memory.go (the second implementation) agrees with the reference as well, on histories
   whose snapshot-carrying saves have the shape of a raft Ready (entries above the snapshot) *)
Theorem c14_memory_agrees : forall ops sc,
  hist_valid [] ops = true -> forallb op_ready ops = true ->
  let ms := mem_of sc (md_m (mdl_after mdl0 ops)) in
  let r := ref_of sc (ref_run [] ops) in
  mem_observe ms = ref_observe r
  /\ (forall lo hi mx, 0 < hi -> r_first r <= lo -> lo <= hi -> hi <= r_last r + 1 ->
                       mem_entries ms lo hi mx = ref_entries r lo hi mx)
  /\ (forall i, mem_term ms i = match r_term r i with Some t => t | None => 0 end).
Proof. exact memory_agrees. Qed.
Print Assumptions c14_memory_agrees.

(* Entries never returns anything below the compaction point (or above the last index, or
   outside the window asked for), for ANY lo/hi/maxSize; Term reports 0 for an index that is
   neither the snapshot index nor in the log. *)
Theorem c14_no_below_compaction : forall ops sc, hist_valid [] ops = true ->
  let c := md_c (mdl_after mdl0 ops) in
  let r := ref_of sc (ref_run [] ops) in
  (forall lo hi mx e, In e (pebble_entries c sc lo hi mx) ->
                      r_first r <= e_idx e /\ e_idx e <= r_last r /\ lo <= e_idx e /\ (hi = 0 \/ e_idx e < hi))
  /\ (forall i, i + 1 < r_first r \/ r_last r < i -> snd (pebble_term c sc i) = Some 0).
Proof. exact no_below_compaction. Qed.
Print Assumptions c14_no_below_compaction.

(* Reopen is the identity on every observable, and the writer's cached tail
   (DB.stateCache) that the reopen dropped is rebuilt identically from the rows. *)
Theorem c14_reopen : forall ops sc, hist_valid [] ops = true ->
  let c := md_c (mdl_after mdl0 ops) in
  snd (observe (reopen c) sc) = snd (observe c sc)
  /\ (forall lo hi mx, pebble_entries (reopen c) sc lo hi mx = pebble_entries c sc lo hi mx)
  /\ (forall i, snd (pebble_term (reopen c) sc i) = snd (pebble_term c sc i))
  /\ (forall w, aget sc (c_cache c) = Some w -> loadScopeWriteState (reopen c) [] sc = Ok w).
Proof. exact reopen_identity. Qed.
Print Assumptions c14_reopen.

(* Crash inside flushWriteRequests.  Hypothesis (Pebble, trusted): a batch is applied
   entirely or not at all.  Then the reopened store is, for EVERY scope at once, the
   reference before the group or the reference after the group — per scope a prefix of its
   saves; a snapshot install leaves the old snapshot + log or the new snapshot + log. *)
Theorem c14_crash_prefix :
  forall crash_kv : list (N * rows) -> list bop -> list (N * rows),
  (forall kv b, crash_kv kv b = kv \/ crash_kv kv b = apply_batch kv b) ->
  forall ops reqs, hist_valid [] ops = true ->
  group_valid (ref_run [] ops) reqs = true ->
  let c' := run_group_crash crash_kv (md_c (mdl_after mdl0 ops)) reqs in
  (forall sc, snd (observe c' sc) = ref_observe (ref_of sc (ref_run [] ops)))
  \/ (forall sc, snd (observe c' sc) = ref_observe (ref_of sc (ref_group (ref_run [] ops) reqs))).
Proof.
  intros crash_kv Hat ops reqs Hv Hg. cbn zeta.
  destruct (crash_group crash_kv Hat _ _ reqs (reach_Inv ops Hv) Hg) as [HI|HI]; [left|right];
    intro sc; exact (proj1 (Inv_refines _ _ HI sc)).
Qed.
Print Assumptions c14_crash_prefix.

(* the monitor evaluated on implementation traces is 0 on every trace the model can produce
   for a Raft-valid history (refused commits and kills included: they change nothing), and
   the mismatch test accepts the model's own trace *)
Theorem c14_model_satisfies_monitor : forall ops,
  (hist_valid [] ops = true -> C14_monitor (C14Case (combine ops (mdl_run mdl0 ops))) = 0)
  /\ C14_mismatch (C14Case (combine ops (mdl_run mdl0 ops))) = false.
Proof. intro ops. split; [exact (model_satisfies_monitor ops)|exact (model_no_mismatch ops)]. Qed.
Print Assumptions c14_model_satisfies_monitor.

(* Known finding C14-K1.  The full statement — the same conclusion for every history whose
   requests are Raft-valid, WITHOUT excluding the K1 signature — is false of the faithful
   model: a snapshot strictly inside the log whose term differs from the log's term at that
   index leaves the old suffix above the new snapshot, also after reopen.  The witness is
   corpus/C14/k1_snapshot_inside_log_keeps_stale_suffix.json, replayed on the real code. *)
Theorem c14_k1_refuted :
  hist_raft_valid [] k1_witness = true
  /\ snd (observe (md_c (mdl_after mdl0 k1_witness)) 1) <> ref_observe (ref_of 1 (ref_run [] k1_witness))
  /\ C14_monitor (C14Case (combine k1_witness (mdl_run mdl0 k1_witness))) = 2.
Proof. exact k1_refuted. Qed.
Print Assumptions c14_k1_refuted.

(* ---- non-vacuity *)

(* a Raft-valid history through most branches: append, conflicting overwrite, conf change,
   local compaction (suffix kept), a merged group of two scopes, a refused commit, a snapshot
   from the leader beyond the log followed by entries in the same save, an idempotent re-save,
   a stale snapshot (refused), kill at the commit cut, reopen *)
Definition c14_example_history : list op :=
  [OWrite 0 [(1, WSave (Some (HS 1 1 2)) [E 1 1 0 (hx "aa") None; E 2 1 1 (hx "0800100018022200") (Some (0, 2)); E 3 1 0 [] None] None)];
   OWrite 0 [(1, WSave (Some (HS 2 0 2)) [E 3 2 0 (hx "bb") None; E 4 2 0 (hx "cc") None] None)];
   OWrite 0 [(1, WSave None [] (Some (SN 2 1 [1; 2] (hx "5a") 7))); (2, WMark 0)];
   OQuery 1 (QEntries 3 5 0);
   OWrite 1 [(1, WSave (Some (HS 2 0 4)) [] None); (0, WCfg 3)];
   OWrite 0 [(0, WSave (Some (HS 3 0 9)) [E 10 3 0 (hx "dd") None] (Some (SN 9 3 [1; 3] (hx "0102") 11)))];
   OWrite 0 [(0, WSave None [] (Some (SN 9 3 [1; 3] (hx "0102") 11)))];
   OWrite 0 [(0, WSave None [] (Some (SN 4 1 [1] [] 0)))];
   OWrite 2 [(0, WSave None [E 11 3 0 [] None] None)];
   OReopen;
   OObserve 0; OObserve 1; OObserve 2;
   OQuery 0 (QTerm 9)].

Example c14_example_valid :
  hist_valid [] c14_example_history = true
  /\ forallb op_ready c14_example_history = true
  /\ mdl_run mdl0 c14_example_history <> []
  /\ C14_monitor (C14Case (combine c14_example_history (mdl_run mdl0 c14_example_history))) = 0.
Proof. repeat split; try (vm_compute; reflexivity). vm_compute. discriminate. Qed.

(* the result classes of that history: the stale snapshot is ErrSnapOutOfDate, the refused
   commit and the kill report the injected error to every request of the group *)
Example c14_example_codes :
  map (fun x => match x with RWrite cs => cs | _ => [] end) (mdl_run mdl0 c14_example_history)
  = [[0]; [0]; [0; 0]; []; [3; 3]; [0]; [0]; [1]; [3]; []; []; []; []; []].
Proof. vm_compute. reflexivity. Qed.

(* the atomicity hypothesis of c14_crash_prefix is satisfiable (both ways) *)
Example c14_crash_hypothesis_satisfiable :
  (forall kv b, (fun kv _ => kv) kv b = kv \/ (fun kv (_ : list bop) => kv) kv b = apply_batch kv b)
  /\ (forall kv b, apply_batch kv b = kv \/ apply_batch kv b = apply_batch kv b).
Proof. split; intros; [left|right]; reflexivity. Qed.

(* the K1 signature is narrow: computed from the input history alone (the save carries a
   snapshot strictly inside the log whose term differs from the log's term at that index) *)
Example c14_k1_signature_is_narrow :
  k1_signature rstate0 (WSave None [] (Some (SN 5 1 [1] [] 0))) = false
  /\ k1_signature (RS hs0 0 0 snap0 [E 1 1 0 [] None; E 2 1 0 [] None])
                  (WSave None [] (Some (SN 1 1 [1] [] 0))) = false      (* matches the log: a compaction *)
  /\ k1_signature (RS hs0 0 0 snap0 [E 1 1 0 [] None; E 2 1 0 [] None])
                  (WSave None [] (Some (SN 2 9 [1] [] 0))) = false      (* at the end of the log: everything is replaced *)
  /\ k1_signature (RS hs0 0 0 snap0 [E 1 1 0 [] None; E 2 1 0 [] None])
                  (WSave None [] (Some (SN 1 2 [1] [] 0))) = true.
Proof. repeat split; vm_compute; reflexivity. Qed.
