(* C36 — Send permission decisions are consistent across paths.
   Only statements; proofs are in Proof/Permission*.v.

   Vocabulary (Model/Permission.v):
     facts            finite record: command / configuration flags and the RAW answers
                      (message.PermissionReadResult) of the seven reads a send can need;
     decide_single    permission.go (checkSendPermission and its callees) over [facts];
     decide_batch     send.go routing + permission_batch.go planners' slot shapes +
                      evaluate{Group,Person}PermissionReadPlan over [facts];
     precedence       the ordered table of checks; spec_decision = verdict of the first failing;
     single_outcome   permission.go on byte-string commands over any store function [rd];
     batch_outcomes   SendBatch with a PermissionBatchStore: coalescing, read list with addRead
                      de-duplication, index plans, results[index], evaluation — any batch;
     sig_k1 / k2_cond the structural conditions of the two divergences of the real code
                      (KNOWN_FINDINGS C36-K1, C36-K2).

   Two clauses of the property text are FALSE of the code.  "Disbanded channels first":
   c36_disband_first_refuted (C36-K3; both paths agree, on SendBan / Ban).  "For every facts
   value the two paths return the same decision and reason": c36_paths_agree_refuted / c36_k1_refuted /
   c36_k2_refuted (witnesses replayed on the code: corpus/C36/k*.json).  What holds is stated
   with the two exclusions as explicit hypotheses, plus c36_same_admission, which needs none. *)
From WK Require Import Base.Base Model.ChannelId Model.Permission.
From WK Require Import Gen.Consts_C36.
From WK Require Import Proof.Permission Proof.Permission_batch Proof.Permission_monitor.
Open Scope N_scope.

(* ---- decision level: every facts value ---------------------------------------------------------- *)

(* FULL STATEMENT (false, see c36_paths_agree_refuted):
     forall f, decide_batch f = decide_single f.
   Proved for every f outside C36-K2 (person channel id that cannot be decoded, sender neither a
   system uid nor on the system device). *)
Theorem c36_paths_agree_partial : forall f : facts,
  k2_cond f = false -> decide_batch f = decide_single f.
Proof. exact paths_agree. Qed.
Print Assumptions c36_paths_agree_partial.

Theorem c36_paths_agree_refuted : exists f : facts, decide_batch f <> decide_single f.
Proof. exact paths_agree_refuted. Qed.
Print Assumptions c36_paths_agree_refuted.

(* exactly what the two paths return under C36-K2: the batch path reports the decode error
   before any check, the per-send path reports it after the sender and terminal checks *)
Theorem c36_k2_characterised : forall f : facts, k2_cond f = true ->
  decide_batch f = (ReasonSuccess, EPerson)
  /\ decide_single f = first_failing (sender_checks f ++ terminal_checks f ++ [(true, (0, EPerson))]).
Proof. exact paths_k2. Qed.
Print Assumptions c36_k2_characterised.

(* the DECISION (is the send let through) is the same on both paths for every facts value *)
Theorem c36_same_admission : forall f : facts, ok (decide_batch f) = ok (decide_single f).
Proof. exact paths_same_admission. Qed.
Print Assumptions c36_same_admission.

(* fixed precedence — the order that EXISTS in the code (not the "disbanded first" of the
   property text, see c36_disband_first_refuted): the returned (reason, error) is the verdict of
   the first failing check of [precedence f]: SendBan first, then (group) ChannelNotExist / Ban,
   the channel's terminal state, then membership checks *)
Theorem c36_precedence : forall f : facts, decide_single f = first_failing (precedence f).
Proof. exact single_is_first_failing. Qed.
Print Assumptions c36_precedence.

Theorem c36_precedence_batch : forall f : facts,
  k2_cond f = false -> decide_batch f = first_failing (precedence f).
Proof. exact batch_is_first_failing. Qed.
Print Assumptions c36_precedence_batch.

(* FULL STATEMENT of the text "reasons follow a fixed precedence with disbanded channels first"
   (false, KNOWN_FINDINGS C36-K3):
     forall f, checked f = true -> target_disbanded f = true -> decide_single f = (ReasonDisband, ENone).
   Refuted on both paths alike: a send-banned sender gets SendBan, a banned group reports Ban. *)
Theorem c36_disband_first_refuted :
  (checked k3_witness_sendban = true /\ target_disbanded k3_witness_sendban = true
   /\ decide_single k3_witness_sendban = (ReasonSendBan, ENone)
   /\ decide_batch k3_witness_sendban = (ReasonSendBan, ENone)
   /\ k3_cond k3_witness_sendban = true)
  /\ (checked k3_witness_ban = true /\ target_disbanded k3_witness_ban = true
      /\ decide_single k3_witness_ban = (ReasonBan, ENone)
      /\ decide_batch k3_witness_ban = (ReasonBan, ENone)
      /\ k3_cond k3_witness_ban = true).
Proof. exact disband_first_refuted. Qed.
Print Assumptions c36_disband_first_refuted.

(* apart from the two shadowing reasons (SendBan of a non-system uid, Ban of a group for a sender
   that is neither system uid nor system device) and a failed read of the sender's row, Disband
   does come first: a disbanded target never yields Success or a later reason *)
Theorem c36_disband_first_partial : forall f : facts,
  checked f = true -> target_disbanded f = true ->
  decide_single f = (ReasonDisband, ENone)
  \/ (f_sender_sys f = false /\ decide_single f = (ReasonSendBan, ENone))
  \/ (f_type f = TGroup /\ f_sender_sys f = false /\ f_device_sys f = false
      /\ decide_single f = (ReasonBan, ENone))
  \/ (f_sender_sys f = false /\ r_err (f_sender f) = true
      /\ decide_single f = (ReasonSystemError, EStore)).
Proof. exact disbanded_outcomes. Qed.
Print Assumptions c36_disband_first_partial.

Theorem c36_disband_first_partial_batch : forall f : facts, k2_cond f = false ->
  checked f = true -> target_disbanded f = true ->
  decide_batch f = (ReasonDisband, ENone)
  \/ (f_sender_sys f = false /\ decide_batch f = (ReasonSendBan, ENone))
  \/ (f_type f = TGroup /\ f_sender_sys f = false /\ f_device_sys f = false
      /\ decide_batch f = (ReasonBan, ENone))
  \/ (f_sender_sys f = false /\ r_err (f_sender f) = true
      /\ decide_batch f = (ReasonSystemError, EStore)).
Proof. exact disbanded_outcomes_batch. Qed.
Print Assumptions c36_disband_first_partial_batch.

(* when no earlier check of the existing order fails, Disband is the reported reason *)
Theorem c36_disband_unshadowed : forall f : facts,
  checked f = true -> target_disbanded f = true -> shadowed f = false ->
  decide_single f = (ReasonDisband, ENone).
Proof. exact disband_unshadowed. Qed.
Print Assumptions c36_disband_unshadowed.

(* the monitor's K3 signature means exactly that *)
Theorem c36_k3_signature : forall f : facts, k3_cond f = true ->
  checked f = true /\ target_disbanded f = true
  /\ (decide_single f = (ReasonSendBan, ENone) \/ decide_single f = (ReasonBan, ENone)).
Proof. exact k3_cond_spec. Qed.
Print Assumptions c36_k3_signature.

(* system senders bypass only the non-terminal checks *)
Theorem c36_system_uid_bypass : forall f : facts, checked f = true -> f_sender_sys f = true ->
  decide_single f = first_failing (terminal_checks f)
  /\ decide_batch f = first_failing (terminal_checks f).
Proof. exact system_uid_bypass. Qed.
Print Assumptions c36_system_uid_bypass.

Theorem c36_system_device_bypass : forall f : facts,
  checked f = true -> f_sender_sys f = false -> f_device_sys f = true ->
  decide_single f = first_failing (sender_checks f ++ terminal_checks f)
  /\ decide_batch f = first_failing (sender_checks f ++ terminal_checks f).
Proof. exact system_device_bypass. Qed.
Print Assumptions c36_system_device_bypass.

(* the terminal (disbanded) state stops every checked send, whoever sends, on both paths *)
Theorem c36_disband_terminal : forall f : facts, checked f = true -> target_disbanded f = true ->
  ok (decide_single f) = false /\ ok (decide_batch f) = false.
Proof. exact disband_is_terminal. Qed.
Print Assumptions c36_disband_terminal.

Theorem c36_system_uid_disband : forall f : facts,
  checked f = true -> f_sender_sys f = true -> target_disbanded f = true ->
  decide_single f = (ReasonDisband, ENone) /\ decide_batch f = (ReasonDisband, ENone).
Proof. exact system_uid_disband. Qed.
Print Assumptions c36_system_uid_disband.

Theorem c36_reasons_distinct :
  NoDup [ReasonSuccess; ReasonChannelNotExist; ReasonSystemError; ReasonSubscriberNotExist;
         ReasonInBlacklist; ReasonNotAllowSend; ReasonNotInWhitelist; ReasonBan; ReasonDisband;
         ReasonSendBan].
Proof. exact reasons_distinct. Qed.
Print Assumptions c36_reasons_distinct.

(* ---- full level: byte-string commands, any store, batches of any length --------------------------- *)

(* the read list, addRead de-duplication, index plans and request coalescing are transparent:
   every item of every batch is decided by [decide_batch] on the facts its own keys select *)
Theorem c36_batch_itemwise : forall (rd : reader) (cfg : pcfg) (items : list pcmd),
  batch_outcomes rd cfg items = map (batch_outcome1 rd cfg) items.
Proof. exact batch_outcomes_itemwise. Qed.
Print Assumptions c36_batch_itemwise.

(* FULL STATEMENT (false, see c36_k1_refuted, c36_k1_group_refuted, c36_k2_refuted):
     forall rd cfg items, map obs_of (batch_outcomes rd cfg items)
                          = map (fun c => obs_of (single_outcome rd cfg c)) items.
   Proved for batches none of whose items falls under C36-K1 (permission channel id still a
   command channel) or C36-K2: reason, error class and the channel id handed to the submitter. *)
Theorem c36_send_batch_agrees_partial : forall (rd : reader) (cfg : pcfg) (items : list pcmd),
  (forall c, In c items -> sig_k1 c = false /\ k2_cond (facts_single rd cfg c) = false) ->
  map obs_of (batch_outcomes rd cfg items) = map (fun c => obs_of (single_outcome rd cfg c)) items.
Proof. exact batch_agrees_single. Qed.
Print Assumptions c36_send_batch_agrees_partial.

Theorem c36_k1_refuted :
  sig_k1 k1_cmd = true
  /\ obs_of (single_outcome k1_reader k1_cfg k1_cmd) = Obs ReasonSuccess 0 (Some (hs "a@b____cmd"))
  /\ map obs_of (batch_outcomes k1_reader k1_cfg [k1_cmd]) = [Obs ReasonInBlacklist 0 None].
Proof. exact k1_refuted. Qed.
Print Assumptions c36_k1_refuted.

Theorem c36_k1_group_refuted :
  sig_k1 k1g_cmd = true
  /\ obs_of (single_outcome k1g_reader k1_cfg k1g_cmd) = Obs ReasonSuccess 0 (Some (hs "g____cmd"))
  /\ map obs_of (batch_outcomes k1g_reader k1_cfg [k1g_cmd]) = [Obs ReasonSuccess 0 (Some (hs "g____cmd____cmd"))].
Proof. exact k1_group_refuted. Qed.
Print Assumptions c36_k1_group_refuted.

Theorem c36_k2_refuted :
  sig_k1 k2_cmd = false /\ k2_cond (facts_single k2_reader k1_cfg k2_cmd) = true
  /\ obs_of (single_outcome k2_reader k1_cfg k2_cmd) = Obs ReasonSendBan 0 None
  /\ map obs_of (batch_outcomes k2_reader k1_cfg [k2_cmd]) = [Obs ReasonSuccess 2 None].
Proof. exact k2_refuted. Qed.
Print Assumptions c36_k2_refuted.

(* ---- permission cache ------------------------------------------------------------------------------ *)

(* over a store that answers [store k], every history of cached reads, resets and resets racing
   with a read returns the store's answers — whatever the clock values, TTL and capacity *)
Theorem c36_cache_transparent :
  forall (K V : Type) (keqb : K -> K -> bool) (cacheable : V -> bool),
  (forall a b, keqb a b = true -> a = b) ->
  forall (store : K -> V) (ttl : N) (ops : list (@cache_op K)),
  cache_run keqb cacheable store ttl cache_empty ops = map store (read_keys ops).
Proof. exact @cache_transparent. Qed.
Print Assumptions c36_cache_transparent.

(* ---- the monitor ------------------------------------------------------------------------------------- *)

(* on every trace the model produces for a batch without C36-K1 / C36-K2 / C36-K3 items the monitor
   holds and the case comparison is clean; so "model = implementation on a case" + the theorems
   above imply the monitor on that case *)
Theorem c36_model_satisfies_monitor : forall cfg tbl items,
  no_divergence cfg tbl items = true ->
  C36_monitor (model_case cfg tbl items) = 0 /\ C36_mismatch (model_case cfg tbl items) = false.
Proof. exact model_satisfies_monitor. Qed.
Print Assumptions c36_model_satisfies_monitor.

(* ---- non-vacuity ---------------------------------------------------------------------------------------- *)

(* a checked, non-system group send that reaches the last check *)
Example c36_example_group_whitelist :
  let f := Facts TGroup false false false false false false false false false false AgErr false
                 (RR true false false false false false false)   (* sender row, no SendBan *)
                 (RR true false false false false false false)   (* group row, not banned/disbanded *)
                 zero_result
                 (RR false false false false false false false)  (* not denied *)
                 (RR false false false false false true false)   (* subscriber *)
                 (RR false false false false false true false)   (* allowlist non-empty *)
                 (RR false false false false false false false)  (* not on it *) in
  checked f = true /\ k2_cond f = false
  /\ decide_single f = (ReasonNotInWhitelist, ENone) /\ decide_batch f = (ReasonNotInWhitelist, ENone).
Proof. vm_compute. repeat split. Qed.

(* the hypotheses of the bypass theorems are satisfiable, and the bypass is visible *)
Example c36_example_system_uid :
  let f := Facts TGroup false false false false false true false false false false AgErr false
                 (RR true true false false false false false)    (* sender SendBan: skipped *)
                 (RR true false true false false false false)    (* group Ban: skipped *)
                 zero_result zero_result zero_result zero_result zero_result in
  checked f = true /\ decide_single f = (ReasonSuccess, ENone) /\ decide_batch f = (ReasonSuccess, ENone).
Proof. vm_compute. repeat split. Qed.

(* a batch with coalesced duplicates and shared reads, no divergence: hypotheses of
   c36_model_satisfies_monitor hold and the decisions are not all Success *)
Example c36_example_batch :
  let tbl := [(chanRead (hs "a") channelTypePerson, RR true false false false false false false);
              (chanRead (hs "g") channelTypeGroup, RR true false false false false false false);
              (containsRead 0 0 (hs "g") channelTypeGroup (hs "a"), RR false false false false false true false);
              (containsRead 1 channelTypeGroup (hs "g") channelTypeGroup (hs "a"), zero_result);
              (hasAnyRead 2 channelTypeGroup (hs "g") channelTypeGroup, zero_result);
              (containsRead 2 channelTypeGroup (hs "g") channelTypeGroup (hs "a"), zero_result);
              (chanRead (hs "b") channelTypePerson, RR true true false false false false false);
              (containsRead 0 0 (hs "g") channelTypeGroup (hs "b"), zero_result);
              (containsRead 1 channelTypeGroup (hs "g") channelTypeGroup (hs "b"), zero_result);
              (containsRead 2 channelTypeGroup (hs "g") channelTypeGroup (hs "b"), zero_result)] in
  let items := [PCmd (hs "a") (hs "d") (hs "g") channelTypeGroup false false 0;
                PCmd (hs "b") (hs "d") (hs "g____cmd") channelTypeGroup false false 0;
                PCmd (hs "a") (hs "d") (hs "g") channelTypeGroup false false 0] in
  no_divergence k1_cfg tbl items = true
  /\ map o_reason (single_obs k1_cfg tbl items) = [ReasonSuccess; ReasonSendBan; ReasonSuccess]
  /\ C36_monitor (model_case k1_cfg tbl items) = 0.
Proof. vm_compute. repeat split. Qed.

(* the monitor tells the known findings (codes 2, 3, 4) from any other disagreement (1) *)
Example c36_example_monitor_k3 :
  C36_monitor (model_case k1_cfg [(chanRead (hs "a") channelTypePerson, RR true true false false false false false);
                                  (chanRead (hs "g") channelTypeGroup, RR true false true true false false false)]
                         [PCmd (hs "a") (hs "d") (hs "g") channelTypeGroup false false 0]) = 4.
Proof. exact monitor_k3_example. Qed.

Example c36_example_monitor_codes :
  C36_monitor (model_case k1_cfg [(chanRead (hs "a") channelTypePerson, RR true true false false false false false);
                                  (chanRead (hs "peer") channelTypePerson, zero_result)] [k2_cmd]) = 3
  /\ C36_monitor (C36Case k1_cfg [(chanRead (hs "a") channelTypePerson, RR true true false false false false false);
                                  (chanRead (hs "g") channelTypeGroup, RR true false false false false false false)]
                    [PCmd (hs "a") (hs "d") (hs "g") channelTypeGroup false false 0]
                    [(0, [Obs ReasonSendBan 0 None]); (1, [Obs ReasonSendBan 0 None]); (2, [Obs ReasonSendBan 0 None]);
                     (3, [Obs ReasonSendBan 0 None]); (4, [Obs ReasonSuccess 0 (Some (hs "g"))]);
                     (5, [Obs ReasonSendBan 0 None]); (6, [Obs ReasonSendBan 0 None]); (7, [Obs ReasonSendBan 0 None])]) = 1.
Proof. split; [exact monitor_k2_example | exact monitor_violation_example]. Qed.
