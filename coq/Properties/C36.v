(* C36 — placeholder while the model is being tied to the code; theorems follow. *)
From WK Require Import Base.Base Model.Permission.
Open Scope N_scope.
Example c36_placeholder : decide_single = checkSendPermission.
Proof. reflexivity. Qed.
