(* C20 — stub, replaced below *)
From WK Require Import Base.Base Model.HashSlot.
Open Scope N_scope.
Example c20_stub : t_version (new_hash_slot_table 4 2) = 1.
Proof. vm_compute. reflexivity. Qed.
