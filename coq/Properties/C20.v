(* C20 — The hash-slot table assigns every hash slot to exactly one slot.
   Statements only; each is closed by [exact] of a lemma from Proof/HashSlot_*.v.
   Model: Model/HashSlot.v (pkg/hashslot hashslottable.go + rebalancer.go). *)
From WK Require Import Base.Base Base.Bytes Gen.Consts_C20 Model.HashSlot.
From WK Require Import Proof.HashSlot_table Proof.HashSlot_codec Proof.HashSlot_lists Proof.HashSlot_plan
                       Proof.HashSlot_balance Proof.HashSlot_monitor Proof.HashSlot_summary.
Open Scope N_scope.

(* ---- clause 1: every hash slot maps to exactly one slot ------------------------------------------- *)

(* Lookup is a total function: the assignment entry below the count, 0 ("no slot") beyond *)
Theorem c20_total_function : forall t hs, wf t ->
  (hs < t_count t -> lookup t hs = nth (N.to_nat hs) (t_assign t) 0) /\
  (t_count t <= hs -> lookup t hs = 0).
Proof. exact lookup_total. Qed.
Print Assumptions c20_total_function.

(* HashSlotsOf partitions the hash slots by owner: hs is listed for s exactly when Lookup(hs) = s *)
Theorem c20_owner_partition : forall t s hs, wf t ->
  (In hs (hash_slots_of t s) <-> hs < t_count t /\ lookup t hs = s).
Proof. exact hash_slots_of_spec. Qed.
Print Assumptions c20_owner_partition.

(* len(assignment) = HashSlotCount holds initially and after every operation (decoding included) *)
Theorem c20_wf_preserved : forall count phys, wf (new_hash_slot_table count phys).
Proof. exact new_wf. Qed.
Print Assumptions c20_wf_preserved.
Theorem c20_wf_step : forall t o, wf t -> wf (snd (model_step t o)).
Proof. exact model_step_wf. Qed.
Print Assumptions c20_wf_step.

(* an initial layout with at least one physical slot maps every hash slot to a physical
   (non-zero) slot, and reassignment to a physical slot, the migration life cycle and
   applied plans keep it so *)
Theorem c20_physical_initial : forall count phys, (1 <= phys)%Z ->
  fully_assigned (new_hash_slot_table count phys).
Proof. exact new_fully_assigned. Qed.
Print Assumptions c20_physical_initial.
Theorem c20_physical_preserved : forall t, fully_assigned t ->
  (forall hs s, s <> 0 -> fully_assigned (reassign t hs s))
  /\ (forall hs a b, fully_assigned (start_migration t hs a b))
  /\ (forall hs ph, fully_assigned (advance_migration t hs ph))
  /\ (forall hs, fully_assigned (finalize_migration t hs))
  /\ (forall hs, fully_assigned (abort_migration t hs))
  /\ (forall p, Forall (fun m => mv_to m <> 0) p -> fully_assigned (apply_plan t p)).
Proof. exact c20_physical_preserved_l. Qed.
Print Assumptions c20_physical_preserved.

(* ---- clause 2: encode / decode ------------------------------------------------------------------ *)

(* DecodeHashSlotTable(Encode(t)) = t, active migrations included, for every table whose
   fields fit their wire widths and whose migrations belong to hash slots of the table *)
Theorem c20_codec_roundtrip : forall t, codec_ok t -> decode_hash_slot_table (encode t) = Some t.
Proof. exact decode_encode. Qed.
Print Assumptions c20_codec_roundtrip.

(* ... which is every table reachable from an initial layout: [codec_ok] holds for
   NewHashSlotTable and is preserved by each mutator *)
Theorem c20_codec_ok_initial : forall count phys, count < 256 ^ 2 -> codec_ok (new_hash_slot_table count phys).
Proof. exact new_codec_ok. Qed.
Print Assumptions c20_codec_ok_initial.
Theorem c20_codec_ok_preserved : forall t, codec_ok t ->
  (forall hs s, u64 s -> codec_ok (reassign t hs s))
  /\ (forall hs a b, u64 a -> u64 b -> codec_ok (start_migration t hs a b))
  /\ (forall hs ph, ph < 256 -> codec_ok (advance_migration t hs ph))
  /\ (forall hs, codec_ok (finalize_migration t hs))
  /\ (forall hs, codec_ok (abort_migration t hs))
  /\ (forall p, Forall (fun m => u64 (mv_to m)) p -> codec_ok (apply_plan t p)).
Proof. exact c20_codec_ok_preserved_l. Qed.
Print Assumptions c20_codec_ok_preserved.

(* ---- clause 3: the version ------------------------------------------------------------------------ *)

(* every mutator either leaves the table untouched or bumps the version by one (uint64)
   and changes the assignment or the migration set *)
Theorem c20_version_effect : forall t,
  (forall hs s, effect t (reassign t hs s))
  /\ (forall hs a b, effect t (start_migration t hs a b))
  /\ (forall hs ph, effect t (advance_migration t hs ph))
  /\ (forall hs, effect t (finalize_migration t hs))
  /\ (forall hs, effect t (abort_migration t hs)).
Proof. exact c20_version_effect_l. Qed.
Print Assumptions c20_version_effect.

(* hence the version strictly increases on every effective change (below the uint64 wrap) *)
Theorem c20_version_strict : forall t t', effect t t' -> t_version t < u64max -> t' <> t ->
  t_version t < t_version t'.
Proof. exact effect_version_strict. Qed.
Print Assumptions c20_version_strict.

(* an applied plan: never decreases, strictly increases when the table changes *)
Theorem c20_version_plan : forall p t, t_version t + N.of_nat (length p) < u64max ->
  t_version t <= t_version (apply_plan t p) <= t_version t + N.of_nat (length p)
  /\ (apply_plan t p <> t -> t_version t < t_version (apply_plan t p))
  /\ t_migs (apply_plan t p) = t_migs t.
Proof. exact apply_plan_version. Qed.
Print Assumptions c20_version_plan.

(* ---- clause 4: plans move each hash slot at most once, away from its current owner ------------- *)

Theorem c20_plan_moves_once : forall t, wf t ->
  (forall n, moves_ok t (compute_add_slot_plan t n) = true)
  /\ (forall x, moves_ok t (compute_remove_slot_plan t x) = true)
  /\ moves_ok t (compute_rebalance_plan t) = true.
Proof. exact c20_plan_moves_once_l. Qed.
Print Assumptions c20_plan_moves_once.

(* in more detail: source = current owner, target a different, non-zero participating slot,
   no hash slot twice, at most one move per hash slot of the table *)
Theorem c20_plan_structure : forall t, wf t ->
  (forall n, Forall (move_ok (t_assign t) (n :: active_slot_ids t)) (compute_add_slot_plan t n)
             /\ NoDup (map mv_hs (compute_add_slot_plan t n)))
  /\ (forall x, Forall (move_ok (t_assign t) (active_slot_ids t)) (compute_remove_slot_plan t x)
                /\ NoDup (map mv_hs (compute_remove_slot_plan t x)))
  /\ (Forall (move_ok (t_assign t) (active_slot_ids t)) (compute_rebalance_plan t)
      /\ NoDup (map mv_hs (compute_rebalance_plan t))).
Proof. exact c20_plan_structure_l. Qed.
Print Assumptions c20_plan_structure.

(* applying a plan = updating the assignment entry of each move *)
Theorem c20_apply_plan : forall p t, t_assign (apply_plan t p) = apply_moves p (t_assign t).
Proof. exact apply_plan_assign. Qed.
Print Assumptions c20_apply_plan.

(* ---- clause 5: balance ------------------------------------------------------------------------------ *)

(* idealSlotCounts is the specification's ideal share *)
Theorem c20_ideal_spec : forall total slots s, NoDup slots -> In s slots ->
  aget 0 (ideal_slot_counts total slots) s = spec_ideal total slots s.
Proof. exact ideal_slot_counts_spec. Qed.
Print Assumptions c20_ideal_spec.

(* rebalance: for ANY table that maps every hash slot to a physical slot, every active slot
   ends with exactly its ideal share (hence any two differ by at most one) *)
Theorem c20_rebalance_exact : forall t, wf t -> nzl (t_assign t) ->
  forall s, In s (active_slot_ids t) ->
    cnt (apply_moves (compute_rebalance_plan t) (t_assign t)) s = spec_ideal (t_count t) (active_slot_ids t) s.
Proof. exact rebalance_exact. Qed.
Print Assumptions c20_rebalance_exact.

(* add: the new slot gets exactly its ideal share; a donor is never taken below its ideal
   share and a slot at or below it is untouched (c20_never_cross_ideal, add half); a table
   within one of ideal stays within one *)
Theorem c20_add_balanced : forall t n, wf t -> nzl (t_assign t) -> n <> 0 -> ~ In n (active_slot_ids t) ->
  let E := active_slot_ids t in
  let parts := n :: E in
  let post := apply_moves (compute_add_slot_plan t n) (t_assign t) in
  cnt post n = spec_ideal (t_count t) parts n
  /\ (forall s, In s E ->
        (cnt (t_assign t) s <= spec_ideal (t_count t) parts s -> cnt post s = cnt (t_assign t) s)
        /\ (spec_ideal (t_count t) parts s <= cnt (t_assign t) s ->
            spec_ideal (t_count t) parts s <= cnt post s <= cnt (t_assign t) s))
  /\ (balanced (t_count t) (t_assign t) E = true -> balanced (t_count t) post parts = true).
Proof. exact add_plan_result. Qed.
Print Assumptions c20_add_balanced.

(* remove: the removed slot ends empty; a receiver is never filled above its ideal share and
   a slot at or above it is untouched (c20_never_cross_ideal, remove half); on a table within
   one of ideal no remaining slot ends more than one ABOVE its ideal share.
   The full statement (... within one of its ideal share) is FALSE: c20_remove_balanced_refuted. *)
Theorem c20_remove_balanced_partial : forall t x, wf t -> nzl (t_assign t) -> In x (active_slot_ids t) ->
  active_slot_ids_excluding t x <> [] ->
  let A := active_slot_ids t in
  let R := active_slot_ids_excluding t x in
  let post := apply_moves (compute_remove_slot_plan t x) (t_assign t) in
  cnt post x = 0
  /\ (forall s, In s R ->
        (spec_ideal (t_count t) R s <= cnt (t_assign t) s -> cnt post s = cnt (t_assign t) s)
        /\ (cnt (t_assign t) s <= spec_ideal (t_count t) R s ->
            cnt (t_assign t) s <= cnt post s <= spec_ideal (t_count t) R s))
  /\ (balanced (t_count t) (t_assign t) A = true -> not_over (t_count t) post R = true).
Proof. exact remove_plan_result. Qed.
Print Assumptions c20_remove_balanced_partial.

(* ---- the balance clause is false beyond that: witnesses replayed on the real code ---------------- *)


(* F6 / known finding C20-K1: 12 hash slots, slot 1 holds 10, slot 2 holds 2, add slot 3:
   slot 1 is left with 6, its ideal share is 4.  corpus/C20/K1_add_unbalanced_F6.json *)
Theorem c20_add_unbalanced_refuted :
  exists t n, wf t /\ all_nz (t_assign t) = true /\ n <> 0 /\ ~ In n (active_slot_ids t)
    /\ balanced (t_count t) (apply_moves (compute_add_slot_plan t n) (t_assign t)) (n :: active_slot_ids t) = false
    /\ cnt (apply_moves (compute_add_slot_plan t n) (t_assign t)) 1 = 6
    /\ spec_ideal (t_count t) (n :: active_slot_ids t) 1 = 4
    /\ plan_code t (PAdd n) (compute_add_slot_plan t n) = 2.
Proof. exact c20_add_unbalanced_refuted_l. Qed.
Print Assumptions c20_add_unbalanced_refuted.

(* C20-K1, remove analogue: 7 hash slots held 1/1/5, remove slot 1.  corpus/C20/K1_remove_unbalanced.json *)
Theorem c20_remove_unbalanced_refuted :
  exists t x, wf t /\ all_nz (t_assign t) = true /\ In x (active_slot_ids t)
    /\ balanced (t_count t) (apply_moves (compute_remove_slot_plan t x) (t_assign t)) (active_slot_ids_excluding t x) = false
    /\ plan_code t (PRemove x) (compute_remove_slot_plan t x) = 2.
Proof. exact c20_remove_unbalanced_refuted_l. Qed.
Print Assumptions c20_remove_unbalanced_refuted.

(* C20-K2 (new): 12 hash slots held 1/1/1/3/3/3 by slots 1..6 — every slot within one of its
   ideal share 2 — remove slot 1: slot 3 is left with 1, its new ideal share is 3.
   corpus/C20/K2_remove_within_one.json *)
Theorem c20_remove_balanced_refuted :
  exists t x, wf t /\ all_nz (t_assign t) = true /\ In x (active_slot_ids t)
    /\ balanced (t_count t) (t_assign t) (active_slot_ids t) = true
    /\ balanced (t_count t) (apply_moves (compute_remove_slot_plan t x) (t_assign t)) (active_slot_ids_excluding t x) = false
    /\ cnt (apply_moves (compute_remove_slot_plan t x) (t_assign t)) 3 = 1
    /\ spec_ideal (t_count t) (active_slot_ids_excluding t x) 3 = 3
    /\ plan_code t (PRemove x) (compute_remove_slot_plan t x) = 3.
Proof. exact c20_remove_balanced_refuted_l. Qed.
Print Assumptions c20_remove_balanced_refuted.

(* ---- the monitor ------------------------------------------------------------------------------------- *)

(* what the monitor's balance classification can be on the model's own plans:
   rebalance always 0; add 0 or 2, and 0 on a within-one input; remove 0, 2 or 3,
   2 only on an input that is not within one (C20-K1), 3 only on one that is (C20-K2) *)
Theorem c20_plan_codes : forall t, wf t ->
  plan_code t PRebalance (compute_rebalance_plan t) = 0
  /\ (forall n, let c := plan_code t (PAdd n) (compute_add_slot_plan t n) in
        (c = 0 \/ c = 2)
        /\ (balanced (t_count t) (t_assign t) (distinct_nz (t_assign t)) = true -> c = 0))
  /\ (forall x, let c := plan_code t (PRemove x) (compute_remove_slot_plan t x) in
        (c = 0 \/ c = 2 \/ c = 3)
        /\ (c = 2 -> balanced (t_count t) (t_assign t) (distinct_nz (t_assign t)) = false)
        /\ (c = 3 -> balanced (t_count t) (t_assign t) (distinct_nz (t_assign t)) = true)).
Proof. exact c20_plan_codes_l. Qed.
Print Assumptions c20_plan_codes.

(* one model step under the monitor: code 0, except that an add / remove plan is
   classified by [plan_code] (previous theorem); the invariants carry over *)
Theorem c20_step_monitor : forall t o, codec_ok t -> t_version t + step_budget < ver_small -> op_ok o ->
  let t' := snd (model_step t o) in
  codec_ok t' /\ t_version t' <= t_version t + step_budget
  /\ step_code t (mstep t o) =
     match o with
     | OAdd n _ => plan_code t (PAdd n) (compute_add_slot_plan t n)
     | ORemove x _ => plan_code t (PRemove x) (compute_remove_slot_plan t x)
     | _ => 0
     end.
Proof. exact step_code_model. Qed.
Print Assumptions c20_step_monitor.

(* the monitor never reports a violation (1) on a trace of the model started from an
   initial layout, and reports 0 when the history has no add / remove plan; codes 2 / 3
   arise only from the two findings above *)
Theorem c20_model_satisfies_monitor : forall count phys ops, count < 65536 -> Forall op_ok ops ->
  1 + step_budget * N.of_nat (length ops) < ver_small ->
  let c := C20_monitor (C20Case count phys (new_hash_slot_table count phys)
                                (model_trace (new_hash_slot_table count phys) ops)) in
  c <> 1 /\ (forallb (fun o => negb (is_add_remove o)) ops = true -> c = 0).
Proof. exact model_satisfies_monitor. Qed.
Print Assumptions c20_model_satisfies_monitor.

(* ---- pkg/controller/state: BuildInitialHashSlotTable = NewHashSlotTable's layout ------------------ *)

Theorem c20_initial_layout_agrees : forall slots count c rs,
  build_initial_hash_slot_table slots count = Some (c, rs) ->
  c = count /\ expand_ranges rs = t_assign (new_hash_slot_table count (Z.of_N slots)).
Proof. exact initial_layout_agrees. Qed.
Print Assumptions c20_initial_layout_agrees.

(* ---- non-vacuity ------------------------------------------------------------------------------------- *)

(* a balanced add (hypotheses of c20_add_balanced satisfiable, monitor code 0) *)
Example c20_example_add :
  let t := new_hash_slot_table 12 3 in
  wf t /\ all_nz (t_assign t) = true /\ ~ In 4 (active_slot_ids t)
  /\ balanced (t_count t) (t_assign t) (active_slot_ids t) = true
  /\ compute_add_slot_plan t 4 = [Move 3 1 4; Move 7 2 4; Move 11 3 4]
  /\ plan_code t (PAdd 4) (compute_add_slot_plan t 4) = 0.
Proof.
  cbn zeta. split; [reflexivity|]. split; [reflexivity|].
  split; [vm_compute; intros [H|[H|[H|[]]]]; discriminate|]. repeat split; vm_compute; reflexivity.
Qed.

(* a table with an active migration survives the codec; the version moved *)
Example c20_example_codec :
  let t := advance_migration (start_migration (new_hash_slot_table 4 2) 1 1 2) 1 PhaseDelta in
  t_version t = 3 /\ t_migs t = [Mig 1 1 2 1]
  /\ decode_hash_slot_table (encode t) = Some t /\ N.of_nat (length (encode t)) = 12 + 4 * 8 + 2 + 20.
Proof. cbn zeta. repeat split; vm_compute; reflexivity. Qed.

(* a model trace with migrations, a codec round trip and all three planners: monitor 0 *)
Example c20_example_trace :
  C20_monitor (C20Case 12 3 (new_hash_slot_table 12 3)
     (model_trace (new_hash_slot_table 12 3)
        [OStart 0 1 2; OAdvance 0 2; OEncDec; OFinalize 0; OAdd 4 true; ORemove 2 true; ORebalance true; OLookup 3])) = 0.
Proof. vm_compute. reflexivity. Qed.

(* the wire layout constants regenerated from the code agree with the model's encoder *)
Example c20_example_layout :
  N.of_nat (length (encode (new_hash_slot_table 1 1))) = enc_len_1_0
  /\ N.of_nat (length (encode (start_migration (new_hash_slot_table 1 1) 0 1 2))) = enc_len_1_1.
Proof. split; vm_compute; reflexivity. Qed.
