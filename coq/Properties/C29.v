(* C29 — Send results are aligned, ordered and idempotent
   (internal/runtime/channelappend).

   Pure cores (Model/ChanAppend.v, tied to the code by exports on every run):
   newIdempotentAppendBatch / expandCompletions / appendResultCompletions /
   activeAppendItems, the per-channel writer's sequencing and reorder buffer.
   Pipeline: [reach s0 hw limit evs] is the state of one channel's append
   pipeline after ANY interleaving [evs] of submissions, effect issues, effect
   runs and completion applications, against ANY appender / idempotency ports
   satisfying the appender contract ([append_contract], [lookup_contract]); the
   hash functions are arbitrary. *)
From WK Require Import Base.Base Gen.Consts_C29 Model.ChanAppend Model.ChanAppend_C29
     Proof.ChanAppend_coalesce Proof.ChanAppend_expand Proof.ChanAppend_writer
     Proof.ChanAppend_run Proof.ChanAppend_pipeline Proof.ChanAppend_store Proof.ChanAppend_monitor
     Proof.ChanAppend_probe Proof.ChanAppend_monitor_pure Proof.ChanAppend_shard.
From Coq Require Import Sorted Permutation.
Open Scope N_scope.

(* ---- aligned: the coalescer ------------------------------------------------------------------- *)

(* for ARBITRARY hash functions the coalesced batch is a sub-sequence [pos] of the
   items; every item's owner slot holds the item itself or an EARLIER item that
   is the same logical send, in which case the item carries both key fields *)
Theorem c29_coalesce_aligned : forall hashf fp items,
  exists pos, coalesced items (newIdempotentAppendBatch hashf fp items) pos.
Proof. exact nb_coalesced. Qed.
Print Assumptions c29_coalesce_aligned.

(* hash / fingerprint collisions can never merge different sends: two items share
   an owner only if they are the same (uid, client number, payload) and keyed *)
Theorem c29_coalesce_sound : forall hashf fp items i j,
  (i < j)%nat -> (j < length items)%nat ->
  let b := newIdempotentAppendBatch hashf fp items in
  owner_of b i = owner_of b j ->
  cmdat items i = cmdat items j /\ keyed (cmdat items i) = true /\ keyed (cmdat items j) = true.
Proof. exact nb_sound. Qed.
Print Assumptions c29_coalesce_sound.

(* the stack-table pre-check is EXACT for any fingerprint function: within the
   documented bound it terminates and answers true iff two keyed items of the batch
   are the same logical send (collisions neither fake nor hide a duplicate) *)
Theorem c29_precheck_exact : forall (fp : cmd -> N) (items : list psend),
  N.of_nat (length items) <= c29_stack_item_limit ->
  exists r, hasCoalescibleIdempotentItems fp items = Some r /\ (r = true <-> coalescible_pair items).
Proof. exact hasCoalescible_exact. Qed.
Print Assumptions c29_precheck_exact.

(* completeness: when the payload hash separates the payloads that occur under one
   key in the batch, equal keyed sends always share one owner (any fingerprint) *)
Theorem c29_coalesce_complete : forall hashf fp items,
  hash_separates hashf items ->
  forall i j, (i < j)%nat -> (j < length items)%nat ->
  keyed (cmdat items i) = true -> cmdat items i = cmdat items j ->
  let b := newIdempotentAppendBatch hashf fp items in
  owner_of b i = owner_of b j.
Proof. exact nb_complete. Qed.
Print Assumptions c29_coalesce_complete.

(* expandCompletions: one completion per original item, in its own position,
   carrying its owner's result; only the owner's own position stays committed *)
Theorem c29_expand_aligned : forall items b pos unique,
  coalesced items b pos -> map cp_item unique = ib_items b ->
  length (expandCompletions b unique) = length items
  /\ forall i, (i < length items)%nat ->
       nth i (expandCompletions b unique) dflt_comp = expanded_at items b pos unique i.
Proof. exact expand_aligned. Qed.
Print Assumptions c29_expand_aligned.

(* appendResultCompletions: one completion per item whatever the result vector's length *)
Theorem c29_result_completions_aligned : forall items res,
  map cp_item (appendResultCompletions items res) = items
  /\ forall i it, nth_error items i = Some it ->
       nth_error (appendResultCompletions items res) i = Some (arc_one it (nth_error res i)).
Proof. exact arc_aligned. Qed.
Print Assumptions c29_result_completions_aligned.

(* activeAppendItems: the live items in order + one error completion per inactive item *)
Theorem c29_active_split : forall items, activeAppendItems items = activeAppendItems_spec items.
Proof. exact activeAppendItems_correct. Qed.
Print Assumptions c29_active_split.

(* ---- ordered completion drain ------------------------------------------------------------------- *)

(* ANY arrivals (duplicated, stale, not yet issued): deliveries carry consecutive
   sequence numbers from the drain position, none twice, each an arrived event *)
Theorem c29_drain_in_order_any : forall evs s out s',
  entries_ok s -> apply_all s evs = (out, s') ->
  consec (ws_drain s) (map ev_seq out)
  /\ ws_drain s' = ws_drain s + N.of_nat (length out)
  /\ entries_ok s'
  /\ (forall e, In e out -> In e evs \/ In e (buffered s))
  /\ NoDup (map ev_seq out).
Proof. exact drain_in_order_any. Qed.
Print Assumptions c29_drain_in_order_any.

(* the completions of effects 0..n-1, each once, in ANY order: all are delivered,
   in sequence order, each exactly once, and the buffer ends empty *)
Theorem c29_drain_in_order : forall hw limit evs out s',
  NoDup (map ev_seq evs) ->
  (forall k, k < N.of_nat (length evs) -> In k (map ev_seq evs)) ->
  apply_all (newChannelState hw limit) evs = (out, s') ->
  map ev_seq out = ChanAppend_writer.nseq (length evs)
  /\ Permutation out evs
  /\ ws_drain s' = N.of_nat (length evs)
  /\ ws_ready s' = None /\ ws_completed s' = [].
Proof. exact drain_in_order_perm. Qed.
Print Assumptions c29_drain_in_order.

(* ---- one effect against contract-abiding ports --------------------------------------------------- *)

Theorem c29_run_aligned : forall St do_append do_nlookup hashf fp slog Wf,
  append_contract St do_append slog Wf -> lookup_contract St do_nlookup hashf slog ->
  forall s e ev s',
  Wf (slog s) -> LogOK (slog s) -> StronglySorted tag_lt (ef_items e) ->
  run St do_append do_nlookup hashf fp s e = (ev, s') ->
  exists ext, slog s' = slog s ++ ext /\ Wf (slog s') /\ ext_ok (slog s) ext (ef_items e)
    /\ ev_seq ev = ef_seq e
    /\ Permutation (map cp_item (ev_items ev)) (ef_items e)
    /\ Forall (eorigin St do_append hashf slog (slog s) ext) (ev_items ev)
    /\ (forall c1 c2, In c1 (ev_items ev) -> In c2 (ev_items ev) ->
           cp_committed c1 = true -> cp_committed c2 = true -> tagof c1 < tagof c2 ->
           r_seq (cp_res c1) < r_seq (cp_res c2)).
Proof. exact run_spec. Qed.
Print Assumptions c29_run_aligned.

(* ---- the pipeline: aligned, idempotent, ordered ------------------------------------------------------
   [reach St do_append do_nlookup hashf fp s0 hw limit evs]: the pipeline state after
   the events [evs], from an empty channel log, with backlog limit [hw] and
   AppendInflightBatchesPerChannel [limit]. *)

(* every item receives at most one result, only submitted items do, and once
   nothing is in flight every submitted item has received exactly one *)
Theorem c29_exactly_one_result : forall St do_append do_nlookup hashf fp slog Wf,
  append_contract St do_append slog Wf -> lookup_contract St do_nlookup hashf slog ->
  forall s0 hw limit evs, slog s0 = [] -> Wf [] ->
  let p := reach St do_append do_nlookup hashf fp s0 hw limit evs in
  NoDup (map tagof (p_delivered p))
  /\ (forall c, In c (p_delivered p) -> In (cp_item c) (p_submitted p))
  /\ (quiescent St p = true -> Permutation (map cp_item (p_delivered p)) (p_submitted p)).
Proof. exact pipeline_exactly_one. Qed.
Print Assumptions c29_exactly_one_result.

(* a successful result names a record of the channel log with the item's sender
   and client number — its own record or, for a keyed item, the original one *)
Theorem c29_success_backed : forall St do_append do_nlookup hashf fp slog Wf,
  append_contract St do_append slog Wf -> lookup_contract St do_nlookup hashf slog ->
  forall s0 hw limit evs c, slog s0 = [] -> Wf [] ->
  let p := reach St do_append do_nlookup hashf fp s0 hw limit evs in
  In c (p_delivered p) -> backed hashf (slog (p_store p)) c.
Proof. exact pipeline_backed. Qed.
Print Assumptions c29_success_backed.

(* a retried send (same non-empty sender and client number) returns the original id and sequence ... *)
Theorem c29_retry_same_result : forall St do_append do_nlookup hashf fp slog Wf,
  append_contract St do_append slog Wf -> lookup_contract St do_nlookup hashf slog ->
  forall s0 hw limit evs c1 c2, slog s0 = [] -> Wf [] ->
  let p := reach St do_append do_nlookup hashf fp s0 hw limit evs in
  In c1 (p_delivered p) -> In c2 (p_delivered p) ->
  is_success (cp_res c1) = true -> is_success (cp_res c2) = true ->
  keyed (ps_cmd (cp_item c1)) = true ->
  same_key (ps_cmd (cp_item c1)) (ps_cmd (cp_item c2)) = true ->
  r_id (cp_res c1) = r_id (cp_res c2) /\ r_seq (cp_res c1) = r_seq (cp_res c2).
Proof. exact pipeline_retry_same_result. Qed.
Print Assumptions c29_retry_same_result.

(* ... without storing a second message *)
Theorem c29_no_second_message : forall St do_append do_nlookup hashf fp slog Wf,
  append_contract St do_append slog Wf -> lookup_contract St do_nlookup hashf slog ->
  forall s0 hw limit evs r r', slog s0 = [] -> Wf [] ->
  let log := slog (p_store (reach St do_append do_nlookup hashf fp s0 hw limit evs)) in
  In r log -> In r' log -> keyed (pr_cmd r) = true -> same_key (pr_cmd r) (pr_cmd r') = true -> r = r'.
Proof. exact pipeline_no_second_message. Qed.
Print Assumptions c29_no_second_message.

(* a reused key with a different payload (different non-zero payload hashes) never
   yields a successful message next to the original one *)
Theorem c29_reuse_rejected : forall St do_append do_nlookup hashf fp slog Wf,
  append_contract St do_append slog Wf -> lookup_contract St do_nlookup hashf slog ->
  forall s0 hw limit evs c1 c2, slog s0 = [] -> Wf [] ->
  let p := reach St do_append do_nlookup hashf fp s0 hw limit evs in
  In c1 (p_delivered p) -> In c2 (p_delivered p) ->
  is_success (cp_res c1) = true ->
  keyed (ps_cmd (cp_item c1)) = true ->
  same_key (ps_cmd (cp_item c1)) (ps_cmd (cp_item c2)) = true ->
  hashf (c_pay (ps_cmd (cp_item c1))) <> hashf (c_pay (ps_cmd (cp_item c2))) ->
  hashf (c_pay (ps_cmd (cp_item c1))) <> 0 -> hashf (c_pay (ps_cmd (cp_item c2))) <> 0 ->
  is_success (cp_res c2) = false.
Proof. exact pipeline_reuse_rejected. Qed.
Print Assumptions c29_reuse_rejected.

(* default configuration (at most one append in flight per channel): committed
   completions get strictly increasing sequences in submission order *)
Theorem c29_seq_increasing_committed : forall St do_append do_nlookup hashf fp slog Wf,
  append_contract St do_append slog Wf -> lookup_contract St do_nlookup hashf slog ->
  forall s0 hw limit evs c1 c2, slog s0 = [] -> Wf [] -> (limit <= 1)%Z ->
  let p := reach St do_append do_nlookup hashf fp s0 hw limit evs in
  In c1 (p_delivered p) -> In c2 (p_delivered p) ->
  cp_committed c1 = true -> cp_committed c2 = true -> tagof c1 < tagof c2 ->
  r_seq (cp_res c1) < r_seq (cp_res c2).
Proof. exact pipeline_committed_increasing. Qed.
Print Assumptions c29_seq_increasing_committed.

(* ... and when a failed append commits nothing, ALL new messages (successes whose
   log record was appended for that very submission) are ordered.  Without
   [atomic_failures] the statement is false: c29_seq_increasing_refuted (C29-K2). *)
Theorem c29_seq_increasing : forall St do_append do_nlookup hashf fp slog Wf,
  append_contract St do_append slog Wf -> lookup_contract St do_nlookup hashf slog ->
  forall s0 hw limit evs c1 c2, slog s0 = [] -> Wf [] -> (limit <= 1)%Z ->
  atomic_failures St do_append slog ->
  let p := reach St do_append do_nlookup hashf fp s0 hw limit evs in
  In c1 (p_delivered p) -> In c2 (p_delivered p) ->
  is_fresh St slog p c1 -> is_fresh St slog p c2 -> tagof c1 < tagof c2 ->
  r_seq (cp_res c1) < r_seq (cp_res c2).
Proof. exact pipeline_seq_increasing. Qed.
Print Assumptions c29_seq_increasing.

(* ---- the hypotheses are satisfiable; the full ordering statement needs atomic failures ----------- *)

(* the strict-store ports the harness ties to the code on every run (real
   pkg/db/message store + real infra/cluster adapters behind a scripted fake node)
   satisfy both contracts, from an empty well-formed log, for EVERY fault script *)
Theorem c29_contract_satisfiable : forall af lf,
  ss_log (SS [] af lf []) = [] /\ contig []
  /\ append_contract sstore ss_do_append ss_log contig
  /\ lookup_contract sstore ss_do_nlookup idempotencyPayloadHash ss_log.
Proof. exact ss_hypotheses. Qed.
Print Assumptions c29_contract_satisfiable.

(* C29-K2 (known finding): without [atomic_failures] the conclusion of
   c29_seq_increasing is false — one batch [keyed; keyless; keyed] whose append
   commits and then reports ErrAppendFailed: the keyless send is appended again and
   gets sequence 4, above the 3 of the later-submitted third item; both are new messages *)
Theorem c29_seq_increasing_refuted :
  let p := ss_reach [FFailAfter E_APPEND_FAILED] [] 0 1 k2_events in
  quiescent sstore p = true /\
  exists c1 c2, In c1 (p_delivered p) /\ In c2 (p_delivered p)
    /\ is_fresh sstore ss_log p c1 /\ is_fresh sstore ss_log p c2
    /\ tagof c1 < tagof c2 /\ r_seq (cp_res c2) < r_seq (cp_res c1).
Proof. exact seq_increasing_refuted. Qed.
Print Assumptions c29_seq_increasing_refuted.

(* the property monitor evaluated on implementation histories accepts the history of
   every quiescent state the pipeline model reaches (one append in flight, atomic failures) *)
Theorem c29_model_satisfies_monitor : forall St do_append do_nlookup fp slog Wf,
  append_contract St do_append slog Wf -> lookup_contract St do_nlookup idempotencyPayloadHash slog ->
  forall s0 hw limit evs, slog s0 = [] -> Wf [] -> (limit <= 1)%Z -> atomic_failures St do_append slog ->
  let p := reach St do_append do_nlookup idempotencyPayloadHash fp s0 hw limit evs in
  quiescent St p = true ->
  let h := hist_of St slog p in
  C29_monitor (C29Hist (hi_ordered h) (hi_calls h) (hi_sends h) (hi_logs h)) = 0.
Proof. exact model_case_monitor. Qed.
Print Assumptions c29_model_satisfies_monitor.

(* ... and on the coalescer cases it accepts whatever the model computes, for ANY batch
   whose items are indexed by position (the shape the harness builds) and any scripts *)
Theorem c29_model_satisfies_monitor_coal : forall items us rs,
  map ps_index items = ChanAppend_C29.nseq (length items) ->
  C29_monitor (C29Coalesce items us rs (coal_model items us rs)) = 0.
Proof. exact model_coal_monitor. Qed.
Print Assumptions c29_model_satisfies_monitor_coal.

(* ... and on the writer cases, for ANY limits and ANY op history *)
Theorem c29_model_satisfies_monitor_writer : forall hw limit ops,
  C29_monitor (C29Writer hw limit ops (wrun (newChannelState hw limit, 0) 0 ops)) = 0.
Proof. exact model_writer_monitor. Qed.
Print Assumptions c29_model_satisfies_monitor_writer.

(* non-vacuity: a batch with a coalesced duplicate, a retry of a stored message and a
   key reuse, over the strict store: the duplicate and the retry return the original
   (id, seq), the reuse is rejected, one message is stored *)
Example c29_example_retry_and_reuse :
  let evs := [PSubmit [(Cmd [117] [97] [112], 7, false, 0); (Cmd [117] [97] [112], 8, false, 0)];
              PAdvance; PRun 0; PApply 0;
              PSubmit [(Cmd [117] [97] [112], 9, false, 0)]; PAdvance; PRun 0; PApply 0;
              PSubmit [(Cmd [117] [97] [113], 10, false, 0)]; PAdvance; PRun 0; PApply 0] in
  let p := ss_reach [] [] 0 1 evs in
  map (fun c => (tagof c, r_id (cp_res c), r_seq (cp_res c), is_success (cp_res c), cp_committed c)) (p_delivered p)
  = [(0, 7, 1, true, true); (1, 7, 1, true, false); (2, 7, 1, true, false); (3, 0, 0, false, false)]
  /\ map pr_id (ss_log (p_store p)) = [7].
Proof. vm_compute. split; reflexivity. Qed.

(* the ordering theorems are about the DEFAULT configuration: the regenerated constant
   defaultAppendInflightBatchesPerChannel keeps one append in flight per channel *)
Example c29_default_single_inflight : (Z.of_N c29_default_inflight <= 1)%Z.
Proof. vm_compute. discriminate. Qed.

(* ---- one writer per channel (shard.go getOrCreate / reclaim sweep, writer.go idleExpired) ---------
   The ordering theorems are about ONE pipeline per channel.  The shard may delete a
   writer from its map only when idleExpired holds; as transcribed from the code this
   implies the writer owns no admitted, unfinished send ... *)
Theorem c29_reclaim_only_idle : forall w now retention,
  idleExpired w now retention = true -> has_work w = false.
Proof. exact idle_expired_no_work. Qed.
Print Assumptions c29_reclaim_only_idle.

(* ... hence, for every interleaving of submissions (with creation + sweep), writer
   advances, append completions and clock ticks, a channel has at most one writer — in
   the map or already swept — that holds admitted-but-unfinished work *)
Theorem c29_single_writer : forall retention hw limit evs ch,
  (length (working_writers (srun writer_idle retention hw limit evs) ch) <= 1)%nat.
Proof. exact single_working_writer. Qed.
Print Assumptions c29_single_writer.

(* seeded change C29-b: with the test "nothing runnable right now" a writer whose append
   is in flight is swept and the channel gets a second working writer *)
Theorem c29_single_writer_refuted :
  length (working_writers (srun idle_nothing_runnable 10 0 1 reclaim_witness) 1) = 2%nat.
Proof. exact single_working_writer_refuted. Qed.
Print Assumptions c29_single_writer_refuted.
