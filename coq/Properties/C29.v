(* C29 — Send results are aligned, ordered and idempotent (placeholder while the harness is brought up). *)
From WK Require Import Base.Base Model.ChanAppend Model.ChanAppend_C29.
Open Scope N_scope.
