(* Properties/C13.v — placeholder while the model is being tied to the code. *)
From WK Require Import Base.Base Model.SlotFSM Model.SlotFSM_tlv Model.SlotFSM_C13.
