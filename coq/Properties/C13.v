(* C13 — The slot state machine is deterministic and batch-transparent.
   Only statements, each closed by [exact] of a lemma from Proof/SlotFSM_*.v.

   Model: Model/SlotFSM.v (ApplyBatch of pkg/slot/fsm over the WriteBatch of pkg/db/meta, as a
   generic batch machine instantiated with the code that exists), Model/SlotFSM_tlv.v (the
   command decoder), Model/SlotFSM_C13.v (case record, model/implementation comparison, monitor).

   What is proved, and for what:
   * the overlay theorem, generically: a batch machine whose staging loop and deferred operations
     read only through the batch view (overlay_machine) gives the same results and an equivalent
     store however a log is cut into batches; an error stops a batch without effect;
   * the slot state machine IS such a machine, for every configuration, on the commands
     noop / upsert_user / create_user / enter_fence / ack / apply_delta of those and of cleanup;
   * it is NOT on the channel-migration commands and on the outbox cleanup command: five
     refutations, each a corpus input on which the real code and the model diverge in the same way
     (known findings C13-K1..K5);
   * commands for hash slots the slot does not own (or with a foreign slot id) are refused, the
     store is untouched; the decoder answers every byte string, never reads past the end, and
     round-trips the migration commands;
   * the monitor evaluated on implementation traces accepts every trace of the model. *)
From WK Require Import Base.Base Base.Bytes.
From WK Require Import Gen.Consts_C15 Gen.Consts_C17 Gen.Consts_C13.
From WK Require Import Model.RuntimeMeta Model.ChanMigration Model.SlotFSM Model.SlotFSM_tlv Model.SlotFSM_C13.
From WK Require Import Proof.SlotFSM_machine Proof.SlotFSM_inst Proof.SlotFSM_props Proof.SlotFSM_tlv
     Proof.SlotFSM_refuted Proof.SlotFSM_monitor.
Open Scope N_scope.

(* ---- the overlay theorem (generic) ------------------------------------------------------------------ *)

(* a batch that returns results = the same commands one per batch: same results, equivalent store *)
Theorem c13_overlay_seq :
  forall (S T V O C R : Type) (stage : S -> T -> C -> @sres T O R) (t0 : T) (finish : list C -> list O)
         (v0 : S -> V) (run_op : S -> V -> O -> @ores V) (flush : S -> V -> S) (r_stale : R)
         (eqv : S -> S -> Prop) (good : C -> Prop) (good_op : O -> Prop)
         (Vinv : S -> V -> Prop) (Agree : S -> T -> V -> Prop),
    overlay_machine stage t0 finish v0 run_op flush eqv good good_op Vinv Agree ->
    forall s cs s' rs,
      Forall good cs ->
      ApplyBatch stage t0 finish v0 run_op flush r_stale s cs = (s', BRes rs) ->
      exists s'', apply_individually stage t0 finish v0 run_op flush r_stale s cs = (s'', BRes rs) /\ eqv s'' s'.
Proof. exact (@overlay_seq). Qed.
Print Assumptions c13_overlay_seq.

(* an error met while staging or committing (decode, ownership, validation, a non-stale commit
   error) ends ApplyBatch with the store it started from *)
Theorem c13_abort_no_effect :
  forall (S T V O C R : Type) (stage : S -> T -> C -> @sres T O R) (t0 : T) (finish : list C -> list O)
         (v0 : S -> V) (run_op : S -> V -> O -> @ores V) (flush : S -> V -> S) (r_stale : R) s cs e,
    apply_core stage t0 finish v0 run_op flush s cs = CoreErr e ->
    ApplyBatch stage t0 finish v0 run_op flush r_stale s cs = (s, BErr e).
Proof. exact (@machine_abort_no_effect). Qed.
Print Assumptions c13_abort_no_effect.

(* a failing batch: the one-per-batch run fails too; the store is the initial one, or (fallback
   after a stale commit) exactly the one-per-batch store *)
Theorem c13_fatal_agrees :
  forall (S T V O C R : Type) (stage : S -> T -> C -> @sres T O R) (t0 : T) (finish : list C -> list O)
         (v0 : S -> V) (run_op : S -> V -> O -> @ores V) (flush : S -> V -> S) (r_stale : R)
         (eqv : S -> S -> Prop) (good : C -> Prop) (good_op : O -> Prop)
         (Vinv : S -> V -> Prop) (Agree : S -> T -> V -> Prop),
    overlay_machine stage t0 finish v0 run_op flush eqv good good_op Vinv Agree ->
    forall s cs s' e,
      Forall good cs ->
      ApplyBatch stage t0 finish v0 run_op flush r_stale s cs = (s', BErr e) ->
      exists s'' e', apply_individually stage t0 finish v0 run_op flush r_stale s cs = (s'', BErr e')
                     /\ (s' = s \/ s' = s'').
Proof. exact (@overlay_fatal). Qed.
Print Assumptions c13_fatal_agrees.

(* every partition of a log whose one-per-batch run succeeds: same results, equivalent store *)
Theorem c13_partition_invariant :
  forall (S T V O C R : Type) (stage : S -> T -> C -> @sres T O R) (t0 : T) (finish : list C -> list O)
         (v0 : S -> V) (run_op : S -> V -> O -> @ores V) (flush : S -> V -> S) (r_stale : R)
         (eqv : S -> S -> Prop) (good : C -> Prop) (good_op : O -> Prop)
         (Vinv : S -> V -> Prop) (Agree : S -> T -> V -> Prop),
    overlay_machine stage t0 finish v0 run_op flush eqv good good_op Vinv Agree ->
    forall bs s s' rs,
      Forall good (concat bs) ->
      apply_individually stage t0 finish v0 run_op flush r_stale s (concat bs) = (s', BRes rs) ->
      exists s'' outs, apply_partition stage t0 finish v0 run_op flush r_stale s bs = (s'', outs)
                       /\ all_results outs = Some rs /\ eqv s'' s'.
Proof. exact (@overlay_partition). Qed.
Print Assumptions c13_partition_invariant.

(* ---- the slot state machine ----------------------------------------------------------------------------- *)

(* for every configuration the model of ApplyBatch is an overlay machine on the good commands;
   stores are compared up to the slot applied index *)
Theorem c13_fsm_is_overlay_machine : forall cfg,
  overlay_machine (fsm_stage cfg) bstate0 fsm_finish fsm_v0 fsm_run_op fsm_flush
                  store_eqv good_cmd good_wop (fun _ _ => True) agree.
Proof. exact fsm_overlay_machine. Qed.
Print Assumptions c13_fsm_is_overlay_machine.

Theorem c13_fsm_partition_invariant : forall cfg bs d d' rs,
  Forall good_cmd (concat bs) ->
  fsm_apply_individually cfg d (concat bs) = (d', BRes rs) ->
  exists d'' outs, fsm_apply_partition cfg d bs = (d'', outs) /\ all_results outs = Some rs /\ store_eqv d'' d'.
Proof. exact fsm_partition_invariant. Qed.
Print Assumptions c13_fsm_partition_invariant.

Theorem c13_fsm_batch_eq_singles : forall cfg d cs d' rs,
  Forall good_cmd cs ->
  fsm_apply_batch cfg d cs = (d', BRes rs) ->
  exists d'', fsm_apply_individually cfg d cs = (d'', BRes rs) /\ store_eqv d'' d'.
Proof. exact fsm_batch_eq_singles. Qed.
Print Assumptions c13_fsm_batch_eq_singles.

Theorem c13_fsm_fatal_agrees : forall cfg d cs d' e,
  Forall good_cmd cs ->
  fsm_apply_batch cfg d cs = (d', BErr e) ->
  exists d'' e', fsm_apply_individually cfg d cs = (d'', BErr e') /\ (d' = d \/ d' = d'').
Proof. exact fsm_fatal_agrees. Qed.
Print Assumptions c13_fsm_fatal_agrees.

(* a batch containing a command with a foreign slot id, or for a hash slot the slot neither owns
   nor may receive migration maintenance for, is refused as a whole; nothing is written *)
Theorem c13_unowned_refused : forall cfg d cs c,
  In c cs ->
  fc_slot_ok c = false \/ resolveHashSlot cfg c = None ->
  exists e, fsm_apply_batch cfg d cs = (d, BErr e).
Proof. exact fsm_unowned_refused. Qed.
Print Assumptions c13_unowned_refused.

Theorem c13_unowned_resolve : forall cfg c,
  isMigrationMaintenanceCommand (fc_cmd c) = false ->
  memN (if (fc_hs c =? 0) && cfg_allow_legacy cfg then cfg_legacy cfg else fc_hs c) (cfg_owned cfg) = false ->
  resolveHashSlot cfg c = None.
Proof. exact resolve_unowned. Qed.
Print Assumptions c13_unowned_resolve.

(* ---- the statement is false of the code on two command families (known findings) ---------------------- *)

(* each witness: the model reproduces what the real state machine did on the corpus input (so the
   divergence is the code's), the monitor names the finding, and on the model alone some partition
   of the log departs from the one-command-per-batch run *)
Theorem c13_k1_refuted : exists c, C13_mismatch c = false /\ C13_monitor c = 2 /\ diverges c = true.
Proof. exact k1_refuted. Qed.
Print Assumptions c13_k1_refuted.

Theorem c13_k2_refuted : exists c, C13_mismatch c = false /\ C13_monitor c = 3 /\ diverges c = true.
Proof. exact k2_refuted. Qed.
Print Assumptions c13_k2_refuted.

Theorem c13_k3_refuted : exists c, C13_mismatch c = false /\ C13_monitor c = 4 /\ diverges c = true.
Proof. exact k3_refuted. Qed.
Print Assumptions c13_k3_refuted.

Theorem c13_k4_refuted : exists c, C13_mismatch c = false /\ C13_monitor c = 5 /\ diverges c = true.
Proof. exact k4_refuted. Qed.
Print Assumptions c13_k4_refuted.

Theorem c13_k5_refuted : exists c, C13_mismatch c = false /\ C13_monitor c = 6 /\ diverges c = true.
Proof. exact k5_refuted. Qed.
Print Assumptions c13_k5_refuted.

(* known finding K6 lives in a command family the model does not interpret (DeleteChannel does
   not reset the subscriber overlay of its batch): a corpus case with the real observations on
   which the monitor returns code 7; covered by the implementation's partition self-consistency
   run only, no model-level refutation *)
Theorem c13_k6_witness : exists c, c_modelled c = false /\ C13_monitor c = 7.
Proof. exact k6_witness. Qed.
Print Assumptions c13_k6_witness.

(* ---- the decoder ---------------------------------------------------------------------------------------------- *)

(* a TLV field consumes at least its header and never more bytes than there are *)
Theorem c13_decode_field_bounds : forall data tag v n,
  readTLV data = Some (tag, v, n) ->
  (5 <= n <= length data)%nat /\ length v = (n - 5)%nat /\ v = firstn (n - 5) (skipn 5 data).
Proof. exact readTLV_consumed. Qed.
Print Assumptions c13_decode_field_bounds.

(* the field loop is total: it never stops for lack of fuel, whatever the bytes *)
Theorem c13_decode_total : forall data fuel, (length data <= fuel)%nat -> tlv_fields fuel data = fields_of data.
Proof. exact tlv_fields_total. Qed.
Print Assumptions c13_decode_total.

Theorem c13_decode_header_short : forall data, (length data < 2)%nat -> decodeCommand data = DecErr DEC_CORRUPT.
Proof. exact decode_short. Qed.
Print Assumptions c13_decode_header_short.

Theorem c13_decode_unknown_type : forall t payload,
  existsb (N.eqb t) commandTypes = false -> decodeCommand (commandVersion :: t :: payload) = DecErr DEC_INVALID.
Proof. exact decode_unknown_type. Qed.
Print Assumptions c13_decode_unknown_type.

(* unknown tags are skipped by the apply_delta and enter_fence field loops *)
Theorem c13_decode_skips_unknown_tags : forall a tag v,
  negb (existsb (N.eqb tag) [tagApplyDeltaSourceSlotID; tagApplyDeltaSourceIndex; tagApplyDeltaHashSlot;
                              tagApplyDeltaOriginalCmd]) = true ->
  delta_step a (tag, v) = Some a.
Proof. exact delta_step_unknown. Qed.
Print Assumptions c13_decode_skips_unknown_tags.

Theorem c13_decode_encode_apply_delta : forall s i h orig,
  u64_ok s -> u64_ok i -> h <= 65535 -> N.of_nat (length orig) < 4294967296 ->
  decodeCommand (encodeApplyDelta s i h orig) = DecDelta s i h orig.
Proof. exact decode_encode_apply_delta. Qed.
Print Assumptions c13_decode_encode_apply_delta.

Theorem c13_decode_encode_fence : forall h t,
  h <= 65535 -> u64_ok t -> decodeCommand (encodeEnterFence h t) = DecFence h t.
Proof. exact decode_encode_fence. Qed.
Print Assumptions c13_decode_encode_fence.

Theorem c13_decode_encode_outbox : forall cleanup h s t i,
  h <= 65535 -> u64_ok s -> u64_ok t -> u64_ok i ->
  decodeCommand (encodeMigrationOutbox cleanup h s t i) = if cleanup then DecCleanup h s t i else DecAck h s t i.
Proof. exact decode_encode_outbox. Qed.
Print Assumptions c13_decode_encode_outbox.

(* ---- the monitor ---------------------------------------------------------------------------------------------------- *)

(* C13_monitor is 0 on the case built from the model's own runs of a log of good commands whose
   one-per-batch run meets no error, for any partitions of the log, any digest that ignores the
   applied index and any hash of the result bytes.  Hence: model = implementation on a case
   (C13_mismatch false) and a monitor failure on it cannot both happen on such a log. *)
Theorem c13_model_satisfies_monitor :
  forall cfg (dg : store -> N), (forall a b, store_eqv a b -> dg a = dg b) ->
  forall (hr : fres -> N) es szs sfin rs,
    Forall good_cmd (to_fcmds 1 es) ->
    fsm_apply_individually cfg store_empty (to_fcmds 1 es) = (sfin, BRes rs) ->
    Forall (fun sizes => Forall (fun s => 1 <= s) sizes
                         /\ fold_right (fun s acc => (N.to_nat s + acc)%nat) 0%nat sizes = length es) szs ->
    C13_monitor (model_case cfg dg hr es szs) = 0.
Proof. exact model_satisfies_monitor. Qed.
Print Assumptions c13_model_satisfies_monitor.

(* ---- non-vacuity -------------------------------------------------------------------------------------------------------- *)

(* a log of good commands that exercises the outbox, the fence, acks and replayed deltas under an
   outgoing migration: the hypotheses of the partition theorem hold and the one-per-batch run
   succeeds; two different partitions give the same tables *)
Definition ex_cfg : fsm_cfg := Cfg 11 [11; 12] 11 false [(12, (21, migrationPhaseDelta))].
Definition ex_log : list fcmd := to_fcmds 1
  [ Entry true 12 (HUser false (hx "7531") (hx "61") 0%Z 0%Z) (hx "0101") None None;
    Entry true 11 (HDelta 31 7 11 (Some (HUser true (hx "7532") (hx "62") 1%Z 0%Z))) [] None None;
    Entry true 12 (HFence 12 0) (hx "0115") None None;
    Entry true 12 (HUser false (hx "7533") (hx "63") 0%Z 0%Z) (hx "0101") None None;
    Entry true 12 (HAck 12 11 21 1) [] None None;
    Entry true 11 (HDelta 31 7 11 (Some (HUser true (hx "7532") (hx "64") 1%Z 0%Z))) [] None None ].

Example c13_example_good : forallb (fun c => good_hcmd (fc_cmd c)) ex_log = true.
Proof. vm_compute. reflexivity. Qed.

Example c13_example_partitions_agree :
  let '(s1, r1) := fsm_apply_individually ex_cfg store_empty ex_log in
  let '(s2, r2) := fsm_apply_batch ex_cfg store_empty ex_log in
  let '(s3, o3) := fsm_apply_partition ex_cfg store_empty (split_sizes [2; 3; 1] ex_log) in
  bres_eqb r1 r2 = true /\ store_data_eqb s1 s2 = true /\ store_data_eqb s1 s3 = true
  /\ bres_eqb r1 (BRes [(R_OK, [Forward 21 12 1 (hx "0101")]); (R_OK, []); (R_OK, [Forward 21 12 3 (hx "0115")]);
                        (R_FENCED, []); (R_OK, []); (R_OK, [])]) = true.
Proof. vm_compute. repeat split; reflexivity. Qed.
