(* C40 — Message event projection is monotonic and fail-closed.
   Statements only; every proof is [exact] of a lemma from Proof/MsgEvent*.v.

   Model: Model/MsgEvent.v (reducers, the three tables, the slot command, the
   leader-side stream cache and the finish path).  encoding/json enters through
   payload views (see the header of Model/MsgEvent.v); TrimSpace/ToLower are
   the ASCII versions. *)
From WK Require Import Base.Base.
From WK Require Import Gen.Consts_C40 Model.MsgEvent Model.MsgEvent_C40.
From WK Require Import Proof.MsgEvent Proof.MsgEvent_monitor Proof.MsgEvent_node.
Open Scope N_scope.

(* ------------------------------------------------------------------------------------------
   1. The durable event sequence only increases
   ------------------------------------------------------------------------------------------ *)

(* reducer: an applied event gets the successor of the message cursor, as cursor,
   lane sequence and result; an event that is not applied changes nothing *)
Theorem c40_seq_strict_reducer : forall state ex cursor cex e,
  let '(st', cu', did, res) := reduceMessageEventAppend state ex cursor cex e in
  let cur := if cex then cu_seq cursor else 0 in
  (did = true -> cu_seq cu' = wrap_succ cur /\ st_seq st' = cu_seq cu' /\ r_seq res = cu_seq cu')
  /\ (did = false -> cu' = cursor /\ st' = state /\ res = messageEventAppendResult e state).
Proof. exact reduce_seq_strict. Qed.
Print Assumptions c40_seq_strict_reducer.

(* Shard.AppendMessageEvent / Batch.AppendMessageEvent: either nothing changes, or exactly
   the cursor of the event's message advances to its successor, which is the sequence
   of the result and of the lane; every other cursor is untouched *)
Theorem c40_seq_strict : forall db hs e out db',
  AppendMessageEvent db hs e = (out, db') ->
  db' = db
  \/ exists ne r st',
      normalizeMessageEventAppend e = Some ne /\ out = (ENone, Some r)
      /\ get_applied db hs (e_channel ne) (e_ctype ne) (e_msgno ne) (e_id ne) = None
      /\ cursor_seq db' hs (e_channel ne) (e_ctype ne) (e_msgno ne)
         = wrap_succ (cursor_seq db hs (e_channel ne) (e_ctype ne) (e_msgno ne))
      /\ r_seq r = cursor_seq db' hs (e_channel ne) (e_ctype ne) (e_msgno ne)
      /\ get_state db' hs (e_channel ne) (e_ctype ne) (e_msgno ne) (e_key ne) = Some st'
      /\ st_seq st' = r_seq r /\ r_key r = e_key ne
      /\ (forall hs' c t m, cursor_at hs' c t m (hs, mkCursor (e_channel ne) (e_ctype ne) (e_msgno ne) 0 0%Z) = false ->
                            cursor_seq db' hs' c t m = cursor_seq db hs' c t m).
Proof. exact append_seq_strict. Qed.
Print Assumptions c40_seq_strict.

(* the successor is +1 below the 64-bit limit *)
Theorem c40_successor : forall x, x < u64max -> wrap_succ x = x + 1.
Proof. exact wrap_succ_lt. Qed.
Print Assumptions c40_successor.

(* histories of any length below 2^64-1 events: a message's cursor never decreases and
   grows by at most one per event *)
Theorem c40_seq_monotone_history : forall evs db hs c t m,
  cursor_seq db hs c t m + N.of_nat (length evs) <= u64max ->
  cursor_seq db hs c t m <= cursor_seq (run_appends db evs) hs c t m
  /\ cursor_seq (run_appends db evs) hs c t m <= cursor_seq db hs c t m + N.of_nat (length evs).
Proof. exact run_cursor_monotone. Qed.
Print Assumptions c40_seq_monotone_history.

(* a WriteBatch (and the slot command that wraps it) is the sequence of its appends *)
Theorem c40_batch_is_sequence : forall db evs, snd (batch_appends db evs) = run_appends db evs.
Proof. exact batch_appends_run. Qed.
Print Assumptions c40_batch_is_sequence.

(* every lane's sequence stays at or below its message's cursor (so the next applied
   event on the lane gets a strictly larger one) *)
Theorem c40_lane_seq_below_cursor : forall db hs e,
  lanes_below_cursor db ->
  (forall ne, normalizeMessageEventAppend e = Some ne ->
              cursor_seq db hs (e_channel ne) (e_ctype ne) (e_msgno ne) < u64max) ->
  lanes_below_cursor (snd (AppendMessageEvent db hs e)).
Proof. exact append_lanes_below. Qed.
Print Assumptions c40_lane_seq_below_cursor.

(* ------------------------------------------------------------------------------------------
   2. Terminal events finalize their lane once
   ------------------------------------------------------------------------------------------ *)

(* an applied event leaves the lane terminal exactly when it is close / error / cancel / finish *)
Theorem c40_terminal_iff_terminal_event : forall state ex cursor cex e,
  reduce_noop_cond state ex e = false ->
  exists st' cu' res,
    reduceMessageEventAppend state ex cursor cex e = (st', cu', true, res)
    /\ isMessageEventTerminal (st_status st') = isMessageEventTerminalEvent (e_etype e).
Proof. exact reduce_terminal_iff. Qed.
Print Assumptions c40_terminal_iff_terminal_event.

(* a terminal lane is never changed again, by any history of appends *)
Theorem c40_terminal_once : forall evs db hs c t m key s,
  get_state db hs c t m key = Some s -> isMessageEventTerminal (st_status s) = true ->
  get_state (run_appends db evs) hs c t m key = Some s.
Proof. exact run_preserves_terminal. Qed.
Print Assumptions c40_terminal_once.

(* an event addressed to a terminal lane is a no-op that returns the stored lane *)
Theorem c40_terminal_noop : forall db hs e ne s,
  normalizeMessageEventAppend e = Some ne ->
  get_applied db hs (e_channel ne) (e_ctype ne) (e_msgno ne) (e_id ne) = None ->
  get_state db hs (e_channel ne) (e_ctype ne) (e_msgno ne) (e_key ne) = Some s ->
  isMessageEventTerminal (st_status s) = true ->
  AppendMessageEvent db hs e = ((ENone, Some (messageEventAppendResult ne s)), db).
Proof. exact append_on_terminal. Qed.
Print Assumptions c40_terminal_noop.

(* ------------------------------------------------------------------------------------------
   3. A replayed event id is not applied twice
   ------------------------------------------------------------------------------------------ *)

(* any recorded id: nothing changes; the recorded lane, sequence and status come back *)
Theorem c40_replay_noop : forall db hs e ne a,
  normalizeMessageEventAppend e = Some ne ->
  get_applied db hs (e_channel ne) (e_ctype ne) (e_msgno ne) (e_id ne) = Some a ->
  exists r, AppendMessageEvent db hs e = ((ENone, Some r), db)
            /\ r_key r = ap_key a /\ r_seq r = ap_seq a /\ r_status r = ap_status a /\ r_id r = e_id ne.
Proof. exact append_replay. Qed.
Print Assumptions c40_replay_noop.

(* the same call again: same outcome (the whole result), no change *)
Theorem c40_replay_idempotent : forall db hs e out db',
  AppendMessageEvent db hs e = (out, db') -> AppendMessageEvent db' hs e = (out, db').
Proof. exact append_idempotent. Qed.
Print Assumptions c40_replay_idempotent.

(* applied-id rows are never overwritten or lost *)
Theorem c40_applied_rows_persist : forall evs db hs c t m id a,
  get_applied db hs c t m id = Some a -> get_applied (run_appends db evs) hs c t m id = Some a.
Proof. exact run_preserves_applied. Qed.
Print Assumptions c40_applied_rows_persist.

(* an applied event replayed after ANY further history changes nothing and returns
   its original lane, sequence and status *)
Theorem c40_replay_after_history : forall db hs e out db1 evs ne r,
  AppendMessageEvent db hs e = (out, db1) -> db1 <> db ->
  normalizeMessageEventAppend e = Some ne -> out = (ENone, Some r) ->
  let db2 := run_appends db1 evs in
  exists r', AppendMessageEvent db2 hs e = ((ENone, Some r'), db2)
             /\ r_key r' = r_key r /\ r_seq r' = r_seq r /\ r_status r' = r_status r.
Proof. exact replay_after_history. Qed.
Print Assumptions c40_replay_after_history.

(* ------------------------------------------------------------------------------------------
   4. The finish path is fail-closed
   ------------------------------------------------------------------------------------------ *)

(* delta / snapshot / open events only touch the cache *)
Theorem c40_cache_only_not_durable : forall st e fail ne,
  normalizeMessageEventAppend e = Some ne -> isMessageEventCacheOnlyEvent (e_etype ne) = true ->
  let '(out, st') := appendMessageEventLocal st e fail in
  ao_proposals out = [] /\ n_db st' = n_db st.
Proof. exact cache_only_not_durable. Qed.
Print Assumptions c40_cache_only_not_durable.

(* no open cached lane and no snapshot in the payload: ErrMessageEventStreamCacheMiss,
   nothing proposed, node state (cache and tables) unchanged *)
Theorem c40_finish_fail_closed : forall st e fail fin,
  normalizeMessageEventAppend e = Some fin ->
  bytes_eqb (e_etype fin) EventTypeStreamFinish = true ->
  slot_local (n_local st) (hash_slot_of st (e_channel fin) + 1) = true ->
  openStatesForFinish (n_cache st) fin = [] ->
  p_hassnap (e_payload fin) = false ->
  appendMessageEventLocal st e fail = (mkAppendOut ECacheMiss None [], st).
Proof. exact finish_cache_miss. Qed.
Print Assumptions c40_finish_fail_closed.

(* every way the leader loses its cache leaves no open lane *)
Theorem c40_cache_loss_leaves_no_open_lane : forall ca e,
  openStatesForFinish (resetAfterRestore ca) e = []
  /\ openStatesForFinish (pauseForRestore ca) e = []
  /\ openStatesForFinish (resumeAfterRestore ca) e = []
  /\ (forall hash_slot_of lost, existsb (N.eqb (hash_slot_of (e_channel e))) lost = true ->
        openStatesForFinish (removeHashSlotsObserved ca hash_slot_of lost) e = []).
Proof. exact cache_loss_leaves_no_open_lane. Qed.
Print Assumptions c40_cache_loss_leaves_no_open_lane.

(* otherwise exactly one proposal: one flush close per open cached lane (in lane
   order) followed by the finish *)
Theorem c40_finish_proposal : forall st e fail fin,
  normalizeMessageEventAppend e = Some fin ->
  bytes_eqb (e_etype fin) EventTypeStreamFinish = true ->
  slot_local (n_local st) (hash_slot_of st (e_channel fin) + 1) = true ->
  (nil_b (openStatesForFinish (n_cache st) fin) && negb (p_hassnap (e_payload fin))) = false ->
  exists rs, ao_proposals (fst (appendMessageEventLocal st e fail))
             = [with_results (map (finishFlushMessageEvent fin) (openStatesForFinish (n_cache st) fin) ++ [fin]) rs].
Proof. exact finish_proposal. Qed.
Print Assumptions c40_finish_proposal.

(* FULL STATEMENT (false of the code, see c40_finish_fail_closed_refuted):
     a successful finish makes every open cached lane durable with its cached snapshot.
   PARTIAL: under the explicit hypotheses
     - the finish payload is not a JSON object that the terminal decoder rejects,
     - the proposed events are their own normal forms, the open lanes have distinct keys,
     - the lane is not durable yet and its flush id is unused,
   the lane is durable and terminal afterwards and its snapshot is the cached one
   (or the one the finish payload carries). *)
Theorem c40_finish_persists_cached_partial : forall st fin out st' lane c0,
  let opens := openStatesForFinish (n_cache st) fin in
  let hs := hash_slot_of st (e_channel fin) in
  let events := map (finishFlushMessageEvent fin) opens ++ [fin] in
  appendMessageEventFinishLocal st fin false = (out, st') -> ao_err out = ENone ->
  (forall ev, In ev events -> normalizeMessageEventAppend ev = Some ev) ->
  NoDup (map st_key opens) ->
  views_coherent (e_payload fin) ->
  (p_obj (e_payload fin) = true -> merge_decodes (e_payload fin) = true) ->
  In lane opens ->
  is_empty (s_raw (st_snap lane)) = false -> tsnap_of_canon (s_canon (st_snap lane)) = Some c0 ->
  get_state (n_db st) hs (e_channel fin) (e_ctype fin) (e_msgno fin) (st_key lane) = None ->
  get_applied (n_db st) hs (e_channel fin) (e_ctype fin) (e_msgno fin) (finishFlushMessageEventID (e_id fin) (st_key lane)) = None ->
  exists s', get_state (n_db st') hs (e_channel fin) (e_ctype fin) (e_msgno fin) (st_key lane) = Some s'
             /\ isMessageEventTerminal (st_status s') = true
             /\ s_raw (st_snap s') = (if p_hassnap (e_payload fin) then p_tsnap_canon (e_payload fin) else s_canon (st_snap lane)).
Proof. exact finish_persists_cached. Qed.
Print Assumptions c40_finish_persists_cached_partial.

(* close / error / cancel: the proposed payload decodes to the cached snapshot (same hypotheses on the payload) *)
Theorem c40_terminal_merges_cache_partial : forall ca e session state c0,
  isMessageEventTerminalEvent (e_etype e) = true ->
  find_session ca (e_channel e) (e_ctype e) (e_msgno e) = Some session ->
  assoc (e_key e) (ss_states session) = Some state ->
  is_empty (st_key state) = false ->
  is_empty (s_raw (st_snap state)) = false -> tsnap_of_canon (s_canon (st_snap state)) = Some c0 ->
  views_coherent (e_payload e) ->
  (p_obj (e_payload e) = true -> merge_decodes (e_payload e) = true) ->
  exists raw, terminal_snapshot (e_payload (mergeTerminalPayload ca e)) = Some raw
              /\ s_raw raw = (if p_hassnap (e_payload e) then p_tsnap_canon (e_payload e) else s_canon (st_snap state)).
Proof. exact terminal_merges_cache. Qed.
Print Assumptions c40_terminal_merges_cache_partial.

(* ------------------------------------------------------------------------------------------
   5. The monitor evaluated on implementation traces is what the theorems are about
   ------------------------------------------------------------------------------------------ *)

(* every reducer call of the model satisfies the monitor *)
Theorem c40_model_satisfies_monitor_reduce : forall st ex cu (cex : bool) e,
  let '(st', cu', did, res) := reduceMessageEventAppend st ex cu cex e in
  C40_monitor (C40Reduce st ex cu cex e st' cu' did res) = 0.
Proof. exact reduce_model_satisfies_monitor. Qed.
Print Assumptions c40_model_satisfies_monitor_reduce.

(* every history of Shard / WriteBatch appends: the trace of the model satisfies the monitor *)
Theorem c40_model_satisfies_monitor : forall ops ks,
  C40_monitor (C40Meta (meta_trace ks db_empty ops)) = 0.
Proof. exact meta_model_satisfies_monitor_empty. Qed.
Print Assumptions c40_model_satisfies_monitor.

(* every node history: on the trace of the model the table part of the monitor (atomic
   proposals, results consistent with the abstract tables, dumps equal to them) never
   fires — the monitor's value is that of the finish / panic / cache-only clauses *)
Theorem c40_model_satisfies_monitor_node : forall ops ks max_sessions chan_hs hs_count,
  C40_monitor (C40Node max_sessions hs_count chan_hs (node_trace ks (node_init max_sessions chan_hs hs_count) ops))
  = node_clauses ks (node_init max_sessions chan_hs hs_count) [] ops.
Proof. exact node_model_satisfies_monitor. Qed.
Print Assumptions c40_model_satisfies_monitor_node.

(* ------------------------------------------------------------------------------------------
   6. Witnesses (each history is replayed on the implementation from corpus/C40/)
   ------------------------------------------------------------------------------------------ *)

Definition ks1 : list dump_key := [(1, hx "6731", 2%Z, hx "6d31")].
Definition chan1 : list (bytes * N) := [(hx "6731", 1)].
Definition run_w (ops : list NodeOp) : c40_case := C40Node 0 2 chan1 (node_trace ks1 (node_init 0 chan1 2) ops).

(* delta "ab"; finish {"end_reason":2}: flushed and completed *)
Definition w_ok : list NodeOp := [
   (NEv (mkEvent (hx "6731") (2)%Z (hx "6d31") (hx "6531") (hx "6d61696e") (hx "73747265616d2e64656c7461") (hx "7075626c6963") (10)%Z (mkPayload (hx "7b226b696e64223a2274657874222c2264656c7461223a226162227d") (Some (hx "6162")) (Some (hx "")) (hx "7b226b696e64223a2274657874222c2264656c7461223a226162227d") true None (hx "") 0 (hx "") true false) (11)%Z) false);
   (NEv (mkEvent (hx "6731") (2)%Z (hx "6d31") (hx "6631") (hx "6d61696e") (hx "73747265616d2e66696e697368") (hx "7075626c6963") (10)%Z (mkPayload (hx "7b22656e645f726561736f6e223a327d") None None (hx "7b22656e645f726561736f6e223a327d") true None (hx "") 2 (hx "") true false) (11)%Z) false)].
Example c40_example_finish_flushes : C40_monitor (run_w w_ok) = 0.
Proof. vm_compute. reflexivity. Qed.

(* delta "ab"; cache reset (restore / leader change); finish without snapshot: cache miss, nothing durable *)
Definition w_miss : list NodeOp := [(NEv (mkEvent (hx "6731") (2)%Z (hx "6d31") (hx "6531") (hx "6d61696e") (hx "73747265616d2e64656c7461") (hx "7075626c6963") (10)%Z (mkPayload (hx "7b226b696e64223a2274657874222c2264656c7461223a226162227d") (Some (hx "6162")) (Some (hx "")) (hx "7b226b696e64223a2274657874222c2264656c7461223a226162227d") true None (hx "") 0 (hx "") true false) (11)%Z) false);
   NReset;
   (NEv (mkEvent (hx "6731") (2)%Z (hx "6d31") (hx "6631") (hx "6d61696e") (hx "73747265616d2e66696e697368") (hx "7075626c6963") (10)%Z (mkPayload (hx "7b22656e645f726561736f6e223a327d") None None (hx "7b22656e645f726561736f6e223a327d") true None (hx "") 2 (hx "") true false) (11)%Z) false)].
Example c40_example_cache_miss :
  C40_monitor (run_w w_miss) = 0
  /\ map (fun x => no_err (snd x)) (node_trace ks1 (node_init 0 chan1 2) w_miss) = [ENone; ENone; ECacheMiss]
  /\ n_db (fold_left (fun st op => snd (node_step st op)) w_miss (node_init 0 chan1 2)) = db_empty.
Proof. vm_compute. repeat split; reflexivity. Qed.

(* non-vacuity of c40_finish_persists_cached_partial: its hypotheses hold in the
   state reached by w_ok's delta, for w_ok's finish and the cached lane "main" *)
Definition st_after_delta : NodeSt :=
  match w_ok with op :: _ => snd (node_step (node_init 0 chan1 2) op) | [] => node_init 0 chan1 2 end.
Definition fin_ok : Event :=
  match w_ok with
  | [_; NEv e _] => match normalizeMessageEventAppend e with Some ne => ne | None => e end
  | _ => mkEvent [] 0%Z [] [] [] [] [] 0%Z payload_empty 0%Z
  end.
Example c40_example_finish_persists_hypotheses :
  let st := st_after_delta in let fin := fin_ok in
  let lane := hd state_zero (openStatesForFinish (n_cache st) fin) in
  exists s', get_state (n_db (snd (appendMessageEventFinishLocal st fin false)))
                       (hash_slot_of st (e_channel fin)) (e_channel fin) (e_ctype fin) (e_msgno fin) (st_key lane) = Some s'
             /\ isMessageEventTerminal (st_status s') = true
             /\ s_raw (st_snap s') = marshal_text (hx "6162").
Proof.
  intros st fin lane.
  destruct (appendMessageEventFinishLocal st fin false) as [out st'] eqn:E. cbn [snd].
  assert (Hok : ao_err (fst (appendMessageEventFinishLocal st fin false)) = ENone) by (vm_compute; reflexivity).
  rewrite E in Hok. cbn [fst] in Hok.
  destruct (c40_finish_persists_cached_partial st fin out st' lane (s_canon (st_snap lane)) E Hok) as (s' & G & T & R).
  - intros ev Hin. vm_compute in Hin. destruct Hin as [<-|[<-|[]]]; vm_compute; reflexivity.
  - vm_compute. repeat constructor. intros [].
  - intro H. vm_compute in H. discriminate.
  - intro H. vm_compute. reflexivity.
  - vm_compute. left. reflexivity.
  - vm_compute. reflexivity.
  - vm_compute. reflexivity.
  - vm_compute. reflexivity.
  - vm_compute. reflexivity.
  - exists s'. split; [exact G|]. split; [exact T|]. rewrite R. vm_compute. reflexivity.
Qed.

(* KNOWN FINDING C40-K1 (monitor code 2).  delta "ab" acknowledged; finish with payload
   {"end_reason":300}: the merged flush payload does not decode (end_reason is a uint8),
   the lane is closed durably WITHOUT the cached snapshot and the completed marker is written *)
Definition w_k1 : list NodeOp := [(NEv (mkEvent (hx "6731") (2)%Z (hx "6d31") (hx "6531") (hx "6d61696e") (hx "73747265616d2e64656c7461") (hx "7075626c6963") (10)%Z (mkPayload (hx "7b226b696e64223a2274657874222c2264656c7461223a226162227d") (Some (hx "6162")) (Some (hx "")) (hx "7b226b696e64223a2274657874222c2264656c7461223a226162227d") true None (hx "") 0 (hx "") true false) (11)%Z) false);
   (NEv (mkEvent (hx "6731") (2)%Z (hx "6d31") (hx "6631") (hx "6d61696e") (hx "73747265616d2e66696e697368") (hx "7075626c6963") (10)%Z (mkPayload (hx "7b22656e645f726561736f6e223a3330307d") None None (hx "7b22656e645f726561736f6e223a3330307d") false None (hx "") 0 (hx "") true false) (11)%Z) false)].
Theorem c40_finish_fail_closed_refuted :
  exists ops, C40_monitor (run_w ops) = 2
              /\ map (fun x => no_err (snd x)) (node_trace ks1 (node_init 0 chan1 2) ops) = [ENone; ENone].
Proof. exists w_k1. vm_compute. split; reflexivity. Qed.
Print Assumptions c40_finish_fail_closed_refuted.

(* the same defect on a close: {"end_reason":"done"} closes the lane without the cached deltas *)
Definition w_k1_close : list NodeOp := [(NEv (mkEvent (hx "6731") (2)%Z (hx "6d31") (hx "6531") (hx "6d61696e") (hx "73747265616d2e64656c7461") (hx "7075626c6963") (10)%Z (mkPayload (hx "7b226b696e64223a2274657874222c2264656c7461223a226162227d") (Some (hx "6162")) (Some (hx "")) (hx "7b226b696e64223a2274657874222c2264656c7461223a226162227d") true None (hx "") 0 (hx "") true false) (11)%Z) false);
   (NEv (mkEvent (hx "6731") (2)%Z (hx "6d31") (hx "6331") (hx "6d61696e") (hx "73747265616d2e636c6f7365") (hx "7075626c6963") (10)%Z (mkPayload (hx "7b22656e645f726561736f6e223a22646f6e65227d") None None (hx "7b22656e645f726561736f6e223a22646f6e65227d") false None (hx "") 0 (hx "") true false) (11)%Z) false)].
Example c40_terminal_merges_cache_refuted :
  let st := fold_left (fun st op => snd (node_step st op)) w_k1_close (node_init 0 chan1 2) in
  option_map (fun s => (st_status s, s_raw (st_snap s))) (get_state (n_db st) 1 (hx "6731") 2%Z (hx "6d31") (hx "6d61696e"))
  = Some (EventStatusClosed, []).
Proof. vm_compute. reflexivity. Qed.

(* OBSERVATION (not covered by the property text): deltas acknowledged before a cache
   loss are not in the completed projection when later deltas re-open the lane:
   delta "ab"; reset; delta "c"; finish => completed with "c" only *)
Definition w_partial : list NodeOp := [(NEv (mkEvent (hx "6731") (2)%Z (hx "6d31") (hx "6531") (hx "6d61696e") (hx "73747265616d2e64656c7461") (hx "7075626c6963") (10)%Z (mkPayload (hx "7b226b696e64223a2274657874222c2264656c7461223a226162227d") (Some (hx "6162")) (Some (hx "")) (hx "7b226b696e64223a2274657874222c2264656c7461223a226162227d") true None (hx "") 0 (hx "") true false) (11)%Z) false);
   NReset;
   (NEv (mkEvent (hx "6731") (2)%Z (hx "6d31") (hx "6532") (hx "6d61696e") (hx "73747265616d2e64656c7461") (hx "7075626c6963") (10)%Z (mkPayload (hx "7b226b696e64223a2274657874222c2264656c7461223a2263227d") (Some (hx "63")) (Some (hx "")) (hx "7b226b696e64223a2274657874222c2264656c7461223a2263227d") true None (hx "") 0 (hx "") true false) (11)%Z) false);
   (NEv (mkEvent (hx "6731") (2)%Z (hx "6d31") (hx "6631") (hx "6d61696e") (hx "73747265616d2e66696e697368") (hx "7075626c6963") (10)%Z (mkPayload (hx "7b22656e645f726561736f6e223a327d") None None (hx "7b22656e645f726561736f6e223a327d") true None (hx "") 2 (hx "") true false) (11)%Z) false)].
Example c40_acked_deltas_survive_refuted :
  let st := fold_left (fun st op => snd (node_step st op)) w_partial (node_init 0 chan1 2) in
  C40_monitor (run_w w_partial) = 0
  /\ option_map (fun s => s_raw (st_snap s)) (get_state (n_db st) 1 (hx "6731") 2%Z (hx "6d31") (hx "6d61696e"))
     = Some (marshal_text (hx "63")).
Proof. vm_compute. split; reflexivity. Qed.

(* OBSERVATION: a finish that carries a snapshot passes the cache-miss check with an empty
   cache, but the reducer ignores a finish payload: the completed marker is written and
   the snapshot is stored nowhere *)
Definition w_snapshot_only : list NodeOp := [(NEv (mkEvent (hx "6731") (2)%Z (hx "6d31") (hx "6531") (hx "6d61696e") (hx "73747265616d2e64656c7461") (hx "7075626c6963") (10)%Z (mkPayload (hx "7b226b696e64223a2274657874222c2264656c7461223a226162227d") (Some (hx "6162")) (Some (hx "")) (hx "7b226b696e64223a2274657874222c2264656c7461223a226162227d") true None (hx "") 0 (hx "") true false) (11)%Z) false);
   NReset;
   (NEv (mkEvent (hx "6731") (2)%Z (hx "6d31") (hx "6631") (hx "6d61696e") (hx "73747265616d2e66696e697368") (hx "7075626c6963") (10)%Z (mkPayload (hx "7b22736e617073686f74223a7b226b696e64223a2274657874222c2274657874223a2266696e616c227d2c22656e645f726561736f6e223a327d") None None (hx "7b22736e617073686f74223a7b226b696e64223a2274657874222c2274657874223a2266696e616c227d2c22656e645f726561736f6e223a327d") true (Some (hx "7b226b696e64223a2274657874222c2274657874223a2266696e616c227d")) (hx "7b226b696e64223a2274657874222c2274657874223a2266696e616c227d") 2 (hx "") true true) (11)%Z) false)].
Example c40_finish_snapshot_only_drops_it :
  let st := fold_left (fun st op => snd (node_step st op)) w_snapshot_only (node_init 0 chan1 2) in
  C40_monitor (run_w w_snapshot_only) = 0
  /\ map (fun x => (st_key (snd x), s_raw (st_snap (snd x)))) (db_states (n_db st)) = [(EventKeyFinish, [])].
Proof. vm_compute. split; reflexivity. Qed.

(* FIXED (a05aa1e4b; was finding C40-K2): a terminal event whose payload is the JSON literal
   null, on a lane with cached deltas, used to panic in mergeMessageEventTerminalPayload
   (assignment to entry in nil map).  It now merges like the empty object: the close succeeds
   and the lane is closed durably WITH the cached snapshot. *)
Definition w_k2 : list NodeOp := [(NEv (mkEvent (hx "6731") (2)%Z (hx "6d31") (hx "6531") (hx "6d61696e") (hx "73747265616d2e64656c7461") (hx "7075626c6963") (10)%Z (mkPayload (hx "7b226b696e64223a2274657874222c2264656c7461223a226162227d") (Some (hx "6162")) (Some (hx "")) (hx "7b226b696e64223a2274657874222c2264656c7461223a226162227d") true None (hx "") 0 (hx "") true false) (11)%Z) false);
   (NEv (mkEvent (hx "6731") (2)%Z (hx "6d31") (hx "6331") (hx "6d61696e") (hx "73747265616d2e636c6f7365") (hx "7075626c6963") (10)%Z (mkPayload (hx "6e756c6c") None None (hx "6e756c6c") true None (hx "") 0 (hx "") true false) (11)%Z) false)].
Theorem c40_terminal_null_payload_merges :
  let st := fold_left (fun st op => snd (node_step st op)) w_k2 (node_init 0 chan1 2) in
  C40_monitor (run_w w_k2) = 0
  /\ map (fun x => no_err (snd x)) (node_trace ks1 (node_init 0 chan1 2) w_k2) = [ENone; ENone]
  /\ option_map (fun s => (st_status s, s_raw (st_snap s))) (get_state (n_db st) 1 (hx "6731") 2%Z (hx "6d31") (hx "6d61696e"))
     = Some (EventStatusClosed, marshal_text (hx "6162")).
Proof. vm_compute. repeat split; reflexivity. Qed.
Print Assumptions c40_terminal_null_payload_merges.

(* non-vacuity of the replay theorems: an applied close replayed returns the same result *)
Example c40_example_replay :
  let e := match w_k1_close with [_; NEv e _] => e | _ => match w_ok with NEv e _ :: _ => e | _ => mkEvent [] 0%Z [] [] [] [] [] 0%Z payload_empty 0%Z end end in
  let '(o1, db1) := AppendMessageEvent db_empty 0 e in
  let '(o2, db2) := AppendMessageEvent db1 0 e in
  outcome_eqb o1 o2 = true /\ fst o1 = ENone /\ cursor_seq db2 0 (hx "6731") 2%Z (hx "6d31") = 1.
Proof. vm_compute. repeat split; reflexivity. Qed.
