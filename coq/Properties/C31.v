(* C31 — Online delivery preserves per-channel order and recipient coverage.

   Models (coq/Model/Delivery*.v) of internal/runtime/delivery:
     pq / pq_enqueue / pq_pop      orderedPlanQueue (node array, free list, per-shard head/tail)
     shardIndex / plan_shard       orderedPlanQueue.shardIndex (FNV-1a of channel type and id)
     processPlan, run_owners, run_batches, pushWithRetry, do_attempt, pushOwnerLocal (local_loop)
                                   Runtime.processPlan .. pushOwnerLocal, the ports as oracles
     sys / sys_step                producers, admission close, one worker per shard, port calls
                                   interleaved arbitrarily (Runtime.runWorker)
   The definitions the statements use (QInv, abs, chain_exact, first_of, walk, offline_spec,
   expected_routes, LogOk ...) live in Model/Delivery_C31.v and Proof/Delivery_*.v. *)
From WK Require Import Base.Base Gen.Consts_C31 Model.Delivery Model.Delivery_C31 Model.Delivery_sys.
From WK Require Import Proof.Delivery_queue Proof.Delivery_queue_pop Proof.Delivery_hist Proof.Delivery_sys
     Proof.Delivery_local Proof.Delivery_retry Proof.Delivery_cover Proof.Delivery_monitor
     Proof.Delivery_accept Proof.Delivery_link Proof.Delivery_props Proof.Delivery_top.
From Coq Require Import Permutation.
Open Scope N_scope.

(* ---- 1. the queue ------------------------------------------------------------ *)

(* For EVERY history of enqueue / pop calls the array + free-list structure answers
   exactly like a vector of per-shard FIFO lists holding at most [cap] plans; the
   representation invariant QInv (free chain and shard chains partition the node
   indices without repetition, tails are the last nodes, depth = queued plans) holds
   afterwards and [abs] reads the lists off the chains. *)
Theorem c31_queue_refines_fifo : forall (cap shards : nat) (cs : list qcall),
  (0 < cap)%nat -> (0 < shards)%nat ->
  let '(q, rets) := pq_run (newq_nat cap shards) cs in
  let '(a, arets) := aq_run cap (repeat [] shards) cs in
  rets = arets
  /\ exists fl sl, QInv q fl sl /\ abs q sl = a /\ (aq_total a <= cap)%nat /\ pq_cap q = cap.
Proof. exact queue_refines_fifo. Qed.
Print Assumptions c31_queue_refines_fifo.

(* single steps of the simulation *)
Theorem c31_enqueue_refines : forall q fl sl closed p q' r,
  QInv q fl sl -> pq_enqueue q closed p = (q', r) ->
  exists fl' sl', QInv q' fl' sl'
    /\ aq_enqueue (pq_cap q) (abs q sl) closed p = (abs q' sl', r)
    /\ pq_cap q' = pq_cap q /\ length sl' = length sl.
Proof. exact enqueue_refines. Qed.
Print Assumptions c31_enqueue_refines.

Theorem c31_pop_refines : forall q fl sl s q' g,
  QInv q fl sl -> pq_pop q s = (q', g) ->
  exists fl' sl', QInv q' fl' sl'
    /\ aq_pop (abs q sl) s = (abs q' sl', g)
    /\ pq_cap q' = pq_cap q /\ length sl' = length sl.
Proof. exact pop_refines. Qed.
Print Assumptions c31_pop_refines.

(* per shard the plans come out in the order they went in: what was dequeued from
   shard s is a prefix of what was accepted into shard s, the rest is still queued *)
Theorem c31_queue_fifo : forall (cap shards : nat) (cs : list qcall) (s : nat),
  (0 < cap)%nat -> (0 < shards)%nat -> (s < shards)%nat ->
  let '(_, rets) := pq_run (newq_nat cap shards) cs in
  exists queued, enq_of shards s cs rets = pop_of s cs rets ++ queued.
Proof. exact queue_fifo. Qed.
Print Assumptions c31_queue_fifo.

(* all plans of one channel go to one shard *)
Theorem c31_shard_function : forall n p p',
  e_chtype (p_event p) = e_chtype (p_event p') -> e_chid (p_event p) = e_chid (p_event p') ->
  plan_shard n p = plan_shard n p'.
Proof. exact shard_function. Qed.
Print Assumptions c31_shard_function.

(* the FNV-1a model reproduces the vectors computed by the compiled shardIndex *)
Example c31_shard_vectors_ok :
  forallb (fun r : N * N * bytes * N => let '(sh, ty, id, idx) := r in shardIndex sh ty id =? idx)
          c31_shard_vectors = true.
Proof. vm_compute. reflexivity. Qed.

(* ---- 2. per-channel FIFO under every interleaving ------------------------------ *)

(* sys_run executes an ARBITRARY interleaving of enqueues, admission close, dequeues by
   the one worker of each shard, and single port calls (with arbitrary call lists per
   plan).  Two port calls of one shard are ordered like the acceptance stamps of their
   plans: no later plan overtakes an earlier one, and their calls never interleave. *)
Theorem c31_channel_fifo : forall (X : Type) (cap shards : nat),
  (0 < cap)%nat -> (0 < shards)%nat ->
  forall (evs : list (sev X)) (e1 e2 : N * nat * plan * X * N),
  let st := sys_run X cap shards evs in
  In e1 (s_log X st) -> In e2 (s_log X st) ->
  le_shard X e1 = le_shard X e2 -> le_stamp X e1 < le_stamp X e2 ->
  le_time X e1 < le_time X e2.
Proof. exact sys_fifo. Qed.
Print Assumptions c31_channel_fifo.

(* every port call belongs to an accepted plan, is made after its acceptance, by the
   worker of the shard its channel hashes to *)
Theorem c31_calls_accepted : forall (X : Type) (cap shards : nat),
  (0 < cap)%nat -> (0 < shards)%nat ->
  forall (evs : list (sev X)) (e : N * nat * plan * X * N),
  let st := sys_run X cap shards evs in
  In e (s_log X st) ->
  In (le_stamp X e, le_shard X e, le_plan X e) (s_acc X st)
  /\ le_stamp X e < le_time X e
  /\ le_shard X e = plan_shard shards (le_plan X e).
Proof. exact sys_calls_accepted. Qed.
Print Assumptions c31_calls_accepted.

(* ---- 3. owner-local push ------------------------------------------------------- *)

(* Accepted, Retryable and Dropped partition the pushed routes (as multisets), for
   every behaviour of the session writer, the ACK tracker and the context *)
Theorem c31_local_result_partition : forall c ev owner rs orc cx,
  let '(err, r) := pushOwnerLocal c ev owner rs orc cx in
  err = 0 -> Permutation (l_acc r ++ l_retry r ++ l_drop r) rs.
Proof. exact local_result_partition. Qed.
Print Assumptions c31_local_result_partition.

(* a session is only ever written for an exact route of this push that names this owner *)
Theorem c31_local_writes_exact : forall c ev owner rs orc cx w,
  In w (l_writes (snd (pushOwnerLocal c ev owner rs orc cx))) ->
  In (w_route w) rs /\ route_valid (e_msgid ev) owner (w_route w) = true.
Proof. exact local_writes_exact. Qed.
Print Assumptions c31_local_writes_exact.

(* ---- 4. retries ---------------------------------------------------------------- *)

(* chain_exact rs l: the first attempt pushes rs, every further attempt pushes exactly
   the Retryable set of the previous one (the same routes after an error / panic);
   at most n attempts *)
Theorem c31_retry_exact : forall c ev o n rs orc cx l st orc' cx',
  pushWithRetry c ev o n rs orc cx = (l, st, orc', cx') ->
  chain_exact rs l /\ (length l <= n)%nat.
Proof. exact retry_exact. Qed.
Print Assumptions c31_retry_exact.

(* if the remote owner port honours its contract (Retryable is drawn from R) and the
   tracker grants reservations, no attempt pushes or writes a route outside R *)
Theorem c31_retry_within : forall c ev o R, o <> 0 ->
  forall n rs orc cx l st orc' cx',
  pushWithRetry c ev o n rs orc cx = (l, st, orc', cx') ->
  orc_ok orc -> remote_contract R orc -> incl rs R ->
  Forall (fun a => incl (att_routes a) R /\ a_owner a = o) l.
Proof. exact retry_within. Qed.
Print Assumptions c31_retry_within.

(* ---- 5. coverage --------------------------------------------------------------- *)

(* one group per owner; the group of owner o is exactly the list of non-suppressed
   routes (owner != 0, not the sender's own session) of the resolved targets that o
   owns, in order and with multiplicity; batching loses and repeats nothing *)
Theorem c31_coverage_batches : forall c p ans,
  let g := rs_groups (resolve_plan c p ans) in
  let expected := expected_routes (p_event p) (resolved_pairs (p_targets p) ans) in
  NoDup (g_keys g)
  /\ (forall o, g_get o g = filter (fun r => r_owner r =? o) expected)
  /\ (forall o, concat (chunks (c_batch c) (g_get o g)) = g_get o g)
  /\ (forall o b, In b (chunks (c_batch c) (g_get o g)) -> b <> [] /\ (length b <= c_batch c)%nat).
Proof. exact coverage_batches. Qed.
Print Assumptions c31_coverage_batches.

(* when the plan's context never ends: for every owner the monitor's walk accepts the
   attempts (every retry pushes exactly the previous retry set) and the first attempt
   of the i-th batch hands over the i-th batch: push.Routes for a remote owner, one
   write per valid route for the local owner *)
Theorem c31_coverage_pushed : forall c p ans orc res cx,
  c_has_presence c = true -> (forall o, orc_ok (orc o)) ->
  processPlan c p ans false orc false = (res, cx) -> cx = false ->
  forall o, exists firsts,
    walk (c_retry c) 0 None (by_owner o (po_atts res)) = (true, firsts)
    /\ Forall2 (first_of c (p_event p) o)
         (chunks (c_batch c)
            (filter (fun r => r_owner r =? o)
                    (expected_routes (p_event p) (resolved_pairs (p_targets p) ans)))) firsts.
Proof. exact coverage_pushed. Qed.
Print Assumptions c31_coverage_pushed.

(* the offline report lists, without repetition, exactly the recipients of a resolved
   target that have no route in that target's presence answer *)
Theorem c31_offline_once : forall p ans,
  let off := offline_of (resolved_pairs (p_targets p) ans) [] in
  nodup_bytes off = true
  /\ (forall u, In u off <-> offline_spec (resolved_pairs (p_targets p) ans) u = true).
Proof. exact offline_once. Qed.
Print Assumptions c31_offline_once.

(* never both: a recipient listed under one target only, with presence answers scoped
   to their targets, is not pushed when it is reported offline *)
Theorem c31_offline_never_pushed : forall p ans u,
  offline_spec (resolved_pairs (p_targets p) ans) u = true ->
  (forall tr tr', In tr (resolved_pairs (p_targets p) ans) -> In tr' (resolved_pairs (p_targets p) ans) ->
      In u (t_recips (fst tr)) -> In u (t_recips (fst tr')) -> tr = tr') ->
  (forall tr, In tr (resolved_pairs (p_targets p) ans) ->
      has_route_for u (snd tr) = true -> In u (t_recips (fst tr))) ->
  forall r, In r (expected_routes (p_event p) (resolved_pairs (p_targets p) ans)) -> r_uid r <> u.
Proof. exact offline_never_pushed. Qed.
Print Assumptions c31_offline_never_pushed.

(* ---- 6. the monitor is the property the theorems are about ------------------------ *)

(* plan_contract: the tracker grants reservations (no per-session limit) and a remote
   owner reports as Retryable only routes of this plan addressed to it *)
Theorem c31_plan_model_satisfies_monitor : forall c p ans panic cx0 orc,
  plan_contract p ans orc ->
  plan_monitor c p ans panic cx0 (fst (processPlan c p ans panic orc cx0)) = true.
Proof. exact plan_model_accepted. Qed.
Print Assumptions c31_plan_model_satisfies_monitor.

Theorem c31_model_satisfies_monitor_plan : forall c steps,
  (forall st, In st steps -> exists orc,
      plan_contract (pl_plan st) (pl_ans st) orc
      /\ pl_obs st = fst (processPlan c (pl_plan st) (pl_ans st) (pl_panic st) orc (pl_cx0 st))) ->
  C31_monitor (CPlan c steps) = 0.
Proof. exact monitor_plan. Qed.
Print Assumptions c31_model_satisfies_monitor_plan.

Theorem c31_model_satisfies_monitor_push : forall c steps,
  (forall st, In st steps -> ps_obs st = push_model c st) ->
  C31_monitor (CPush c steps) = 0.
Proof. exact monitor_push. Qed.
Print Assumptions c31_model_satisfies_monitor_push.

Theorem c31_model_satisfies_monitor_queue : forall cap shards ops,
  C31_monitor (CQueue cap shards (q_model_steps (newOrderedPlanQueue cap shards) ops)) = 0.
Proof. exact monitor_queue. Qed.
Print Assumptions c31_model_satisfies_monitor_queue.

Theorem c31_model_satisfies_monitor_shard : forall keys,
  (forall sh ty id, In (sh, ty, id) keys -> 0 < sh) ->
  C31_monitor (CShard (map shard_row_of keys)) = 0.
Proof. exact monitor_shard. Qed.
Print Assumptions c31_model_satisfies_monitor_shard.

(* the ordering clause of the concurrent monitor (times_pair_ok: plans of one channel
   enqueued one after the other have all their port calls one after the other) holds
   on the ticket data of every run of the system *)
Theorem c31_model_satisfies_monitor_order : forall (X : Type) (cap shards : nat),
  (0 < cap)%nat -> (0 < shards)%nat ->
  forall evs : list (sev X),
  all_pairs times_pair_ok (sys_times X (sys_run X cap shards evs)) = true.
Proof. exact sys_times_ok. Qed.
Print Assumptions c31_model_satisfies_monitor_order.

(* ---- 7. non-vacuity ---------------------------------------------------------------- *)

Definition ex_r (u : N) (o s : N) : route := Route [u] o 1 (1000 + s) s [] 0 0.
Definition ex_ev : event := Event 7 3 [103; 49] 2 [97] 1 9.
Definition ex_cfg : cfg := Cfg 1 2%Z 3%Z 1%Z 0%Z true true true true.
(* two targets; recipient b has no route (offline); a's own sending session (owner 1,
   session 9) is suppressed; owner 2 is remote, owner 1 local; batch size 2 *)
Definition ex_plan : plan :=
  Plan 1 ex_ev [Target 1 [[97]; [98]]; Target 1 [[99]; [100]]].
Definition ex_ans : list answer :=
  [AOk [ex_r 97 1 9; ex_r 97 1 2; ex_r 97 2 3];
   AOk [ex_r 99 2 1; ex_r 100 2 2; ex_r 100 1 4]].
(* local owner: first write retryable, then accepted on the retry; remote owner: first
   batch reports one route retryable, the transport fails once on the retry *)
Definition ex_orc (o : N) : list oout :=
  if o =? 1 then [OLocal [LWrite 2 false; LWrite 1 false]; OLocal [LWrite 1 false]]
  else if o =? 2 then
    [ORemote [ex_r 97 2 3] [ex_r 99 2 1] [] 0; ORemote [] [] [] 1; ORemote [ex_r 99 2 1] [] [] 0;
     ORemote [ex_r 100 2 2] [] [] 0]
  else [].

Example c31_example_plan :
  let r := fst (processPlan ex_cfg ex_plan ex_ans false ex_orc false) in
  po_offline r = [[[98]]]
  /\ map (fun a => (a_owner a, map r_sess (att_routes a))) (po_atts r)
     = [(1, [2; 4]); (1, [2]); (2, [3; 1]); (2, [1]); (2, [1]); (2, [2])]
  /\ po_class r = 0
  /\ plan_monitor ex_cfg ex_plan ex_ans false false r = true.
Proof. vm_compute. repeat split; reflexivity. Qed.

Example c31_example_contract : plan_contract ex_plan ex_ans ex_orc.
Proof.
  split.
  - intros o l Hl. unfold ex_orc in Hl.
    destruct (o =? 1); [|destruct (o =? 2)]; simpl in Hl.
    + destruct Hl as [E|[E|F]]; [inversion E; subst| inversion E; subst| destruct F];
        unfold no_reject; simpl; intuition discriminate.
    + intuition discriminate.
    + destruct Hl.
  - intros o acc retry drop err Hin r Hr. unfold ex_orc in Hin.
    destruct (o =? 1); [|destruct (o =? 2) eqn:E2]; simpl in Hin.
    + intuition discriminate.
    + apply N.eqb_eq in E2. subst o.
      destruct Hin as [E|[E|[E|[E|F]]]]; [inversion E; subst| inversion E; subst| inversion E; subst| inversion E; subst| destruct F];
        simpl in Hr; try (destruct Hr; fail).
      destruct Hr as [<-|F]; [|destruct F].
      split; [apply mem_route_in; vm_compute; reflexivity| reflexivity].
    + destruct Hin.
Qed.

(* the queue: capacity 2, two shards; the third enqueue parks, nodes are recycled *)
Definition ex_p (m : N) (ch : N) : plan := Plan 1 (Event m m [ch] 1 [] 0 0) [].
Example c31_example_queue :
  let cs := [CEnq false (ex_p 1 65); CEnq false (ex_p 2 65); CEnq false (ex_p 3 66);
             CPop (plan_shard 2 (ex_p 1 65)); CEnq false (ex_p 3 66); CEnq true (ex_p 4 65);
             CPop (plan_shard 2 (ex_p 1 65)); CPop (plan_shard 2 (ex_p 1 65))] in
  snd (pq_run (newq_nat 2 2) cs)
  = [REnq EnqOk; REnq EnqOk; REnq EnqFull; RPop (Some (ex_p 1 65)); REnq EnqOk; REnq EnqClosed;
     RPop (Some (ex_p 2 65)); RPop (if (plan_shard 2 (ex_p 3 66) =? plan_shard 2 (ex_p 1 65))%nat
                                    then Some (ex_p 3 66) else None)].
Proof. vm_compute. reflexivity. Qed.

(* the system: two plans of one channel, two workers; the second plan's calls come after the first's *)
Example c31_example_sys :
  let s := plan_shard 2 (ex_p 1 65) in
  let st := sys_run nat 4 2 [SEnq nat (ex_p 1 65); SEnq nat (ex_p 2 65); SPop nat s [10; 11]%nat;
                             SPop nat s [20]%nat; SCall nat s; SCall nat s; SCall nat s;
                             SPop nat s [20]%nat; SCall nat s] in
  map (fun e => (le_stamp nat e, le_time nat e)) (s_log nat st) = [(2, 9); (1, 6); (1, 5)].
Proof. vm_compute. reflexivity. Qed.
