(* C28 — placeholder while the proofs are being built *)
From WK Require Import Base.Base Model.GatewaySend.
Open Scope N_scope.
