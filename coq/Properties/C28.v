(* C28 — Every SEND gets exactly one SENDACK, in order.

   Model (Model/GatewaySend.v): pkg/gateway/core sendExecutor as a transition
   system over the code's own lock-protected / atomic steps — admission gate
   (admissionMu + WaitGroup), depth reservations, ShardedMailbox enqueue, one
   drain worker per shard (collectBatch, handleMailboxBatch, the pure splitter
   of dispatchMailboxBatch, the SendBatchHandler writing one SENDACK per item
   or failing, handleHandlerError, completeAdmission), DrainSends / stop
   callers with deadlines, the drain waiter, the mailbox closer, session close
   and concurrent outbound writers.  [run c evs] executes an ARBITRARY
   interleaving [evs] of any number of sessions, shards and drain callers; the
   state carries the observable history stamped by a logical clock.

   Vocabulary (definitions in Model/GatewaySend.v and Proof/GatewaySend*.v):
     accq h s   ClientSeqs of the SENDs of session s that were accepted, in order
     ackq w s   ClientSeqs of the SENDACKs written to session s's transport, in order
     finq d s   ClientSeqs of s's SENDs the handler is finished with
     cfg_ok c   := 0 < c_shards c
     nopanic e  := e is not a handler panic (EWork _ CPanic)
     quiescent  := every submitter and every drain worker is idle. *)
From Coq Require Import Sorting.Sorted.
From WK Require Import Base.Base Model.GatewaySend Proof.GatewaySend_lib Proof.GatewaySend_split
  Proof.GatewaySend_acct Proof.GatewaySend_order Proof.GatewaySend_ack Proof.GatewaySend_log Proof.GatewaySend
  Gen.Consts_C28.
Open Scope N_scope.

(* ---- the pure splitter (dispatchMailboxBatch) -------------------------------------------- *)

Theorem c28_split_partition : forall (A : Type) (size : A -> N) (maxrec : nat) (maxbytes : N) (items : list A),
  concat (split size maxrec maxbytes items) = items
  /\ Forall (fun b => b <> []
                      /\ (length b <= eff_maxrec maxrec)%nat
                      /\ (0 < maxbytes -> sumN (map size b) <= maxbytes \/ length b = 1%nat))
            (split size maxrec maxbytes items).
Proof. exact @split_partition. Qed.
Print Assumptions c28_split_partition.

(* ---- exactly one SENDACK ------------------------------------------------------------------ *)

(* never two SENDACKs for one SEND: unconditional (any handler behaviour, any configuration) *)
Theorem c28_at_most_one_ack : forall c evs s,
  cfg_ok c -> NoDup (ackq (wire (run c evs)) s).
Proof. exact acks_nodup. Qed.
Print Assumptions c28_at_most_one_ack.

(* SENDACK order = SEND order, without gaps: the acknowledged SENDs of a session are
   a PREFIX of its accepted SENDs (CloseOnHandlerError, the handler does not panic) *)
Theorem c28_ack_order : forall c evs s,
  cfg_ok c -> c_closeonerr c = true -> Forall nopanic evs ->
  exists r, accq (sends (run c evs)) s = ackq (wire (run c evs)) s ++ r.
Proof. exact acks_prefix. Qed.
Print Assumptions c28_ack_order.

(* in every configuration and for every handler behaviour the order is preserved *)
Theorem c28_ack_order_any : forall c evs s,
  cfg_ok c -> subseqb (ackq (wire (run c evs)) s) (accq (sends (run c evs)) s) = true.
Proof. exact acks_subseq. Qed.
Print Assumptions c28_ack_order_any.

(* exactly one: once the pipeline is quiescent every accepted SEND of a session that
   is still open has its SENDACK on the wire *)
Theorem c28_one_ack : forall c evs s,
  cfg_ok c -> c_closeonerr c = true -> Forall nopanic evs ->
  quiescent (run c evs) -> sclosed (run c evs) s = false ->
  ackq (wire (run c evs)) s = accq (sends (run c evs)) s.
Proof. exact acks_complete. Qed.
Print Assumptions c28_one_ack.

(* ---- outbound frames are written in issue order ---------------------------------------------- *)

(* the transport order of every session is the order in which the writers held the
   session's write lock (stamps strictly increase along the wire), every successful
   WriteFrame call put exactly one frame on the wire during the call, failed calls none *)
Theorem c28_outbound_fifo : forall c evs,
  StronglySorted N.lt (map hw_t (wire (run c evs)))
  /\ (forall i, In i (issues (run c evs)) ->
        length (filter (issue_matches i) (wire (run c evs))) = if hi_ok i then 1%nat else 0%nat)
  /\ (forall e, In e (wire (run c evs)) ->
        hw_w e = 0 \/ exists i, In i (issues (run c evs)) /\ hi_ok i = true /\ issue_matches i e = true).
Proof. exact outbound_fifo. Qed.
Print Assumptions c28_outbound_fifo.

(* ---- the drain fence ---------------------------------------------------------------------------- *)

(* after the drain step closed admission no SEND passes the gate any more: the
   admission WaitGroup never grows again and admission stays closed *)
Theorem c28_drain_fence : forall c evs more,
  closed (run c evs) = true ->
  closed (run c (evs ++ more)) = true /\ admitted (run c (evs ++ more)) <= admitted (run c evs).
Proof. exact no_admission_after_stop. Qed.
Print Assumptions c28_drain_fence.

(* real-time form (what a caller can observe): a SEND accepted by the gateway was
   handed over no later than the return of every DrainSends call *)
Theorem c28_drain_fence_realtime : forall c evs x d,
  cfg_ok c -> In x (sends (run c evs)) -> hs_acc x = true -> In d (drains (run c evs)) ->
  hs_t0 x <= hr_t1 d.
Proof. exact fence_realtime. Qed.
Print Assumptions c28_drain_fence_realtime.

(* SENDs admitted earlier still complete: when a DrainSends call returns nil every
   accepted SEND has been handled strictly before that return *)
Theorem c28_drain_completes : forall c evs d x,
  cfg_ok c -> In d (drains (run c evs)) -> hr_ok d = true -> In x (sends (run c evs)) -> hs_acc x = true ->
  exists e, In e (disps (run c evs)) /\ hd_s e = hs_s x /\ hd_q e = hs_q x /\ hd_t e < hr_t1 d.
Proof. exact drain_completes. Qed.
Print Assumptions c28_drain_completes.

(* the liveness clause as quiescent-state safety: in every state without a pending
   pipeline step nothing is admitted and every accepted SEND has been handled *)
Theorem c28_quiescent_complete : forall c evs x,
  cfg_ok c -> quiescent (run c evs) -> In x (sends (run c evs)) -> hs_acc x = true ->
  admitted (run c evs) = 0 /\
  exists e, In e (disps (run c evs)) /\ hd_s e = hs_s x /\ hd_q e = hs_q x.
Proof. exact quiescent_all_handled. Qed.
Print Assumptions c28_quiescent_complete.

(* only accepted SENDs are dispatched, none twice *)
Theorem c28_dispatch_once : forall c evs,
  cfg_ok c -> ok_dispatch (hist_of (run c evs)) = true.
Proof. exact ok_dispatch_model. Qed.
Print Assumptions c28_dispatch_once.

(* the accounting behind the fence: the WaitGroup counts exactly the SENDs between
   the gate and their completeAdmission, and the mailbox is closed only after it
   reached zero (so the mailbox never refuses an admitted SEND as closed) *)
Theorem c28_mailbox_closed_after_drain : forall c evs,
  cfg_ok c -> mclosed (run c evs) = true -> drained (run c evs) = true /\ admitted (run c evs) = 0.
Proof. exact mailbox_closed_after_drain. Qed.
Print Assumptions c28_mailbox_closed_after_drain.

(* ---- the monitor is the property: every history the model can produce passes it --------------- *)

Theorem c28_model_satisfies_monitor : forall c evs final,
  cfg_ok c -> (c_closeonerr c = true -> Forall nopanic evs) -> (final = true -> quiescent (run c evs)) ->
  monitor (c_closeonerr c) (c_nsess c) final true (hist_of (run c evs)) = 0.
Proof. exact model_satisfies_monitor. Qed.
Print Assumptions c28_model_satisfies_monitor.

(* the monitor's last argument (the DrainSends call issued in the quiescent final state
   returned nil) is what the model does *)
Theorem c28_drain_returns_when_quiescent : forall c evs d,
  cfg_ok c -> quiescent (run c evs) -> dpcs (run c evs) d = DIdle ->
  let st := run c (evs ++ [EDrainCall d false; EDrain d false; EDrain d false; EWaiter; EDrain d false]) in
  exists t0 t1, In (HDrain t0 t1 true) (drains st) /\ dpcs st d = DIdle.
Proof. exact drain_returns_when_quiescent. Qed.
Print Assumptions c28_drain_returns_when_quiescent.

(* the configuration the server composition uses (constants regenerated from the code) *)
Theorem c28_default_config :
  default_close_on_handler_error = true
  /\ logical_shard_count async_send_ordering_shards_per_worker default_async_send_workers
       default_async_send_queue_capacity = default_shards
  /\ shard_capacity default_async_send_queue_capacity default_shards = default_shard_capacity
  /\ (default_async_send_queue_capacity <=? default_shards * default_shard_capacity) = true
  /\ (0 <? default_async_send_batch_max_records) = true /\ (0 <? default_async_send_batch_max_bytes) = true.
Proof. exact default_config. Qed.
Print Assumptions c28_default_config.

(* ---- non-vacuity ----------------------------------------------------------------------------------- *)

Definition ex_sub4 (s : nat) := [ESub s; ESub s; ESub s; ESub s].

(* two sessions on one shard; sub-batches split by bytes; an outbound push; a drain
   that returns nil; a SEND after the drain is rejected and closes its session *)
Example c28_example_run :
  let c := Cfg 3 1 4 4 2 10 true true in
  let evs := [ESend 1 3] ++ ex_sub4 1%nat ++ [ESend 2 20] ++ ex_sub4 2%nat ++ [ESend 1 4] ++ ex_sub4 1%nat
             ++ [EPush 1 7 70] ++ repeat (EWork 0 CStop) 40
             ++ [EDrainCall 0 false; EDrain 0 false; EDrain 0 false; EWaiter; EDrain 0 false; ESend 2 1]
             ++ ex_sub4 2%nat in
  let st := run c evs in
  map (fun x => (hs_s x, hs_q x, hs_acc x)) (sends st)
    = [(1%nat, 0, true); (2%nat, 0, true); (1%nat, 1, true); (2%nat, 1, false)]
  /\ map (fun x => (hw_s x, hw_w x, hw_tag x)) (wire st)
    = [(1%nat, 7, 70); (1%nat, 0, 0); (2%nat, 0, 0); (1%nat, 0, 1)]
  /\ map hr_ok (drains st) = [true] /\ sclosed st 2%nat = true /\ admitted st = 0
  /\ monitor true 3 true true (hist_of st) = 0.
Proof. vm_compute. repeat split; reflexivity. Qed.

(* the two hypotheses of c28_one_ack are needed (faithful model of the code):
   (a) without CloseOnHandlerError a failed SENDACK write to a closed peer aborts the
       whole sub-batch: the SEND of the OTHER, still open session 2 is never acknowledged *)
Example c28_closeonerr_needed :
  let c := Cfg 3 1 4 4 4 100 false true in
  let evs := [ESend 1 3] ++ ex_sub4 1%nat ++ [ESend 2 5] ++ ex_sub4 2%nat ++ [EClose 1]
             ++ [EWork 0 CGo; EWork 0 CGo; EWork 0 CGo; EWork 0 CStop; EWork 0 CGo; EWork 0 CGo; EWork 0 CFail]
             ++ repeat (EWork 0 CStop) 20 in
  let st := run c evs in
  Forall nopanic evs /\ accq (sends st) 2%nat = [0] /\ ackq (wire st) 2%nat = [] /\ sclosed st 2%nat = false
  /\ wpcs st 0%nat = WIdle /\ spcs st 2%nat = SIdle /\ admitted st = 0
  /\ monitor true 3 true true (hist_of st) = 1.
Proof. vm_compute. repeat split; try reflexivity. repeat constructor. Qed.

(* (b) a handler panic is recovered by dispatchBatchSafely: no SENDACK, no close *)
Example c28_panic_needed :
  let c := Cfg 3 1 4 4 4 100 true true in
  let evs := [ESend 1 3] ++ ex_sub4 1%nat
             ++ [EWork 0 CGo; EWork 0 CGo; EWork 0 CStop; EWork 0 CGo; EWork 0 CGo; EWork 0 CPanic]
             ++ repeat (EWork 0 CStop) 20 in
  let st := run c evs in
  accq (sends st) 1%nat = [0] /\ ackq (wire st) 1%nat = [] /\ sclosed st 1%nat = false
  /\ wpcs st 0%nat = WIdle /\ admitted st = 0 /\ monitor true 3 true true (hist_of st) = 1.
Proof. vm_compute. repeat split; reflexivity. Qed.

(* the splitter on a concrete batch: maxRecords 3, maxBytes 10 *)
Example c28_example_split :
  split (fun x : N => x) 3 10 [4; 4; 4; 20; 1; 1; 1; 1] = [[4; 4]; [4]; [20]; [1; 1; 1]; [1]].
Proof. vm_compute. reflexivity. Qed.
