(* C07 — The message store behaves as a faithful sequential log.
   Model: Model/MsgStore.v over Model/KV.v (typed ChannelLog API, compatibility
   appends / Truncate, lease release, database reopen).  Specification = the
   monitor: Model/MsgStore_C07.v (one plain list of rows + log end per channel).
   All theorems hold for EVERY implementation of the negative membership filter
   (F, f_empty, f_may, f_add arbitrary, no soundness needed here), for histories
   of any length over the harness' channels ([op_okb]), INCLUDING the multi-channel
   StoreAppendBatch (one physical batch in channel order refines the item-by-item
   specification because appends to different channels commute). *)
From WK Require Import Base.Base Model.KV Gen.Consts_C07 Model.MsgStore Model.MsgStore_C07
     Proof.KV Proof.MsgStore_base Proof.MsgStore_rel Proof.MsgStore_reads Proof.MsgStore_C07 Proof.MsgStore_C08.

(* Forward simulation: every model step, together with the read-back the harness
   performs after it, is a step the plain sequential logs accept, and the
   relation R (store = rows of the plain log, indexes exact / sound, recoverable
   log end) holds again. *)
Theorem c07_refines :
  forall (F : Type) (f_empty : F) (f_may : F -> bytes * bytes -> bool) (f_add : F -> bytes * bytes -> F)
         (compact : bool) (st : mstate F) (s : aspec) (o : op),
    R F st s -> op_okb o ->
    let '(st', x, ds) := step_dump F f_empty f_may f_add compact st o in
    exists s', spec_step s (E o x ds) = Some s' /\ R F st' s'.
Proof. exact step_sim. Qed.
Print Assumptions c07_refines.

(* The monitor evaluated on the implementation's traces is the conclusion of
   this theorem evaluated on the model's traces: every history of the model
   passes it. *)
Theorem c07_model_satisfies_monitor :
  forall (F : Type) (f_empty : F) (f_may : F -> bytes * bytes -> bool) (f_add : F -> bytes * bytes -> F)
         (compact : bool) (ops : list op),
    Forall op_okb ops ->
    spec_run as_init (entries ops (snd (run F f_empty f_may f_add compact (st_init F f_empty) ops))) = true.
Proof. exact model_satisfies_monitor. Qed.
Print Assumptions c07_model_satisfies_monitor.

(* ... in particular the refinement part of the monitor for the executable instance
   used by the correspondence check (batches included) *)
Theorem c07_spec_run_on_model :
  forall (compact : bool) (ops : list op),
    Forall op_okb ops ->
    spec_run as_init (entries ops (snd (xrun compact ops))) = true.
Proof. exact spec_run_on_model. Qed.
Print Assumptions c07_spec_run_on_model.

(* The WHOLE monitor = refinement + "no strict / server-allocated append that
   retries a stored, untainted (sender, client msg no) pair is accepted".  The second
   clause needs the soundness of the membership filter (proved for the exact filter and
   the Bloom layers in Proof/MsgStore_C08.v); histories without the multi-channel
   StoreAppendBatch ([op_ok]; the filter-coverage invariant is not proved through it). *)
Theorem c07_monitor_zero_on_model :
  forall (compact : bool) (ops : list op) (kv : list kvent),
    Forall op_ok ops ->
    C07_monitor (C07Case compact (entries ops (snd (xrun compact ops))) kv) = 0.
Proof. exact c07_monitor_zero_on_model. Qed.
Print Assumptions c07_monitor_zero_on_model.

(* Contiguity: in every reachable state the rows of a channel are strictly
   ascending, lie in [1, LEO], every sequence above the logical retention boundary
   up to LEO is present, and the cached log end is the recoverable one. *)
Theorem c07_contiguous :
  forall (F : Type) (st : mstate F) (s : aspec) (c : N),
    R F st s ->
    let rows := rows_of (st_kv F st) c in
    let leo := snd (loadLEOLocked F st c) in
    sorted_lt r_seq rows
    /\ Forall (fun r => 1 <= r_seq r <= leo) rows
    /\ (forall q, local_of (st_kv F st) c < q <= leo -> exists r, In r rows /\ r_seq r = q)
    /\ leo = recoverLEO (st_kv F st) c.
Proof. exact contiguous. Qed.
Print Assumptions c07_contiguous.

(* Reopening the database is the identity on everything the API shows. *)
Theorem c07_reopen_id :
  forall (F : Type) (f_empty : F) (st : mstate F) (s : aspec) (c : N),
    R F st s ->
    R F (reopen F f_empty st) s
    /\ st_kv F (reopen F f_empty st) = st_kv F st
    /\ snd (loadLEOLocked F (reopen F f_empty st) c) = snd (loadLEOLocked F st c).
Proof. exact reopen_identity. Qed.
Print Assumptions c07_reopen_id.

(* Every reachable state is related to the plain logs (so the three theorems above apply to it). *)
Theorem c07_reachable :
  forall (F : Type) (f_empty : F) (f_may : F -> bytes * bytes -> bool) (f_add : F -> bytes * bytes -> F)
         (compact : bool) (ops : list op),
    Forall op_okb ops ->
    exists s, R F (fst (run F f_empty f_may f_add compact (st_init F f_empty) ops)) s.
Proof. exact reachable_R. Qed.
Print Assumptions c07_reachable.

(* Lookup soundness, as a property of what the monitor accepts: a message
   returned by GetByMessageID / LookupIdempotency is a stored row of that channel
   with the requested id / pair; an accepted dump shows exactly the log. *)
Theorem c07_lookup_sound_byid :
  forall s c i m, spec_check_read s (OById c i) (XMsgO (Some m)) = true ->
                  In m (amsgs (as_log s c)) /\ m_id m = i.
Proof. exact accepted_byid_sound. Qed.
Print Assumptions c07_lookup_sound_byid.

Theorem c07_lookup_sound_idem :
  forall s c uid cno q i off h,
    spec_check_read s (OIdem c uid cno) (XHit (Some (q, i, off, h))) = true ->
    exists m, In m (amsgs (as_log s c)) /\ m_seq m = q /\ m_id m = i /\ m_hash m = h /\ m_uid m = uid /\ m_cno m = cno.
Proof. exact accepted_idem_sound. Qed.
Print Assumptions c07_lookup_sound_idem.

Theorem c07_dump_exact :
  forall s nr c leo rows news,
    spec_check_dump s nr (D c (inl leo) (inl rows) (inl news)) = true ->
    leo = al_leo (as_log s c) /\ rows = map mcompact (amsgs (as_log s c)).
Proof. exact accepted_dump_exact. Qed.
Print Assumptions c07_dump_exact.

(* ---- non-vacuity -------------------------------------------------------------------------------- *)

Definition ex_rec (i : N) (uid cno : string) : rec :=
  MsgStore.R i (hx cno) (hx uid) [97] 5%Z 0 0 0.

(* a history with appends in all modes, a duplicate, a trim, truncations, reopen and lookups *)
Definition ex_ops : list op :=
  [ OAppend 0 0 0 [ex_rec 1 "7531" "6e31"; ex_rec 2 "" "6e32"; ex_rec 3 "7532" ""];
    OAppend 0 0 0 [ex_rec 4 "7531" "6e31"];
    OApply 0 4 [ex_rec 4 "7531" "6e33"] (Some (1, 0, 2)) (Some (1, 3));
    OTrim 0 1 0%Z 0%Z; OTrunc 0 4; OReopen; OLeo 0; ORead 0 0 0%Z 0%Z;
    OIdem 0 (hx "7531") (hx "6e31"); OById 0 2; OByCno 0 (hx "6e32") 0 5%Z; OLastS 0 (hx "7532") 9;
    OCApp 1 1 [ex_rec 9 "7533" "6e39"]; OCTrunc 1 0; ORelease 0; OHist 0; OLoadCk 0 ].

Example c07_ex_ops_ok : Forall op_okb ex_ops.
Proof. repeat (constructor; [cbn; tauto|]). constructor. Qed.

(* the model does something on it: 3 rows stored, the duplicate rejected, the
   trim deletes row 1, the truncation row 4; after reopen LEO = 3 and rows 2, 3 remain *)
Example c07_ex_run :
  map fst (snd (xrun true ex_ops)) =
  [ XApp 1 3 3; XErr EConflict; XApp 4 4 1; XTrim 1 1 false; XOk; XOk; XN 3;
    XMsgs [M 2 2 0 (hx "6e32") [] (hashPayload [97]) [97] 5%Z; M 3 3 0 [] (hx "7532") (hashPayload [97]) [97] 5%Z];
    XHit None; XMsgO (Some (M 2 2 0 (hx "6e32") [] (hashPayload [97]) [97] 5%Z));
    XPage [M 2 2 0 (hx "6e32") [] (hashPayload [97]) [97] 5%Z] false 0; XNO (Some 3);
    XN 0; XOk; XOk; XPairs [(3, 1)]; XTriple (Some (1, 0, 2)) ].
Proof. vm_compute. reflexivity. Qed.

(* the monitor is not vacuous: it rejects a dump that shows a hole (LEO 5 after a
   truncation to 3), the signature of the former defect fixed by /repo 729a3b8e5 *)
Example c07_monitor_rejects_resurrected_leo :
  C07_monitor (C07Case true
    [E (OAppend 0 0 0 [ex_rec 1 "" ""; ex_rec 2 "" ""; ex_rec 3 "" ""; ex_rec 4 "" ""; ex_rec 5 "" ""]) (XApp 1 5 5) [];
     E (OTrim 0 2 0%Z 0%Z) (XTrim 2 2 false) []; E (OTrunc 0 4) XOk [];
     E OReopen XOk [D 0 (inl 5) (inl [(3, 3, hashPayload [97])]) (inl []);
                    D 1 (inl 0) (inl []) (inl []); D 2 (inl 0) (inl []) (inl [])]] []) = 1.
Proof. vm_compute. reflexivity. Qed.

(* ... and a row that reads back unreadable (former defect fixed by /repo 61f0866ae) *)
Example c07_monitor_rejects_unreadable_row :
  C07_monitor (C07Case false
    [E (OAppend 0 0 0 [MsgStore.R 5 [] [] [] 7%Z 0 0 0]) (XApp 1 1 1) [D 0 (inl 1) (inr ECorruptState) (inr ECorruptState)]] []) = 1.
Proof. vm_compute. reflexivity. Qed.

(* the multi-channel StoreAppendBatch is inside the theorems: a batch over two
   channels plus a duplicated channel (rejected item), then reads of both logs *)
Definition ex_batch_ops : list op :=
  [ OCBatch [(0, 0, [ex_rec 1 "7531" "6e31"; ex_rec 2 "" ""]); (2, 1, [ex_rec 3 "7531" "6e31"]); (1, 0, [])];
    OCBatch [(2, 0, [ex_rec 4 "" ""]); (2, 0, [ex_rec 5 "" ""]); (0, 0, [ex_rec 6 "" ""])];
    OLeo 0; OLeo 2 ].

Example c07_ex_batch_ok : Forall op_okb ex_batch_ops.
Proof. repeat (constructor; [cbn; try tauto; repeat (constructor; [cbn; tauto|]); constructor|]). constructor. Qed.

Example c07_ex_batch_run :
  map fst (snd (xrun true ex_batch_ops)) =
  [ XBatch [(0, 0, 2); (0, 0, 1); (0, 0, 0)]; XBatch [(EInvalid, 0, 0); (EInvalid, 0, 0); (0, 2, 3)]; XN 3; XN 1 ].
Proof. vm_compute. reflexivity. Qed.

(* the retry clause is not vacuous: after a prefix trim that leaves row 3, a strict
   append reusing row 3's (sender, client msg no) is ACCEPTED at seq 5 (the seeded
   change C07-b: filter emptied by the trim) -- every dump is consistent with a
   plain log holding rows 3, 4, 5, yet the monitor rejects the history *)
Example c07_monitor_rejects_accepted_retry :
  C07_monitor (C07Case true
    [E (OAppend 0 0 0 [ex_rec 1 "7531" "6e31"; ex_rec 2 "7532" "6e32"; ex_rec 3 "7533" "6e33"; ex_rec 4 "7534" "6e34"]) (XApp 1 4 4) [];
     E (OTrim 0 2 0%Z 0%Z) (XTrim 2 2 false) []; E (ORelease 0) XOk [];
     E (OAppend 0 0 0 [ex_rec 50 "7533" "6e33"]) (XApp 5 5 1) []] []) = 1.
Proof. vm_compute. reflexivity. Qed.

(* ... while the model rejects the retry (ErrConflict) and passes *)
Example c07_model_rejects_retry :
  map fst (snd (xrun true
    [OAppend 0 0 0 [ex_rec 1 "7531" "6e31"; ex_rec 2 "7532" "6e32"; ex_rec 3 "7533" "6e33"; ex_rec 4 "7534" "6e34"];
     OTrim 0 2 0%Z 0%Z; ORelease 0; OAppend 0 0 0 [ex_rec 50 "7533" "6e33"]; OIdem 0 (hx "7533") (hx "6e33")]))
  = [XApp 1 4 4; XTrim 2 2 false; XOk; XErr EConflict; XHit (Some (3, 3, 2, hashPayload [97]))].
Proof. vm_compute. reflexivity. Qed.
