(* C07 — placeholder while the model is being tied; replaced by the theorem file. *)
From WK Require Import Base.Base Model.MsgStore Model.MsgStore_C07.
Example c07_stub : C07_monitor (C07Case false [] []) = 0.
Proof. reflexivity. Qed.
