(* Model/Crc32.v — CRC-32 (IEEE, reflected, poly 0xEDB88320).
   [crc32_bitwise] is the mathematical definition (what hash/crc32.ChecksumIEEE
   computes); [crc32_table] transcribes pkg/cluster/routing/router.go
   checksumIEEEString, reading the table the code reads (crc32.IEEETable,
   regenerated into Gen/Consts_C21.v on every run). *)
From WK Require Import Base.Base.
From WK Require Import Gen.Consts_C21.
Open Scope N_scope.

Definition poly : N := 3988292384. (* 0xEDB88320 *)

Definition bit_step (c : N) : N :=
  if N.odd c then N.lxor (N.shiftr c 1) poly else N.shiftr c 1.

Definition step8 (c : N) : N :=
  bit_step (bit_step (bit_step (bit_step (bit_step (bit_step (bit_step (bit_step c))))))).

(* the table as generated from the polynomial *)
Definition gen_table : list N := map (fun i => step8 (N.of_nat i)) (seq 0 256).

(* mathematical CRC: xor the byte in, run eight bit steps *)
Definition upd_bitwise (c b : N) : N := step8 (N.lxor c b).
Definition crc32_bitwise (bs : bytes) : N :=
  N.lxor (fold_left upd_bitwise bs u32max) u32max.

(* checksumIEEEString:  crc = IEEETable[byte(crc)^value[i]] ^ (crc >> 8) *)
Definition upd_table (c b : N) : N :=
  N.lxor (nth (N.to_nat (N.lxor (c mod 256) b)) IEEETable 0) (N.shiftr c 8).
Definition crc32_table (bs : bytes) : N :=
  N.lxor (fold_left upd_table bs u32max) u32max.

(* routing.HashSlotForKey *)
Definition routing_slot (key : bytes) (count : N) : N :=
  if count =? 0 then 0 else crc32_table key mod count.

(* hashslot.HashSlotForKey, workload.physicalHashSlotForKey (stdlib CRC) *)
Definition hashslot_slot (key : bytes) (count : N) : N :=
  if count =? 0 then 0 else crc32_bitwise key mod count.

(* ---- case-file interface ------------------------------------------------
   one case = key, count, and the four implementation results
   (routing.HashSlotForKey, hashslot.HashSlotForKey,
    workload.physicalHashSlotForKey via its export, routing.checksumIEEEString) *)
Record c21_case := C21Case {
  c21_key : bytes; c21_count : N;
  c21_routing : N; c21_hashslot : N; c21_bench : N; c21_crc : N; c21_std : N }.

Definition C21_mismatch (c : c21_case) : bool :=
  negb ((routing_slot (c21_key c) (c21_count c) =? c21_routing c)
     && (hashslot_slot (c21_key c) (c21_count c) =? c21_hashslot c)
     && (hashslot_slot (c21_key c) (c21_count c) =? c21_bench c)
     && (crc32_table (c21_key c) =? c21_crc c)
     && (crc32_bitwise (c21_key c) =? c21_std c)).

(* the property on implementation observations alone: all components agree,
   result below count (count > 0), hand-rolled CRC equals the library CRC *)
Definition C21_monitor (c : c21_case) : N :=
  if (c21_routing c =? c21_hashslot c) && (c21_hashslot c =? c21_bench c)
     && ((c21_count c =? 0) || (c21_routing c <? c21_count c))
     && (c21_crc c =? c21_std c)
  then 0 else 1.
