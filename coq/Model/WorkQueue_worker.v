(* Model/WorkQueue_worker.v — pkg/workqueue/bounded_worker_queue.go as a
   transition system.  Atomic steps = the q.mu critical sections of submit /
   Close, one channel operation of a worker (receive from queue / see stop),
   releaseSlot + handler entry, handler return, SubmitWait's parked select.
   Any number of producer threads, cfg.Workers workers, one Close caller.
   Task ids are the call stamps (unique: one event per clock tick). *)
From WK Require Import Base.Base Model.WorkQueue.
Open Scope N_scope.

(* producer thread inside submit() *)
Inductive wpc :=
| WIdle
| WLock (x st : N) (wait : bool)   (* top of the for loop: about to take q.mu *)
| WPark (x st : N)                 (* SubmitWait: select { <-slots, <-stop } outside the lock *)
| WLock2 (x st : N).               (* holds a slot taken while parked: about to take q.mu *)

(* worker goroutine: runWorker / drain / runItem *)
Inductive kpc :=
| KIdle                        (* select { item := <-queue, <-stop } *)
| KGot (x : N) (dr : bool)     (* item received; next: releaseSlot, handler entry *)
| KRun (x rb : N) (dr : bool)  (* inside the handler since rb *)
| KDrain                       (* drain(): select { <-queue, default } *)
| KExit.                       (* workerWG.Done() *)

Record wstate := WSt {
  w_now : N;
  w_closed : bool;          (* q.closed; close(q.stop) happens in the same critical section *)
  w_slots : N;              (* free slots: len(q.slots) *)
  w_queue : list N;         (* q.queue, oldest first *)
  w_pcs : list wpc;
  w_wk : list kpc;
  w_close : cpc;
  w_subs : list sub;        (* completed Submit calls, newest first *)
  w_runs : list runr;       (* completed handler calls, newest first *)
  w_clos : list clo }.

Inductive wev :=
| WCall (t : nat) (wait : bool)     (* thread t calls Submit / SubmitWait with a fresh task *)
| WStep (t : nat) (alt : bool)      (* thread t's next atomic step; alt picks the stop case of a select *)
| WWork (i : nat) (alt : bool)      (* worker i's next atomic step; alt picks the stop case *)
| WCloseCall
| WCloseStep.

Section Worker.
Variable cf : cfg.

Definition wcap : N := c_qsize cf.

Definition w_pc (s : wstate) (t : nat) : wpc := nth t (w_pcs s) WIdle.
Definition w_k (s : wstate) (i : nat) : kpc := nth i (w_wk s) KIdle.

Definition w_set_pc (s : wstate) (t : nat) (p : wpc) : wstate :=
  WSt (w_now s) (w_closed s) (w_slots s) (w_queue s) (set_nth t p WIdle (w_pcs s)) (w_wk s)
      (w_close s) (w_subs s) (w_runs s) (w_clos s).

Definition w_set_k (s : wstate) (i : nat) (p : kpc) : wstate :=
  WSt (w_now s) (w_closed s) (w_slots s) (w_queue s) (w_pcs s) (set_nth i p KIdle (w_wk s))
      (w_close s) (w_subs s) (w_runs s) (w_clos s).

Definition w_with (s : wstate) (slots : N) (q : list N) : wstate :=
  WSt (w_now s) (w_closed s) slots q (w_pcs s) (w_wk s) (w_close s) (w_subs s) (w_runs s) (w_clos s).

(* Submit returns: record the call, thread becomes idle *)
Definition w_ret (s : wstate) (t : nat) (x st : N) (r : sres) : wstate :=
  WSt (w_now s) (w_closed s) (w_slots s) (w_queue s) (set_nth t WIdle WIdle (w_pcs s)) (w_wk s)
      (w_close s) (Sub x 0 st (w_now s) r :: w_subs s) (w_runs s) (w_clos s).

(* releaseSlot: non-blocking send on the slots channel (capacity QueueSize) *)
Definition release (slots : N) : N := if slots <? wcap then slots + 1 else slots.

(* enqueueWithSlotLocked: closed was checked by the caller in the same critical
   section; the queue send is non-blocking *)
Definition queue_has_room (s : wstate) : bool := N.of_nat (length (w_queue s)) <? wcap.

Definition w_thread_step (s : wstate) (t : nat) (alt : bool) : wstate :=
  match w_pc s t with
  | WIdle => s
  | WLock x st wait =>
      if w_closed s then w_ret s t x st RClosed
      else if 0 <? w_slots s then
        if queue_has_room s
        then w_ret (w_with s (w_slots s - 1) (w_queue s ++ [x])) t x st ROk
        else s   (* ErrFull from enqueueWithSlotLocked: releaseSlot; continue — same state *)
      else if wait then w_set_pc s t (WPark x st)
      else w_ret s t x st RFull
  | WPark x st =>
      if alt then (if w_closed s then w_ret s t x st RClosed else s)
      else if 0 <? w_slots s then w_set_pc (w_with s (w_slots s - 1) (w_queue s)) t (WLock2 x st)
      else s
  | WLock2 x st =>
      if w_closed s then w_ret (w_with s (release (w_slots s)) (w_queue s)) t x st RClosed
      else if queue_has_room s then w_ret (w_with s (w_slots s) (w_queue s ++ [x])) t x st ROk
      else w_set_pc (w_with s (release (w_slots s)) (w_queue s)) t (WLock x st true)
  end.

Definition w_worker_step (s : wstate) (i : nat) (alt : bool) : wstate :=
  if negb (Nat.ltb i (length (w_wk s))) then s else   (* there are exactly cfg.Workers workers *)
  match w_k s i with
  | KIdle =>
      if alt then (if w_closed s then w_set_k s i KDrain else s)
      else match w_queue s with
           | x :: r => w_set_k (w_with s (w_slots s) r) i (KGot x false)
           | [] => s
           end
  | KGot x dr => w_set_k (w_with s (release (w_slots s)) (w_queue s)) i (KRun x (w_now s) dr)
  | KRun x rb dr =>
      let s' := w_set_k s i (if dr then KDrain else KIdle) in
      WSt (w_now s') (w_closed s') (w_slots s') (w_queue s') (w_pcs s') (w_wk s') (w_close s')
          (w_subs s') (Run x 0 rb (w_now s) 0 :: w_runs s') (w_clos s')
  | KDrain =>
      match w_queue s with
      | x :: r => w_set_k (w_with s (w_slots s) r) i (KGot x true)
      | [] => w_set_k s i KExit
      end
  | KExit => s
  end.

Definition all_exited (l : list kpc) : bool :=
  forallb (fun k => match k with KExit => true | _ => false end) l.

Definition w_set_close (s : wstate) (closed : bool) (c : cpc) (cl : list clo) : wstate :=
  WSt (w_now s) closed (w_slots s) (w_queue s) (w_pcs s) (w_wk s) c (w_subs s) (w_runs s) cl.

Definition w_tick (s : wstate) : wstate :=
  WSt (w_now s + 1) (w_closed s) (w_slots s) (w_queue s) (w_pcs s) (w_wk s) (w_close s)
      (w_subs s) (w_runs s) (w_clos s).

Definition w_step (s0 : wstate) (e : wev) : wstate :=
  let s := w_tick s0 in
  match e with
  | WCall t wait =>
      match w_pc s t with
      | WIdle => w_set_pc s t (WLock (w_now s) (w_now s) wait)
      | _ => s
      end
  | WStep t alt => w_thread_step s t alt
  | WWork i alt => w_worker_step s i alt
  | WCloseCall =>
      match w_close s with
      | CIdle => w_set_close s (w_closed s) (CStart (w_now s)) (w_clos s)
      | _ => s
      end
  | WCloseStep =>
      match w_close s with
      | CStart cb => w_set_close s true (CWait cb) (w_clos s)   (* mu.Lock; closed = true; close(stop); mu.Unlock *)
      | CWait cb =>
          if all_exited (w_wk s)                                  (* workerWG.Wait() returned *)
          then w_set_close s (w_closed s) CDone (Clo cb (w_now s) true :: w_clos s)
          else s
      | _ => s
      end
  end.

Definition w_init : wstate :=
  WSt 0 false wcap [] [] (repeat KIdle (N.to_nat (c_workers cf))) CIdle [] [] [].

Definition w_run (evs : list wev) : wstate := fold_left w_step evs w_init.

Definition w_hist (s : wstate) : hist := Hist cf (w_subs s) (w_runs s) [] (w_clos s) [].

End Worker.

(* ---- the SPLIT variant (not the code; documents why Close publishes both flags in ONE
   critical section).  Close first does close(q.stop) — visible to workers and to parked
   SubmitWait callers — and only in a later step takes q.mu and sets closed = true.
   [stop_seen]: the stop channel is closed once the Close caller is past that first step.
   Everything else is the code's step function with "stop" read from [stop_seen] and
   admission read from [w_closed]. *)
Section WorkerSplit.
Variable cf : cfg.

Definition stop_seen (s : wstate) : bool :=
  match w_close s with CMid _ | CWait _ | CDone => true | _ => false end.

Definition ws_thread_step (s : wstate) (t : nat) (alt : bool) : wstate :=
  match w_pc s t with
  | WIdle => s
  | WLock x st wait =>
      if w_closed s then w_ret s t x st RClosed
      else if 0 <? w_slots s then
        if queue_has_room cf s
        then w_ret (w_with s (w_slots s - 1) (w_queue s ++ [x])) t x st ROk
        else s
      else if wait then w_set_pc s t (WPark x st)
      else w_ret s t x st RFull
  | WPark x st =>
      if alt then (if stop_seen s then w_ret s t x st RClosed else s)
      else if 0 <? w_slots s then w_set_pc (w_with s (w_slots s - 1) (w_queue s)) t (WLock2 x st)
      else s
  | WLock2 x st =>
      if w_closed s then w_ret (w_with s (release cf (w_slots s)) (w_queue s)) t x st RClosed
      else if queue_has_room cf s then w_ret (w_with s (w_slots s) (w_queue s ++ [x])) t x st ROk
      else w_set_pc (w_with s (release cf (w_slots s)) (w_queue s)) t (WLock x st true)
  end.

Definition ws_worker_step (s : wstate) (i : nat) (alt : bool) : wstate :=
  if negb (Nat.ltb i (length (w_wk s))) then s else
  match w_k s i with
  | KIdle =>
      if alt then (if stop_seen s then w_set_k s i KDrain else s)
      else match w_queue s with
           | x :: r => w_set_k (w_with s (w_slots s) r) i (KGot x false)
           | [] => s
           end
  | _ => w_worker_step cf s i alt
  end.

Definition ws_step (s0 : wstate) (e : wev) : wstate :=
  let s := w_tick s0 in
  match e with
  | WStep t alt => ws_thread_step s t alt
  | WWork i alt => ws_worker_step s i alt
  | WCloseStep =>
      match w_close s with
      | CStart cb => w_set_close s (w_closed s) (CMid cb) (w_clos s)   (* close(q.stop) *)
      | CMid cb => w_set_close s true (CWait cb) (w_clos s)            (* mu.Lock; closed = true; mu.Unlock *)
      | _ => w_step cf s0 e
      end
  | _ => w_step cf s0 e
  end.

Definition ws_run (evs : list wev) : wstate := fold_left ws_step evs (w_init cf).

End WorkerSplit.
