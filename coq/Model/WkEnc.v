(* Model/WkEnc.v — WKProto client/server payload encryption
   (pkg/protocol/wkprotoenc/crypto.go, re-exported by pkg/gateway/wkprotoenc/crypto.go,
   used by pkg/gateway/protocol/wkproto/adapter.go).

   The AES block cipher, MD5 and X25519 are Section variables: the model never
   looks inside them.  Everything the Go code writes itself is concrete and
   executable: PKCS7 padding, CBC chaining (encryptCBCBlocks / decryptCBCBlocks /
   xorBlock), base64 (encoding/base64.StdEncoding, alphabet regenerated into
   Gen/Consts_C25.v), hexLower, the decimal rendering of strconv.AppendUint /
   AppendInt, the sign-bytes layouts, key derivation, the IV alphabet map, the
   validation and the adapter's validate-then-decrypt sequence.

   Byte strings are [bytes] = list N (each element < 256 for real inputs).
   Errors are compared by class:
     1 ErrInvalidPublicKey  2 ErrMissingSessionKey  3 ErrMsgKeyMismatch
     4 base64.CorruptInputError  5 anything else (X25519 errors). *)
From WK Require Import Base.Base Gen.Consts_C25.
From Coq Require Export PrimInt63.
Open Scope N_scope.

Inductive res (A : Type) : Type := Ok (a : A) | Err (e : N).
Arguments Ok {A} a.
Arguments Err {A} e.

Definition E_InvalidPublicKey : N := 1.
Definition E_MissingSessionKey : N := 2.
Definition E_MsgKeyMismatch : N := 3.
Definition E_Base64 : N := 4.
Definition E_Other : N := 5.

(* aes.BlockSize, sessionIVSize (regenerated constants) *)
Definition block_len : nat := N.to_nat AesBlockSize.
Definition iv_size : nat := N.to_nat SessionIVSize.

(* ---- encoding/base64.StdEncoding ------------------------------------------- *)

Definition b64_char (v : N) : N := nth (N.to_nat v) B64Alphabet 0.

Fixpoint index_of (c : N) (l : list N) (i : N) : option N :=
  match l with
  | [] => None
  | x :: r => if x =? c then Some i else index_of c r (i + 1)
  end.

(* decodeMap: position in the alphabet, None = 0xff *)
Definition b64_val (c : N) : option N := index_of c B64Alphabet 0.

(* Encode: 3 bytes -> 4 characters, '=' padding *)
Fixpoint b64_encode (d : bytes) : bytes :=
  match d with
  | [] => []
  | a :: d1 =>
    match d1 with
    | [] => [b64_char (a / 4); b64_char ((a mod 4) * 16); B64Pad; B64Pad]
    | b :: d2 =>
      match d2 with
      | [] => [b64_char (a / 4); b64_char ((a mod 4) * 16 + b / 16); b64_char ((b mod 16) * 4); B64Pad]
      | c :: r => b64_char (a / 4) :: b64_char ((a mod 4) * 16 + b / 16)
                  :: b64_char ((b mod 16) * 4 + c / 64) :: b64_char (c mod 64) :: b64_encode r
      end
    end
  end.

Definition is_crlf (c : N) : bool := (c =? 10) || (c =? 13).
(* the decoder skips '\r' and '\n' wherever they occur *)
Definition strip_crlf (d : bytes) : bytes := filter (fun c => negb (is_crlf c)) d.

Definition is_nil {A} (l : list A) : bool := match l with [] => true | _ => false end.

(* decodeQuantum, on input without CR/LF: full quanta of 4 alphabet characters;
   the last quantum may be "xx==" or "xxx="; nothing may follow padding; a
   short final quantum is an error (StdEncoding pads, and is not strict about
   trailing bits). None = CorruptInputError. *)
Fixpoint b64_decode_quanta (d : bytes) : option bytes :=
  match d with
  | [] => Some []
  | c0 :: c1 :: c2 :: c3 :: r =>
    match b64_val c0, b64_val c1 with
    | Some v0, Some v1 =>
      match b64_val c2 with
      | Some v2 =>
        match b64_val c3 with
        | Some v3 =>
          match b64_decode_quanta r with
          | Some t => Some ((v0 * 4 + v1 / 16) :: ((v1 mod 16) * 16 + v2 / 4) :: ((v2 mod 4) * 64 + v3) :: t)
          | None => None
          end
        | None => if (c3 =? B64Pad) && is_nil r
                  then Some [v0 * 4 + v1 / 16; (v1 mod 16) * 16 + v2 / 4] else None
        end
      | None => if (c2 =? B64Pad) && (c3 =? B64Pad) && is_nil r
                then Some [v0 * 4 + v1 / 16] else None
      end
    | _, _ => None
    end
  | _ => None
  end.

Definition b64_decode (d : bytes) : option bytes := b64_decode_quanta (strip_crlf d).

(* ---- hexLower / hexMD5String -------------------------------------------------- *)

Definition hex_with (digits : list N) (src : bytes) : bytes :=
  flat_map (fun b => [nth (N.to_nat (b / 16)) digits 0; nth (N.to_nat (b mod 16)) digits 0]) src.
Definition hexLower : bytes -> bytes := hex_with HexDigits.
Definition hexMD5String : bytes -> bytes := hex_with HexDigitsMD5.

(* ---- strconv.AppendUint(_, n, 10) / AppendInt(_, z, 10) ------------------------- *)

Fixpoint dec_digits (fuel : nat) (n : N) (acc : bytes) : bytes :=
  match fuel with
  | O => acc
  | S f => let acc' := (48 + n mod 10) :: acc in
           if n / 10 =? 0 then acc' else dec_digits f (n / 10) acc'
  end.
(* fuel: a number has no more decimal digits than binary digits *)
Definition append_uint (n : N) : bytes := dec_digits (S (N.to_nat (N.log2 n))) n [].
Definition append_int (z : Z) : bytes :=
  match z with
  | Zneg p => 45 :: append_uint (Npos p)
  | _ => append_uint (Z.to_N z)
  end.

(* ---- PKCS7 ------------------------------------------------------------------------ *)

Definition pkcs7PaddingSize (payloadLen blockSize : N) : N :=
  let padding := blockSize - payloadLen mod blockSize in
  if padding =? 0 then blockSize else padding.

(* the padded buffer built in EncryptPayloadWithCrypto / msgKeyWithCrypto *)
Definition pkcs7_pad (p : bytes) : bytes :=
  let padding := pkcs7PaddingSize (N.of_nat (length p)) AesBlockSize in
  p ++ repeat padding (N.to_nat padding).

Definition pkcs7UnpadView (payload : bytes) (blockSize : N) : option bytes :=
  let n := N.of_nat (length payload) in
  if (n =? 0) || negb (n mod blockSize =? 0) then None else
  let padding := last payload 0 in
  if (padding =? 0) || (blockSize <? padding) || (n <? padding) then None else
  let k := (length payload - N.to_nat padding)%nat in
  if forallb (N.eqb padding) (skipn k payload) then Some (firstn k payload) else None.

(* ---- blocks ---------------------------------------------------------------------------- *)

Fixpoint xorBlock (dst mask : bytes) : bytes :=
  match dst, mask with
  | d :: dr, m :: mr => N.lxor d m :: xorBlock dr mr
  | _, _ => []
  end.

(* data[offset : offset+BlockSize] for offset = 0, 16, ... (callers pass a multiple of the block size) *)
Fixpoint chunks_fuel (fuel : nat) (d : bytes) : list bytes :=
  match fuel with
  | O => []
  | S f => match d with
           | [] => []
           | _ => firstn block_len d :: chunks_fuel f (skipn block_len d)
           end
  end.
Definition chunks (d : bytes) : list bytes := chunks_fuel (length d) d.

(* copy(public[:], pub) into a [32]byte *)
Definition fit (n : nat) (b : bytes) : bytes := firstn n (b ++ repeat 0 n).

Record session_keys := Keys { AESKey : bytes; AESIV : bytes }.
(* SessionCrypto: the AES key the cipher.Block was built from, and the IV array *)
Record session_crypto := SC { sc_key : bytes; sc_iv : bytes }.

Record send_packet := SendPkt {
  sp_msgkey : bytes; sp_seq : N; sp_msgno : bytes; sp_chid : bytes; sp_chtype : N; sp_payload : bytes }.

Record recv_packet := RecvPkt {
  rp_msgid : Z; rp_msgseq : N; rp_msgno : bytes; rp_ts : Z; rp_from : bytes;
  rp_chid : bytes; rp_chtype : N; rp_payload : bytes }.

(* the sign bytes of SendMsgKeyWithCrypto *)
Definition send_sign_bytes (p : send_packet) : bytes :=
  append_uint (sp_seq p) ++ sp_msgno p ++ sp_chid p ++ append_uint (sp_chtype p) ++ sp_payload p.

(* RecvPacket.VerityBytes *)
Definition recv_verity_bytes (p : recv_packet) : bytes :=
  append_int (rp_msgid p) ++ append_uint (rp_msgseq p) ++ rp_msgno p ++ append_int (rp_ts p)
  ++ rp_from p ++ rp_chid p ++ append_uint (rp_chtype p) ++ rp_payload p.

(* aesBlockAndIV / NewSessionCrypto (aes.NewCipher cannot fail on a 16-byte key) *)
Definition NewSessionCrypto (keys : session_keys) : res session_crypto :=
  if Nat.ltb (length (AESKey keys)) block_len || Nat.ltb (length (AESIV keys)) block_len
  then Err E_MissingSessionKey
  else Ok (SC (firstn block_len (AESKey keys)) (firstn block_len (AESIV keys))).

(* randomIV: alphabet[raw[i] % len(alphabet)] *)
Definition randomIV (rnd : bytes) : bytes :=
  map (fun b => nth (N.to_nat (b mod N.of_nat (length IVAlphabet))) IVAlphabet 0) (fit iv_size rnd).

(* the session values read by SessionCryptoFromSession / SessionKeysFromSession:
   the keys a stored *SessionCrypto was built from (None: absent), the AES key and IV values *)
Record sess := Sess { s_crypto : option session_keys; s_key : option bytes; s_iv : option bytes }.

(* bytesValue: absent or empty -> not ok *)
Definition bytesValue (v : option bytes) : option bytes :=
  match v with
  | Some (x :: r) => Some (x :: r)
  | _ => None
  end.

Definition SessionKeysFromSession (s : sess) : option session_keys :=
  match bytesValue (s_key s) with
  | None => None
  | Some k => match bytesValue (s_iv s) with
              | None => None
              | Some iv => Some (Keys k iv)
              end
  end.

Section WkEnc.

(* AES-128 on one block under a 16-byte key; MD5; X25519 (None = error) *)
Variable aesE aesD : bytes -> bytes -> bytes.
Variable md5 : bytes -> bytes.
Variable x25519 : bytes -> bytes -> option bytes.

(* encryptCBCBlocks *)
Fixpoint cbc_enc (key previous : bytes) (blocks : list bytes) : list bytes :=
  match blocks with
  | [] => []
  | chunk :: r => let c := aesE key (xorBlock chunk previous) in c :: cbc_enc key c r
  end.
Definition encryptCBCBlocks (sc : session_crypto) (data : bytes) : bytes :=
  concat (cbc_enc (sc_key sc) (sc_iv sc) (chunks data)).

(* decryptCBCBlocks *)
Fixpoint cbc_dec (key previous : bytes) (blocks : list bytes) : list bytes :=
  match blocks with
  | [] => []
  | ciphertext :: r => xorBlock (aesD key ciphertext) previous :: cbc_dec key ciphertext r
  end.
Definition decryptCBCBlocks (sc : session_crypto) (data : bytes) : bytes :=
  concat (cbc_dec (sc_key sc) (sc_iv sc) (chunks data)).

(* EncryptPayloadWithCrypto (None = nil *SessionCrypto) *)
Definition EncryptPayloadWithCrypto (payload : bytes) (sc : option session_crypto) : res bytes :=
  match sc with
  | None => Err E_MissingSessionKey
  | Some sc => Ok (b64_encode (encryptCBCBlocks sc (pkcs7_pad payload)))
  end.

Definition with_keys {A} (keys : session_keys) (f : option session_crypto -> res A) : res A :=
  match NewSessionCrypto keys with
  | Err e => Err e
  | Ok sc => f (Some sc)
  end.

Definition EncryptPayload (payload : bytes) (keys : session_keys) : res bytes :=
  with_keys keys (EncryptPayloadWithCrypto payload).

(* DecryptPayloadWithCrypto *)
Definition DecryptPayloadWithCrypto (payload : bytes) (sc : option session_crypto) : res bytes :=
  match sc with
  | None => Err E_MissingSessionKey
  | Some sc =>
    match b64_decode payload with
    | None => Err E_Base64
    | Some decoded =>
      if is_nil decoded || negb (Nat.eqb (Nat.modulo (length decoded) block_len) 0)
      then Err E_MissingSessionKey
      else match pkcs7UnpadView (decryptCBCBlocks sc decoded) AesBlockSize with
           | None => Err E_MissingSessionKey
           | Some plain => Ok plain
           end
    end
  end.

Definition DecryptPayload (payload : bytes) (keys : session_keys) : res bytes :=
  with_keys keys (DecryptPayloadWithCrypto payload).

(* the bytes handed to md5.Sum in msgKeyWithCrypto *)
Definition msg_key_preimage (sign : bytes) (sc : session_crypto) : bytes :=
  b64_encode (encryptCBCBlocks sc (pkcs7_pad sign)).

(* msgKeyWithCrypto *)
Definition msgKeyWithCrypto (sign : bytes) (sc : option session_crypto) : res bytes :=
  match sc with
  | None => Err E_MissingSessionKey
  | Some sc => Ok (hexMD5String (md5 (msg_key_preimage sign sc)))
  end.

(* SendMsgKeyWithCrypto (the packet is never nil here) *)
Definition SendMsgKeyWithCrypto (p : send_packet) (sc : option session_crypto) : res bytes :=
  msgKeyWithCrypto (send_sign_bytes p) sc.
Definition SendMsgKey (p : send_packet) (keys : session_keys) : res bytes :=
  with_keys keys (SendMsgKeyWithCrypto p).

(* ValidateSendPacketWithCrypto: 0 = nil error *)
Definition ValidateSendPacketWithCrypto (p : send_packet) (sc : option session_crypto) : N :=
  match SendMsgKeyWithCrypto p sc with
  | Err e => e
  | Ok expected => if bytes_eqb (sp_msgkey p) expected then 0 else E_MsgKeyMismatch
  end.
Definition ValidateSendPacket (p : send_packet) (keys : session_keys) : N :=
  match SendMsgKey p keys with
  | Err e => e
  | Ok expected => if bytes_eqb (sp_msgkey p) expected then 0 else E_MsgKeyMismatch
  end.

(* SealRecvPacketWithCrypto: (sealed payload, MsgKey) *)
Definition SealRecvPacketWithCrypto (p : recv_packet) (sc : option session_crypto) : res (bytes * bytes) :=
  match EncryptPayloadWithCrypto (rp_payload p) sc with
  | Err e => Err e
  | Ok encrypted =>
    let sealed := RecvPkt (rp_msgid p) (rp_msgseq p) (rp_msgno p) (rp_ts p) (rp_from p) (rp_chid p) (rp_chtype p) encrypted in
    match msgKeyWithCrypto (recv_verity_bytes sealed) sc with
    | Err e => Err e
    | Ok k => Ok (encrypted, k)
    end
  end.
Definition SealRecvPacket (p : recv_packet) (keys : session_keys) : res (bytes * bytes) :=
  with_keys keys (SealRecvPacketWithCrypto p).

(* ---- key agreement ------------------------------------------------------------------ *)

Definition EncodePublicKey (public : bytes) : bytes := b64_encode public.

Definition DecodePublicKey (encoded : bytes) : res bytes :=
  match b64_decode encoded with
  | None => Err E_Base64
  | Some decoded => if Nat.eqb (length decoded) 32 then Ok decoded else Err E_InvalidPublicKey
  end.

(* GenerateKeyPair reading its 32 random bytes from [rnd] *)
Definition GenerateKeyPair (rnd : bytes) : res (bytes * bytes) :=
  let private := fit 32 rnd in
  match x25519 private X25519Basepoint with
  | None => Err E_Other
  | Some pub => Ok (private, fit 32 pub)
  end.

Definition sharedSecret (private public : bytes) : option bytes := x25519 private public.

Definition deriveAESKey (secret : bytes) : bytes :=
  firstn 16 (hexLower (md5 (b64_encode secret))).

(* NegotiateServerSession; [rnd] = the bytes crypto/rand delivers (32 for the key, then 16 for the IV) *)
Definition NegotiateServerSession (clientKey rnd : bytes) : res (session_keys * bytes) :=
  match DecodePublicKey clientKey with
  | Err e => Err e
  | Ok clientPublic =>
    match GenerateKeyPair rnd with
    | Err e => Err e
    | Ok (serverPrivate, serverPublic) =>
      match sharedSecret serverPrivate clientPublic with
      | None => Err E_Other
      | Some secret =>
        Ok (Keys (deriveAESKey secret) (randomIV (skipn 32 rnd)), EncodePublicKey serverPublic)
      end
    end
  end.

(* DeriveClientSession *)
Definition DeriveClientSession (private serverKey iv : bytes) : res session_keys :=
  match DecodePublicKey serverKey with
  | Err e => Err e
  | Ok serverPublic =>
    match sharedSecret private serverPublic with
    | None => Err E_Other
    | Some secret => Ok (Keys (deriveAESKey secret) iv)
    end
  end.

(* ---- gateway adapter ------------------------------------------------------------------ *)

Definition SessionCryptoFromSession (s : sess) : option session_crypto :=
  match s_crypto s with
  | None => None
  | Some keys => match NewSessionCrypto keys with Ok sc => Some sc | Err _ => None end
  end.

(* decryptSendPacketForSession: validate, then decrypt; Ok = the payload the packet carries afterwards *)
Definition decryptSendPacketForSession (s : sess) (send : send_packet) : res bytes :=
  match SessionCryptoFromSession s with
  | Some sc =>
    match ValidateSendPacketWithCrypto send (Some sc) with
    | 0 => DecryptPayloadWithCrypto (sp_payload send) (Some sc)
    | e => Err e
    end
  | None =>
    match SessionKeysFromSession s with
    | None => Err E_MissingSessionKey
    | Some keys =>
      match ValidateSendPacket send keys with
      | 0 => DecryptPayload (sp_payload send) keys
      | e => Err e
      end
    end
  end.

(* sealRecvPacketForSession *)
Definition sealRecvPacketForSession (s : sess) (recv : recv_packet) : res (bytes * bytes) :=
  match SessionCryptoFromSession s with
  | Some sc => SealRecvPacketWithCrypto recv (Some sc)
  | None =>
    match SessionKeysFromSession s with
    | None => Err E_MissingSessionKey
    | Some keys => SealRecvPacket recv keys
    end
  end.

End WkEnc.

(* ---- case-file interface -------------------------------------------------------------------

   One operation = its inputs followed by what the implementation returned. *)
Inductive c25_op :=
  (* cpriv, the client key string sent, the bytes crypto/rand served, overrides of the
     server key / salt handed to the client;  observed: X25519(cpriv, base),
     NegotiateServerSession, DeriveClientSession (Err 0 when not run) *)
| OpNeg (cpriv ckey rnd : bytes) (cli_skey cli_iv : option bytes)
        (cpub : bytes) (srv : res (session_keys * bytes)) (cli : res session_keys)
  (* EncryptPayload then DecryptPayload; [agree]: the WithCrypto entry points returned the same *)
| OpEnc (keys : session_keys) (payload : bytes) (enc dec : res bytes) (agree : bool)
| OpDec (keys : session_keys) (data : bytes) (dec : res bytes)
  (* client: enc = EncryptPayload plain, mk = SendMsgKey of the honest packet; server:
     v0/a0 = ValidateSendPacket / decryptSendPacketForSession on the honest packet,
     v1/a1 the same on the attacker's packet [tampered] *)
| OpSend (keys : session_keys) (s : sess) (plain : bytes) (seq : N) (msgno chid : bytes) (chtype : N)
         (enc mk : res bytes) (v0 : N) (a0 : res bytes)
         (tampered : send_packet) (v1 : N) (a1 : res bytes) (agree : bool)
  (* SealRecvPacket (direct) or sealRecvPacketForSession, then the client's DecryptPayload *)
| OpRecv (keys : session_keys) (s : sess) (direct : bool) (pkt : recv_packet)
         (sealed : res (bytes * bytes)) (dec : res bytes) (intact : bool).

Record c25_case := C25Case {
  c25_ops : list c25_op;
  c25_tabE : list (bytes * bytes);  (* (key, block0 ‖ AES-encrypt block0 ‖ block1 ‖ ...) *)
  c25_tabD : list (bytes * bytes);  (* (key, block0 ‖ AES-decrypt block0 ‖ block1 ‖ ...) *)
  c25_tabMD5 : list (bytes * bytes);            (* (message, digest) *)
  c25_tabDH : list (bytes * bytes * option bytes) (* ((scalar, point), X25519) *)
}.

Fixpoint lookup2 {B} (tab : list (bytes * bytes * B)) (a b : bytes) (dflt : B) : B :=
  match tab with
  | [] => dflt
  | ((a', b'), v) :: r => if bytes_eqb a a' && bytes_eqb b b' then v else lookup2 r a b dflt
  end.
Fixpoint lookup1 {B} (tab : list (bytes * B)) (a : bytes) (dflt : B) : B :=
  match tab with
  | [] => dflt
  | (a', v) :: r => if bytes_eqb a a' then v else lookup1 r a dflt
  end.

(* packed (block, image) pairs of 16 + 16 bytes *)
Fixpoint lookup_packed (fuel : nat) (blob block : bytes) : bytes :=
  match fuel with
  | O => []
  | S f => match blob with
           | [] => []
           | _ => if bytes_eqb (firstn 16 blob) block then firstn 16 (skipn 16 blob)
                  else lookup_packed f (skipn 32 blob) block
           end
  end.
Definition lookup_block (tab : list (bytes * bytes)) (key block : bytes) : bytes :=
  let blob := lookup1 tab key [] in lookup_packed (length blob) blob block.

(* byte-string literal of case files: [pk len words], 7 bytes per primitive 63-bit integer,
   little-endian (string / hex literals are two orders of magnitude slower to elaborate).
   Only the primitives of PrimInt63 are used, so that case files do not load Uint63. *)
Definition word_bit (w sh : int) (v : N) : N :=
  if PrimInt63.eqb (PrimInt63.land (PrimInt63.lsr w sh) 1%uint63) 0%uint63 then 0 else v.
Definition word_byte (w sh : int) : N :=
  word_bit w sh 1 + word_bit w (PrimInt63.add sh 1%uint63) 2 + word_bit w (PrimInt63.add sh 2%uint63) 4
  + word_bit w (PrimInt63.add sh 3%uint63) 8 + word_bit w (PrimInt63.add sh 4%uint63) 16
  + word_bit w (PrimInt63.add sh 5%uint63) 32 + word_bit w (PrimInt63.add sh 6%uint63) 64
  + word_bit w (PrimInt63.add sh 7%uint63) 128.
Definition word_bytes (w : int) : bytes :=
  [word_byte w 0%uint63; word_byte w 8%uint63; word_byte w 16%uint63; word_byte w 24%uint63;
   word_byte w 32%uint63; word_byte w 40%uint63; word_byte w 48%uint63].
Definition pk (len : N) (ws : list int) : bytes :=
  firstn (N.to_nat len) (flat_map word_bytes ws).

Definition res_eqb {A} (eqb : A -> A -> bool) (x y : res A) : bool :=
  match x, y with
  | Ok a, Ok b => eqb a b
  | Err e, Err f => e =? f
  | _, _ => false
  end.
Definition keys_eqb (a b : session_keys) : bool :=
  bytes_eqb (AESKey a) (AESKey b) && bytes_eqb (AESIV a) (AESIV b).
Definition pair_eqb {A B} (ea : A -> A -> bool) (eb : B -> B -> bool) (x y : A * B) : bool :=
  ea (fst x) (fst y) && eb (snd x) (snd y).
Definition is_ok {A} (r : res A) : bool := match r with Ok _ => true | Err _ => false end.
Definition res_get {A} (r : res A) (d : A) : A := match r with Ok a => a | Err _ => d end.
Definition opt_get {A} (o : option A) (d : A) : A := match o with Some a => a | None => d end.

Section Run.
Variable aesE aesD : bytes -> bytes -> bytes.
Variable md5 : bytes -> bytes.
Variable x25519 : bytes -> bytes -> option bytes.

(* the honest SEND the client builds from what EncryptPayload / SendMsgKey returned *)
Definition honest_packet (seq : N) (msgno chid : bytes) (chtype : N) (enc mk : res bytes) : send_packet :=
  SendPkt (res_get mk []) seq msgno chid chtype (res_get enc []).

(* the model's observations for the inputs of an operation *)
Definition model_op (o : c25_op) : c25_op :=
  match o with
  | OpNeg cpriv ckey rnd cli_skey cli_iv _ _ _ =>
    let srv := NegotiateServerSession md5 x25519 ckey rnd in
    let cli := match srv with
               | Err _ => Err 0
               | Ok (skeys, spub) =>
                 DeriveClientSession md5 x25519 cpriv (opt_get cli_skey spub) (opt_get cli_iv (AESIV skeys))
               end in
    OpNeg cpriv ckey rnd cli_skey cli_iv (opt_get (x25519 cpriv X25519Basepoint) []) srv cli
  | OpEnc keys payload _ _ _ =>
    let enc := EncryptPayload aesE payload keys in
    let dec := match enc with Ok e => DecryptPayload aesD e keys | Err e => Err e end in
    OpEnc keys payload enc dec true
  | OpDec keys data _ => OpDec keys data (DecryptPayload aesD data keys)
  | OpSend keys s plain seq msgno chid chtype _ _ _ _ tampered _ _ _ =>
    let enc := EncryptPayload aesE plain keys in
    let mk := SendMsgKey aesE md5 (honest_packet seq msgno chid chtype enc (Err 0)) keys in
    let honest := honest_packet seq msgno chid chtype enc mk in
    OpSend keys s plain seq msgno chid chtype enc mk
           (ValidateSendPacket aesE md5 honest keys) (decryptSendPacketForSession aesE aesD md5 s honest)
           tampered
           (ValidateSendPacket aesE md5 tampered keys) (decryptSendPacketForSession aesE aesD md5 s tampered)
           true
  | OpRecv keys s direct pkt _ _ _ =>
    let sealed := if direct then SealRecvPacket aesE md5 pkt keys else sealRecvPacketForSession aesE md5 s pkt in
    let dec := match sealed with Ok (p, _) => DecryptPayload aesD p keys | Err _ => Err 0 end in
    OpRecv keys s direct pkt sealed dec true
  end.

End Run.

(* equality of the observation fields of two operations of the same kind *)
Definition obs_eqb (x y : c25_op) : bool :=
  match x, y with
  | OpNeg _ _ _ _ _ cpub srv cli, OpNeg _ _ _ _ _ cpub' srv' cli' =>
    bytes_eqb cpub cpub' && res_eqb (pair_eqb keys_eqb bytes_eqb) srv srv' && res_eqb keys_eqb cli cli'
  | OpEnc _ _ enc dec _, OpEnc _ _ enc' dec' _ =>
    res_eqb bytes_eqb enc enc' && res_eqb bytes_eqb dec dec'
  | OpDec _ _ dec, OpDec _ _ dec' => res_eqb bytes_eqb dec dec'
  | OpSend _ _ _ _ _ _ _ enc mk v0 a0 _ v1 a1 _, OpSend _ _ _ _ _ _ _ enc' mk' v0' a0' _ v1' a1' _ =>
    res_eqb bytes_eqb enc enc' && res_eqb bytes_eqb mk mk' && (v0 =? v0') && res_eqb bytes_eqb a0 a0'
    && (v1 =? v1') && res_eqb bytes_eqb a1 a1'
  | OpRecv _ _ _ _ sealed dec _, OpRecv _ _ _ _ sealed' dec' _ =>
    res_eqb (pair_eqb bytes_eqb bytes_eqb) sealed sealed' && res_eqb bytes_eqb dec dec'
  | _, _ => false
  end.

(* the primitives of a case are its oracle tables; a missing entry yields a value the
   implementation cannot have produced, so the case shows up as a mismatch *)
Definition C25_mismatch (c : c25_case) : bool :=
  let aesE := lookup_block (c25_tabE c) in
  let aesD := lookup_block (c25_tabD c) in
  let md5 := fun m => lookup1 (c25_tabMD5 c) m [] in
  let dh := fun a p => lookup2 (c25_tabDH c) a p None in
  negb (forallb (fun o => obs_eqb o (model_op aesE aesD md5 dh o)) (c25_ops c)).

(* ---- the property, on the implementation's observations alone --------------------------- *)

(* the session the server-side helpers read holds exactly the client's keys (a stored
   *SessionCrypto always comes from a successful NewSessionCrypto) *)
Definition sess_consistent (keys : session_keys) (s : sess) : bool :=
  match s_crypto s with
  | Some k => keys_eqb k keys && is_ok (NewSessionCrypto k)
  | None =>
    match s_key s, s_iv s with
    | Some k, Some iv => bytes_eqb k (AESKey keys) && bytes_eqb iv (AESIV keys)
    | _, _ => false
    end
  end.

Definition is_none {A} (o : option A) : bool := match o with None => true | Some _ => false end.

Definition mon_op (o : c25_op) : bool :=
  match o with
  | OpNeg cpriv ckey rnd cli_skey cli_iv cpub srv cli =>
    (* when the server accepts the client's genuine public key and the client is handed the
       server's key and salt unchanged, the client derives exactly the server's keys; the
       derived key and IV have the size NewSessionCrypto needs *)
    match srv with
    | Err _ => true
    | Ok (skeys, _) =>
      Nat.eqb (length (AESKey skeys)) 16 && Nat.eqb (length (AESIV skeys)) iv_size
      && (if bytes_eqb ckey (b64_encode cpub) && Nat.eqb (length cpub) 32 && is_none cli_skey && is_none cli_iv
          then res_eqb keys_eqb cli (Ok skeys) else true)
    end
  | OpEnc keys payload enc dec agree =>
    agree && match enc with Ok _ => res_eqb bytes_eqb dec (Ok payload) | Err _ => true end
  | OpDec _ _ _ => true
  | OpSend keys s plain seq msgno chid chtype enc mk v0 a0 tampered v1 a1 agree =>
    agree &&
    match enc, mk with
    | Ok e, Ok k =>
      let honest := SendPkt k seq msgno chid chtype e in
      let consistent := sess_consistent keys s in
      let key_same := bytes_eqb (sp_msgkey tampered) k in
      let sign_same := bytes_eqb (send_sign_bytes tampered) (send_sign_bytes honest) in
      let untouched := key_same && (sp_seq tampered =? seq) && bytes_eqb (sp_msgno tampered) msgno
                       && bytes_eqb (sp_chid tampered) chid && (sp_chtype tampered =? chtype)
                       && bytes_eqb (sp_payload tampered) e in
      (* the honest SEND is accepted and decrypts to the plaintext *)
      (v0 =? 0) && (negb consistent || res_eqb bytes_eqb a0 (Ok plain))
      (* exactly one of (message key, covered bytes) altered: rejected *)
      && (if (key_same && negb sign_same) || (negb key_same && sign_same)
          then negb (v1 =? 0) && (negb consistent || negb (is_ok a1))
          else if untouched
          then (v1 =? 0) && (negb consistent || res_eqb bytes_eqb a1 (Ok plain))
          else true)
    | _, _ => true
    end
  | OpRecv keys s direct pkt sealed dec intact =>
    intact &&
    match sealed with
    | Ok _ => negb (direct || sess_consistent keys s) || res_eqb bytes_eqb dec (Ok (rp_payload pkt))
    | Err _ => true
    end
  end.

Definition C25_monitor (c : c25_case) : N :=
  if forallb mon_op (c25_ops c) then 0 else 1.
