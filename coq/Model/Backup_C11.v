(* Model/Backup_C11.v — case-file interface of C11: the ops a harness case consists of,
   [C11_mismatch] (model of pkg/db/message / pkg/db/meta backup streams against the
   implementation) and [C11_monitor] (the property on implementation observations).
   The checksum of case evaluation is the table-driven CRC-32 of Model/Crc32.v.
   Definitions only. *)
From WK Require Import Base.Base Base.Bytes Gen.Consts_C11 Model.Crc32 Model.Backup.
Open Scope N_scope.

Definition crc (b : bytes) : N := crc32_table b.

(* per-case string table of the case files: (tb T k) is the k-th byte string of the case *)
Definition tb (T : list bytes) (k : N) : bytes := nth (N.to_nat k) T [].

Inductive mop :=
(* OpenBackupSnapshot on a store: its dump, the request, what validateBackupProposalSystemEntries
   answers on the kept entries of each cut, the stream read to the end (or the error class) *)
| MExport (src : list chan_dump) (hs : N) (cuts : list cut) (vt : valid_table) (r : res bytes)
(* ImportBackupSnapshotReader: [fresh] = the target held nothing before; dump before; the stream;
   the oracle of its sections; context budget (None = never cancelled); result; dump after *)
| MImport (fresh : bool) (before : list chan_dump) (stream : bytes) (orc : list chan_orc) (budget : option N)
          (r : res stats) (after : list chan_dump)
(* after a restore of [stream] into a fresh store: the re-export with the same cuts, and per cut
   (hw, LEO of the restored channel, RetainedMaxSeq of the source retention row or 0) *)
| MReexport (stream : bytes) (import_ok : bool) (r : res bytes) (leos : list (N * N * N))
(* the in-memory importer ImportBackupSnapshot on another fresh store: class; same physical store *)
| MImportData (stream : bytes) (import_ok : bool) (cls : N) (same : bool)
(* interrupted import (class c1) followed by a complete one (class c2) on the same store:
   is the physical store equal to that of an uninterrupted import? *)
| MRetry (c1 c2 : N) (same : bool)
(* every single-byte corruption (kind 0) / truncation (kind 1) tried on a fresh store:
   positions that were NOT rejected or left keys behind: (position, class, keys) *)
| MSweep (kind tried : N) (bad : list (N * N * N))
(* a re-sealed variant on two fresh stores: class and number of keys left by the streaming
   importer, class and keys of the in-memory importer, same physical store *)
| MResealData (c1 n1 c2 n2 : N) (same : bool).

Inductive xop :=
(* OpenHashSlotSnapshot / OpenBackupHashSlotSnapshot on a metadata store read to the end *)
| XExport (db : mdb) (slots : list N) (backup_only : bool) (r : res bytes)
(* the streaming importer; mode 0 ImportHashSlotSnapshotReader, 1 …PreservingMigrationMeta,
   2 …ForRestoreWithStats(invalidateTokens=false), 3 …(true); store before / after; budget of
   context polls; Ok = the entry count (modes 2, 3) *)
| XImport (mode : N) (before : mdb) (req : list N) (stream : bytes) (budget : option N) (r : res N) (after : mdb)
| XReexport (stream : bytes) (import_ok fresh : bool) (mode : N) (r : res bytes)
| XRetry (c1 c2 : N) (same : bool)
| XSweep (kind tried : N) (bad : list (N * N * N))
(* streaming importer (class c1) against the in-memory ImportHashSlotSnapshot (class c2) *)
| XData (c1 c2 : N) (same : bool)
(* a crafted payload (entry lengths whose sum wraps around in 64 bits) given to the in-memory
   importer on an empty store: its class, and the keys the store holds afterwards *)
| XDataReject (cls keys : N).

Inductive c11_case :=
| CaseMsg (ops : list mop)
| CaseMeta (ops : list xop).

(* ---- model against implementation ---------------------------------------------------- *)
Definition mstep_mismatch (o : mop) : bool :=
  negb match o with
  | MExport src hs cuts vt r => res_eqb bytes_eqb (export_msg crc vt src hs cuts) r
  | MImport _ before stream orc budget r after =>
    let '(tgt', r') := import_reader crc budget orc stream before in
    res_eqb stats_eqb r' r && dumps_eqb tgt' after
  | _ => true
  end.

(* ---- the property on observations ------------------------------------------------------ *)

(* an exported stream is sealed, well framed with nothing left over, and holds, per channel,
   strictly increasing sequences none of which is above the cut *)
Fixpoint rows_within (hw prev : N) (rows : list raw_row) : bool :=
  match rows with
  | [] => true
  | r :: rest => (prev <? rr_seq r) && (rr_seq r <=? hw) && rows_within hw (rr_seq r) rest
  end.
Definition stream_ok (stream : bytes) : bool :=
  match verify_checksum crc stream with
  | Err _ => false
  | Ok p => match dec_msg_payload p with
            | Some (s, []) => forallb (fun c => rows_within (ckpt_hw (rc_ckpt c)) 0 (rc_rows c)
                                                && (N.of_nat (length (rc_rows c)) =? rc_count c)) (rs_chans s)
            | _ => false
            end
  end.

Fixpoint list_eqb2 {A B} (eqb : A -> B -> bool) (a : list A) (b : list B) : bool :=
  match a, b with
  | [], [] => true
  | x :: a', y :: b' => eqb x y && list_eqb2 eqb a' b'
  | _, _ => false
  end.

(* the restored channel is exactly the section (entries in key order, later duplicates win) *)
Definition restored_is (c : raw_chan) (d : chan_dump) : bool :=
  option_eqb (fun x y => bytes_eqb (fst x) (fst y) && (snd x =? snd y)) (ch_cat d) (Some (rc_id c, rc_type c))
  && option_eqb bytes_eqb (ch_ckpt d) (Some (rc_ckpt c))
  && list_eqb sys_kv_eqb (ch_sys d) (fold_left (fun l e => put_sys (fst e) (snd e) l) (rc_sys c) [])
  && list_eqb2 (fun r x => (rw_seq r =? rr_seq x) && bytes_eqb (rw_header r) (rr_header x)) (ch_rows d) (rc_rows c).

Definition all_empty (ds : list chan_dump) : bool := forallb dump_is_empty ds.

Fixpoint first_nonzero (l : list N) : N := match l with [] => 0 | 0 :: r => first_nonzero r | c :: _ => c end.

Definition mstep_monitor (o : mop) : N :=
  match o with
  | MExport _ _ _ _ (Ok stream) => if stream_ok stream then 0 else 1
  | MImport fresh before stream _ budget r after =>
    match r with
    | Err e =>
      (* a rejected stream leaves a fresh target untouched (a cancelled context is a crash, not a rejection) *)
      if fresh && all_empty before && negb (e =? EOther) && negb (all_empty after) then 1 else 0
    | Ok st =>
      (* an accepted stream on a fresh target yields exactly its sections *)
      if fresh && all_empty before then
        match verify_checksum crc stream with
        | Ok p => match dec_msg_payload p with
                  | Some (s, []) =>
                    if forallb (fun c => restored_is c (find_dump (rc_key c) after)) (rs_chans s)
                       && (N.of_nat (length (filter (fun d => negb (dump_is_empty d)) after)) <=? N.of_nat (length (rs_chans s)))
                       && (st_messages st =? fold_left (fun a c => a + rc_count c) (rs_chans s) 0)
                    then 0 else 1
                  | _ => 1
                  end
        | Err _ => 1
        end
      else 0
    end
  | MReexport stream import_ok r leos =>
    if negb import_ok then 0
    else match r with
         | Err _ => 1
         | Ok s2 =>
           if negb (bytes_eqb s2 stream) then 1
           else
             (* nothing above the committed watermark: the restored log ends at hw.
                Known finding C11-K1 (code 2): the retention row copied from the source carries a
                RetainedMaxSeq above the cut, and the restored log end is that value *)
             first_nonzero (map (fun t => match t with (hw, leo, retained) =>
                                            if leo =? hw then 0
                                            else if (hw <? retained) && (leo =? retained) then 2 else 1 end) leos)
         end
  | MImportData _ import_ok cls same =>
    if import_ok then (if (cls =? 0) && same then 0 else 1) else 0
  | MRetry c1 c2 same => if (c2 =? 0) && same then 0 else 1
  | MSweep _ _ bad => match bad with [] => 0 | _ => 1 end
  | MResealData c1 n1 c2 n2 same =>
    if negb (c1 =? 0) && negb (n1 =? 0) then 1
    else if negb (c2 =? 0) && negb (n2 =? 0) then 3       (* the in-memory importer applied a rejected stream partially *)
    else if (c1 =? 0) && (c2 =? 0) && negb same then 1
    else 0
  | _ => 0
  end.

(* ---- metadata ---------------------------------------------------------------------------- *)
Definition xstep_mismatch (o : xop) : bool :=
  negb match o with
  | XExport db slots backup_only r => res_eqb bytes_eqb (export_meta crc db slots backup_only) r
  | XImport mode before req stream budget r after =>
    let '(db', r') := import_meta crc budget req (1 <=? mode) (mode =? 3) stream before in
    res_eqb (fun a b => (mode <? 2) || (a =? b)) r' r && mdb_eqb db' after
  | _ => true
  end.

Definition meta_stream_ok (slots : list N) (backup_only : bool) (stream : bytes) : bool :=
  match verify_meta_checksum crc stream with
  | Err _ => false
  | Ok p => match dec_meta_payload p with
            | Some (s, []) =>
              list_eqb N.eqb (rm_slots s) (normalize_slots slots)
              && (N.of_nat (length (rm_entries s)) =? rm_count s)
              && forallb (fun e => in_slots (rm_slots s) (fst e)
                                   && (negb backup_only || existsb (fun hs => in_spans (backup_spans hs) (fst e)) (rm_slots s)))
                         (rm_entries s)
            | _ => false
            end
  end.

(* the stream is sealed, framed, addressed to the requested hash slots, every key lies in them,
   and some user / device row has a value without a length-prefixed token *)
Definition k4_signature (req : list N) (stream : bytes) : bool :=
  match verify_meta_checksum crc stream with
  | Err _ => false
  | Ok p => match dec_meta_payload p with
            | Some (s, []) =>
              list_eqb N.eqb (rm_slots s) (normalize_slots req)
              && forallb (fun e => in_slots (rm_slots s) (fst e)) (rm_entries s)
              && existsb (fun e => negb (is_ok (invalidate_token (rm_slots s) (fst e) (snd e)))) (rm_entries s)
            | _ => false
            end
  end.

Definition xstep_monitor (o : xop) : N :=
  match o with
  | XExport _ slots backup_only (Ok stream) => if meta_stream_ok slots backup_only stream then 0 else 1
  | XImport mode before req stream budget r after =>
    match r with
    | Err e =>
      (* rejected: untouched.  Known finding C11-K4 (code 4): with token invalidation the values of
         user / device rows are decoded only after the delete batch was committed *)
      if (e =? EOther) || mdb_eqb after before then 0
      else if (mode =? 3) && (e =? ECorruptValue) && k4_signature req stream then 4
      else 1
    | Ok _ =>
      (* accepted: sealed, completely framed, addressed to exactly the requested hash slots,
         every key inside them (c11_meta_accepts_only_framed) *)
      match verify_meta_checksum crc stream with
      | Ok p => match dec_meta_payload p with
                | Some (s, []) =>
                  if negb (list_eqb N.eqb (rm_slots s) (normalize_slots req)
                           && forallb (fun e => in_slots (normalize_slots req) (fst e)) (rm_entries s)) then 1
                  else match before with
                  | [] =>
                    (* into an empty store: exactly the entries of the stream (tokens cleared in mode 3) *)
                    let want := fold_left (fun d e =>
                                  match (if mode =? 3 then invalidate_token (rm_slots s) (fst e) (snd e) else Ok (snd e)) with
                                  | Ok v => mdb_set (fst e) v d
                                  | Err _ => d
                                  end) (rm_entries s) [] in
                    if mdb_eqb after want then 0 else 1
                  | _ => 0
                  end
                | _ => 1
                end
      | Err _ => 1
      end
    end
  | XReexport stream import_ok fresh mode r =>
    if import_ok && fresh && negb (mode =? 3)
    then match r with Ok s2 => if bytes_eqb s2 stream then 0 else 1 | Err _ => 1 end
    else 0
  | XRetry c1 c2 same => if (c2 =? 0) && same then 0 else 1
  | XSweep _ _ bad => match bad with [] => 0 | _ => 1 end
  | XData c1 c2 same => if c1 =? 0 then (if (c2 =? 0) && same then 0 else 1) else 0
  | XDataReject cls keys => if negb (cls =? 0) && (keys =? 0) then 0 else 1
  | _ => 0
  end.

(* the code of a case: 1 as soon as any op violates the property; otherwise the first
   known-finding code met (0 when every op holds) *)
Fixpoint first_code {A} (f : A -> N) (l : list A) : N :=
  match l with
  | [] => 0
  | x :: r => match f x with
              | 0 => first_code f r
              | 1 => 1
              | c => match first_code f r with 1 => 1 | _ => c end
              end
  end.

Definition C11_mismatch (c : c11_case) : bool :=
  match c with
  | CaseMsg ops => existsb mstep_mismatch ops
  | CaseMeta ops => existsb xstep_mismatch ops
  end.
Definition C11_monitor (c : c11_case) : N :=
  match c with
  | CaseMsg ops => first_code mstep_monitor ops
  | CaseMeta ops => first_code xstep_monitor ops
  end.
