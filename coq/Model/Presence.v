(* Model/Presence.v — internal/runtime/presence/{directory,expiry_index,types}.go.

   One Gallina definition per Go function, same names.  Go maps are association
   lists (the al_get / al_set / al_del of Model/AckTracker.v).  The directory's
   shards partition hash slots and every call holds the lock of the shard of the
   hash slot it addresses, so the model keeps ONE map hashSlot -> authoritySlot.

   Expiry index.  expiryByKey : identity -> bucket and the buckets
   (expiryBySeen, the container/heap of buckets ordered by activity second) are
   modelled as ONE map identity -> activity second: a bucket is the set of
   identities with the same second, the heap minimum is the least second.
   expireLocked pops buckets while "second + ttl < now", i.e. removes exactly the
   indexed identities with a due second (the due test is monotone in the second).

   Pending tokens are the decimal rendering of a per-slot counter; they are the
   counter values here (the harness numbers token strings per hash slot by first
   occurrence).

   Definitions only; proofs are in Proof/Presence*.v. *)
From WK Require Import Base.Base Gen.Consts_C33.
From WK Require Model.AckTracker.
Open Scope N_scope.

Notation al_get := AckTracker.al_get.
Notation al_set := AckTracker.al_set.
Notation al_del := AckTracker.al_del.

(* ---- types.go --------------------------------------------------------------------- *)
Definition ikey := (N * N * N * N)%type.   (* identityKey: uid, ownerNodeID, ownerBootID, sessionID *)
Definition ikey_eqb (a b : ikey) : bool :=
  let '(a1, a2, a3, a4) := a in let '(b1, b2, b3, b4) := b in
  (a1 =? b1) && (a2 =? b2) && (a3 =? b3) && (a4 =? b4).

Record route := Rt {
  r_uid : N; r_node : N; r_boot : N; r_oseq : N; r_sess : N; r_dev : N; r_flag : N; r_level : N;
  r_lis : N; r_conn : Z; r_seen : Z }.
Definition zero_route : route := Rt 0 0 0 0 0 0 0 0 0 0%Z 0%Z.
Definition route_eqb (a b : route) : bool :=
  (r_uid a =? r_uid b) && (r_node a =? r_node b) && (r_boot a =? r_boot b) && (r_oseq a =? r_oseq b)
  && (r_sess a =? r_sess b) && (r_dev a =? r_dev b) && (r_flag a =? r_flag b) && (r_level a =? r_level b)
  && (r_lis a =? r_lis b) && (r_conn a =? r_conn b)%Z && (r_seen a =? r_seen b)%Z.
Definition set_seen (r : route) (s : Z) : route :=
  Rt (r_uid r) (r_node r) (r_boot r) (r_oseq r) (r_sess r) (r_dev r) (r_flag r) (r_level r) (r_lis r) (r_conn r) s.

Record target := Tg {
  g_hs : N; g_slot : N; g_leader : N; g_term : N; g_epoch : N; g_rev : N; g_aepoch : N }.
Definition target_eqb (a b : target) : bool :=
  (g_hs a =? g_hs b) && (g_slot a =? g_slot b) && (g_leader a =? g_leader b) && (g_term a =? g_term b)
  && (g_epoch a =? g_epoch b) && (g_rev a =? g_rev b) && (g_aepoch a =? g_aepoch b).

Inductive err := EOk | ENotLeader | EStale | ENotReady.
Definition err_eqb (a b : err) : bool :=
  match a, b with
  | EOk, EOk | ENotLeader, ENotLeader | EStale, EStale | ENotReady, ENotReady => true
  | _, _ => false
  end.

(* RouteAction: Kind is "close" or "kick_then_close"; Reason and DelayMS are constants *)
Record action := Act { a_uid : N; a_node : N; a_boot : N; a_sess : N; a_kick : bool }.
Definition action_eqb (a b : action) : bool :=
  (a_uid a =? a_uid b) && (a_node a =? a_node b) && (a_boot a =? a_boot b) && (a_sess a =? a_sess b)
  && Bool.eqb (a_kick a) (a_kick b).

(* ---- directory.go ------------------------------------------------------------------ *)
Record slot := Slot {
  sl_target : target;
  sl_active : list (ikey * route);
  sl_byUID : list (N * list ikey);
  sl_pending : list (N * (route * list ikey));
  sl_ownerSeq : list (ikey * N);
  sl_tomb : list (ikey * N);
  sl_expiry : list (ikey * Z);          (* expiryByKey: identity -> bucket second *)
  sl_nextID : N }.

Record directory := Dir {
  d_local : N;                           (* localNodeID *)
  d_slots : list (N * slot);
  d_touch : N;                           (* touchRoutesTotal *)
  d_expired : N }.                       (* expiredRoutesTotal *)

Definition NewDirectory (localNode : N) : directory := Dir localNode [] 0 0.

Definition newAuthoritySlot (g : target) : slot := Slot g [] [] [] [] [] [] 0.

Definition sameAuthorityIdentity (l r : target) : bool :=
  (g_hs l =? g_hs r) && (g_slot l =? g_slot r) && (g_leader l =? g_leader r)
  && (g_term l =? g_term r) && (g_epoch l =? g_epoch r).

Definition makeRouteIdentityKey (r : route) : ikey := (r_uid r, r_node r, r_boot r, r_sess r).

Definition lessIdentityKey (l r : ikey) : bool :=
  let '(lu, ln, lb, ls) := l in let '(ru, rn, rb, rs) := r in
  if negb (lu =? ru) then lu <? ru
  else if negb (ls =? rs) then ls <? rs
  else if negb (ln =? rn) then ln <? rn
  else if negb (lb =? rb) then lb <? rb
  else false.

(* sort.Slice on pairwise distinct keys of a strict total order: insertion sort *)
Fixpoint insert_by {A} (lt : A -> A -> bool) (x : A) (l : list A) : list A :=
  match l with
  | [] => [x]
  | y :: r => if lt x y then x :: l else y :: insert_by lt x r
  end.
Fixpoint sort_by {A} (lt : A -> A -> bool) (l : list A) : list A :=
  match l with
  | [] => []
  | x :: r => insert_by lt x (sort_by lt r)
  end.

Definition sortRoutes (rs : list route) : list route :=
  sort_by (fun a b => lessIdentityKey (makeRouteIdentityKey a) (makeRouteIdentityKey b)) rs.

Definition normalizeRouteSeen (r : route) : route :=
  if (r_seen r =? 0)%Z then set_seen r (r_conn r) else r.

Definition routeSeenUnix (r : route) : Z :=
  if negb (r_seen r =? 0)%Z then r_seen r else r_conn r.

Definition conflicts (incoming existing : route) : bool :=
  if negb (r_uid incoming =? r_uid existing) || negb (r_flag incoming =? r_flag existing) then false
  else if r_level incoming =? device_level_master then true
  else if r_level incoming =? device_level_slave then r_dev incoming =? r_dev existing
  else false.

Definition actionForReplacement (incoming existing : route) : action :=
  Act (r_uid existing) (r_node existing) (r_boot existing) (r_sess existing)
      ((r_level incoming =? device_level_master) && negb (r_dev incoming =? r_dev existing)).

Definition seq_of (k : ikey) (m : list (ikey * N)) : N :=
  match al_get ikey_eqb k m with Some v => v | None => 0 end.
Definition active_of (k : ikey) (s : slot) : route :=
  match al_get ikey_eqb k (sl_active s) with Some r => r | None => zero_route end.
Definition uid_keys (uid : N) (s : slot) : list ikey :=
  match al_get N.eqb uid (sl_byUID s) with Some ks => ks | None => [] end.

Definition with_active (s : slot) act by_ ex : slot :=
  Slot (sl_target s) act by_ (sl_pending s) (sl_ownerSeq s) (sl_tomb s) ex (sl_nextID s).

(* expiry_index.go *)
Definition unscheduleExpiryLocked (ex : list (ikey * Z)) (k : ikey) : list (ikey * Z) := al_del ikey_eqb k ex.
Definition scheduleExpiryLocked (ex : list (ikey * Z)) (k : ikey) (r : route) : list (ikey * Z) :=
  let ex' := unscheduleExpiryLocked ex k in
  if (routeSeenUnix r =? 0)%Z then ex' else al_set ikey_eqb k (routeSeenUnix r) ex'.

Definition mem_key (k : ikey) (ks : list ikey) : bool := existsb (ikey_eqb k) ks.
Definition add_key (k : ikey) (ks : list ikey) : list ikey := if mem_key k ks then ks else ks ++ [k].
Definition del_key (k : ikey) (ks : list ikey) : list ikey := filter (fun x => negb (ikey_eqb x k)) ks.

Definition removeActiveLocked (s : slot) (k : ikey) (r : route) : slot :=
  let by_ := match al_get N.eqb (r_uid r) (sl_byUID s) with
             | None => sl_byUID s
             | Some ks => match del_key k ks with
                          | [] => al_del N.eqb (r_uid r) (sl_byUID s)
                          | ks' => al_set N.eqb (r_uid r) ks' (sl_byUID s)
                          end
             end in
  with_active s (al_del ikey_eqb k (sl_active s)) by_ (unscheduleExpiryLocked (sl_expiry s) k).

Definition upsertActiveLocked (s : slot) (r0 : route) : slot :=
  let r := normalizeRouteSeen r0 in
  let k := makeRouteIdentityKey r in
  let s1 := match al_get ikey_eqb k (sl_active s) with
            | Some existing => removeActiveLocked s k existing
            | None => s
            end in
  with_active s1 (al_set ikey_eqb k r (sl_active s1))
              (al_set N.eqb (r_uid r) (add_key k (uid_keys (r_uid r) s1)) (sl_byUID s1))
              (scheduleExpiryLocked (sl_expiry s1) k r).

Definition conflictsLocked (s : slot) (r : route) : list ikey :=
  let incoming := makeRouteIdentityKey r in
  sort_by lessIdentityKey
          (filter (fun k => negb (ikey_eqb k incoming) && conflicts r (active_of k s)) (uid_keys (r_uid r) s)).

Definition tombstoned (s : slot) (k : ikey) (oseq : N) : bool :=
  match al_get ikey_eqb k (sl_tomb s) with Some t => oseq <=? t | None => false end.

Definition set_ownerSeq (s : slot) (k : ikey) (v : N) : slot :=
  Slot (sl_target s) (sl_active s) (sl_byUID s) (sl_pending s) (al_set ikey_eqb k v (sl_ownerSeq s)) (sl_tomb s)
       (sl_expiry s) (sl_nextID s).
Definition set_pending (s : slot) (p : list (N * (route * list ikey))) (next : N) : slot :=
  Slot (sl_target s) (sl_active s) (sl_byUID s) p (sl_ownerSeq s) (sl_tomb s) (sl_expiry s) next.

(* registerLocked: (slot, error, pending token (0 = none), actions) *)
Definition registerLocked (s : slot) (r0 : route) : slot * err * N * list action :=
  let k := makeRouteIdentityKey r0 in
  if tombstoned s k (r_oseq r0) then (s, EStale, 0, [])
  else if r_oseq r0 <? seq_of k (sl_ownerSeq s) then (s, EStale, 0, [])
  else
    let s1 := set_ownerSeq s k (r_oseq r0) in
    let r := normalizeRouteSeen r0 in
    match conflictsLocked s1 r with
    | [] => (upsertActiveLocked s1 r, EOk, 0, [])
    | cks =>
      let token := sl_nextID s1 + 1 in
      (set_pending s1 (al_set N.eqb token (r, cks) (sl_pending s1)) token, EOk, token,
       map (fun ck => actionForReplacement r (active_of ck s1)) cks)
    end.

Fixpoint remove_conflicts (s : slot) (cks : list ikey) : slot :=
  match cks with
  | [] => s
  | k :: rest =>
    match al_get ikey_eqb k (sl_active s) with
    | Some existing => remove_conflicts (removeActiveLocked s k existing) rest
    | None => remove_conflicts s rest
    end
  end.

Definition commitRouteLocked (s : slot) (token : N) : slot * err :=
  match al_get N.eqb token (sl_pending s) with
  | None => (s, ENotReady)
  | Some (r, acked) =>
    let k := makeRouteIdentityKey r in
    let drop := set_pending s (al_del N.eqb token (sl_pending s)) (sl_nextID s) in
    if tombstoned s k (r_oseq r) then (drop, EStale)
    else if r_oseq r <? seq_of k (sl_ownerSeq s) then (drop, EStale)
    else if negb (forallb (fun ck => mem_key ck acked) (conflictsLocked s r)) then (s, ENotReady)
    else
      let s1 := remove_conflicts s acked in
      let s2 := upsertActiveLocked s1 r in
      (set_pending s2 (al_del N.eqb token (sl_pending s2)) (sl_nextID s2), EOk)
  end.

Definition touchLocked (s : slot) (r0 : route) : slot :=
  if r_uid r0 =? 0 then s
  else
    let k := makeRouteIdentityKey r0 in
    if tombstoned s k (r_oseq r0) then s
    else if r_oseq r0 <? seq_of k (sl_ownerSeq s) then s
    else
      let s1 := set_ownerSeq s k (r_oseq r0) in
      let r := normalizeRouteSeen r0 in
      match al_get ikey_eqb k (sl_active s1) with
      | Some existing =>
        upsertActiveLocked s1 (if (r_seen r <? r_seen existing)%Z then set_seen r (r_seen existing) else r)
      | None =>
        match conflictsLocked s1 r with
        | [] => upsertActiveLocked s1 r
        | _ => s1
        end
      end.

(* the unregister fence of an identity only moves up; it is recorded for every
   sequence, zero included (tombstone, ok := ...; !ok || ownerSeq > tombstone) *)
Definition raise_fence (m : list (ikey * N)) (k : ikey) (q : N) : list (ikey * N) :=
  match al_get ikey_eqb k m with
  | Some t => if t <? q then al_set ikey_eqb k q m else m
  | None => al_set ikey_eqb k q m
  end.

Definition unregisterLocked (s : slot) (k : ikey) (oseq : N) : slot :=
  let tomb := raise_fence (sl_tomb s) k oseq in
  let oseqs := if seq_of k (sl_ownerSeq s) <? oseq then al_set ikey_eqb k oseq (sl_ownerSeq s) else sl_ownerSeq s in
  let s1 := Slot (sl_target s) (sl_active s) (sl_byUID s) (sl_pending s) oseqs tomb (sl_expiry s) (sl_nextID s) in
  let s2 := match al_get ikey_eqb k (sl_active s1) with
            | Some existing => if r_oseq existing <=? oseq then removeActiveLocked s1 k existing else s1
            | None => s1
            end in
  set_pending s2
    (filter (fun tp => negb (ikey_eqb (makeRouteIdentityKey (fst (snd tp))) k && (r_oseq (fst (snd tp)) <=? oseq)))
            (sl_pending s2))
    (sl_nextID s2).

(* time.Unix(seen,0).Add(ttl).Before(time.Unix(nowS, nowN)) *)
Definition deadline_before (seen ttl nowS nowN : Z) : bool :=
  (seen * c33_time_second + ttl <? nowS * c33_time_second + nowN)%Z.

Fixpoint nodup_Z (l : list Z) : list Z :=
  match l with
  | [] => []
  | x :: r => if existsb (Z.eqb x) r then nodup_Z r else x :: nodup_Z r
  end.

Fixpoint expire_keys (s : slot) (due : list (ikey * Z)) : slot * Z :=
  match due with
  | [] => (s, 0%Z)
  | (k, _) :: rest =>
    (* delete(expiryByKey, key); route, ok := active[key]; removeActiveLocked *)
    let s0 := with_active s (sl_active s) (sl_byUID s) (al_del ikey_eqb k (sl_expiry s)) in
    match al_get ikey_eqb k (sl_active s0) with
    | Some r => let '(s', n) := expire_keys (removeActiveLocked s0 k r) rest in (s', (n + 1)%Z)
    | None => expire_keys s0 rest
    end
  end.

(* ExpireResult: Expired, DueBuckets, Examined, IndexRoutes, IndexBuckets *)
Definition expireLocked (s : slot) (nowS nowN ttl : Z) : slot * (Z * Z * Z * Z * Z) :=
  let enabled := (0 <? ttl)%Z && negb ((nowS =? zero_time_unix)%Z && (nowN =? 0)%Z) in
  let due := if enabled then filter (fun ke => deadline_before (snd ke) ttl nowS nowN) (sl_expiry s) else [] in
  let '(s', expired) := expire_keys s due in
  (s', (expired, Z.of_nat (length (nodup_Z (map snd due))), Z.of_nat (length due),
        Z.of_nat (length (sl_expiry s')), Z.of_nat (length (nodup_Z (map snd (sl_expiry s')))))).

Definition endpointsByUIDLocked (s : slot) (uid : N) : list route :=
  sortRoutes (flat_map (fun k => match al_get ikey_eqb k (sl_active s) with Some r => [r] | None => [] end)
                       (uid_keys uid s)).

(* ---- Directory API ------------------------------------------------------------------- *)
Definition validateTargetLocked (d : directory) (g : target) : option slot :=
  if negb (d_local d =? 0) && negb (g_leader g =? d_local d) then None
  else match al_get N.eqb (g_hs g) (d_slots d) with
       | Some s => if sameAuthorityIdentity (sl_target s) g then Some s else None
       | None => None
       end.

Definition put_slot (d : directory) (hs : N) (s : slot) : directory :=
  Dir (d_local d) (al_set N.eqb hs s (d_slots d)) (d_touch d) (d_expired d).

Definition with_target (s : slot) (g : target) : slot :=
  Slot g (sl_active s) (sl_byUID s) (sl_pending s) (sl_ownerSeq s) (sl_tomb s) (sl_expiry s) (sl_nextID s).

Definition BecomeAuthority (d : directory) (g : target) : directory :=
  match al_get N.eqb (g_hs g) (d_slots d) with
  | Some cur =>
    if sameAuthorityIdentity (sl_target cur) g
    then if g_rev (sl_target cur) <=? g_rev g then put_slot d (g_hs g) (with_target cur g) else d
    else put_slot d (g_hs g) (newAuthoritySlot g)
  | None => put_slot d (g_hs g) (newAuthoritySlot g)
  end.

Definition LoseAuthority (d : directory) (hs : N) : directory :=
  Dir (d_local d) (al_del N.eqb hs (d_slots d)) (d_touch d) (d_expired d).

Definition RegisterRoute (d : directory) (g : target) (r : route) : directory * err * N * list action :=
  match validateTargetLocked d g with
  | None => (d, ENotLeader, 0, [])
  | Some s => let '(s', e, tok, acts) := registerLocked s r in (put_slot d (g_hs g) s', e, tok, acts)
  end.

Definition CommitRoute (d : directory) (g : target) (token : N) : directory * err :=
  match validateTargetLocked d g with
  | None => (d, ENotLeader)
  | Some s => let '(s', e) := commitRouteLocked s token in (put_slot d (g_hs g) s', e)
  end.

Definition AbortRoute (d : directory) (g : target) (token : N) : directory * err :=
  match validateTargetLocked d g with
  | None => (d, ENotLeader)
  | Some s =>
    match al_get N.eqb token (sl_pending s) with
    | None => (d, ENotReady)
    | Some _ => (put_slot d (g_hs g) (set_pending s (al_del N.eqb token (sl_pending s)) (sl_nextID s)), EOk)
    end
  end.

Definition UnregisterRoute (d : directory) (g : target) (k : ikey) (oseq : N) : directory * err :=
  match validateTargetLocked d g with
  | None => (d, ENotLeader)
  | Some s => (put_slot d (g_hs g) (unregisterLocked s k oseq), EOk)
  end.

Definition TouchRoutes (d : directory) (g : target) (rs : list route) : directory * err :=
  match validateTargetLocked d g with
  | None => (d, ENotLeader)
  | Some s =>
    let d' := put_slot d (g_hs g) (fold_left touchLocked rs s) in
    (Dir (d_local d') (d_slots d') (wrap64 (d_touch d' + N.of_nat (length rs))) (d_expired d'), EOk)
  end.

Definition add5 (a b : Z * Z * Z * Z * Z) : Z * Z * Z * Z * Z :=
  let '(a1, a2, a3, a4, a5) := a in let '(b1, b2, b3, b4, b5) := b in
  (a1 + b1, a2 + b2, a3 + b3, a4 + b4, a5 + b5)%Z.

Fixpoint expire_slots (slots : list (N * slot)) (nowS nowN ttl : Z) : list (N * slot) * (Z * Z * Z * Z * Z) :=
  match slots with
  | [] => ([], (0, 0, 0, 0, 0)%Z)
  | (hs, s) :: rest =>
    let '(s', r1) := expireLocked s nowS nowN ttl in
    let '(rest', r2) := expire_slots rest nowS nowN ttl in
    ((hs, s') :: rest', add5 r1 r2)
  end.

Definition ExpireRoutesDetailed (d : directory) (nowS nowN ttl : Z) : directory * (Z * Z * Z * Z * Z) :=
  let '(slots', res) := expire_slots (d_slots d) nowS nowN ttl in
  let '(expired, _, _, _, _) := res in
  (Dir (d_local d) slots' (d_touch d)
       (if (0 <? expired)%Z then wrap64 (d_expired d + Z.to_N expired) else d_expired d), res).

Definition EndpointsByUID (d : directory) (g : target) (uid : N) : err * list route :=
  match validateTargetLocked d g with
  | None => (ENotLeader, [])
  | Some s => (EOk, endpointsByUIDLocked s uid)
  end.

Definition EndpointsByUIDs (d : directory) (g : target) (uids : list N) : err * list route :=
  match validateTargetLocked d g with
  | None => (ENotLeader, [])
  | Some s => (EOk, flat_map (endpointsByUIDLocked s) uids)
  end.

Definition EndpointsByTargets (d : directory) (groups : list (target * list N)) : list (err * list route) :=
  map (fun g => EndpointsByUIDs d (fst g) (snd g)) groups.

(* Snapshot: Active, ByHashSlot (non-empty slots), totals, index sizes *)
Definition Snapshot (d : directory) : Z * list (N * Z) * N * N * Z * Z :=
  let counts := map (fun hs_s => (fst hs_s, Z.of_nat (length (sl_active (snd hs_s))))) (d_slots d) in
  (fold_left Z.add (map snd counts) 0%Z,
   filter (fun c => (0 <? snd c)%Z) counts,
   d_touch d, d_expired d,
   fold_left Z.add (map (fun hs_s => Z.of_nat (length (sl_expiry (snd hs_s)))) (d_slots d)) 0%Z,
   fold_left Z.add (map (fun hs_s => Z.of_nat (length (nodup_Z (map snd (sl_expiry (snd hs_s)))))) (d_slots d)) 0%Z).

(* ---- histories ------------------------------------------------------------------------- *)
Inductive op :=
| OBecome (g : target)
| OLose (hs : N)
| ORegister (g : target) (r : route)
| OCommit (g : target) (tok : N)
| OAbort (g : target) (tok : N)
| OUnregister (g : target) (k : ikey) (oseq : N)
| OTouch (g : target) (rs : list route)
| OExpire (nowS nowN ttl : Z)
| OLookup (g : target) (uids : list N)
| OLookup1 (g : target) (uid : N)
| OLookupT (groups : list (target * list N))
| OSnapshot.

Inductive out :=
| RUnit
| RErr (e : err)
| RRegister (e : err) (tok : N) (acts : list action)
| RExpire (expired due examined idxroutes idxbuckets : Z)
| RRoutes (e : err) (rs : list route)
| RGroups (l : list (err * list route))
| RSnap (active : Z) (byhs : list (N * Z)) (touch expired : N) (idxroutes idxbuckets : Z).

Definition step (d : directory) (o : op) : directory * out :=
  match o with
  | OBecome g => (BecomeAuthority d g, RUnit)
  | OLose hs => (LoseAuthority d hs, RUnit)
  | ORegister g r => let '(d', e, tok, acts) := RegisterRoute d g r in (d', RRegister e tok acts)
  | OCommit g tok => let '(d', e) := CommitRoute d g tok in (d', RErr e)
  | OAbort g tok => let '(d', e) := AbortRoute d g tok in (d', RErr e)
  | OUnregister g k oseq => let '(d', e) := UnregisterRoute d g k oseq in (d', RErr e)
  | OTouch g rs => let '(d', e) := TouchRoutes d g rs in (d', RErr e)
  | OExpire nowS nowN ttl =>
    let '(d', (a, b, c, e, f)) := ExpireRoutesDetailed d nowS nowN ttl in (d', RExpire a b c e f)
  | OLookup g uids => let '(e, rs) := EndpointsByUIDs d g uids in (d, RRoutes e rs)
  | OLookup1 g uid => let '(e, rs) := EndpointsByUID d g uid in (d, RRoutes e rs)
  | OLookupT groups => (d, RGroups (EndpointsByTargets d groups))
  | OSnapshot => let '(a, b, c, e, f, g) := Snapshot d in (d, RSnap a b c e f g)
  end.

(* the active routes of every installed slot, as the harness reads them through
   the export: hash slot, identity, owner sequence, activity second *)
Definition brief := (N * ikey * N * Z)%type.
Definition active_brief (d : directory) : list brief :=
  flat_map (fun hs_s => map (fun kr => (fst hs_s, fst kr, r_oseq (snd kr), r_seen (snd kr))) (sl_active (snd hs_s)))
           (d_slots d).

Fixpoint run (d : directory) (ops : list op) : directory * list (op * out * list brief) :=
  match ops with
  | [] => (d, [])
  | o :: rest => let '(d1, r) := step d o in
                 let '(d', tr) := run d1 rest in
                 (d', (o, r, active_brief d1) :: tr)
  end.

(* ==== the property on observations ======================================================
   The monitor reads the trace (op, result, active routes after the call); [None]
   in the case file means "the active routes did not change". *)

(* installed authority identities, tracked from the become / lose calls alone:
   hash slot -> the target that was accepted *)
Definition auth := list (N * target).
Definition auth_step (a : auth) (o : op) : auth :=
  match o with
  | OBecome g =>
    match al_get N.eqb (g_hs g) a with
    | Some cur => if sameAuthorityIdentity cur g
                  then if g_rev cur <=? g_rev g then al_set N.eqb (g_hs g) g a else a
                  else al_set N.eqb (g_hs g) g a
    | None => al_set N.eqb (g_hs g) g a
    end
  | OLose hs => al_del N.eqb hs a
  | _ => a
  end.
Definition accepted (localNode : N) (a : auth) (g : target) : bool :=
  (if negb (localNode =? 0) && negb (g_leader g =? localNode) then false else true)
  && match al_get N.eqb (g_hs g) a with Some cur => sameAuthorityIdentity cur g | None => false end.

(* unregister fences of the current tenure: hash slot -> identity -> highest accepted sequence *)
Definition tombs := list (N * list (ikey * N)).
Definition tomb_of (tb : tombs) (hs : N) : list (ikey * N) :=
  match al_get N.eqb hs tb with Some m => m | None => [] end.
Definition tomb_step (localNode : N) (a : auth) (tb : tombs) (o : op) : tombs :=
  match o with
  | OBecome g =>
    match al_get N.eqb (g_hs g) a with
    | Some cur => if sameAuthorityIdentity cur g then tb else al_del N.eqb (g_hs g) tb  (* fresh identity: new tenure *)
    | None => al_del N.eqb (g_hs g) tb
    end
  | OLose hs => al_del N.eqb hs tb
  | OUnregister g k oseq =>
    if accepted localNode a g
    then al_set N.eqb (g_hs g) (raise_fence (tomb_of tb (g_hs g)) k oseq) tb
    else tb
  | _ => tb
  end.

Definition brief_eqb (x y : brief) : bool :=
  let '(h1, k1, s1, z1) := x in let '(h2, k2, s2, z2) := y in
  (h1 =? h2) && ikey_eqb k1 k2 && (s1 =? s2) && (z1 =? z2)%Z.
Definition brief_mem (x : brief) (l : list brief) : bool := existsb (brief_eqb x) l.
Definition brief_same (a b : list brief) : bool :=
  Nat.eqb (length a) (length b) && forallb (fun x => brief_mem x b) a && forallb (fun x => brief_mem x a) b.

(* no two active routes of one hash slot share an identity *)
Fixpoint brief_keys_nodup (l : list brief) : bool :=
  match l with
  | [] => true
  | (h, k, _, _) :: r =>
    negb (existsb (fun y => let '(h2, k2, _, _) := y in (h =? h2) && ikey_eqb k k2) r) && brief_keys_nodup r
  end.

(* clause 2: within a tenure no active route sits at or below its identity's unregister fence;
   and every active route belongs to a hash slot with an installed authority *)
Definition tomb_respected (a : auth) (tb : tombs) (act : list brief) : bool :=
  forallb (fun x : brief =>
             let '(h, k, s, _) := x in
             match al_get N.eqb h a with
             | None => false
             | Some _ => match al_get ikey_eqb k (tomb_of tb h) with
                         | Some t => t <? s
                         | None => true
                         end
             end) act.

(* clause 3: the routes removed by one expiry pass are exactly the routes whose
   activity second s is set and satisfies s + ttl < now (strictly) *)
Definition brief_due (nowS nowN ttl : Z) (x : brief) : bool :=
  let '(_, _, _, seen) := x in
  (0 <? ttl)%Z && negb ((nowS =? zero_time_unix)%Z && (nowN =? 0)%Z)
  && negb (seen =? 0)%Z && deadline_before seen ttl nowS nowN.

(* clause 4: routes of each requested uid, in request order; per uid strictly
   increasing by (session, node, boot) and exactly the active routes of that uid *)
Fixpoint strictly_sorted (ks : list ikey) : bool :=
  match ks with
  | [] => true
  | k :: r => match r with
              | [] => true
              | k2 :: _ => lessIdentityKey k k2 && strictly_sorted r
              end
  end.
Definition brief_of_route (hs : N) (r : route) : brief := (hs, makeRouteIdentityKey r, r_oseq r, r_seen r).
Fixpoint lookup_ok (hs : N) (act : list brief) (uids : list N) (rs : list route) : bool :=
  match uids with
  | [] => match rs with [] => true | _ => false end
  | u :: rest =>
    let n := length (filter (fun x : brief => let '(h, k, _, _) := x in
                                             (h =? hs) && (let '(ku, _, _, _) := k in ku =? u)) act) in
    let mine := firstn n rs in
    Nat.eqb (length mine) n
    && forallb (fun r => (r_uid r =? u) && brief_mem (brief_of_route hs r) act) mine
    && strictly_sorted (map makeRouteIdentityKey mine)
    && lookup_ok hs act rest (skipn n rs)
  end.

Definition lookup_result_ok (localNode : N) (a : auth) (act : list brief) (g : target) (uids : list N)
           (e : err) (rs : list route) : bool :=
  if accepted localNode a g then err_eqb e EOk && lookup_ok (g_hs g) act uids rs
  else err_eqb e ENotLeader && match rs with [] => true | _ => false end.

Fixpoint groups_ok (localNode : N) (a : auth) (act : list brief) (gs : list (target * list N))
         (res : list (err * list route)) : bool :=
  match gs, res with
  | [], [] => true
  | g :: gs', r :: res' =>
    lookup_result_ok localNode a act (fst g) (snd g) (fst r) (snd r) && groups_ok localNode a act gs' res'
  | _, _ => false
  end.

Definition op_target (o : op) : option target :=
  match o with
  | ORegister g _ | OCommit g _ | OAbort g _ | OUnregister g _ _ | OTouch g _ | OLookup g _ | OLookup1 g _ => Some g
  | _ => None
  end.
Definition out_err (r : out) : option err :=
  match r with
  | RErr e | RRegister e _ _ | RRoutes e _ => Some e
  | _ => None
  end.

(* one observed step: (installed authorities, fences, active routes before) -> after *)
Definition mon_step (localNode : N) (a : auth) (tb : tombs) (before : list brief)
           (o : op) (r : out) (after : list brief) : bool :=
  let a' := auth_step a o in
  let tb' := tomb_step localNode a tb o in
  brief_keys_nodup after
  && tomb_respected a' tb' after
  (* clause 1: a call whose target is not the installed authority is rejected and changes nothing;
     a call that is accepted is not reported as not-leader *)
  && match op_target o with
     | Some g =>
       match out_err r with
       | Some e => if accepted localNode a g then negb (err_eqb e ENotLeader)
                   else err_eqb e ENotLeader && brief_same before after
       | None => false
       end
     | None => true
     end
  && match o, r with
     | OExpire nowS nowN ttl, RExpire expired _ _ _ _ =>
       brief_same after (filter (fun x => negb (brief_due nowS nowN ttl x)) before)
       && (expired =? Z.of_nat (length (filter (brief_due nowS nowN ttl) before)))%Z
     | OLookup g uids, RRoutes e rs => lookup_result_ok localNode a before g uids e rs && brief_same before after
     | OLookup1 g uid, RRoutes e rs => lookup_result_ok localNode a before g [uid] e rs && brief_same before after
     | OLookupT gs, RGroups res => groups_ok localNode a before gs res && brief_same before after
     | OSnapshot, RSnap n _ _ _ _ _ => (n =? Z.of_nat (length before))%Z && brief_same before after
     | OExpire _ _ _, _ | OLookup _ _, _ | OLookup1 _ _, _ | OLookupT _, _ | OSnapshot, _ => false
     | _, _ => true
     end.

Fixpoint mon_run (localNode : N) (a : auth) (tb : tombs) (before : list brief)
         (tr : list (op * out * list brief)) : bool :=
  match tr with
  | [] => true
  | (o, r, after) :: rest =>
    mon_step localNode a tb before o r after
    && mon_run localNode (auth_step a o) (tomb_step localNode a tb o) after rest
  end.

(* ---- case-file interface ------------------------------------------------------------------ *)
Record slot_obs := SlotObs {
  so_target : target;
  so_active : list (ikey * route);
  so_byUID : list (N * list ikey);
  so_pending : list (N * (route * list ikey));
  so_ownerSeq : list (ikey * N);
  so_tomb : list (ikey * N);
  so_expiry : list (ikey * Z);
  so_buckets : Z; so_heaplen : Z; so_index_ok : bool }.

Record c33_case := C33Case {
  c_local : N; c_shards : Z;
  c_steps : list (op * out * option (list brief));    (* None = active routes unchanged *)
  c_final : list (N * slot_obs) }.

(* expand the "unchanged" encoding *)
Fixpoint expand_steps (prev : list brief) (l : list (op * out * option (list brief)))
  : list (op * out * list brief) :=
  match l with
  | [] => []
  | (o, r, ob) :: rest =>
    let cur := match ob with Some b => b | None => prev end in
    (o, r, cur) :: expand_steps cur rest
  end.

Definition assoc_eqb {K V W} (keqb : K -> K -> bool) (veqb : V -> W -> bool)
           (impl : list (K * V)) (model : list (K * W)) : bool :=
  Nat.eqb (length impl) (length model)
  && forallb (fun kv => match al_get keqb (fst kv) model with Some v => veqb (snd kv) v | None => false end) impl.

Definition keys_same (a b : list ikey) : bool :=
  Nat.eqb (length a) (length b) && forallb (fun x => mem_key x b) a.

Definition routes_eqb : list route -> list route -> bool := list_eqb route_eqb.

Definition out_eqb (a b : out) : bool :=
  match a, b with
  | RUnit, RUnit => true
  | RErr x, RErr y => err_eqb x y
  | RRegister e1 t1 a1, RRegister e2 t2 a2 => err_eqb e1 e2 && (t1 =? t2) && list_eqb action_eqb a1 a2
  | RExpire a1 b1 c1 d1 e1, RExpire a2 b2 c2 d2 e2 =>
    (a1 =? a2)%Z && (b1 =? b2)%Z && (c1 =? c2)%Z && (d1 =? d2)%Z && (e1 =? e2)%Z
  | RRoutes e1 r1, RRoutes e2 r2 => err_eqb e1 e2 && routes_eqb r1 r2
  | RGroups l1, RGroups l2 => list_eqb (fun x y => err_eqb (fst x) (fst y) && routes_eqb (snd x) (snd y)) l1 l2
  | RSnap a1 b1 c1 d1 e1 f1, RSnap a2 b2 c2 d2 e2 f2 =>
    (a1 =? a2)%Z && assoc_eqb N.eqb Z.eqb b1 b2 && (c1 =? c2) && (d1 =? d2) && (e1 =? e2)%Z && (f1 =? f2)%Z
  | _, _ => false
  end.

Definition step_eqb (a b : op * out * list brief) : bool :=
  out_eqb (snd (fst a)) (snd (fst b)) && brief_same (snd a) (snd b).

Definition slot_matches (o : slot_obs) (s : slot) : bool :=
  target_eqb (so_target o) (sl_target s)
  && assoc_eqb ikey_eqb route_eqb (so_active o) (sl_active s)
  && assoc_eqb N.eqb keys_same (so_byUID o) (sl_byUID s)
  && assoc_eqb N.eqb (fun x y => route_eqb (fst x) (fst y) && list_eqb ikey_eqb (snd x) (snd y))
               (so_pending o) (sl_pending s)
  && assoc_eqb ikey_eqb N.eqb (so_ownerSeq o) (sl_ownerSeq s)
  && assoc_eqb ikey_eqb N.eqb (so_tomb o) (sl_tomb s)
  && assoc_eqb ikey_eqb Z.eqb (so_expiry o) (sl_expiry s)
  && (so_buckets o =? Z.of_nat (length (nodup_Z (map snd (sl_expiry s)))))%Z
  && (so_heaplen o =? so_buckets o)%Z
  && so_index_ok o.

Definition C33_mismatch (c : c33_case) : bool :=
  let steps := expand_steps [] (c_steps c) in
  let '(d, tr) := run (NewDirectory (c_local c)) (map (fun s => fst (fst s)) steps) in
  negb (list_eqb step_eqb steps tr
        && assoc_eqb N.eqb slot_matches (c_final c) (d_slots d)).

Definition C33_monitor (c : c33_case) : N :=
  if mon_run (c_local c) [] [] [] (expand_steps [] (c_steps c)) then 0 else 1.
