(* Model/Machine.v — the channel runtime state machine (C06).

   Transcribes pkg/channel/machine (append.go, meta.go, progress.go, channel.go,
   invariant.go) function by function, plus the ack handling of
   pkg/channel/reactor/leader_replication.go (the three call sites of
   ChannelState.ApplyFollowerAck with their preconditions and the
   `offset > LEO` guard).

   Abstractions: a record is (message id, Index); payload, Epoch, FromUID … do
   not influence control.  Go maps are kept in canonical order (PendingAppends
   sorted by OpID, Progress sorted by NodeID) so that a model state IS the
   observable dump of the implementation state.  Errors are classes (numbers
   chosen by the harness).  Fields that no transition of the package reads
   (LeaseUntil, WriteFence, retention sequences) are left out. *)
From WK Require Import Base.Base Gen.Consts_C06.
Open Scope N_scope.

(* ---- error classes (harness/cmd/C06 maps pkg/channel sentinels to these) -- *)
Definition ENone : N := 0.
Definition EInvalidConfig : N := 1.
Definition ENotLeader : N := 2.
Definition ENotReady : N := 3.
Definition EStaleMeta : N := 4.
Definition EChannelNotFound : N := 5.
Definition ENotReplica : N := 6.
Definition ELogConflict : N := 7.

(* ---- data ------------------------------------------------------------------ *)
Definition rcd := (N * N)%type.            (* (Record.ID, Record.Index) *)

(* machine.AppendWaiter *)
Record waiter := Waiter { w_op : N; w_target : N; w_mode : N; w_recs : list rcd }.

(* machine.AppendOp *)
Record inflight := Inflight { f_op : N; f_recs : list rcd; f_ids : list N; f_counts : list N }.

(* machine.ChannelState *)
Record state := State {
  s_key : N; s_local : N; s_gen : N;
  s_id : N; s_epoch : N; s_lepoch : N; s_role : N; s_status : N; s_leader : N;
  s_replicas : list N; s_isr : list N; s_minisr : Z;
  s_leo : N; s_hw : N; s_cp : N; s_ready : bool;
  s_progress : list (N * N);
  s_pending : list waiter; s_order : list N; s_infl : option inflight }.

(* ch.Meta *)
Record meta := Meta {
  m_key : N; m_id : N; m_epoch : N; m_lepoch : N; m_leader : N;
  m_replicas : list N; m_isr : list N; m_minisr : Z; m_status : N }.

(* ch.Fence *)
Record fence := Fence { fe_key : N; fe_gen : N; fe_epoch : N; fe_lepoch : N; fe_op : N }.

(* machine.AppendBatchWaiter *)
Record bwaiter := BWaiter { b_op : N; b_mode : N; b_ids : list N; b_salloc : bool }.

(* machine.Reply: op id, error class, AppendItems as (MessageID, MessageSeq) *)
Record reply := Reply { r_op : N; r_err : N; r_items : list rcd }.

(* the StoreAppend task of a Decision: fence op id / epoch / leader epoch, record ids, flag *)
Record task := Task { t_op : N; t_epoch : N; t_lepoch : N; t_ids : list N; t_salloc : bool }.

(* machine.Decision (+ the bool returned by CancelAppendWaiter) *)
Record decision := Decision {
  d_err : N; d_ret : bool; d_task : option task; d_replies : list reply; d_signals : N }.

Definition dec_empty : decision := Decision 0 false None [] 0.
Definition dec_err (e : N) : decision := Decision e false None [] 0.
Definition dec_replies (rs : list reply) : decision := Decision 0 false None rs 0.

(* ---- state updates ----------------------------------------------------------- *)
Definition set_hw (s : state) (hw : N) : state :=
  State (s_key s) (s_local s) (s_gen s) (s_id s) (s_epoch s) (s_lepoch s) (s_role s) (s_status s)
        (s_leader s) (s_replicas s) (s_isr s) (s_minisr s) (s_leo s) hw (s_cp s) (s_ready s)
        (s_progress s) (s_pending s) (s_order s) (s_infl s).
Definition set_leo (s : state) (leo : N) : state :=
  State (s_key s) (s_local s) (s_gen s) (s_id s) (s_epoch s) (s_lepoch s) (s_role s) (s_status s)
        (s_leader s) (s_replicas s) (s_isr s) (s_minisr s) leo (s_hw s) (s_cp s) (s_ready s)
        (s_progress s) (s_pending s) (s_order s) (s_infl s).
Definition set_progress (s : state) (p : list (N * N)) : state :=
  State (s_key s) (s_local s) (s_gen s) (s_id s) (s_epoch s) (s_lepoch s) (s_role s) (s_status s)
        (s_leader s) (s_replicas s) (s_isr s) (s_minisr s) (s_leo s) (s_hw s) (s_cp s) (s_ready s)
        p (s_pending s) (s_order s) (s_infl s).
Definition set_app (s : state) (pend : list waiter) (ord : list N) (infl : option inflight) : state :=
  State (s_key s) (s_local s) (s_gen s) (s_id s) (s_epoch s) (s_lepoch s) (s_role s) (s_status s)
        (s_leader s) (s_replicas s) (s_isr s) (s_minisr s) (s_leo s) (s_hw s) (s_cp s) (s_ready s)
        (s_progress s) pend ord infl.

(* ---- small map/list helpers ---------------------------------------------------- *)
Definition mem (x : N) (l : list N) : bool := existsb (N.eqb x) l.

(* PendingAppends: map OpID -> *AppendWaiter, kept sorted by OpID *)
Fixpoint find_w (op : N) (l : list waiter) : option waiter :=
  match l with
  | [] => None
  | w :: r => if w_op w =? op then Some w else find_w op r
  end.
Definition del_w (op : N) (l : list waiter) : list waiter :=
  filter (fun w => negb (w_op w =? op)) l.
Definition del_ids (ids : list N) (l : list waiter) : list waiter :=
  filter (fun w => negb (mem (w_op w) ids)) l.
Fixpoint ins_w (w : waiter) (l : list waiter) : list waiter :=
  match l with
  | [] => [w]
  | x :: r => if w_op w <? w_op x then w :: l
              else if w_op w =? w_op x then w :: r
              else x :: ins_w w r
  end.
(* mutation through the *AppendWaiter pointer *)
Definition upd_w (w : waiter) (l : list waiter) : list waiter :=
  map (fun x => if w_op x =? w_op w then w else x) l.
Definition pend_ids (l : list waiter) : list N := map w_op l.

(* Progress: map NodeID -> ReplicaProgress{Match}, kept sorted by NodeID *)
Fixpoint pr_get (n : N) (p : list (N * N)) : N :=
  match p with
  | [] => 0
  | (k, v) :: r => if k =? n then v else pr_get n r
  end.
Fixpoint pr_set (n v : N) (p : list (N * N)) : list (N * N) :=
  match p with
  | [] => [(n, v)]
  | (k, x) :: r => if n <? k then (n, v) :: p
                   else if n =? k then (n, v) :: r
                   else (k, x) :: pr_set n v r
  end.

(* appendPendingAppendOrder / removePendingAppendOrder *)
Definition order_append (op : N) (o : list N) : list N := if mem op o then o else o ++ [op].
Definition order_remove (ids o : list N) : list N := filter (fun x => negb (mem x ids)) o.

(* sort.Slice(matches, >) on values *)
Fixpoint ins_desc (x : N) (l : list N) : list N :=
  match l with
  | [] => [x]
  | y :: r => if y <=? x then x :: l else y :: ins_desc x r
  end.
Definition sort_desc (l : list N) : list N := fold_right ins_desc [] l.

Definition last_idx (l : list rcd) : option N :=
  match rev l with [] => None | (_, i) :: _ => Some i end.

(* ---- progress.go: AdvanceHW ----------------------------------------------------- *)
Definition advance_hw (s : state) : state :=
  if (s_minisr s <=? 0)%Z || (Z.of_nat (length (s_isr s)) <? s_minisr s)%Z then s
  else
    let matches := map (fun n => pr_get n (s_progress s)) (s_isr s) in
    let next := nth (Z.to_nat (s_minisr s - 1)) (sort_desc matches) 0 in
    if next <=? s_hw s then s else set_hw s next.

(* ---- append.go: completeAppendWaiters --------------------------------------------- *)
Definition mk_reply (w : waiter) : reply := Reply (w_op w) 0 (w_recs w).

(* the loop over [order]; returns replies, completed ids, remaining PendingAppends *)
Fixpoint complete_loop (hw : N) (order : list N) (pend : list waiter)
  : list reply * list N * list waiter :=
  match order with
  | [] => ([], [], pend)
  | op :: rest =>
    match find_w op pend with
    | None => complete_loop hw rest pend
    | Some w =>
      if w_target w =? 0 then complete_loop hw rest pend
      else if (w_mode w =? CommitModeQuorum) && (hw <? w_target w) then complete_loop hw rest pend
      else
        match complete_loop hw rest (del_w op pend) with
        | (rs, cs, p') => (mk_reply w :: rs, op :: cs, p')
        end
    end
  end.

Definition complete_waiters (s : state) (order : list N) : state * list reply :=
  match s_pending s with
  | [] => (s, [])
  | _ :: _ =>
    let order1 := match order with
                  | [] => match s_order s with
                          | [] => pend_ids (s_pending s)      (* sortedPendingAppendOpIDs *)
                          | o => o
                          end
                  | _ => order
                  end in
    match complete_loop (s_hw s) order1 (s_pending s) with
    | (rs, cs, p') => (set_app s p' (order_remove cs (s_order s)) (s_infl s), rs)
    end
  end.

(* ---- append.go: ProposeAppendBatch --------------------------------------------------- *)
(* first loop: validation only; 0 = ok *)
Fixpoint propose_check (pend : list waiter) (seen : list N) (ws : list bwaiter) : N :=
  match ws with
  | [] => 0
  | b :: r =>
    match b_ids b with
    | [] => EInvalidConfig
    | _ :: _ =>
      if mem (b_op b) seen then EInvalidConfig
      else match find_w (b_op b) pend with
           | Some _ => ENotReady
           | None => propose_check pend (b_op b :: seen) r
           end
    end
  end.

Definition norm_mode (m : N) : N := if m =? 0 then CommitModeQuorum else m.
Definition new_recs (ids : list N) : list rcd := map (fun i => (i, 0)) ids.

(* second loop: admission *)
Fixpoint propose_admit (pend : list waiter) (ord : list N) (ws : list bwaiter)
  : list waiter * list N :=
  match ws with
  | [] => (pend, ord)
  | b :: r =>
    propose_admit (ins_w (Waiter (b_op b) 0 (norm_mode (b_mode b)) (new_recs (b_ids b))) pend)
                  (order_append (b_op b) ord) r
  end.

Definition propose_batch (s : state) (batch : N) (ws : list bwaiter) : state * decision :=
  if (s_status s =? StatusDeleted) || (s_status s =? StatusDeleting) then (s, dec_err EChannelNotFound)
  else if negb (s_role s =? RoleLeader) then (s, dec_err ENotLeader)
  else if negb (s_ready s) then (s, dec_err ENotReady)
  else match s_infl s with
  | Some _ => (s, dec_err ENotReady)
  | None =>
    match propose_check (s_pending s) [] ws with
    | 0 =>
      match ws with
      | [] => (s, dec_empty)                                       (* recordCount == 0 *)
      | _ :: _ =>
        let recs := concat (map (fun b => new_recs (b_ids b)) ws) in
        let salloc := forallb b_salloc ws in
        match propose_admit (s_pending s) (s_order s) ws with
        | (pend', ord') =>
          (set_app s pend' ord'
                   (Some (Inflight batch recs (map b_op ws)
                                   (map (fun b => N.of_nat (length (b_ids b))) ws))),
           Decision 0 false (Some (Task batch (s_epoch s) (s_lepoch s) (map fst recs) salloc)) [] 0)
        end
      end
    | e => (s, dec_err e)
    end
  end.

(* ---- append.go: CancelAppendWaiter / AbortAppendBatchProposal ----------------------------- *)
Definition cancel_waiter (s : state) (op : N) : state * decision :=
  match find_w op (s_pending s) with
  | None => (s, dec_empty)
  | Some _ => (set_app s (del_w op (s_pending s)) (order_remove [op] (s_order s)) (s_infl s),
               Decision 0 true None [] 0)
  end.

Definition abort_batch (s : state) (batch : N) : state * decision :=
  match s_infl s with
  | None => (s, dec_empty)
  | Some f =>
    if f_op f =? batch
    then (set_app s (del_ids (f_ids f) (s_pending s)) (order_remove (f_ids f) (s_order s)) None, dec_empty)
    else (s, dec_empty)
  end.

(* ---- append.go: fences, failInflightAppend, offset assignment ---------------------------------- *)
Definition matches_fence (s : state) (f : fence) : bool :=
  (fe_key f =? s_key s) && (fe_gen f =? s_gen s) && (fe_epoch f =? s_epoch s)
  && (fe_lepoch f =? s_lepoch s)
  && match s_infl s with Some i => f_op i =? fe_op f | None => false end.

Fixpoint fail_loop (err : N) (ids : list N) (pend : list waiter)
  : list reply * list N * list waiter :=
  match ids with
  | [] => ([], [], pend)
  | op :: rest =>
    match find_w op pend with
    | None => fail_loop err rest pend
    | Some _ =>
      match fail_loop err rest (del_w op pend) with
      | (rs, cs, p') => (Reply op err [] :: rs, op :: cs, p')
      end
    end
  end.

Definition fail_inflight (s : state) (err : N) : state * decision :=
  match s_infl s with
  | None => (s, dec_empty)
  | Some f =>
    match fail_loop err (f_ids f) (s_pending s) with
    | (rs, cs, p') => (set_app s p' (order_remove cs (s_order s)) None, dec_replies rs)
    end
  end.

(* assignStoredOffsets: Index = base + i in uint64 *)
Fixpoint assign_offsets (recs : list rcd) (base : N) : list rcd :=
  match recs with
  | [] => []
  | (id, _) :: r => (id, wrap64 base) :: assign_offsets r (base + 1)
  end.

(* assignInflightRecordsToWaiters.  [next] walks the flattened records; counts is
   walked in parallel with ids (counts[i] when i < len, else 0).  `end` is
   next+count after the code's two adjustments (count==0 -> len(waiter.Records)).
   Both branches (metadata copy / clone) leave waiter.Records = source in the
   (id, index) abstraction.  A Go slice with next > end would panic; here it is
   the empty list — [assign_in_range] below is the no-panic condition. *)
Fixpoint assign_loop (recs : list rcd) (next : nat) (ids : list N) (counts : list N)
         (pend : list waiter) : list waiter :=
  match ids with
  | [] => pend
  | op :: ids' =>
    let count := match counts with [] => 0%nat | c :: _ => N.to_nat c end in
    match find_w op pend with
    | None => assign_loop recs (next + count) ids' (tl counts) pend
    | Some w =>
      let count1 := if Nat.eqb count 0 then length (w_recs w) else count in
      let end1 := Nat.min (next + count1) (length recs) in
      let source := skipn next (firstn end1 recs) in
      let tgt := match last_idx source with Some t => t | None => w_target w end in
      assign_loop recs end1 ids' (tl counts) (upd_w (Waiter op tgt (w_mode w) source) pend)
    end
  end.

Fixpoint assign_in_range (recs : list rcd) (next : nat) (ids : list N) (counts : list N)
         (pend : list waiter) : bool :=
  match ids with
  | [] => true
  | op :: ids' =>
    let count := match counts with [] => 0%nat | c :: _ => N.to_nat c end in
    match find_w op pend with
    | None => assign_in_range recs (next + count) ids' (tl counts) pend
    | Some w =>
      let count1 := if Nat.eqb count 0 then length (w_recs w) else count in
      let end1 := Nat.min (next + count1) (length recs) in
      Nat.leb next end1 &&
      assign_in_range recs end1 ids' (tl counts)
        (upd_w (Waiter op (w_target w) (w_mode w) (skipn next (firstn end1 recs))) pend)
    end
  end.

(* ---- append.go: ApplyAppendStored / ApplyQuorumCommitted / ApplyFollowerAck ------------------------ *)
Definition apply_stored (s : state) (f : fence) (base last err : N) : state * decision :=
  if negb (matches_fence s f) then (s, dec_empty)
  else if negb (err =? 0) then fail_inflight s err
  else match s_infl s with
  | None => (s, dec_empty)
  | Some i =>
    let recs := assign_offsets (f_recs i) base in
    let pend1 := assign_loop recs 0 (f_ids i) (f_counts i) (s_pending s) in
    let s1 := set_leo (set_app s pend1 (s_order s) (s_infl s)) (N.max (s_leo s) last) in
    let s2 := if s_role s1 =? RoleLeader
              then advance_hw (set_progress s1 (pr_set (s_local s1) (s_leo s1) (s_progress s1)))
              else s1 in
    let s3 := set_app s2 (s_pending s2) (s_order s2) None in
    match complete_waiters s3 (f_ids i) with
    | (s4, rs) => (s4, Decision 0 false None rs 1)
    end
  end.

Definition apply_quorum (s : state) (f : fence) (first last hw err : N) : state * decision :=
  if negb (matches_fence s f) then (s, dec_empty)
  else if negb (err =? 0) then fail_inflight s err
  else match s_infl s with
  | None => (s, dec_empty)
  | Some i =>
    let count := N.of_nat (length (f_recs i)) in
    if (first =? 0) || (count =? 0) || (last <? first) || negb (last - first + 1 =? count)
       || negb (hw =? last)
    then fail_inflight s ELogConflict
    else
      let recs := assign_offsets (f_recs i) first in
      let pend1 := assign_loop recs 0 (f_ids i) (f_counts i) (s_pending s) in
      let s1 := set_leo (set_app s pend1 (s_order s) (s_infl s)) (N.max (s_leo s) last) in
      let s2 := set_hw s1 (N.max (s_hw s1) hw) in
      let s3 := set_progress s2 (pr_set (s_local s2)
                                        (N.max (pr_get (s_local s2) (s_progress s2)) last)
                                        (s_progress s2)) in
      let s4 := set_app s3 (s_pending s3) (s_order s3) None in
      match complete_waiters s4 (f_ids i) with
      | (s5, rs) => (s5, dec_replies rs)
      end
  end.

Definition apply_follower_ack (s : state) (follower off : N) : state * decision :=
  if negb (s_role s =? RoleLeader) || negb (mem follower (s_replicas s)) then (s, dec_empty)
  else
    let s1 := if pr_get follower (s_progress s) <? off
              then set_progress s (pr_set follower off (s_progress s)) else s in
    let s2 := advance_hw s1 in
    match complete_waiters s2 (s_order s2) with
    | (s3, rs) => (s3, dec_replies rs)
    end.

(* ---- meta.go: ValidateMeta / ApplyMeta --------------------------------------------------------------- *)
Definition validate_meta (s : state) (m : meta) : N :=
  if negb (m_key m =? 0) && negb (m_key m =? s_key s) then EStaleMeta
  else if negb (s_id s =? 0) && negb (m_id m =? s_id s) then EStaleMeta
  else if (m_epoch m <? s_epoch s) || ((m_epoch m =? s_epoch s) && (m_lepoch m <? s_lepoch s))
  then EStaleMeta
  else if (m_epoch m =? s_epoch s) && (m_lepoch m =? s_lepoch s) && negb (m_leader m =? s_leader s)
  then EStaleMeta
  else if (m_minisr m <=? 0)%Z || (Z.of_nat (length (m_isr m)) <? m_minisr m)%Z then EInvalidConfig
  else 0.

Definition should_clear (s : state) (m : meta) : bool :=
  let next_role := if m_leader m =? s_local s then RoleLeader else RoleFollower in
  negb (s_epoch s =? m_epoch m) || negb (s_lepoch s =? m_lepoch m)
  || negb (s_leader s =? m_leader m) || negb (s_role s =? next_role)
  || negb (s_status s =? m_status m).

Definition apply_meta (s : state) (m : meta) : state * decision :=
  match validate_meta s m with
  | 0 =>
    let clear := should_clear s m in
    let pend := if clear then [] else s_pending s in
    let ord := if clear then [] else s_order s in
    let infl := if clear then None else s_infl s in
    if m_status m =? StatusDeleted
    then (State (s_key s) (s_local s) (s_gen s) (m_id m) (m_epoch m) (m_lepoch m) (s_role s)
                (m_status m) (m_leader m) (m_replicas m) (m_isr m) (m_minisr m)
                (s_leo s) (s_hw s) (s_cp s) false (s_progress s) pend ord infl, dec_empty)
    else
      let leader := m_leader m =? s_local s in
      (State (s_key s) (s_local s) (s_gen s) (m_id m) (m_epoch m) (m_lepoch m)
             (if leader then RoleLeader else RoleFollower)
             (m_status m) (m_leader m) (m_replicas m) (m_isr m) (m_minisr m)
             (s_leo s) (s_hw s) (s_cp s)
             ((m_status m =? StatusActive) || (m_status m =? StatusCreating))
             (if leader then pr_set (s_local s) (s_leo s) (s_progress s) else s_progress s)
             pend ord infl, dec_empty)
  | e => (s, dec_err e)
  end.

(* ---- reactor/leader_replication.go: the three ack paths ------------------------------------------------ *)
(* the guard of applyLeaderProgressAck / applyLeaderPullAckOffset: reject offset > LEO *)
Definition ack_guard (s : state) (off : N) : bool := off <=? s_leo s.

Inductive route :=
| RDirect      (* harness applies [ack_guard] itself, then machine.ApplyFollowerAck *)
| RProgress    (* handleLeaderAck, Stopped=false -> applyLeaderProgressAck *)
| RStopped     (* handleLeaderAck, Stopped=true *)
| RPull.       (* handleLeaderPull -> applyLeaderPullAckOffset *)

Definition fence_cur (s : state) (key epoch lepoch : N) : bool :=
  (key =? s_key s) && (epoch =? s_epoch s) && (lepoch =? s_lepoch s).

Definition step_ack (s : state) (r : route) (key epoch lepoch follower off : N) (ver_ok : bool)
  : state * decision :=
  match r with
  | RDirect =>
    if ack_guard s off then apply_follower_ack s follower off else (s, dec_err EStaleMeta)
  | RProgress =>
    if negb (s_role s =? RoleLeader) || negb (fence_cur s key epoch lepoch)
       || negb (mem follower (s_replicas s)) then (s, dec_err EStaleMeta)
    else if off =? 0 then (s, dec_empty)
    else if negb (ack_guard s off) then (s, dec_err EStaleMeta)
    else apply_follower_ack s follower off
  | RStopped =>
    if negb (s_role s =? RoleLeader) || negb (fence_cur s key epoch lepoch)
       || negb (mem follower (s_replicas s)) then (s, dec_err EStaleMeta)
    else if negb ver_ok || negb (off =? s_leo s) then (s, dec_err EStaleMeta)
    else if follower =? s_local s then (s, dec_err EStaleMeta)   (* lifecycle.followers has no local entry *)
    else apply_follower_ack s follower off
  | RPull =>
    if negb (s_role s =? RoleLeader) then (s, dec_err ENotLeader)
    else if negb (fence_cur s key epoch lepoch) then (s, dec_err EStaleMeta)
    else if wrap64 (s_leo s + 1) =? 0 then (s, dec_err EInvalidConfig)   (* invalidLeaderPullShape: the harness pulls at NextOffset = LEO+1 *)
    else if negb (mem follower (s_replicas s)) then (s, dec_err ENotReplica)
    else if off =? 0 then (s, dec_empty)
    else if negb (ack_guard s off) then (s, dec_err EStaleMeta)
    else apply_follower_ack s follower off
  end.

(* ---- events -------------------------------------------------------------------------------------------- *)
Inductive event :=
| EvMeta (m : meta)
| EvPropose (batch : N) (ws : list bwaiter)                 (* ProposeAppendBatch *)
| EvProposeOne (op mode : N) (ids : list N)                 (* ProposeAppend *)
| EvStored (f : fence) (base last err : N)                  (* ApplyAppendStored *)
| EvQuorum (f : fence) (first last hw err : N)              (* ApplyQuorumCommitted *)
| EvAck (r : route) (key epoch lepoch follower off : N) (ver_ok : bool)
| EvCancel (op : N)                                         (* CancelAppendWaiter *)
| EvAbort (batch : N).                                      (* AbortAppendBatchProposal *)

Definition step (s : state) (e : event) : state * decision :=
  match e with
  | EvMeta m => apply_meta s m
  | EvPropose batch ws => propose_batch s batch ws
  | EvProposeOne op mode ids => propose_batch s op [BWaiter op mode ids false]
  | EvStored f base last err => apply_stored s f base last err
  | EvQuorum f first last hw err => apply_quorum s f first last hw err
  | EvAck r key epoch lepoch follower off ver_ok => step_ack s r key epoch lepoch follower off ver_ok
  | EvCancel op => cancel_waiter s op
  | EvAbort batch => abort_batch s batch
  end.

(* NewChannelState + the fields the reactor fills from the store before the first meta *)
Definition init_state (key local gen id leo hw cp : N) : state :=
  State key local gen id 0 0 0 0 0 [] [] 0%Z leo hw cp false [] [] [] None.

Fixpoint run (s : state) (evs : list event) : list (event * decision * state) :=
  match evs with
  | [] => []
  | e :: r => match step s e with (s', d) => (e, d, s') :: run s' r end
  end.

Fixpoint run_state (s : state) (evs : list event) : state :=
  match evs with
  | [] => s
  | e :: r => run_state (fst (step s e)) r
  end.

(* CheckInvariants *)
Definition wm_ok (s : state) : bool := (s_cp s <=? s_hw s) && (s_hw s <=? s_leo s).

(* ---- boolean equalities (case comparison) ----------------------------------------------------------------- *)
Definition pair_eqb (a b : N * N) : bool := (fst a =? fst b) && (snd a =? snd b).
Definition nlist_eqb : list N -> list N -> bool := list_eqb N.eqb.
Definition plist_eqb : list (N * N) -> list (N * N) -> bool := list_eqb pair_eqb.
Definition waiter_eqb (a b : waiter) : bool :=
  (w_op a =? w_op b) && (w_target a =? w_target b) && (w_mode a =? w_mode b)
  && plist_eqb (w_recs a) (w_recs b).
Definition inflight_eqb (a b : inflight) : bool :=
  (f_op a =? f_op b) && plist_eqb (f_recs a) (f_recs b) && nlist_eqb (f_ids a) (f_ids b)
  && nlist_eqb (f_counts a) (f_counts b).
Definition state_eqb (a b : state) : bool :=
  (s_key a =? s_key b) && (s_local a =? s_local b) && (s_gen a =? s_gen b) && (s_id a =? s_id b)
  && (s_epoch a =? s_epoch b) && (s_lepoch a =? s_lepoch b) && (s_role a =? s_role b)
  && (s_status a =? s_status b) && (s_leader a =? s_leader b)
  && nlist_eqb (s_replicas a) (s_replicas b) && nlist_eqb (s_isr a) (s_isr b)
  && (s_minisr a =? s_minisr b)%Z
  && (s_leo a =? s_leo b) && (s_hw a =? s_hw b) && (s_cp a =? s_cp b)
  && Bool.eqb (s_ready a) (s_ready b)
  && plist_eqb (s_progress a) (s_progress b)
  && list_eqb waiter_eqb (s_pending a) (s_pending b)
  && nlist_eqb (s_order a) (s_order b)
  && option_eqb inflight_eqb (s_infl a) (s_infl b).
Definition reply_eqb (a b : reply) : bool :=
  (r_op a =? r_op b) && (r_err a =? r_err b) && plist_eqb (r_items a) (r_items b).
Definition task_eqb (a b : task) : bool :=
  (t_op a =? t_op b) && (t_epoch a =? t_epoch b) && (t_lepoch a =? t_lepoch b)
  && nlist_eqb (t_ids a) (t_ids b) && Bool.eqb (t_salloc a) (t_salloc b).
Definition decision_eqb (a b : decision) : bool :=
  (d_err a =? d_err b) && Bool.eqb (d_ret a) (d_ret b) && option_eqb task_eqb (d_task a) (d_task b)
  && list_eqb reply_eqb (d_replies a) (d_replies b) && (d_signals a =? d_signals b).

(* ---- the property monitor: evaluated on (pre-state, event, decision, post-state) of the
        IMPLEMENTATION; [C06_monitor] never looks at model output ------------------------------------------------ *)
Fixpoint nodup_b (l : list N) : bool :=
  match l with
  | [] => true
  | x :: r => negb (mem x r) && nodup_b r
  end.

(* hw never decreases within one metadata fence *)
Definition hw_mono_ok (pre post : state) : bool :=
  if (s_epoch pre =? s_epoch post) && (s_lepoch pre =? s_lepoch post)
  then s_hw pre <=? s_hw post else true.

(* one reply: the op was waiting before the step, is gone after it, and a successful reply to a
   quorum-mode waiter carries a last sequence covered by the committed watermark *)
Definition reply_ok (pre post : state) (r : reply) : bool :=
  match find_w (r_op r) (s_pending pre) with
  | None => false
  | Some w =>
    negb (mem (r_op r) (pend_ids (s_pending post)))
    && (if (r_err r =? 0) && (w_mode w =? CommitModeQuorum)
        then match last_idx (r_items r) with
             | None => true
             | Some q => q <=? s_hw post
             end
        else true)
  end.

Definition accepted (d : decision) : bool :=
  (d_err d =? 0) && match d_task d with Some _ => true | None => false end.

Definition admitted_ids (e : event) (d : decision) : list N :=
  match e with
  | EvPropose _ ws => if accepted d then map b_op ws else []
  | EvProposeOne op _ _ => if accepted d then [op] else []
  | _ => []
  end.

(* waiters enter PendingAppends only by an accepted proposal, and only under a fresh op id *)
Definition admission_ok (pre : state) (e : event) (d : decision) (post : state) : bool :=
  let adm := admitted_ids e d in
  forallb (fun id => negb (mem id (pend_ids (s_pending pre)))) adm
  && nodup_b adm
  && forallb (fun id => mem id (pend_ids (s_pending pre)) || mem id adm) (pend_ids (s_pending post)).

Definition decision_silent (d : decision) : bool :=
  match d_task d, d_replies d with None, [] => true | _, _ => false end.

(* a stored result / quorum receipt whose fence does not match changes nothing *)
Definition stale_ok (pre : state) (e : event) (d : decision) (post : state) : bool :=
  match e with
  | EvStored f _ _ _ | EvQuorum f _ _ _ _ =>
    if matches_fence pre f then true else state_eqb pre post && decision_silent d
  | _ => true
  end.

Definition meta_older (s : state) (m : meta) : bool :=
  (m_epoch m <? s_epoch s) || ((m_epoch m =? s_epoch s) && (m_lepoch m <? s_lepoch s)).
Definition meta_leader_switch (s : state) (m : meta) : bool :=
  (m_epoch m =? s_epoch s) && (m_lepoch m =? s_lepoch s) && negb (m_leader m =? s_leader s).

(* metadata with an older epoch or a same-epoch leader switch is rejected *)
Definition meta_ok (pre : state) (e : event) (d : decision) (post : state) : bool :=
  match e with
  | EvMeta m => if meta_older pre m || meta_leader_switch pre m
                then negb (d_err d =? 0) && state_eqb pre post else true
  | _ => true
  end.

Definition step_ok (pre : state) (e : event) (d : decision) (post : state) : bool :=
  wm_ok post && hw_mono_ok pre post
  && forallb (reply_ok pre post) (d_replies d) && nodup_b (map r_op (d_replies d))
  && admission_ok pre e d post && stale_ok pre e d post && meta_ok pre e d post.

Fixpoint trace_ok (pre : state) (tr : list (event * decision * state)) : bool :=
  match tr with
  | [] => true
  | (e, d, post) :: r => step_ok pre e d post && trace_ok post r
  end.

(* ---- case-file interface ------------------------------------------------------------------------------------ *)
(* NewChannelState arguments + the watermarks loaded from the store, the implementation's dump of
   that initial state, and per event the implementation's decision and state dump *)
Record c06_case := C06Case {
  c_key : N; c_local : N; c_gen : N; c_id : N; c_leo : N; c_hw : N; c_cp : N;
  c_s0 : state;
  c_steps : list (event * decision * state) }.

Fixpoint mm_steps (s : state) (tr : list (event * decision * state)) : bool :=
  match tr with
  | [] => false
  | (e, d, st) :: r =>
    match step s e with
    | (s', d') => negb (decision_eqb d d' && state_eqb st s') || mm_steps s' r
    end
  end.

Definition C06_mismatch (c : c06_case) : bool :=
  let s0 := init_state (c_key c) (c_local c) (c_gen c) (c_id c) (c_leo c) (c_hw c) (c_cp c) in
  negb (state_eqb (c_s0 c) s0) || mm_steps s0 (c_steps c).

Definition C06_monitor (c : c06_case) : N :=
  if wm_ok (c_s0 c) && trace_ok (c_s0 c) (c_steps c) then 0 else 1.
