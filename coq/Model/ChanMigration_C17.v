(* Model/ChanMigration_C17.v — the case record of C17, the model/implementation
   comparison and the property monitor.

   A case is a history of ApplyBatch calls: the commands of every batch and what the
   implementation showed afterwards (results, every task row in primary-key order, the raw
   active-index entry and the runtime-meta row of every channel the history names).

   [C17_mismatch]: the model (Model/ChanMigration.v), run from the empty database on the
   commands, does not reproduce the observations.
   [C17_monitor]: the property, evaluated on the observations alone:
     0 holds, 1 violation,
     2 known finding C17-K1 (abort accepted on a task that was in a post-commit phase and
       was moved — out of the post-commit phases, or to another phase / embedded flag — by a
       generic Claim/Advance),
     3 known finding C17-K2 (same, moved back by ResetChannelWriteFenceToPreCutover),
     4 known finding C17-K3 (two active tasks on one channel after a multi-command batch
       in which a generic Claim/Advance re-activated a terminal task).
   Definitions only. *)
From WK Require Import Base.Base.
From WK Require Import Gen.Consts_C15 Gen.Consts_C17 Model.RuntimeMeta Model.ChanMigration.
Open Scope N_scope.

Record obs := Obs {
  o_res : bres;
  o_tasks : list task;
  o_active : list (chan_key * option bytes);
  o_metas : list (chan_key * option runtime_meta) }.

(* in a case file a step whose observed state equals the previous one is written
   [Same result] (shorter files); [expand] restores the full observations *)
Inductive step_obs := Full (o : obs) | Same (r : bres).

Record c17_case := C17Case { c_raw_steps : list (list cmd * step_obs) }.

Fixpoint expand (prev : obs) (l : list (list cmd * step_obs)) : list (list cmd * obs) :=
  match l with
  | [] => []
  | (cs, Full o) :: r => (cs, o) :: expand o r
  | (cs, Same res) :: r =>
      let o := Obs res (o_tasks prev) (o_active prev) (o_metas prev) in
      (cs, o) :: expand o r
  end.

Definition c_steps (c : c17_case) : list (list cmd * obs) :=
  expand (Obs (BResults []) [] [] []) (c_raw_steps c).

(* ---- model vs implementation ------------------------------------------------------- *)

Definition bres_eqb (a b : bres) : bool :=
  match a, b with
  | BErr x, BErr y => err_eqb x y
  | BResults x, BResults y => list_eqb N.eqb x y
  | _, _ => false
  end.

Definition obs_matches (d : db) (r : bres) (o : obs) : bool :=
  bres_eqb r (o_res o)
  && list_eqb task_eqb (db_tasks d) (o_tasks o)
  && forallb (fun cv => option_eqb bytes_eqb (active_get d (fst cv)) (snd cv)) (o_active o)
  && forallb (fun cv => option_eqb runtime_meta_eqb (meta_get d (fst cv)) (snd cv)) (o_metas o).

Fixpoint run_mismatch (d : db) (steps : list (list cmd * obs)) : bool :=
  match steps with
  | [] => false
  | (cs, o) :: r =>
    let '(d', br) := ApplyBatch d cs in
    if obs_matches d' br o then run_mismatch d' r else true
  end.

Definition C17_mismatch (c : c17_case) : bool := run_mismatch db_empty (c_steps c).

(* ---- snapshots of the observed state -------------------------------------------------- *)

Record snap := Snap {
  s_tasks : list task;
  s_active : list (chan_key * option bytes);
  s_metas : list (chan_key * option runtime_meta) }.

Definition snap_empty : snap := Snap [] [] [].
Definition snap_of (o : obs) : snap := Snap (o_tasks o) (o_active o) (o_metas o).

Definition flat {A} (x : option (option A)) : option A := match x with Some y => y | None => None end.
Definition snap_active (s : snap) (c : chan_key) : option bytes := flat (assoc_get chan_key_eqb (s_active s) c).
Definition snap_meta (s : snap) (c : chan_key) : option runtime_meta := flat (assoc_get chan_key_eqb (s_metas s) c).
Definition snap_task (s : snap) (k : tkey) : option task := task_get (s_tasks s) k.

(* nothing changed between two observed states (the later one names at least the channels of the earlier) *)
Definition snap_unchanged (p c : snap) : bool :=
  list_eqb task_eqb (s_tasks p) (s_tasks c)
  && forallb (fun cv => option_eqb bytes_eqb (snap_active p (fst cv)) (snd cv)) (s_active c)
  && forallb (fun cv => option_eqb runtime_meta_eqb (snap_meta p (fst cv)) (snd cv)) (s_metas c).

(* ---- which commands of a batch were accepted ----------------------------------------------- *)

(* result of command number i: accepted ("ok")?  After an ApplyBatch error on a multi-command
   batch earlier commands may have been applied one by one, so nothing is excluded then. *)
Definition cmd_ok (r : bres) (n : nat) (i : nat) : bool :=
  match r with
  | BResults rs => match nth_error rs i with Some x => x =? 0 | None => false end
  | BErr _ => (1 <? n)%nat
  end.

Fixpoint indexed {A} (i : nat) (l : list A) : list (nat * A) :=
  match l with [] => [] | x :: r => (i, x) :: indexed (S i) r end.

(* the accepted commands of the batch *)
Definition ok_cmds (cs : list cmd) (r : bres) : list cmd :=
  map snd (filter (fun ic => cmd_ok r (length cs) (fst ic)) (indexed 0 cs)).

Definition cmd_key (c : cmd) : option tkey :=
  match c with
  | CCreate t | CCreateGuarded t _ => Some (task_key t)
  | _ => match cmd_tguard c with Some g => Some (tguard_key g) | None => None end
  end.

Definition cmd_targets (c : cmd) (k : tkey) : bool :=
  match cmd_key c with Some k' => tkey_eqb k' k | None => false end.

Definition cmd_meta_chan (c : cmd) : option chan_key :=
  match c with
  | CUpsertMeta m => Some (meta_chan (upsert_wire m))
  | _ => match cmd_trans c with Some h => Some (rguard_chan (tr_rguard h)) | None => None end
  end.

Definition is_claim_advance (c : cmd) : bool :=
  match c with CClaim _ _ _ _ _ _ _ | CAdvance _ _ _ _ _ _ _ _ _ _ _ _ _ => true | _ => false end.
Definition is_reset (c : cmd) : bool := match c with CReset _ _ => true | _ => false end.
Definition is_abort (c : cmd) : bool := match c with CAbort _ _ _ => true | _ => false end.
Definition is_upsert (c : cmd) : bool := match c with CUpsertMeta _ => true | _ => false end.
Definition is_gc (c : cmd) : bool := match c with CGC _ _ => true | _ => false end.
(* the clear-fence request that ends the embedded leader-transfer leg of a replica replacement *)
Definition is_embedded_leg_clear (c : cmd) : bool :=
  match c with
  | CClear h _ => (tr_status h =? StatusRunning) && (tr_phase h =? PhaseAddLearner)
  | _ => false
  end.

(* ---- clause: commit / promote only with a matching drain proof ------------------------------ *)

(* post-commit / post-promote phases: VerifyNewLeader, VerifyMembership, ClearFence *)
Definition post_commit_phase (p : N) : bool :=
  (p =? PhaseVerifyNewLeader) || (p =? PhaseVerifyMembership) || (p =? PhaseClearFence).

(* the drain proof stored in [t] is complete and matches the current row [m] of the channel
   (write-fence version, channel epoch, leader epoch, leader), the fence is held by [t], is the
   one the request expects and has not expired at [now] *)
Definition cutover_proof_core (t : task) (m : runtime_meta) (g : rguard) (now : Z) : bool :=
  let p := t_proof t in
  proof_hasAny p && negb (proof_hasPartial p)
  && negb (rg_expected_fence_version g =? 0)
  && (pf_drained_fence_version p =? rm_write_fence_version m)
  && (rm_write_fence_version m =? rg_expected_fence_version g)
  && (pf_drained_channel_epoch p =? rm_channel_epoch m)
  && (pf_drained_leader_epoch p =? rm_leader_epoch m)
  && (pf_drained_leader_node p =? rm_leader m)
  && negb (is_empty (rm_write_fence_token m))
  && bytes_eqb (rm_write_fence_token m) (t_task_id t)
  && bytes_eqb (t_fence_token t) (t_task_id t)
  && (t_fence_version t =? rm_write_fence_version m)
  && (now <=? rm_write_fence_until_ms m)%Z.

(* ... and the request's optimistic guards name exactly these rows *)
Definition cutover_proof_matches (t : task) (m : runtime_meta) (h : trans) (now : Z) : bool :=
  cutover_proof_core t m (tr_rguard h) now
  && tguard_matches (tr_guard h) t && rguard_matches (tr_rguard h) m.

Definition commit_clause (p : snap) (c : cmd) : bool :=
  match c with
  | CCommit h _ _ _ now | CPromote h _ _ now =>
    match snap_task p (tguard_key (tr_guard h)), snap_meta p (rguard_chan (tr_rguard h)) with
    | Some t, Some m => cutover_proof_matches t m h now
    | _, _ => false
    end
  | _ => true
  end.

(* ---- clause: abort is rejected on post-commit and terminal tasks (per command) ---------------- *)

Definition abort_clause (p : snap) (c : cmd) : bool :=
  match c with
  | CAbort h _ _ =>
    match snap_task p (tguard_key (tr_guard h)) with
    | Some t => negb (isTerminal t) && negb (post_commit_phase (t_phase t))
    | None => false
    end
  | _ => true
  end.

(* ---- clause: frame and fence ownership ---------------------------------------------------------
   an accepted batch changes only the task rows its commands name (GC: removes rows that were
   terminal, or that another command of the batch named), only the metas its commands name, and a write fence only if it is free or held by
   a task id one of its commands names; afterwards it is free or held by such an id *)

Definition fence_eqb (a b : runtime_meta) : bool :=
  bytes_eqb (rm_write_fence_token a) (rm_write_fence_token b)
  && (rm_write_fence_version a =? rm_write_fence_version b)
  && (rm_write_fence_reason a =? rm_write_fence_reason b)
  && (rm_write_fence_until_ms a =? rm_write_fence_until_ms b)%Z.

Definition token_owned (okc : list cmd) (token : bytes) : bool :=
  is_empty token
  || existsb (fun c => match cmd_tguard c with
                       | Some g => bytes_eqb (tg_task_id g) token && negb (is_claim_advance c)
                       | None => false
                       end) okc.

Definition tasks_frame (okc : list cmd) (p c : snap) : bool :=
  (* rows of the later state *)
  forallb (fun t => match snap_task p (task_key t) with
                    | Some t0 => task_eqb t0 t || existsb (fun x => cmd_targets x (task_key t)) okc
                    | None => existsb (fun x => cmd_targets x (task_key t)) okc
                    end) (s_tasks c)
  (* rows that disappeared *)
  && forallb (fun t0 => match snap_task c (task_key t0) with
                        | Some _ => true
                        | None => existsb is_gc okc
                                  && (isTerminal t0 || existsb (fun x => cmd_targets x (task_key t0)) okc)
                        end) (s_tasks p).

Definition metas_frame (okc : list cmd) (p c : snap) : bool :=
  forallb (fun cv =>
    let ch := fst cv in
    let named := existsb (fun x => match cmd_meta_chan x with Some ch' => chan_key_eqb ch' ch | None => false end) okc in
    let upserted := existsb (fun x => is_upsert x && match cmd_meta_chan x with Some ch' => chan_key_eqb ch' ch | None => false end) okc in
    match snap_meta p ch, snd cv with
    | None, None => true
    | Some m0, Some m1 =>
        runtime_meta_eqb m0 m1
        || (named && (upserted || fence_eqb m0 m1
                      || (token_owned okc (rm_write_fence_token m0) && token_owned okc (rm_write_fence_token m1))))
    | None, Some _ => upserted
    | Some _, None => false
    end) (s_metas c).

(* ---- clause: a meta row changed by migration commands is valid (leader in ISR, ISR within
        replicas, 1 <= MinISR <= |replicas|, consistent fence fields); they keep MinISR and
        never shrink the ISR.  (Rows written by runtime-meta upserts are C15's.) ---------------- *)

Definition metas_valid (okc : list cmd) (p c : snap) : bool :=
  forallb (fun cv =>
    match snd cv, snap_meta p (fst cv) with
    | Some m1, Some m0 =>
      runtime_meta_eqb m0 m1
      || existsb is_upsert okc
      || (validateChannelRuntimeMeta m1
          && (rm_min_isr m0 =? rm_min_isr m1)%Z && (length (rm_isr m0) <=? length (rm_isr m1))%nat)
    | _, _ => true
    end) (s_metas c).

(* ---- clause: at most one active task per channel, and the active index points at it ------------- *)

Definition active_on (s : snap) (ch : chan_key) : list task :=
  filter (fun t => chan_key_eqb (task_chan t) ch && isActive t) (s_tasks s).

Definition chan_in (l : list chan_key) (ch : chan_key) : bool := existsb (chan_key_eqb ch) l.

(* 0 fine, 1 violation, 4 = K3 signature *)
Definition single_active_code (cs okc : list cmd) (p c : snap) (taint : list chan_key) (ch : chan_key) : N :=
  if chan_in taint ch then 0 else
  match active_on c ch with
  | [] => 0
  | [t] => match assoc_get chan_key_eqb (s_active c) ch with
           | Some (Some id) => if bytes_eqb id (t_task_id t) then 0 else 1
           | Some None => 1
           | None => 0           (* channel not observed *)
           end
  | act =>
    if (2 <=? length (active_on p ch))%nat then 1
    else if (2 <=? length cs)%nat
            && existsb (fun t => match snap_task p (task_key t) with
                                 | Some t0 => isTerminal t0
                                              && existsb (fun x => is_claim_advance x && cmd_targets x (task_key t)) okc
                                 | None => false
                                 end) act
    then 4 else 1
  end.

Fixpoint chans_of_tasks (l : list task) (acc : list chan_key) : list chan_key :=
  match l with
  | [] => acc
  | t :: r => if chan_in acc (task_chan t) then chans_of_tasks r acc else chans_of_tasks r (acc ++ [task_chan t])
  end.

(* worst code over the channels: 1 dominates, else the first non-zero *)
Definition combine (a b : N) : N :=
  if (a =? 1) || (b =? 1) then 1 else if a =? 0 then b else a.

Definition single_active_step (cs okc : list cmd) (p c : snap) (taint : list chan_key) : N * list chan_key :=
  fold_left (fun acc ch =>
               let code := single_active_code cs okc p c taint ch in
               (combine (fst acc) code, if 2 <=? code then snd acc ++ [ch] else snd acc))
            (chans_of_tasks (s_tasks c) []) (0, taint).

(* ---- clause (temporal): a task that was in a post-commit phase is never aborted later ------------ *)

Record mark := Mark { mk_post : bool; mk_adv : bool; mk_reset : bool; mk_other : bool }.
Definition mark_zero : mark := Mark false false false false.

Definition abort_code (m : mark) : N :=
  if negb (mk_post m) then 0
  else if mk_other m then 1
  else if mk_adv m then 2
  else if mk_reset m then 3
  else 1.

(* the mark of task key [k] after one step, and the step's code for [k] *)
Definition mark_step (okc : list cmd) (p c : snap) (k : tkey) (m0 : mark) : N * option mark :=
  match snap_task c k with
  | None => (0, None)                                   (* the row is gone: the incarnation ends *)
  | Some cur =>
    let pre := snap_task p k in
    let pre_post := match pre with Some t => post_commit_phase (t_phase t) | None => false end in
    let cur_post := post_commit_phase (t_phase cur) in
    let mine := filter (fun x => cmd_targets x k) okc in
    let has_adv := existsb is_claim_advance mine in
    let has_reset := existsb is_reset mine in
    let aborted := existsb is_abort mine && (t_status cur =? StatusAborted)
                   && match pre with Some t => negb (t_status t =? StatusAborted) | None => true end in
    let leg_done := existsb is_embedded_leg_clear mine
                    && match pre with
                       | Some t => (t_kind t =? KindReplicaReplace) && t_embedded_leader_transfer t
                                   && (t_phase t =? PhaseVerifyNewLeader)
                       | None => false
                       end
                    && negb cur_post in
    (* a Claim/Advance that changes the phase or the embedded flag of the row *)
    let adv_moved := has_adv
                     && match pre with
                        | Some t => negb (t_phase t =? t_phase cur)
                                    || negb (Bool.eqb (t_embedded_leader_transfer t) (t_embedded_leader_transfer cur))
                        | None => false
                        end in
    let m1 := if pre_post then Mark true (mk_adv m0) (mk_reset m0) (mk_other m0) else m0 in
    let leaving := pre_post && (negb cur_post || aborted || adv_moved) in
    let m2 := if leaving then
                if leg_done then mark_zero
                else Mark (mk_post m1) (mk_adv m1 || has_adv) (mk_reset m1 || has_reset)
                          (mk_other m1 || (negb has_adv && negb has_reset))
              else m1 in
    let code := if aborted then abort_code m2 else 0 in
    let m3 := if cur_post then Mark true (mk_adv m2) (mk_reset m2) (mk_other m2) else m2 in
    (code, Some m3)
  end.

Definition marks := list (tkey * mark).

Definition marks_step (okc : list cmd) (p c : snap) (ms : marks) : N * marks :=
  fold_left (fun acc t =>
               let k := task_key t in
               let m0 := match assoc_get tkey_eqb ms k with Some m => m | None => mark_zero end in
               match mark_step okc p c k m0 with
               | (code, Some m) => (combine (fst acc) code, snd acc ++ [(k, m)])
               | (code, None) => (combine (fst acc) code, snd acc)
               end)
            (s_tasks c) (0, []).

(* ---- one step --------------------------------------------------------------------------------------- *)

Record mstate := MState { ms_prev : snap; ms_marks : marks; ms_taint : list chan_key }.
Definition mstate_init : mstate := MState snap_empty [] [].

Definition all_stale (r : bres) : bool :=
  match r with BResults rs => forallb (fun x => x =? 1) rs | BErr _ => false end.

Definition b2c (b : bool) : N := if b then 0 else 1.

(* the codes of the seven clauses of one step: rejected-changes-nothing, commit/promote proof,
   abort per command, frame + fence ownership, meta validity, single active task, temporal abort *)
Definition mon_step_codes (st : mstate) (cs : list cmd) (o : obs) : list N * mstate :=
  let p := ms_prev st in
  let c := snap_of o in
  let r := o_res o in
  let okc := ok_cmds cs r in
  let single := match cs with [_] => true | _ => false end in
  (* a rejected batch changes nothing *)
  let rejected := all_stale r || (single && match r with BErr _ => true | _ => false end) in
  let c_rejected := b2c (negb rejected || snap_unchanged p c) in
  (* per-command clauses: the pre-state of a command is observed only for one-command batches *)
  let c_commit := b2c (negb single || forallb (commit_clause p) okc) in
  let c_abort := b2c (negb single || forallb (abort_clause p) okc) in
  let c_frame := b2c (tasks_frame okc p c && metas_frame okc p c) in
  let c_valid := b2c (metas_valid okc p c) in
  let '(c_single, taint) := single_active_step cs okc p c (ms_taint st) in
  let '(c_temporal, ms) := marks_step okc p c (ms_marks st) in
  ([c_rejected; c_commit; c_abort; c_frame; c_valid; c_single; c_temporal], MState c ms taint).

Definition mon_step (st : mstate) (cs : list cmd) (o : obs) : N * mstate :=
  let '(codes, st') := mon_step_codes st cs o in (fold_left combine codes 0, st').

(* per-step clause codes of a whole case (diagnostics for replay files) *)
Fixpoint mon_trace (st : mstate) (steps : list (list cmd * obs)) : list (list N) :=
  match steps with
  | [] => []
  | (cs, o) :: r => let '(codes, st') := mon_step_codes st cs o in codes :: mon_trace st' r
  end.
Definition C17_monitor_trace (c : c17_case) : list (list N) := mon_trace mstate_init (c_steps c).

Fixpoint mon_run (st : mstate) (steps : list (list cmd * obs)) (acc : N) : N :=
  match steps with
  | [] => acc
  | (cs, o) :: r =>
    let '(code, st') := mon_step st cs o in
    mon_run st' r (combine acc code)
  end.

(* the monitor on a list of fully written steps *)
Definition C17_monitor_on (steps : list (list cmd * obs)) : N := mon_run mstate_init steps 0.

Definition C17_monitor (c : c17_case) : N := C17_monitor_on (c_steps c).
