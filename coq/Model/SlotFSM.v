(* Model/SlotFSM.v — the slot state machine of pkg/slot/fsm over the WriteBatch of
   pkg/db/meta: ApplyBatch, its command loop, the deferred-operation commit with its
   overlay, and the hash-slot migration maintenance (outbox, fence, applied-delta
   records, ack, cleanup).

   Part 1 is the *batch machine*, generic in the store, the staging state, the commit
   overlay, the deferred operations and the commands:
       stage     one iteration of the command loop of ApplyBatch (statemachine.go): reads
                 the committed store and the batch-local staging state, returns a fatal
                 error (ApplyBatch returns it, nothing is committed) or the operations the
                 command appends to the WriteBatch, its result and the new staging state;
       run_op    one deferred operation of Batch.Commit (batch.go): reads the committed
                 store and the commit overlay, fails with a stale-class error
                 (isStaleMetaCommitError), a fatal error, or returns the new overlay;
       flush     the store after the engine batch of a successful commit is written;
       ApplyBatch = stage everything, commit once, on a stale commit error fall back to
                 applyCommandsIndividuallyAfterStaleCommit.
   Part 2 instantiates it with the code that exists: commands HNoop, HUser (upsert /
   create user), HCM (runtime-meta upsert and the channel-migration commands of
   Model/ChanMigration.v, C17), HDelta, HFence, HAck, HCleanup; stores with user rows,
   the channel-migration tables of every hash slot, hash-slot migration state rows,
   outbox rows, applied-delta records and the slot applied index.

   Go function                                   Gallina
   stateMachine.ApplyBatch                       fsm_apply_batch (= ApplyBatch of the machine)
     command loop body                           fsm_stage
     applyCommandsIndividuallyAfterStaleCommit   apply_individually
   stateMachine.resolveHashSlot                  resolveHashSlot
   stateMachine.isHashSlotFenced                 isHashSlotFenced
   stateMachine.applyMigrationOutboxAck          applyMigrationOutboxAck
   stateMachine.applyMigrationOutboxCleanup      applyMigrationOutboxCleanup
   stateMachine.stageMigrationFence              stageMigrationFence
   stateMachine.migrationForFence                migrationForFence
   stateMachine.stageMigrationOutbox             stageMigrationOutbox
   stateMachine.loadOrCreateMigrationState       loadOrCreateMigrationState
   command.apply (the modelled kinds)            cmd_apply
   isMigrationMaintenanceCommand                 isMigrationMaintenanceCommand
   WriteBatch / Batch deferred operations        wop, fsm_run_op
   Definitions only. *)
From WK Require Import Base.Base.
From WK Require Import Gen.Consts_C15 Gen.Consts_C17 Gen.Consts_C13.
From WK Require Import Model.RuntimeMeta Model.ChanMigration.
Open Scope N_scope.

(* ================================================================================= *)
(* Part 1 — the batch machine                                                         *)
(* ================================================================================= *)

Section Machine.
  Context {S T V O C R : Type}.

  Inductive sres := SFatal (e : N) | SDone (t : T) (ops : list O) (r : R).
  Inductive ores := OOk (v : V) | OStale | OFatal (e : N).

  Variable stage : S -> T -> C -> sres.
  Variable t0 : T.
  Variable finish : list C -> list O.     (* SetSlotAppliedIndex, staged after the loop *)
  Variable v0 : S -> V.
  Variable run_op : S -> V -> O -> ores.
  Variable flush : S -> V -> S.
  Variable r_stale : R.                   (* ApplyResultStaleMeta *)

  (* the command loop: the first fatal error ends ApplyBatch *)
  Fixpoint stage_all (s : S) (t : T) (cs : list C) : N + (list O * list R) :=
    match cs with
    | [] => inr ([], [])
    | c :: r =>
      match stage s t c with
      | SFatal e => inl e
      | SDone t' ops x =>
        match stage_all s t' r with
        | inl e => inl e
        | inr (ops', rs) => inr (ops ++ ops', x :: rs)
        end
      end
    end.

  (* Batch.Commit, the Build loop: the first error aborts the whole commit *)
  Fixpoint run_ops (s : S) (v : V) (ops : list O) : ores :=
    match ops with
    | [] => OOk v
    | o :: r => match run_op s v o with
                | OOk v' => run_ops s v' r
                | OStale => OStale
                | OFatal e => OFatal e
                end
    end.

  Inductive core := CoreErr (e : N) | CoreStale | CoreOk (s' : S) (rs : list R).

  Definition apply_core (s : S) (cs : list C) : core :=
    match stage_all s t0 cs with
    | inl e => CoreErr e
    | inr (ops, rs) =>
      match run_ops s (v0 s) (ops ++ finish cs) with
      | OOk v => CoreOk (flush s v) rs
      | OStale => CoreStale
      | OFatal e => CoreErr e
      end
    end.

  Inductive bres := BErr (e : N) | BRes (rs : list R).

  (* ApplyBatch with exactly one command *)
  Definition apply_one (s : S) (c : C) : S * (N + R) :=
    match apply_core s [c] with
    | CoreErr e => (s, inl e)
    | CoreStale => (s, inr r_stale)
    | CoreOk s' rs => (s', match rs with x :: _ => inr x | [] => inr r_stale end)
    end.

  (* applyCommandsIndividuallyAfterStaleCommit; also the finest partition of a log *)
  Fixpoint apply_individually (s : S) (cs : list C) : S * bres :=
    match cs with
    | [] => (s, BRes [])
    | c :: r =>
      match apply_one s c with
      | (s', inl e) => (s', BErr e)
      | (s', inr x) =>
        match apply_individually s' r with
        | (s'', BErr e) => (s'', BErr e)
        | (s'', BRes xs) => (s'', BRes (x :: xs))
        end
      end
    end.

  Definition ApplyBatch (s : S) (cs : list C) : S * bres :=
    match apply_core s cs with
    | CoreErr e => (s, BErr e)
    | CoreOk s' rs => (s', BRes rs)
    | CoreStale =>
      match cs with
      | [_] => (s, BRes [r_stale])
      | _ => apply_individually s cs
      end
    end.

  (* a log applied under a partition: the batches in order; a failed batch ends the run *)
  Fixpoint apply_partition (s : S) (batches : list (list C)) : S * list bres :=
    match batches with
    | [] => (s, [])
    | b :: r =>
      match ApplyBatch s b with
      | (s', BErr e) => (s', [BErr e])
      | (s', BRes rs) => let '(s'', out) := apply_partition s' r in (s'', BRes rs :: out)
      end
    end.
End Machine.

Arguments SFatal {T O R}.
Arguments SDone {T O R}.
Arguments OOk {V}.
Arguments OStale {V}.
Arguments OFatal {V}.
Arguments CoreErr {S R}.
Arguments CoreStale {S R}.
Arguments CoreOk {S R}.
Arguments BErr {R}.
Arguments BRes {R}.

(* ================================================================================= *)
(* Part 2 — the slot state machine                                                    *)
(* ================================================================================= *)

(* error classes of ApplyBatch: 1 ErrInvalidArgument, 2 ErrCorruptValue, 3 any other;
   0 is used by the model for "an error whose class the model does not determine" *)
Definition E_INVALID : N := 1.
Definition E_CORRUPT : N := 2.
Definition E_OTHER : N := 3.
Definition E_ANY : N := 0.

(* per-command result classes: ApplyResultOK, ApplyResultStaleMeta, ApplyResultHashSlotFenced *)
Definition R_OK : N := 0.
Definition R_STALE : N := 1.
Definition R_FENCED : N := 2.

(* ---- rows ---------------------------------------------------------------------------- *)

Record urow := URow { ur_hs : N; ur_uid : bytes; ur_token : bytes; ur_flag : Z; ur_level : Z }.

(* metadb.HashSlotMigrationState *)
Record hs_state := HsState {
  hs_hash_slot : N; hs_source : N; hs_target : N; hs_phase : N;
  hs_fence_index : N; hs_last_outbox : N; hs_last_acked : N }.

(* metadb.HashSlotMigrationOutboxRow *)
Record outbox_row := Outbox { ob_hs : N; ob_src : N; ob_tgt : N; ob_idx : N; ob_data : bytes }.

(* metadb.AppliedHashSlotDelta *)
Record dkey := DKey { dk_hs : N; dk_src : N; dk_idx : N }.

Record store := Store {
  st_users : list urow;            (* ordered by (hash slot, uid) *)
  st_cm : list (N * db);           (* channel-migration tables per hash slot, ordered by hash slot *)
  st_states : list hs_state;       (* at most one per hash slot, ordered by hash slot *)
  st_outbox : list outbox_row;     (* ordered by (hash slot, source, target, index) *)
  st_applied : list dkey;          (* ordered *)
  st_applied_index : N }.

Definition store_empty : store := Store [] [] [] [] [] 0.

(* the runtime configuration of one stateMachine value *)
Record fsm_cfg := Cfg {
  cfg_slot : N;
  cfg_owned : list N;                      (* ownedHashSlots *)
  cfg_legacy : N;                          (* legacyHashSlot *)
  cfg_allow_legacy : bool;                 (* allowLegacyDefault *)
  cfg_migs : list (N * (N * N)) }.         (* migrations: hash slot -> (target, phase) *)

(* ---- commands ---------------------------------------------------------------------------- *)

Inductive hcmd :=
| HNoop
| HUser (create : bool) (uid token : bytes) (flag level : Z)
| HCM (c : cmd)
| HDelta (source_slot source_index hash_slot : N) (orig : option hcmd)   (* None: OriginalCmd does not decode *)
| HFence (hash_slot target : N)
| HAck (hash_slot source_slot target_slot source_index : N)
| HCleanup (hash_slot source_slot target_slot through_index : N)
| HOpaque (kind : N).            (* a command family the model does not interpret *)

(* one committed log entry as ApplyBatch receives it: multiraft.Command *)
Record fcmd := FCmd {
  fc_slot_ok : bool;        (* cmd.SlotID = m.slot *)
  fc_hs : N;                (* cmd.HashSlot *)
  fc_index : N;             (* cmd.Index *)
  fc_cmd : hcmd;            (* decodeCommand(cmd.Data) *)
  fc_data : bytes }.        (* cmd.Data (stored in outbox rows) *)

(* what forwardCommittedDeltas hands to the forwarder: target slot and the command *)
Record forward := Forward { fw_target : N; fw_hs : N; fw_index : N; fw_data : bytes }.

(* ---- ordered rows ------------------------------------------------------------------------ *)

Definition urow_ltb (a b : urow) : bool :=
  (ur_hs a <? ur_hs b) || ((ur_hs a =? ur_hs b) && keystr_ltb (ur_uid a) (ur_uid b)).
Definition urow_same (a b : urow) : bool := (ur_hs a =? ur_hs b) && bytes_eqb (ur_uid a) (ur_uid b).
Definition urow_eqb (a b : urow) : bool :=
  urow_same a b && bytes_eqb (ur_token a) (ur_token b) && (ur_flag a =? ur_flag b)%Z && (ur_level a =? ur_level b)%Z.

Fixpoint user_get (l : list urow) (hs : N) (uid : bytes) : option urow :=
  match l with
  | [] => None
  | u :: r => if (ur_hs u =? hs) && bytes_eqb (ur_uid u) uid then Some u else user_get r hs uid
  end.
Fixpoint user_del (l : list urow) (k : urow) : list urow :=
  match l with
  | [] => []
  | u :: r => if urow_same u k then user_del r k else u :: user_del r k
  end.
Fixpoint user_insert (l : list urow) (k : urow) : list urow :=
  match l with
  | [] => [k]
  | u :: r => if urow_ltb k u then k :: l else u :: user_insert r k
  end.
Definition user_put (l : list urow) (k : urow) : list urow := user_insert (user_del l k) k.

Definition hs_state_eqb (a b : hs_state) : bool :=
  (hs_hash_slot a =? hs_hash_slot b) && (hs_source a =? hs_source b) && (hs_target a =? hs_target b)
  && (hs_phase a =? hs_phase b) && (hs_fence_index a =? hs_fence_index b)
  && (hs_last_outbox a =? hs_last_outbox b) && (hs_last_acked a =? hs_last_acked b).

Fixpoint state_get (l : list hs_state) (hs : N) : option hs_state :=
  match l with
  | [] => None
  | x :: r => if hs_hash_slot x =? hs then Some x else state_get r hs
  end.
Fixpoint state_del (l : list hs_state) (hs : N) : list hs_state :=
  match l with
  | [] => []
  | x :: r => if hs_hash_slot x =? hs then state_del r hs else x :: state_del r hs
  end.
Fixpoint state_insert (l : list hs_state) (x : hs_state) : list hs_state :=
  match l with
  | [] => [x]
  | y :: r => if hs_hash_slot x <? hs_hash_slot y then x :: l else y :: state_insert r x
  end.
Definition state_put (l : list hs_state) (x : hs_state) : list hs_state :=
  state_insert (state_del l (hs_hash_slot x)) x.

Definition lex4_ltb (a1 a2 a3 a4 b1 b2 b3 b4 : N) : bool :=
  (a1 <? b1) || ((a1 =? b1) && ((a2 <? b2) || ((a2 =? b2) && ((a3 <? b3) || ((a3 =? b3) && (a4 <? b4)))))).

Definition outbox_ltb (a b : outbox_row) : bool :=
  lex4_ltb (ob_hs a) (ob_src a) (ob_tgt a) (ob_idx a) (ob_hs b) (ob_src b) (ob_tgt b) (ob_idx b).
Definition outbox_same (a : outbox_row) (hs src tgt idx : N) : bool :=
  (ob_hs a =? hs) && (ob_src a =? src) && (ob_tgt a =? tgt) && (ob_idx a =? idx).
Definition outbox_eqb (a b : outbox_row) : bool :=
  outbox_same a (ob_hs b) (ob_src b) (ob_tgt b) (ob_idx b) && bytes_eqb (ob_data a) (ob_data b).

Fixpoint outbox_insert (l : list outbox_row) (x : outbox_row) : list outbox_row :=
  match l with
  | [] => [x]
  | y :: r => if outbox_ltb x y then x :: l else y :: outbox_insert r x
  end.
Definition outbox_put (l : list outbox_row) (x : outbox_row) : list outbox_row :=
  outbox_insert (filter (fun y => negb (outbox_same y (ob_hs x) (ob_src x) (ob_tgt x) (ob_idx x))) l) x.
Definition outbox_del (l : list outbox_row) (hs src tgt idx : N) : list outbox_row :=
  filter (fun y => negb (outbox_same y hs src tgt idx)) l.
(* DeleteRange [prefix(hs,src,tgt), PrefixEnd(key(hs,src,tgt,idx))): every row of the pair with index <= idx *)
Definition outbox_del_through (l : list outbox_row) (hs src tgt idx : N) : list outbox_row :=
  filter (fun y => negb ((ob_hs y =? hs) && (ob_src y =? src) && (ob_tgt y =? tgt) && (ob_idx y <=? idx))) l.
Definition outbox_del_all (l : list outbox_row) (hs : N) : list outbox_row :=
  filter (fun y => negb (ob_hs y =? hs)) l.

Definition dkey_eqb (a b : dkey) : bool :=
  (dk_hs a =? dk_hs b) && (dk_src a =? dk_src b) && (dk_idx a =? dk_idx b).
Definition dkey_ltb (a b : dkey) : bool :=
  lex4_ltb (dk_hs a) (dk_src a) (dk_idx a) 0 (dk_hs b) (dk_src b) (dk_idx b) 0.
Definition dkey_mem (k : dkey) (l : list dkey) : bool := existsb (dkey_eqb k) l.
Fixpoint dkey_insert (l : list dkey) (k : dkey) : list dkey :=
  match l with
  | [] => [k]
  | y :: r => if dkey_eqb k y then l else if dkey_ltb k y then k :: l else y :: dkey_insert r k
  end.

(* the channel-migration tables of one hash slot *)
Fixpoint cm_get (l : list (N * db)) (hs : N) : db :=
  match l with
  | [] => db_empty
  | (h, d) :: r => if h =? hs then d else cm_get r hs
  end.
Fixpoint cm_put (l : list (N * db)) (hs : N) (d : db) : list (N * db) :=
  match l with
  | [] => [(hs, d)]
  | (h, d') :: r => if h =? hs then (h, d) :: r
                    else if hs <? h then (hs, d) :: l else (h, d') :: cm_put r hs d
  end.

(* ---- deferred operations of the WriteBatch ------------------------------------------------- *)

Inductive wop :=
| WUser (create : bool) (u : urow)              (* userTable.StageUpsert / WriteBatch.CreateUser *)
| WCM (hs : N) (o : op)                         (* the operations of Model/ChanMigration.v *)
| WStateUpsert (x : hs_state)                   (* UpsertHashSlotMigrationState *)
| WStateDelete (hs : N)                         (* DeleteHashSlotMigrationState *)
| WMarkApplied (k : dkey)                       (* MarkAppliedHashSlotDelta *)
| WOutboxUpsert (x : outbox_row)                (* UpsertHashSlotMigrationOutbox *)
| WOutboxDelete (hs src tgt idx : N)            (* DeleteHashSlotMigrationOutbox *)
| WOutboxDeleteThrough (hs src tgt idx : N)     (* DeleteHashSlotMigrationOutboxThrough *)
| WOutboxDeleteAll (hs : N)                     (* DeleteAllHashSlotMigrationOutbox *)
| WSetApplied (index : N).                      (* SetSlotAppliedIndex *)

(* the commit overlay: the pending store (committed store + engine batch so far) and,
   per hash slot, the batchCommitState overlay maps of the channel-migration rows *)
Record cstate_all := CAll {
  ca_pend : store;
  ca_cm : list (N * (list (tkey * task) * list (chan_key * runtime_meta))) }.

Fixpoint ov_get (l : list (N * (list (tkey * task) * list (chan_key * runtime_meta)))) (hs : N)
  : list (tkey * task) * list (chan_key * runtime_meta) :=
  match l with
  | [] => ([], [])
  | (h, x) :: r => if h =? hs then x else ov_get r hs
  end.
Fixpoint ov_put (l : list (N * (list (tkey * task) * list (chan_key * runtime_meta)))) (hs : N)
         (x : list (tkey * task) * list (chan_key * runtime_meta)) :=
  match l with
  | [] => [(hs, x)]
  | (h, y) :: r => if h =? hs then (h, x) :: r else (h, y) :: ov_put r hs x
  end.

Definition set_users (p : store) (u : list urow) : store :=
  Store u (st_cm p) (st_states p) (st_outbox p) (st_applied p) (st_applied_index p).
Definition set_cm (p : store) (c : list (N * db)) : store :=
  Store (st_users p) c (st_states p) (st_outbox p) (st_applied p) (st_applied_index p).
Definition set_states (p : store) (x : list hs_state) : store :=
  Store (st_users p) (st_cm p) x (st_outbox p) (st_applied p) (st_applied_index p).
Definition set_outbox (p : store) (x : list outbox_row) : store :=
  Store (st_users p) (st_cm p) (st_states p) x (st_applied p) (st_applied_index p).
Definition set_applied (p : store) (x : list dkey) : store :=
  Store (st_users p) (st_cm p) (st_states p) (st_outbox p) x (st_applied_index p).
Definition set_applied_index (p : store) (i : N) : store :=
  Store (st_users p) (st_cm p) (st_states p) (st_outbox p) (st_applied p) i.

Definition cm_err_class (e : err) : N :=
  match e with EInvalidArgument => E_INVALID | _ => E_OTHER end.

(* one deferred operation: [d] is the committed store (the channel-migration operations
   read the active index, the previous task row and the GC candidates from it) *)
Definition fsm_run_op (d : store) (v : cstate_all) (o : wop) : @ores cstate_all :=
  let p := ca_pend v in
  match o with
  | WUser create u =>
      if create then
        match user_get (st_users p) (ur_hs u) (ur_uid u) with
        | Some _ => OOk v
        | None => OOk (CAll (set_users p (user_put (st_users p) u)) (ca_cm v))
        end
      else OOk (CAll (set_users p (user_put (st_users p) u)) (ca_cm v))
  | WCM hs o' =>
      let '(ot, om) := ov_get (ca_cm v) hs in
      match run_op (cm_get (st_cm d) hs) (CState (cm_get (st_cm p) hs) ot om) o' with
      | Err e => if isStaleMetaCommitError e then OStale else OFatal (cm_err_class e)
      | Ok cs' =>
          OOk (CAll (set_cm p (cm_put (st_cm p) hs (cs_pend cs')))
                    (ov_put (ca_cm v) hs (cs_otasks cs', cs_ometas cs')))
      end
  | WStateUpsert x => OOk (CAll (set_states p (state_put (st_states p) x)) (ca_cm v))
  | WStateDelete hs => OOk (CAll (set_states p (state_del (st_states p) hs)) (ca_cm v))
  | WMarkApplied k => OOk (CAll (set_applied p (dkey_insert (st_applied p) k)) (ca_cm v))
  | WOutboxUpsert x => OOk (CAll (set_outbox p (outbox_put (st_outbox p) x)) (ca_cm v))
  | WOutboxDelete hs s t i => OOk (CAll (set_outbox p (outbox_del (st_outbox p) hs s t i)) (ca_cm v))
  | WOutboxDeleteThrough hs s t i => OOk (CAll (set_outbox p (outbox_del_through (st_outbox p) hs s t i)) (ca_cm v))
  | WOutboxDeleteAll hs => OOk (CAll (set_outbox p (outbox_del_all (st_outbox p) hs)) (ca_cm v))
  | WSetApplied i => OOk (CAll (set_applied_index p i) (ca_cm v))
  end.

Definition fsm_v0 (d : store) : cstate_all := CAll d [].
Definition fsm_flush (d : store) (v : cstate_all) : store := ca_pend v.

(* ---- the staging state of one ApplyBatch call ------------------------------------------------- *)

Record bstate := BState {
  bs_delta : list dkey;                         (* pendingDeltaRecords *)
  bs_states : list (N * hs_state);              (* pendingMigrationStates *)
  bs_cm : list (N * (list (tkey * task) * list chan_key)) }.   (* migrationCreates / migrationActive per hash slot *)

Definition bstate0 : bstate := BState [] [] [].

Fixpoint pend_get (l : list (N * hs_state)) (hs : N) : option hs_state :=
  match l with
  | [] => None
  | (h, x) :: r => if h =? hs then Some x else pend_get r hs
  end.
Fixpoint pend_del (l : list (N * hs_state)) (hs : N) : list (N * hs_state) :=
  match l with
  | [] => []
  | (h, x) :: r => if h =? hs then pend_del r hs else (h, x) :: pend_del r hs
  end.
Definition pend_put (l : list (N * hs_state)) (hs : N) (x : hs_state) : list (N * hs_state) :=
  (hs, x) :: pend_del l hs.

Fixpoint bcm_get (l : list (N * (list (tkey * task) * list chan_key))) (hs : N) : list (tkey * task) * list chan_key :=
  match l with
  | [] => ([], [])
  | (h, x) :: r => if h =? hs then x else bcm_get r hs
  end.
Fixpoint bcm_put (l : list (N * (list (tkey * task) * list chan_key))) (hs : N) (x : list (tkey * task) * list chan_key) :=
  match l with
  | [] => [(hs, x)]
  | (h, y) :: r => if h =? hs then (h, x) :: r else (h, y) :: bcm_put r hs x
  end.

Definition set_bs_delta (b : bstate) (x : list dkey) : bstate := BState x (bs_states b) (bs_cm b).
Definition set_bs_states (b : bstate) (x : list (N * hs_state)) : bstate := BState (bs_delta b) x (bs_cm b).
Definition set_bs_cm (b : bstate) x : bstate := BState (bs_delta b) (bs_states b) x.

(* ---- resolveHashSlot, fence check ---------------------------------------------------------------- *)

Definition memN (x : N) (l : list N) : bool := existsb (N.eqb x) l.

Fixpoint mig_get (l : list (N * (N * N))) (hs : N) : option (N * N) :=
  match l with
  | [] => None
  | (h, x) :: r => if h =? hs then Some x else mig_get r hs
  end.

Definition isApplyDelta (c : hcmd) : bool := match c with HDelta _ _ _ _ => true | _ => false end.
(* isSourceMigrationMaintenanceCommandData *)
Definition isSourceMaintenance (c : hcmd) : bool :=
  match c with HFence _ _ | HAck _ _ _ _ | HCleanup _ _ _ _ => true | _ => false end.
Definition isMigrationMaintenanceCommand (c : hcmd) : bool :=
  match c with HDelta _ _ _ _ | HFence _ _ | HAck _ _ _ _ | HCleanup _ _ _ _ => true | _ => false end.

(* None: ErrInvalidArgument *)
Definition resolveHashSlot (cfg : fsm_cfg) (c : fcmd) : option N :=
  match fc_cmd c with
  | HDelta _ _ hs _ => if hs =? fc_hs c then Some hs else None
  | k =>
    let hs := if (fc_hs c =? 0) && cfg_allow_legacy cfg then cfg_legacy cfg else fc_hs c in
    if memN hs (cfg_owned cfg) then Some hs
    else if isSourceMaintenance k then Some hs
    else None
  end.

Definition load_state (d : store) (b : bstate) (hs : N) : option hs_state :=
  match pend_get (bs_states b) hs with
  | Some x => Some x
  | None => state_get (st_states d) hs
  end.

Definition isHashSlotFenced (cfg : fsm_cfg) (d : store) (b : bstate) (hs : N) : bool :=
  match load_state d b hs with
  | None => false
  | Some x =>
    if negb (hs_source x =? cfg_slot cfg) || (hs_fence_index x =? 0) then false
    else match mig_get (cfg_migs cfg) hs with
         | Some (target, _) => negb (negb (target =? 0) && negb (target =? hs_target x))
         | None => true
         end
  end.

(* ---- ack / cleanup ---------------------------------------------------------------------------------- *)

Definition set_acked (x : hs_state) (i : N) : hs_state :=
  HsState (hs_hash_slot x) (hs_source x) (hs_target x) (hs_phase x) (hs_fence_index x) (hs_last_outbox x) i.

(* None: ErrInvalidArgument; Some (new staging state, operations) *)
Definition applyMigrationOutboxAck (cfg : fsm_cfg) (d : store) (b : bstate) (hashSlot : N)
           (hs src tgt idx : N) : option (bstate * list wop) :=
  if negb (hs =? hashSlot) || negb (src =? cfg_slot cfg) || (tgt =? 0) || (idx =? 0) then None
  else
    match load_state d b hashSlot with
    | None => Some (b, [])
    | Some x =>
      if negb (hs_source x =? src) || negb (hs_target x =? tgt) || (hs_last_outbox x <? idx) then Some (b, [])
      else
        let x' := if hs_last_acked x <? idx then set_acked x idx else x in
        Some (set_bs_states b (pend_put (bs_states b) hashSlot x'),
              [WStateUpsert x'; WOutboxDelete hashSlot src tgt idx])
    end.

Definition applyMigrationOutboxCleanup (cfg : fsm_cfg) (d : store) (b : bstate) (hashSlot : N)
           (hs src tgt through : N) : option (bstate * list wop) :=
  if negb (hs =? hashSlot) || negb (src =? cfg_slot cfg) || (tgt =? 0) || (through =? 0) then None
  else
    let del :=
      match load_state d b hashSlot with
      | None => false
      | Some x => (hs_source x =? src) && (hs_target x =? tgt) && negb (hs_last_outbox x =? 0)
                  && (hs_last_outbox x <=? through)
      end in
    if del then
      (* delete(pendingStates, hashSlot): later reads of this batch fall back to the COMMITTED row *)
      Some (set_bs_states b (pend_del (bs_states b) hashSlot),
            [WStateDelete hashSlot; WOutboxDeleteThrough hashSlot src tgt through])
    else Some (b, [WOutboxDeleteThrough hashSlot src tgt through]).

(* ---- outbox / fence staging --------------------------------------------------------------------------- *)

Definition fresh_state (cfg : fsm_cfg) (hs target : N) : hs_state := HsState hs (cfg_slot cfg) target 0 0 0 0.

(* returns the state to continue with and the operations staged on a (source,target) mismatch *)
Definition loadOrCreateMigrationState (cfg : fsm_cfg) (d : store) (b : bstate) (hs target : N)
  : hs_state * list wop :=
  let x := match load_state d b hs with Some x => x | None => fresh_state cfg hs target end in
  if negb (hs_source x =? cfg_slot cfg) || negb (hs_target x =? target)
  then (fresh_state cfg hs target, [WStateDelete hs; WOutboxDeleteAll hs])
  else (x, []).

Definition migrationForFence (cfg : fsm_cfg) (hs target : N) : option (N * N) :=
  match mig_get (cfg_migs cfg) hs with
  | Some (t, ph) =>
    if negb (t =? 0) && (migrationPhaseDelta <=? ph) then Some (t, ph)
    else if target =? 0 then None else Some (target, migrationPhaseSnapshot)
  | None => if target =? 0 then None else Some (target, migrationPhaseSnapshot)
  end.

Definition maxN (a b : N) : N := if a <? b then b else a.

(* None: ErrInvalidArgument *)
Definition stageMigrationFence (cfg : fsm_cfg) (d : store) (b : bstate) (c : fcmd) (hs target : N)
  : option (bstate * list wop * list forward) :=
  match migrationForFence cfg hs target with
  | None => None
  | Some (t, ph) =>
    if t =? 0 then None
    else
      let '(x, ops0) := loadOrCreateMigrationState cfg d b hs t in
      if negb (hs_fence_index x =? 0) then Some (b, ops0, [])
      else
        let x' := HsState (hs_hash_slot x) (hs_source x) (hs_target x) migrationPhaseSwitching (fc_index c)
                          (maxN (hs_last_outbox x) (fc_index c)) (hs_last_acked x) in
        let ops := ops0 ++ [WOutboxUpsert (Outbox hs (cfg_slot cfg) t (fc_index c) (fc_data c)); WStateUpsert x'] in
        Some (set_bs_states b (pend_put (bs_states b) hs x'), ops,
              if ph <? migrationPhaseDelta then [] else [Forward t hs (fc_index c) (fc_data c)])
  end.

Definition stageMigrationOutbox (cfg : fsm_cfg) (d : store) (b : bstate) (c : fcmd) (hs : N)
  : bstate * list wop * list forward :=
  if isApplyDelta (fc_cmd c) then (b, [], [])
  else
    match mig_get (cfg_migs cfg) hs with
    | None => (b, [], [])
    | Some (t, ph) =>
      if negb ((ph =? migrationPhaseDelta) || (ph =? migrationPhaseSwitching)) then (b, [], [])
      else
        let '(x, ops0) := loadOrCreateMigrationState cfg d b hs t in
        let x' := HsState (hs_hash_slot x) (hs_source x) (hs_target x) ph (hs_fence_index x)
                          (maxN (hs_last_outbox x) (fc_index c)) (hs_last_acked x) in
        (set_bs_states b (pend_put (bs_states b) hs x'),
         ops0 ++ [WOutboxUpsert (Outbox hs (cfg_slot cfg) t (fc_index c) (fc_data c)); WStateUpsert x'],
         [Forward t hs (fc_index c) (fc_data c)])
    end.

(* ---- command.apply ---------------------------------------------------------------------------------------- *)

Inductive apply_res := AFatal (e : N) | AStale | AOk (b : bstate) (ops : list wop).

(* the channel-migration commands: WriteBatch staging of Model/ChanMigration.v, per hash slot *)
Definition cm_apply (b : bstate) (hs : N) (c : cmd) : apply_res :=
  let '(creates, active) := bcm_get (bs_cm b) hs in
  match stage_cmd (WBatch [] creates active) c with
  | (_, SErr e) => AFatal (cm_err_class e)
  | (w, SStale) => AStale
  | (w, SOk) => AOk (set_bs_cm b (bcm_put (bs_cm b) hs (wb_creates w, wb_active w))) (map (WCM hs) (wb_ops w))
  end.

(* the operations a stale create leaves in the WriteBatch (the runtime guard of CreateGuarded) *)
Definition cm_stale_ops (b : bstate) (hs : N) (c : cmd) : list wop :=
  let '(creates, active) := bcm_get (bs_cm b) hs in
  match stage_cmd (WBatch [] creates active) c with
  | (w, SStale) => map (WCM hs) (wb_ops w)
  | _ => []
  end.

(* apply of a command that is not itself an apply_delta; [in_delta]: called from applyDeltaCmd.apply *)
Definition cmd_apply_plain (b : bstate) (hs : N) (c : hcmd) : apply_res :=
  match c with
  | HNoop => AOk b []
  | HUser create uid token flag level =>
      if create then AOk b [WUser true (URow hs uid token flag level)]
      else if validateKeyString uid then AOk b [WUser false (URow hs uid token flag level)]
      else AFatal E_INVALID
  | HCM c' => cm_apply b hs c'
  | HFence h _ => if h =? hs then AOk b [] else AFatal E_INVALID
  | HAck h _ _ _ => if negb (h =? 0) && negb (h =? hs) then AFatal E_INVALID else AOk b []
  | HCleanup h _ _ _ => if negb (h =? 0) && negb (h =? hs) then AFatal E_INVALID else AOk b []
  | HDelta _ _ _ _ => AFatal E_INVALID            (* nested apply delta command *)
  | HOpaque _ => AFatal E_ANY
  end.

Definition cmd_apply (b : bstate) (hs : N) (c : hcmd) : apply_res :=
  match c with
  | HDelta _ _ h orig =>
      if negb (h =? hs) then AFatal E_INVALID
      else match orig with
           | None => AFatal E_ANY
           | Some o => cmd_apply_plain b hs o
           end
  | _ => cmd_apply_plain b hs c
  end.

(* isStaleMetaResult looks at the type of the OUTER command: a stale create inside an
   apply_delta is an ordinary (fatal) error *)
Definition stale_is_result (c : hcmd) : bool := match c with HCM _ => true | _ => false end.

(* ---- one iteration of the command loop ----------------------------------------------------------------------- *)

Definition fres := (N * list forward)%type.     (* result class, deltas forwarded after the commit *)

Definition fsm_stage (cfg : fsm_cfg) (d : store) (b : bstate) (c : fcmd) : @sres bstate wop fres :=
  if negb (fc_slot_ok c) then SFatal E_INVALID
  else
    match resolveHashSlot cfg c with
    | None => SFatal E_INVALID
    | Some hs =>
      let k := fc_cmd c in
      if negb (isMigrationMaintenanceCommand k) && isHashSlotFenced cfg d b hs then SDone b [] (R_FENCED, [])
      else
        match k with
        | HAck h s t i =>
            match applyMigrationOutboxAck cfg d b hs h s t i with
            | None => SFatal E_INVALID
            | Some (b', ops) => SDone b' ops (R_OK, [])
            end
        | HCleanup h s t i =>
            match applyMigrationOutboxCleanup cfg d b hs h s t i with
            | None => SFatal E_INVALID
            | Some (b', ops) => SDone b' ops (R_OK, [])
            end
        | _ =>
          (* apply_delta replay check *)
          let dk := match k with HDelta s i _ _ => Some (DKey hs s i) | _ => None end in
          let replayed :=
            match dk with
            | Some key =>
                if dkey_mem key (bs_delta b) then Some true
                else if (dk_src key =? 0) || (dk_idx key =? 0) then None   (* validateAppliedHashSlotDelta *)
                else Some (dkey_mem key (st_applied d))
            | None => Some false
            end in
          match replayed with
          | None => SFatal E_INVALID
          | Some true => SDone b [] (R_OK, [])
          | Some false =>
            match cmd_apply b hs k with
            | AFatal e => SFatal e
            | AStale =>
                if stale_is_result k
                then SDone b (match k with HCM c' => cm_stale_ops b hs c' | _ => [] end) (R_STALE, [])
                else SFatal E_OTHER
            | AOk b1 ops1 =>
              let '(b2, ops2) :=
                match dk with
                | Some key => (set_bs_delta b1 (key :: bs_delta b1), [WMarkApplied key])
                | None => (b1, [])
                end in
              match k with
              | HFence _ target =>
                  match stageMigrationFence cfg d b2 c hs target with
                  | None => SFatal E_INVALID
                  | Some (b3, ops3, fw) => SDone b3 (ops1 ++ ops2 ++ ops3) (R_OK, fw)
                  end
              | _ =>
                  let '(b3, ops3, fw) := stageMigrationOutbox cfg d b2 c hs in
                  SDone b3 (ops1 ++ ops2 ++ ops3) (R_OK, fw)
              end
            end
          end
        end
    end.

(* SetSlotAppliedIndex(m.slot, cmds[len-1].Index) when that index is > 0 *)
Definition fsm_finish (cs : list fcmd) : list wop :=
  match rev cs with
  | c :: _ => if fc_index c =? 0 then [] else [WSetApplied (fc_index c)]
  | [] => []
  end.

Definition fsm_apply_batch (cfg : fsm_cfg) (d : store) (cs : list fcmd) : store * @bres fres :=
  ApplyBatch (fsm_stage cfg) bstate0 fsm_finish fsm_v0 fsm_run_op fsm_flush (R_STALE, []) d cs.

Definition fsm_apply_individually (cfg : fsm_cfg) (d : store) (cs : list fcmd) : store * @bres fres :=
  apply_individually (fsm_stage cfg) bstate0 fsm_finish fsm_v0 fsm_run_op fsm_flush (R_STALE, []) d cs.

Definition fsm_apply_partition (cfg : fsm_cfg) (d : store) (bs : list (list fcmd)) : store * list (@bres fres) :=
  apply_partition (fsm_stage cfg) bstate0 fsm_finish fsm_v0 fsm_run_op fsm_flush (R_STALE, []) d bs.

(* ---- store equality ------------------------------------------------------------------------------------------- *)

Definition db_eqb (a b : db) : bool :=
  list_eqb task_eqb (db_tasks a) (db_tasks b)
  && list_eqb (fun x y => chan_key_eqb (fst x) (fst y) && bytes_eqb (snd x) (snd y)) (db_active a) (db_active b)
  && list_eqb (fun x y => chan_key_eqb (fst x) (fst y) && runtime_meta_eqb (snd x) (snd y)) (db_metas a) (db_metas b).
