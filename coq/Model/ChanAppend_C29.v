(* Model/ChanAppend_C29.v — case-file interface of C29: the strict-store instance
   of the appender ports (the fake cluster node of harness/cmd/C29 on the real
   pkg/db/message store, with its scripted faults), the case record, the
   correspondence check [C29_mismatch] and the property monitor [C29_monitor]. *)
From WK Require Import Base.Base Gen.Consts_C29 Model.ChanAppend.
Open Scope N_scope.

(* ---- the strict store behind the ports ----------------------------------------------- *)

(* one committed record: sequence, message id, tag of the submitting item, command *)
Record prec := PRec { pr_seq : N; pr_id : N; pr_tag : N; pr_cmd : cmd }.

Inductive afault :=
| FOk
| FFailBefore (cls : N)          (* error, nothing committed *)
| FFailAfter (cls : N)           (* the batch commits, the call still returns an error *)
| FShort (k : N)                 (* commits, result vector truncated to k items *)
| FItemErr (j : N) (cls : N).    (* item j is not stored and gets an item-local error *)
Inductive lfault := LFOk | LFMiss | LFErr.

Inductive pcall := PCApp (attempt : N) (alloc : bool) (recs : list prec) | PCLook (uid cno : bytes).

Record sstore := SS {
  ss_log : list prec;
  ss_app : list afault;      (* consumed by AppendChannelBatch calls *)
  ss_look : list lfault;     (* consumed by LookupChannelIdempotency calls *)
  ss_calls : list pcall      (* newest first *)
}.

Definition same_key (a b : cmd) : bool := bytes_eqb (c_uid a) (c_uid b) && bytes_eqb (c_cno a) (c_cno b).

(* pkg/db/message ChannelLog.validateAppendRow over the batch (AppendStrict /
   AppendServerAllocatedMessageID): any failure rejects the whole batch *)
Fixpoint store_validate (log : list prec) (alloc : bool) (ids : list N) (keys : list cmd) (recs : list psend) : bool :=
  match recs with
  | [] => true
  | it :: r =>
      let c := ps_cmd it in
      negb (ps_mid it =? 0)
      && negb (existsb (N.eqb (ps_mid it)) ids)
      && (alloc || negb (existsb (fun p => pr_id p =? ps_mid it) log))
      && (if keyed c
          then negb (existsb (same_key c) keys) && negb (existsb (fun p => same_key c (pr_cmd p)) log)
          else true)
      && store_validate log alloc (ps_mid it :: ids) (if keyed c then c :: keys else keys) r
  end.

Fixpoint stamp (sq : N) (recs : list psend) : list prec :=
  match recs with
  | [] => []
  | it :: r => PRec sq (ps_mid it) (ps_tag it) (ps_cmd it) :: stamp (sq + 1) r
  end.

Definition req_recs (items : list psend) : list prec :=
  map (fun it => PRec 0 (ps_mid it) (ps_tag it) (ps_cmd it)) items.

Fixpoint insert_nth {A} (k : nat) (x : A) (l : list A) : list A :=
  match k, l with
  | O, _ => x :: l
  | S k', y :: r => y :: insert_nth k' x r
  | S _, [] => [x]
  end.

(* the class the contract side sees for a scripted node error (errs.go normNodeCls;
   an error is never the nil class) *)
Definition norm_cls (cls : N) : N := if cls =? 0 then E_APPEND_FAILED else cls.

Definition ss_do_append (s : sstore) (q : areq) : areply * sstore :=
  let f := hd FOk (ss_app s) in
  let s0 := SS (ss_log s) (tl (ss_app s)) (ss_look s)
               (PCApp (q_attempt q) (q_alloc q) (req_recs (q_items q)) :: ss_calls s) in
  match f with
  | FFailBefore cls => (AErr (norm_cls cls), s0)
  | _ =>
      let skip := match f with
                  | FItemErr j _ => if j <? N.of_nat (length (q_items q)) then Some (N.to_nat j) else None
                  | _ => None
                  end in
      let recs := match skip with Some j => remove_nth j (q_items q) | None => q_items q end in
      if store_validate (ss_log s) (q_alloc q) [] [] recs then
        let stored := stamp (N.of_nat (length (ss_log s)) + 1) recs in
        let s1 := SS (ss_log s ++ stored) (ss_app s0) (ss_look s0) (ss_calls s0) in
        let results := map (fun p => ARes (pr_id p) (pr_seq p) 0) stored in
        match f with
        | FFailAfter cls => (AErr (norm_cls cls), s1)
        | FShort k => (AOk (firstn (N.to_nat k) results), s1)
        | FItemErr _ cls =>
            match skip with
            | Some j => (AOk (insert_nth j (ARes 0 0 (norm_cls cls)) results), s1)
            | None => (AOk results, s1)
            end
        | _ => (AOk results, s1)
        end
      else (AErr E_APPEND_FAILED, s0)
  end.

Definition ss_do_nlookup (s : sstore) (uid cno : bytes) : nreply * sstore :=
  let f := hd LFOk (ss_look s) in
  let s0 := SS (ss_log s) (ss_app s) (tl (ss_look s)) (PCLook uid cno :: ss_calls s) in
  match f with
  | LFMiss => (NMiss, s0)
  | LFErr => (NErr E_LOOKUP, s0)
  | LFOk =>
      match find (fun p => bytes_eqb (c_uid (pr_cmd p)) uid && bytes_eqb (c_cno (pr_cmd p)) cno) (ss_log s) with
      | Some p => (NHit (pr_id p) (pr_seq p) (idempotencyPayloadHash (c_pay (pr_cmd p))), s0)
      | None => (NMiss, s0)
      end
  end.

Definition ss_run : sstore -> effect -> event * sstore :=
  run sstore ss_do_append ss_do_nlookup idempotencyPayloadHash logicalSendFingerprint.

(* ---- observations ------------------------------------------------------------------------ *)

(* one appendItemCompletion as the harness prints it *)
Record ocomp := OC {
  oc_index : N; oc_id : N; oc_seq : N; oc_reason : N; oc_err : N;
  oc_committed : bool; oc_trace : N; oc_appid : N; oc_appseq : N }.

Definition ocomp_of (c : comp) : ocomp :=
  OC (ps_index (cp_item c)) (r_id (cp_res c)) (r_seq (cp_res c)) (r_reason (cp_res c)) (r_err (cp_res c))
     (cp_committed c) (cp_trace c) (fst (cp_app c)) (snd (cp_app c)).

Definition ocomp_eqb (a b : ocomp) : bool :=
  (oc_index a =? oc_index b) && (oc_id a =? oc_id b) && (oc_seq a =? oc_seq b)
  && (oc_reason a =? oc_reason b) && (oc_err a =? oc_err b)
  && Bool.eqb (oc_committed a) (oc_committed b) && (oc_trace a =? oc_trace b)
  && (oc_appid a =? oc_appid b) && (oc_appseq a =? oc_appseq b).

Definition cmd_eqb : cmd -> cmd -> bool := sameLogicalSend.

Definition prec_eqb (a b : prec) : bool :=
  (pr_seq a =? pr_seq b) && (pr_id a =? pr_id b) && (pr_tag a =? pr_tag b) && cmd_eqb (pr_cmd a) (pr_cmd b).

Definition pcall_eqb (a b : pcall) : bool :=
  match a, b with
  | PCApp at1 al1 r1, PCApp at2 al2 r2 => (at1 =? at2) && Bool.eqb al1 al2 && list_eqb prec_eqb r1 r2
  | PCLook u1 c1, PCLook u2 c2 => bytes_eqb u1 u2 && bytes_eqb c1 c2
  | _, _ => false
  end.

(* ---- kind "coal" -------------------------------------------------------------------------- *)

Record uscript := USc { us_id : N; us_seq : N; us_reason : N; us_err : N; us_committed : bool; us_trace : N }.

Record coal_obs := CoalObs {
  co_has : Z;                       (* -1 outside the bound, else 0 / 1 *)
  co_uniq : list N;                 (* original positions of batch.items *)
  co_owners : option (list N);      (* ownerByItem *)
  co_origlen : N;                   (* len(batch.original) *)
  co_fps : list N;                  (* logicalSendFingerprint of every item *)
  co_phs : list N;                  (* idempotencyPayloadHash of every payload *)
  co_expanded : list ocomp;         (* expandCompletions on the scripted unique completions *)
  co_arc : list ocomp;              (* appendResultCompletions(items, scripted result vector) *)
  co_active : list N;               (* activeAppendItems *)
  co_inactive : list ocomp }.

Definition us_default (k : nat) : uscript := USc (1000 + N.of_nat k) (N.of_nat k + 1) 0 0 true 0.

Definition script_comp (us : list uscript) (k : nat) (it : psend) : comp :=
  let u := nth k us (us_default k) in
  Comp it (SRes (us_id u) (us_seq u) (us_reason u) (us_err u)) (0, 0) (us_committed u) (us_trace u).

Fixpoint script_comps (us : list uscript) (k : nat) (items : list psend) : list comp :=
  match items with
  | [] => []
  | it :: r => script_comp us k it :: script_comps us (S k) r
  end.

Definition coal_model (items : list psend) (us : list uscript) (rs : list ares) : coal_obs :=
  let b := newIdempotentAppendBatch idempotencyPayloadHash logicalSendFingerprint items in
  let has := if N.of_nat (length items) <=? c29_stack_item_limit
             then match hasCoalescibleIdempotentItems logicalSendFingerprint items with
                  | Some true => 1%Z | Some false => 0%Z | None => (-2)%Z end
             else (-1)%Z in
  let split := activeAppendItems items in
  CoalObs has (map ps_index (ib_items b))
          (option_map (map N.of_nat) (ib_owners b))
          (N.of_nat (length (ib_original b)))
          (map (fun it => logicalSendFingerprint (ps_cmd it)) items)
          (map (fun it => idempotencyPayloadHash (c_pay (ps_cmd it))) items)
          (map ocomp_of (expandCompletions b (script_comps us 0 (ib_items b))))
          (map ocomp_of (appendResultCompletions items rs))
          (map ps_index (fst split))
          (map ocomp_of (snd split)).

Definition nlist_eqb : list N -> list N -> bool := list_eqb N.eqb.

Definition coal_obs_eqb (a b : coal_obs) : bool :=
  (co_has a =? co_has b)%Z && nlist_eqb (co_uniq a) (co_uniq b)
  && option_eqb nlist_eqb (co_owners a) (co_owners b) && (co_origlen a =? co_origlen b)
  && nlist_eqb (co_fps a) (co_fps b) && nlist_eqb (co_phs a) (co_phs b)
  && list_eqb ocomp_eqb (co_expanded a) (co_expanded b) && list_eqb ocomp_eqb (co_arc a) (co_arc b)
  && nlist_eqb (co_active a) (co_active b) && list_eqb ocomp_eqb (co_inactive a) (co_inactive b).

(* the property on one batch, evaluated on the implementation's answers only *)

Fixpoint strictly_increasing (l : list N) : bool :=
  match l with
  | a :: ((b :: _) as r) => (a <? b) && strictly_increasing r
  | _ => true
  end.

Definition nseq (n : nat) : list N := map N.of_nat (seq 0 n).

Definition item_at (items : list psend) (i : N) : psend := nth (N.to_nat i) items dflt_psend.

(* item [j] may use unique slot [o]: the slot exists, holds an item at or before
   [j] that is the same logical send, and a merged item carries both key fields *)
Definition owner_ok (items : list psend) (uniq : list N) (j : nat) (o : N) : bool :=
  match nth_error uniq (N.to_nat o) with
  | None => false
  | Some p =>
      (p <=? N.of_nat j)
      && sameLogicalSend (ps_cmd (item_at items p)) (ps_cmd (item_at items (N.of_nat j)))
      && ((p =? N.of_nat j) || keyed (ps_cmd (item_at items (N.of_nat j))))
  end.

Fixpoint owners_ok (items : list psend) (uniq : list N) (j : nat) (ows : list N) : bool :=
  match ows with
  | [] => true
  | o :: r => owner_ok items uniq j o && owners_ok items uniq (S j) r
  end.

(* the owner vector the observation stands for (identity when ownerByItem is nil) *)
Definition obs_owners (n : nat) (o : coal_obs) : list N :=
  match co_owners o with Some ows => ows | None => nseq n end.

Definition expected_expanded (us : list uscript) (uniq : list N) (j : nat) (o : N) : ocomp :=
  let u := nth (N.to_nat o) us (us_default (N.to_nat o)) in
  OC (N.of_nat j) (us_id u) (us_seq u) (us_reason u) (us_err u)
     (us_committed u && (nth (N.to_nat o) uniq 0 =? N.of_nat j)) (us_trace u) 0 0.

Fixpoint expanded_ok (us : list uscript) (uniq : list N) (j : nat) (ows : list N) (ex : list ocomp) : bool :=
  match ows, ex with
  | [], [] => true
  | o :: r, e :: ex' => ocomp_eqb e (expected_expanded us uniq j o) && expanded_ok us uniq (S j) r ex'
  | _, _ => false
  end.

(* activeAppendItems against its specification *)
Definition active_monitor (items : list psend) (o : coal_obs) : bool :=
  let sp := activeAppendItems_spec items in
  list_eqb ocomp_eqb (co_inactive o) (map ocomp_of (snd sp))
  && nlist_eqb (co_active o) (map ps_index (fst sp)).

Definition coal_monitor (items : list psend) (us : list uscript) (rs : list ares) (o : coal_obs) : bool :=
  let n := length items in
  let ows := obs_owners n o in
  (* the unique items are a sub-sequence of the batch, in order *)
  strictly_increasing (co_uniq o) && forallb (fun p => p <? N.of_nat n) (co_uniq o)
  && (match co_owners o with None => nlist_eqb (co_uniq o) (nseq n) | Some _ => true end)
  (* aligned: one owner per item, owner is the same logical send; sound: only keyed sends merge *)
  && (length ows =? n)%nat && owners_ok items (co_uniq o) 0 ows
  (* every unique slot is used by the item it holds *)
  && forallb (fun k => nth (N.to_nat (nth k (co_uniq o) 0)) ows (N.of_nat n) =? N.of_nat k) (seq 0 (length (co_uniq o)))
  (* expandCompletions: one completion per item, in its own position, only the first emission committed *)
  && expanded_ok us (co_uniq o) 0 ows (co_expanded o)
  (* appendResultCompletions is aligned *)
  && list_eqb ocomp_eqb (co_arc o) (map ocomp_of (appendResultCompletions items rs)).

(* ---- kind "writer" -------------------------------------------------------------------------- *)

Inductive wop :=
| WEnq (n : N) | WAdmit (n : Z) | WNext | WRec (sq n : N) | WPop | WApply (sq n : N) | WFin (n : N).

Record wpop := WP { wp_seq : N; wp_n : N; wp_tag : N }.

Record wsnap := WSnap {
  sn_next : N; sn_drain : N; sn_hasready : bool; sn_readyseq : N; sn_completed : N; sn_completednil : bool;
  sn_inflight : N; sn_inflight_items : N; sn_pending : N; sn_haspending : bool; sn_canstart : bool }.

Record wobs := WObs {
  wo_ok : bool; wo_seq : N; wo_n : N; wo_tag : N; wo_idx : list N; wo_pops : list wpop; wo_snap : wsnap }.

Definition snap_of (s : wstate) : wsnap :=
  WSnap (ws_next s) (ws_drain s)
        (match ws_ready s with Some _ => true | None => false end)
        (match ws_ready s with Some e => ev_seq e | None => 0 end)
        (N.of_nat (length (ws_completed s))) (is_nil (ws_completed s))
        (ws_inflight s) (ws_inflight_items s) (N.of_nat (length (ws_pending s)))
        (hasPendingWork s) (canStartAppend s).

Definition wpop_of (e : event) : wpop := WP (ev_seq e) (N.of_nat (length (ev_items e))) (ev_tag e).

Definition idx_items (base : N) (n : nat) : list psend :=
  map (fun i => PSend 0 (base + N.of_nat i) dflt_cmd 0 false 0 0) (seq 0 n).

(* one op on (state, next item index); [i] is the position of the op, used as the tag of its event *)
Definition wstep (st : wstate * N) (i : N) (o : wop) : (wstate * N) * wobs :=
  let '(s, base) := st in
  let mk s' ok sq n tg idx pops := WObs ok sq n tg idx pops (snap_of s') in
  match o with
  | WEnq n => let s' := enqueuePrepared s (idx_items base (N.to_nat n)) in
              ((s', base + n), mk s' false 0 0 0 [] [])
  | WAdmit n => ((s, base), mk s (canAdmit s n) 0 0 0 [] [])
  | WNext => match nextAppendBatch s with
             | (Some (sq, items), s') => ((s', base), mk s' true sq (N.of_nat (length items)) 0 (map ps_index items) [])
             | (None, s') => ((s', base), mk s' false 0 0 0 [] [])
             end
  | WRec sq n => let s' := recordAppendCompletion s (Ev sq (repeat dflt_comp (N.to_nat n)) i) in
                 ((s', base), mk s' false 0 0 0 [] [])
  | WApply sq n => let '(evs, s') := applyAppendCompletion s (Ev sq (repeat dflt_comp (N.to_nat n)) i) in
                   ((s', base), mk s' false 0 0 0 [] (map wpop_of evs))
  | WPop => match popNextAppendCompletion s with
            | (Some e, s1) => let s' := finishAppend s1 (N.of_nat (length (ev_items e))) in
                              ((s', base), mk s' true (ev_seq e) (N.of_nat (length (ev_items e))) (ev_tag e) [] [])
            | (None, s') => ((s', base), mk s' false 0 0 0 [] [])
            end
  | WFin n => let s' := finishAppend s n in ((s', base), mk s' false 0 0 0 [] [])
  end.

Fixpoint wrun (st : wstate * N) (i : N) (ops : list wop) : list wobs :=
  match ops with
  | [] => []
  | o :: r => let '(st', ob) := wstep st i o in ob :: wrun st' (i + 1) r
  end.

Definition wsnap_eqb (a b : wsnap) : bool :=
  (sn_next a =? sn_next b) && (sn_drain a =? sn_drain b) && Bool.eqb (sn_hasready a) (sn_hasready b)
  && (sn_readyseq a =? sn_readyseq b) && (sn_completed a =? sn_completed b)
  && Bool.eqb (sn_completednil a) (sn_completednil b) && (sn_inflight a =? sn_inflight b)
  && (sn_inflight_items a =? sn_inflight_items b) && (sn_pending a =? sn_pending b)
  && Bool.eqb (sn_haspending a) (sn_haspending b) && Bool.eqb (sn_canstart a) (sn_canstart b).

Definition wpop_eqb (a b : wpop) : bool :=
  (wp_seq a =? wp_seq b) && (wp_n a =? wp_n b) && (wp_tag a =? wp_tag b).

Definition wobs_eqb (a b : wobs) : bool :=
  Bool.eqb (wo_ok a) (wo_ok b) && (wo_seq a =? wo_seq b) && (wo_n a =? wo_n b) && (wo_tag a =? wo_tag b)
  && nlist_eqb (wo_idx a) (wo_idx b) && list_eqb wpop_eqb (wo_pops a) (wo_pops b)
  && wsnap_eqb (wo_snap a) (wo_snap b).

(* the property on a writer history, from the implementation's answers only:
   issued batches carry sequence numbers 0,1,2,... and hand out the enqueued
   items exactly once, in order; popped completions come in sequence order
   0,1,2,..., each being an event that was recorded before (same seq, size, tag) *)

Definition issued (ops : list wop) (obs : list wobs) : list (N * list N) :=
  flat_map (fun p => match fst p with
                     | WNext => if wo_ok (snd p) then [(wo_seq (snd p), wo_idx (snd p))] else []
                     | _ => [] end) (combine ops obs).

Fixpoint w_events (i : N) (ops : list wop) (obs : list wobs) (recorded : list wpop) : list (wpop * list wpop) :=
  (* every pop paired with the events recorded up to and including its op *)
  match ops, obs with
  | o :: r, b :: br =>
      let recorded' := match o with
                       | WRec sq n | WApply sq n => WP sq n i :: recorded
                       | _ => recorded end in
      let here := match o with
                  | WApply _ _ => wo_pops b
                  | WPop => if wo_ok b then [WP (wo_seq b) (wo_n b) (wo_tag b)] else []
                  | _ => [] end in
      map (fun p => (p, recorded')) here ++ w_events (i + 1) r br recorded'
  | _, _ => []
  end.

Fixpoint consecutive_from (k : N) (l : list N) : bool :=
  match l with
  | [] => true
  | x :: r => (x =? k) && consecutive_from (k + 1) r
  end.

Definition writer_monitor (ops : list wop) (obs : list wobs) : bool :=
  let iss := issued ops obs in
  let pops := w_events 0 ops obs [] in
  (length ops =? length obs)%nat
  && consecutive_from 0 (map fst iss)
  && consecutive_from 0 (flat_map snd iss)
  && consecutive_from 0 (map (fun p => wp_seq (fst p)) pops)
  && forallb (fun p => existsb (wpop_eqb (fst p)) (snd p)) pops.

(* ---- kinds "effect" and "conc": histories ---------------------------------------------------- *)

Record eobs := EObs { eo_calls : list pcall; eo_comps : list ocomp }.

Fixpoint effect_model (s : sstore) (j : N) (ops : list (list psend)) : list eobs * sstore :=
  match ops with
  | [] => ([], s)
  | items :: r =>
      let '(ev, s1) := ss_run (SS (ss_log s) (ss_app s) (ss_look s) []) (Eff j items) in
      let '(obs, s2) := effect_model s1 (j + 1) r in
      (EObs (rev (ss_calls s1)) (map ocomp_of (ev_items ev)) :: obs, s2)
  end.

Definition eobs_eqb (a b : eobs) : bool :=
  list_eqb pcall_eqb (eo_calls a) (eo_calls b) && list_eqb ocomp_eqb (eo_comps a) (eo_comps b).

Record hcall := HCall { hc_id : N; hc_items : N; hc_results : N }.
Record hsend := HSend {
  h_call : N; h_pos : N; h_start : N; h_end : N; h_ch : N; h_tag : N; h_cmd : cmd; h_res : sres }.

(* a complete history: the calls, one entry per (item, result), the records
   each channel's port committed (in commit order).  [hi_ordered]: the port
   serialises same-channel requests in issue order (AppendInflightBatchesPerChannel <= 1). *)
Record hist := Hist {
  hi_ordered : bool; hi_calls : list hcall; hi_sends : list hsend; hi_logs : list (N * list prec) }.

Definition log_of (h : hist) (ch : N) : list prec :=
  match find (fun p => fst p =? ch) (hi_logs h) with Some p => snd p | None => [] end.

Definition find_rec (log : list prec) (sq : N) : option prec := find (fun r => pr_seq r =? sq) log.

(* H1: every item of every call has exactly one result, in its own position *)
Definition call_ok (sends : list hsend) (c : hcall) : bool :=
  let ps := map h_pos (filter (fun s => h_call s =? hc_id c) sends) in
  (hc_items c =? hc_results c) && (N.of_nat (length ps) =? hc_items c)
  && forallb (fun i => (count_occ N.eq_dec ps i =? 1)%nat) (nseq (N.to_nat (hc_items c))).

(* H2: a successful result names a record of the channel's log with the same
   message id, sender and client number; the record is the send's own (then the
   payload is the send's) or the send is keyed and the record carries the same
   payload up to the payload hash the idempotency index compares *)
Definition send_ok (h : hist) (s : hsend) : bool :=
  if is_success (h_res s) then
    match find_rec (log_of h (h_ch s)) (r_seq (h_res s)) with
    | None => false
    | Some r =>
        (pr_id r =? r_id (h_res s))
        && bytes_eqb (c_uid (pr_cmd r)) (c_uid (h_cmd s))
        && bytes_eqb (c_cno (pr_cmd r)) (c_cno (h_cmd s))
        && (if pr_tag r =? h_tag s
            then bytes_eqb (c_pay (pr_cmd r)) (c_pay (h_cmd s))
            else keyed (h_cmd s)
                 && (bytes_eqb (c_pay (pr_cmd r)) (c_pay (h_cmd s))
                     || (idempotencyPayloadHash (c_pay (pr_cmd r)) =? idempotencyPayloadHash (c_pay (h_cmd s)))
                     || (idempotencyPayloadHash (c_pay (h_cmd s)) =? 0)))
    end
  else true.

(* a success whose record is the send's own submission: a new message *)
Definition fresh (h : hist) (s : hsend) : bool :=
  is_success (h_res s)
  && match find_rec (log_of h (h_ch s)) (r_seq (h_res s)) with
     | Some r => pr_tag r =? h_tag s
     | None => false
     end.

(* a was submitted before b *)
Definition before (a b : hsend) : bool :=
  (h_end a <? h_start b) || ((h_call a =? h_call b) && (h_pos a <? h_pos b)).

(* H3: new messages of one channel get strictly increasing sequences in
   submission order.  0 = holds for the ordered pair (a, b); 3 = the signature of
   C29-K2: [a] was appended twice (two records of the channel's log carry its
   tag — the retry after a failed-but-committed append re-appended it) and its
   result names the later copy; 1 = any other inversion. *)
Definition stored_twice (h : hist) (a : hsend) : bool :=
  Nat.leb 2 (length (filter (fun r => pr_tag r =? h_tag a) (log_of h (h_ch a)))).

Definition pair_code (h : hist) (a b : hsend) : N :=
  if (h_ch a =? h_ch b) && before a b then
    if r_seq (h_res a) <? r_seq (h_res b) then 0
    else if stored_twice h a then 3 else 1
  else 0.

(* worst code of a list: 1 (violation) dominates, then the smallest finding code.
   Code 2 is not used (C29-K1, activeAppendItems, was repaired in /repo). *)
Definition join_code (x y : N) : N :=
  if (x =? 1) || (y =? 1) then 1
  else if x =? 0 then y else if y =? 0 then x else N.min x y.

Fixpoint all_pairs (h : hist) (l : list hsend) : N :=
  match l with
  | [] => 0
  | a :: r => join_code (fold_left (fun acc b => join_code acc (join_code (pair_code h a b) (pair_code h b a))) r 0)
                        (all_pairs h r)
  end.

Definition hist_monitor (h : hist) : N :=
  let c1 := if forallb (call_ok (hi_sends h)) (hi_calls h) then 0 else 1 in
  let c2 := if forallb (send_ok h) (hi_sends h) then 0 else 1 in
  let c3 := if hi_ordered h then all_pairs h (filter (fresh h) (hi_sends h)) else 0 in
  join_code c1 (join_code c2 c3).

(* the store contract the model assumes of the port: sequences 1,2,3,... and no
   two records with the same sender + client number *)
Fixpoint keys_unique (log : list prec) : bool :=
  match log with
  | [] => true
  | p :: r => (if keyed (pr_cmd p) then negb (existsb (fun q => same_key (pr_cmd p) (pr_cmd q)) r) else true)
              && keys_unique r
  end.
Definition log_contract (log : list prec) : bool :=
  consecutive_from 1 (map pr_seq log) && keys_unique log.

(* the history an effect case stands for: op j is call j, run from time 2j to 2j+1 *)
Fixpoint effect_sends (j : N) (ops : list (list psend)) (obs : list eobs) : list hsend :=
  match ops, obs with
  | items :: r, o :: ro =>
      map (fun c => let it := item_at items (oc_index c) in
                    HSend j (oc_index c) (2 * j) (2 * j + 1) 0 (ps_tag it) (ps_cmd it)
                          (SRes (oc_id c) (oc_seq c) (oc_reason c) (oc_err c))) (eo_comps o)
      ++ effect_sends (j + 1) r ro
  | _, _ => []
  end.
Fixpoint effect_calls (j : N) (ops : list (list psend)) (obs : list eobs) : list hcall :=
  match ops, obs with
  | items :: r, o :: ro =>
      HCall j (N.of_nat (length items)) (N.of_nat (length (eo_comps o))) :: effect_calls (j + 1) r ro
  | _, _ => []
  end.
Definition effect_hist (ops : list (list psend)) (obs : list eobs) (plog : list prec) : hist :=
  Hist true (effect_calls 0 ops obs) (effect_sends 0 ops obs) [(0, plog)].

(* ---- kind "idle": channelWriter.idleExpired on scripted writer states ------------------------- *)

Record idle_row := IdleRow {
  ir_inbox : N; ir_pending : N; ir_inflight : N; ir_ready : bool; ir_completed : N;
  ir_scheduled : bool; ir_limit : Z; ir_idle_at : Z; ir_now : Z; ir_retention : Z;
  ir_expired : bool }.   (* what idleExpired answered *)

Definition row_writer (r : idle_row) : swriter :=
  SW (ir_scheduled r) (ir_idle_at r)
     (repeat [] (N.to_nat (ir_inbox r)))
     (WS 0 (ir_limit r) (repeat dflt_psend (N.to_nat (ir_pending r))) (ir_inflight r) 0 0 0
         (if ir_ready r then Some (Ev 0 [] 0) else None)
         (map (fun i => (100 + N.of_nat i, Ev (100 + N.of_nat i) [] 0)) (seq 0 (N.to_nat (ir_completed r))))).

Definition idle_mismatch (r : idle_row) : bool :=
  negb (Bool.eqb (ir_expired r) (idleExpired (row_writer r) (ir_now r) (ir_retention r))).

(* the property the ordering clause relies on: a writer that still owns admitted,
   unfinished sends is never reclaimable (the channel keeps its single writer) *)
Definition idle_row_ok (r : idle_row) : bool :=
  if has_work (row_writer r) then negb (ir_expired r) else true.

(* ---- the case record ---------------------------------------------------------------------------- *)

Inductive c29_case :=
| C29Coalesce (items : list psend) (us : list uscript) (rs : list ares) (o : coal_obs)
| C29Writer (hw limit : Z) (ops : list wop) (obs : list wobs)
| C29Effect (af : list afault) (lf : list lfault) (ops : list (list psend)) (obs : list eobs)
            (plog : list prec) (dump : list prec)
| C29Hist (ordered : bool) (calls : list hcall) (sends : list hsend) (logs : list (N * list prec))
| C29Idle (rows : list idle_row).

Definition untag (p : prec) : prec := PRec (pr_seq p) (pr_id p) 0 (pr_cmd p).

Definition C29_mismatch (c : c29_case) : bool :=
  match c with
  | C29Coalesce items us rs o => negb (coal_obs_eqb o (coal_model items us rs))
  | C29Writer hw limit ops obs =>
      negb (list_eqb wobs_eqb obs (wrun (newChannelState hw limit, 0) 0 ops))
  | C29Effect af lf ops obs plog dump =>
      let '(mobs, s) := effect_model (SS [] af lf []) 0 ops in
      negb (list_eqb eobs_eqb obs mobs && list_eqb prec_eqb plog (ss_log s)
            && list_eqb prec_eqb dump (map untag (ss_log s)))
  | C29Hist _ _ _ logs => negb (forallb (fun p => log_contract (snd p)) logs)
  | C29Idle rows => existsb idle_mismatch rows
  end.

Definition C29_monitor (c : c29_case) : N :=
  match c with
  | C29Coalesce items us rs o => if coal_monitor items us rs o && active_monitor items o then 0 else 1
  | C29Writer _ _ ops obs => if writer_monitor ops obs then 0 else 1
  | C29Effect _ _ ops obs plog _ => hist_monitor (effect_hist ops obs plog)
  | C29Hist ordered calls sends logs => hist_monitor (Hist ordered calls sends logs)
  | C29Idle rows => if forallb idle_row_ok rows then 0 else 1
  end.
