(* Model/Monitor_C01.v — C01 "acknowledged channel appends survive failover and
   crashes", evaluated on the implementation's observations alone.

   acked: every (index, entry id) covered by a Receipt, the id being the one the acknowledging
   leader holds at that index right after the Commit.
   Violations:
     * a Receipt whose range is not stored on the acknowledging leader, or that newly
       acknowledges entries held identically by fewer than WriteQuorum voters            (code 1)
     * a Receipt over an index already acknowledged with another entry                    (code 1)
     * a successful Install (the node is writable afterwards) on a node whose log, right after
       the Install, lacks an acknowledged entry at its index or holds another entry there:
         - code 2 (known finding C01-K1, DESIGN §0 F1) when EVERY lost entry was held, just
           before the Install, by fewer than WriteQuorum of the voters that answered its recovery
           probe (the installing node plus every voter neither down nor dropped by the call),
         - code 3 (known finding C01-K2) when every lost entry is either of the K1 kind or was
           held by fewer than WriteQuorum of the STABLE voters (those that answered the frontier round
           AND every identity page: frontier responders minus the voters whose page replies the call
           loses) while the unchanged post-page guard of recoverQuorumPrefix is satisfied by the observed
           pre-install states: at least WriteQuorum stable voters, and the WriteQuorum-th highest log end
           and the WriteQuorum-th highest persisted watermark among the stable voters equal those among
           the frontier responders; at least one lost entry is of this second kind,
         - code 1 otherwise (truncation although >= WriteQuorum holders answered every round, or
           although the guard is false on the observed states: the install had to fail closed).
   An Install whose authority is older than one installed successfully before (on any node) is a stale
   leader, not a failover: it is not examined (its writes are fenced by the voters; C04 covers it).
   Entries reported lost by a code-2/3 step are moved to a separate list, so that the aftermath of the
   known defect is not reported as something else: the index may be reused, and a deposed leader may
   still replay the old receipt from its retained-command cache (a receipt that only covers entries
   acknowledged before, live or lost, is a replay: no new quorum is demanded for it). *)
From WK Require Import Base.Base.
From WK Require Export Model.ReplicaLog Model.QuorumLog Model.Cluster.
Open Scope N_scope.

Record c01_state := C01State { ca_acked : list (N * N); ca_down : list N; ca_lost : list (N * N); ca_max : authid }.

Fixpoint acked_at (l : list (N * N)) (idx : N) : option N :=
  match l with
  | [] => None
  | (i, id) :: rest => if i =? idx then Some id else acked_at rest idx
  end.

Definition countb {A} (f : A -> bool) (l : list A) : N := lenN (filter f l).

Definition holds (full : list (N * robs)) (w : N) (p : N * N) : bool :=
  obs_id_at (get_robs full w) (fst p) =? snd p.

Definition worse (a b : N) : N :=
  if (a =? 1) || (b =? 1) then 1 else if (a =? 0) then b else a.

Definition c01_step (cfg : qconfig) (st : c01_state) (prev : list (N * robs))
           (s : qop * qres * list (N * robs)) : c01_state * N :=
  let '(op, res, full) := s in
  let vs := voters_of cfg in
  match op, res with
  | OCommit node _ _ _ _ _, RReceipt _ _ first last _ =>
      let leader := get_robs full node in
      let new := map (fun i => (i, obs_id_at leader i)) (seqN first (N.to_nat (last + 1 - first))) in
      let missing := existsb (fun p => snd p =? 0) new in
      let changed := existsb (fun p => match acked_at (ca_acked st) (fst p) with
                                       | Some id => negb (id =? snd p)
                                       | None => false
                                       end) new in
      let known (p : N * N) :=
        match acked_at (ca_acked st) (fst p) with
        | Some _ => true
        | None => existsb (fun l => (fst l =? fst p) && (snd l =? snd p)) (ca_lost st)
        end in
      let fresh := existsb (fun p => negb (known p)) new in
      let holders := countb (fun w => forallb (holds full w) new) vs in
      let code := if missing || changed then 1 else if fresh && (holders <? cf_quorum cfg) then 1 else 0 in
      (C01State (filter (fun p => negb (known p)) new ++ ca_acked st) (ca_down st) (ca_lost st) (ca_max st), code)
  | OInstall node a _ _ f, RInstalled _ _ _ =>
      (* an authority older than one already installed is a stale leader being told its old authority
         again (an idempotent answer, or a recovery whose writes the voters fence): not a failover *)
      match compareAuthorityID a (ca_max st) with
      | Lt => (st, 0)
      | _ =>
      let lost := filter (fun p => negb (holds full node p)) (ca_acked st) in
      match lost with
      | [] => (C01State (ca_acked st) (ca_down st) (ca_lost st) a, 0)
      | _ =>
          let q := cf_quorum cfg in
          (* voters whose answer to the FRONTIER round arrived / to every round (identity pages too) *)
          let frontier := node :: filter (fun w => negb (w =? node) && negb (memN w (ca_down st)) &&
                                                   negb (memN w (fl_drop f))) vs in
          let stable := filter (fun w => (w =? node) || negb (memN w (fl_pdrop f))) frontier in
          (* the post-page guard of recoverQuorumPrefix on the observed pre-install states *)
          let qth (sel : robs -> N) (ws : list N) := quorumFrontier (map (fun w => sel (get_robs prev w)) ws) q in
          let guard := (q <=? lenN stable) && (qth ro_hw stable =? qth ro_hw frontier) &&
                       (qth ro_leo stable =? qth ro_leo frontier) in
          let k1p (p : N * N) := countb (fun w => holds prev w p) frontier <? q in
          let k2p (p : N * N) := guard && (countb (fun w => holds prev w p) stable <? q) in
          let explained := forallb (fun p => k1p p || k2p p) lost in
          (C01State (filter (fun p => holds full node p) (ca_acked st)) (ca_down st)
                    (if explained then lost ++ ca_lost st else ca_lost st) a,
           if negb explained then 1 else if forallb k1p lost then 2 else 3)
      end
      end
  | ODown node, _ => (C01State (ca_acked st) (node :: filter (fun v => negb (v =? node)) (ca_down st)) (ca_lost st) (ca_max st), 0)
  | OUp node, _ => (C01State (ca_acked st) (filter (fun v => negb (v =? node)) (ca_down st)) (ca_lost st) (ca_max st), 0)
  | _, _ => (st, 0)
  end.

Fixpoint c01_run (cfg : qconfig) (st : c01_state) (prev : list (N * robs))
         (steps : list (qop * qres * list (N * robs))) : N :=
  match steps with
  | [] => 0
  | s :: rest => let '(st', code) := c01_step cfg st prev s in
                 worse code (c01_run cfg st' (snd s) rest)
  end.

Definition c01_code (cfg : qconfig) (steps : list (qop * qres * list (N * robs))) : N :=
  c01_run cfg (C01State [] [] [] authid_zero) [] steps.

Definition C01_mismatch : qcase -> bool := q_mismatch.
Definition C01_monitor (c : qcase) : N := c01_code (cs_cfg c) (expand_steps [] (cs_steps c)).
