(* Model/Backup.v — portable backup streams of pkg/db/message (WKMB) and pkg/db/meta (WKDB).

   Section-level model.  Concrete: the stream framing (big-endian integers, binary.Uvarint,
   length-prefixed fields, counts, the 4-byte checksum trailer), the order of every check
   of the streaming importers, batching, and the export's filters.  Abstract (their values
   come with each case as tables, like the hash in C05): the row / proposal / identity /
   catalog decoders of the message domain and validateBackupProposalSystemEntries; in the
   theorems the checksum is an arbitrary function [ck] as well.

   pkg/db/message
     backup_snapshot.go       normalizeBackupChannelCuts, writeMessageBackupSnapshot, writeBackupChannel,
                              snapshotBackupSystemEntries (filter), visitBackupMessages
     backup_stream_import.go  ImportBackupSnapshotReader, verifyMessageBackupStreamChecksum,
                              parseMessageBackupStream, validateMessageBackupChannel,
                              importMessageBackupChannelStream, readMessageBackupStreamRow
   pkg/db/meta
     snapshot.go              writeHashSlotSnapshotStream / ExportHashSlotSnapshot (entries of the spans)
     snapshot_stream_import.go importHashSlotSnapshotReader, verifySeekableSnapshotChecksum,
                              visitSlotSnapshotStream, invalidateSnapshotAuthenticationToken

   Definitions only. *)
From WK Require Import Base.Base Base.Bytes.
From WK Require Import Gen.Consts_C11.
Open Scope N_scope.

(* error classes: 1 invalid argument, 2 conflict, 3 corrupt value, 4 corrupt state,
   5 checksum mismatch, 9 other (io, context) *)
Inductive res (A : Type) := Ok (a : A) | Err (e : N).
Arguments Ok {A} a. Arguments Err {A} e.
Definition res_eqb {A} (eqb : A -> A -> bool) (a b : res A) : bool :=
  match a, b with Ok x, Ok y => eqb x y | Err e, Err f => e =? f | _, _ => false end.
Definition is_ok {A} (r : res A) : bool := match r with Ok _ => true | Err _ => false end.
Definition err_of {A} (r : res A) : N := match r with Ok _ => 0 | Err e => e end.

Definition EInvalid : N := 1.  Definition EConflict : N := 2.  Definition ECorruptValue : N := 3.
Definition ECorruptState : N := 4.  Definition EChecksum : N := 5.  Definition EOther : N := 9.

(* ---- bytes: order, prefixes ------------------------------------------------------------ *)
Fixpoint bytes_ltb (a b : bytes) : bool :=       (* bytes.Compare(a, b) < 0 *)
  match a, b with
  | _, [] => false
  | [], _ :: _ => true
  | x :: a', y :: b' => (x <? y) || ((x =? y) && bytes_ltb a' b')
  end.
Fixpoint prefixb (p s : bytes) : bool :=
  match p, s with
  | [], _ => true
  | a :: p', b :: s' => (a =? b) && prefixb p' s'
  | _ :: _, [] => false
  end.

(* ---- binary.Uvarint ---------------------------------------------------------------------- *)
Fixpoint put_uvarint_fuel (fuel : nat) (x : N) : bytes :=
  match fuel with
  | O => []
  | S f => if x <? 128 then [x] else (128 + x mod 128) :: put_uvarint_fuel f (x / 128)
  end.
Definition put_uvarint (x : N) : bytes := put_uvarint_fuel 10 x.

(* binary.ReadUvarint: at most ten bytes, the tenth at most 1; [None] = EOF / overflow *)
Fixpoint get_uvarint_loop (fuel : nat) (i x s : N) (bs : bytes) : option (N * bytes) :=
  match fuel with
  | O => None
  | S f => match bs with
           | [] => None
           | b :: r => if b <? 128
                       then (if (i =? 9) && (1 <? b) then None else Some (x + b * 2 ^ s, r))
                       else get_uvarint_loop f (i + 1) (x + (b mod 128) * 2 ^ s) (s + 7) r
           end
  end.
Definition get_uvarint (bs : bytes) : option (N * bytes) := get_uvarint_loop 10 0 0 0 bs.

(* a declared count as a loop bound: reading [cnt] items from [bs] fails before the bound
   [length bs + 1] is reached when cnt is larger (every item consumes at least one byte), so
   the bound never changes the result; it keeps evaluation away from astronomically large
   unary numbers when a corrupted count is read *)
Definition bounded (cnt : N) (bs : bytes) : nat := N.to_nat (N.min cnt (N.of_nat (length bs) + 1)).

(* a length-prefixed field *)
Definition put_field (b : bytes) : bytes := put_uvarint (N.of_nat (length b)) ++ b.
(* readMessageBackupStreamBytes: length above the cap or short read -> ErrCorruptValue *)
Definition get_field (cap : N) (bs : bytes) : option (bytes * bytes) :=
  match get_uvarint bs with
  | None => None
  | Some (n, r) => if (cap <? n) || (N.of_nat (length r) <? n) then None else take (N.to_nat n) r
  end.

(* ====================================================================================== *)
(* The message snapshot stream                                                             *)

Record raw_row := RR { rr_seq : N; rr_header : bytes; rr_payload : bytes }.
Record raw_chan := RC { rc_key : bytes; rc_id : bytes; rc_type : N; rc_ckpt : bytes;
                        rc_sys : list (bytes * bytes); rc_count : N; rc_rows : list raw_row }.
Record raw_snapshot := RS { rs_hash_slot : N; rs_chans : list raw_chan }.

Definition enc_row (r : raw_row) : bytes := put_u64 (rr_seq r) ++ put_field (rr_header r) ++ put_field (rr_payload r).
Definition enc_sys (e : bytes * bytes) : bytes := put_field (fst e) ++ put_field (snd e).
Definition enc_chan (c : raw_chan) : bytes :=
  put_field (rc_key c) ++ put_field (rc_id c) ++ [rc_type c] ++ rc_ckpt c
  ++ put_uvarint (N.of_nat (length (rc_sys c))) ++ concat (map enc_sys (rc_sys c))
  ++ put_uvarint (rc_count c) ++ concat (map enc_row (rc_rows c)).
(* everything before the trailer *)
Definition enc_msg_payload (s : raw_snapshot) : bytes :=
  msgMagic ++ put_u16 msgVersion ++ put_u16 (rs_hash_slot s) ++ put_u32 (N.of_nat (length (rs_chans s)))
  ++ concat (map enc_chan (rs_chans s)).

(* pure framing decoder (no semantic check): used to state what a stream contains *)
Fixpoint dec_sys_list (n : nat) (bs : bytes) : option (list (bytes * bytes) * bytes) :=
  match n with
  | O => Some ([], bs)
  | S n' => match get_field maxMessageBackupStreamFieldBytes bs with
            | None => None
            | Some (k, r1) => match get_field maxMessageBackupStreamFieldBytes r1 with
                              | None => None
                              | Some (v, r2) => match dec_sys_list n' r2 with
                                                | None => None
                                                | Some (l, r3) => Some ((k, v) :: l, r3)
                                                end
                              end
            end
  end.
Fixpoint dec_row_list (n : nat) (bs : bytes) : option (list raw_row * bytes) :=
  match n with
  | O => Some ([], bs)
  | S n' => match get_be 8 bs with
            | None => None
            | Some (seq, r0) =>
              match get_field maxMessageBackupStreamFieldBytes r0 with
              | None => None
              | Some (h, r1) => match get_field maxMessageBackupStreamFieldBytes r1 with
                                | None => None
                                | Some (p, r2) => match dec_row_list n' r2 with
                                                  | None => None
                                                  | Some (l, r3) => Some (RR seq h p :: l, r3)
                                                  end
                                end
              end
            end
  end.
(* the header of a channel section: everything up to (and including) the declared message count *)
Definition dec_chan_header (bs : bytes) : option (raw_chan * bytes) :=
  match get_field maxMessageBackupStreamFieldBytes bs with
  | None => None
  | Some (key, r1) =>
    match get_field maxMessageBackupStreamFieldBytes r1 with
    | None => None
    | Some (id, r2) =>
      match r2 with
      | [] => None
      | ty :: r3 =>
        match take 24 r3 with
        | None => None
        | Some (ck, r4) =>
          match get_uvarint r4 with
          | None => None
          | Some (nsys, r5) =>
            match dec_sys_list (bounded nsys r5) r5 with
            | None => None
            | Some (sys, r6) =>
              match get_uvarint r6 with
              | None => None
              | Some (cnt, r7) => Some (RC key id ty ck sys cnt [], r7)
              end
            end
          end
        end
      end
    end
  end.
Definition with_rows (h : raw_chan) (rows : list raw_row) : raw_chan :=
  RC (rc_key h) (rc_id h) (rc_type h) (rc_ckpt h) (rc_sys h) (rc_count h) rows.
Definition dec_chan (bs : bytes) : option (raw_chan * bytes) :=
  match dec_chan_header bs with
  | None => None
  | Some (h, r7) =>
    match dec_row_list (bounded (rc_count h) r7) r7 with
    | None => None
    | Some (rows, r8) => Some (with_rows h rows, r8)
    end
  end.
Fixpoint dec_chan_list (n : nat) (bs : bytes) : option (list raw_chan * bytes) :=
  match n with
  | O => Some ([], bs)
  | S n' => match dec_chan bs with
            | None => None
            | Some (c, r) => match dec_chan_list n' r with
                             | None => None
                             | Some (l, r') => Some (c :: l, r')
                             end
            end
  end.
Definition dec_msg_payload (bs : bytes) : option (raw_snapshot * bytes) :=
  match take 4 bs with
  | None => None
  | Some (mg, r0) =>
    if negb (bytes_eqb mg msgMagic) then None else
    match get_be 2 r0 with
    | None => None
    | Some (ver, r1) =>
      if negb (ver =? msgVersion) then None else
      match get_be 2 r1 with
      | None => None
      | Some (hs, r2) =>
        match get_be 4 r2 with
        | None => None
        | Some (n, r3) => match dec_chan_list (bounded n r3) r3 with
                          | None => None
                          | Some (cs, r4) => Some (RS hs cs, r4)
                          end
        end
      end
    end
  end.

(* ---- keys of the message domain --------------------------------------------------------- *)
(* encodeMessageSystemAllPrefix(key) *)
Definition sys_all_prefix (key : bytes) : bytes :=
  msgSysPrefixHead ++ put_u16 (N.of_nat (length key)) ++ key ++ [msgSpaceSystem].
(* encodeCheckpointKey(key) *)
Definition checkpoint_key (key : bytes) : bytes := sys_all_prefix key ++ msgCheckpointTail.

(* ---- what the abstract decoders answer on the sections of one stream ------------------ *)
(* per row: class of the decode error (0 = none), message id, channel identity matches the
   section header, the entry identity stored for this sequence (if any) accepts the row *)
Definition row_orc := (N * N * bool * bool)%type.
(* per channel section: class of validateBackupProposalSystemEntries (0 = ok), class of
   backupEntryIdentityMap (0 = ok), the rows *)
Record chan_orc := CO { co_valid : N; co_ident_err : N; co_rows : list row_orc }.

(* ---- the store, at the level the backup sees ------------------------------------------- *)
Record sys_entry := SE { se_key : bytes; se_val : bytes;
                         se_kind : N;    (* 1 history, 2 proposal row, 3 entry identity, 4 other, 0 undecodable *)
                         se_a : N; se_b : N;   (* start offset | base, last offset | index *)
                         se_ok : bool; se_err : N }.
Record row := RW { rw_seq : N; rw_header : bytes; rw_payload : bytes;   (* payload = the derived payload family value *)
                   rw_id : N; rw_err : N; rw_chan_ok : bool; rw_ident_ok : bool }.
Record chan_dump := CHD { ch_key : bytes;
                          ch_cat : option (bytes * N); ch_cat_err : N;   (* catalog row: id, type; class of its decode error *)
                          ch_ckpt : option bytes;
                          ch_ret : option (N * N);                       (* retention row: class of its decode error, RetainedMaxSeq *)
                          ch_sys : list sys_entry;                       (* system space, checkpoint excluded, key order *)
                          ch_rows : list row }.                          (* header-family rows, sequence order *)
Record cut := CUT { cu_key : bytes; cu_id : bytes; cu_type : N; cu_epoch : N; cu_logstart : N; cu_hw : N }.
Record stats := ST { st_hash_slot : N; st_channels : N; st_messages : N; st_max_id : N }.

Definition stats_eqb (a b : stats) : bool :=
  (st_hash_slot a =? st_hash_slot b) && (st_channels a =? st_channels b)
  && (st_messages a =? st_messages b) && (st_max_id a =? st_max_id b).

Definition empty_dump (key : bytes) : chan_dump := CHD key None 0 None None [] [].
Fixpoint find_dump (key : bytes) (ds : list chan_dump) : chan_dump :=
  match ds with
  | [] => empty_dump key
  | d :: r => if bytes_eqb (ch_key d) key then d else find_dump key r
  end.

(* encodeCheckpoint *)
Definition enc_checkpoint (epoch logstart hw : N) : bytes := put_u64 epoch ++ put_u64 logstart ++ put_u64 hw.
Definition ckpt_hw (ck : bytes) : N := be_get (firstn 8 (skipn 16 ck)).

(* ====================================================================================== *)
(* Export (OpenBackupSnapshot)                                                              *)

(* insertion sort of the cuts by key (sort.Slice; duplicates are an error right after) *)
Fixpoint insert_cut (c : cut) (l : list cut) : list cut :=
  match l with
  | [] => [c]
  | d :: r => if bytes_ltb (cu_key c) (cu_key d) then c :: l else d :: insert_cut c r
  end.
Definition sort_cuts (l : list cut) : list cut := fold_right insert_cut [] l.

(* normalizeBackupChannelCuts; [prev] = key of the previous cut *)
Fixpoint check_cuts (prev : option bytes) (l : list cut) : option N :=
  match l with
  | [] => None
  | c :: r =>
    if bytes_eqb (cu_key c) [] || bytes_eqb (cu_id c) [] then Some EInvalid
    else if cu_hw c <? cu_logstart c then Some ECorruptState
    else if match prev with Some p => bytes_eqb p (cu_key c) | None => false end then Some EInvalid
    else check_cuts (Some (cu_key c)) r
  end.

(* the filter of snapshotBackupSystemEntries over classified entries, in key order *)
Fixpoint filter_sys (hw : N) (es : list sys_entry) : res (list sys_entry) :=
  match es with
  | [] => Ok []
  | e :: r =>
    let keep := fun (k : bool) => match filter_sys hw r with
                                  | Err x => Err x
                                  | Ok l => Ok (if k then e :: l else l)
                                  end in
    if se_kind e =? 0 then Err (se_err e)
    else if se_kind e =? 1 then keep (se_a e <=? hw)
    else if se_kind e =? 2 then
      (if negb (se_ok e) then Err ECorruptState
       else if (se_a e <? hw) && (hw <? se_b e) then Err ECorruptState
       else keep (se_b e <=? hw))
    else if se_kind e =? 3 then (if negb (se_ok e) then Err ECorruptState else keep (se_a e <=? hw))
    else keep true
  end.

(* what validateBackupProposalSystemEntries answers: looked up by channel, hw and the kept keys *)
Definition valid_table := list (bytes * N * list bytes * N).
Fixpoint lookup_valid (t : valid_table) (key : bytes) (hw : N) (keys : list bytes) : option N :=
  match t with
  | [] => None
  | (k, h, ks, c) :: r =>
    if bytes_eqb k key && (h =? hw) && list_eqb bytes_eqb ks keys then Some c else lookup_valid r key hw keys
  end.

Definition last_seq (rows : list row) : N := fold_left (fun a r => N.max a (rw_seq r)) rows 0.

(* the rows visitBackupMessages yields: sequence 1..hw, stopping at the first above *)
Fixpoint rows_through (hw : N) (rows : list row) : list row :=
  match rows with
  | [] => []
  | r :: rest => if hw <? rw_seq r then [] else r :: rows_through hw rest
  end.

Fixpoint first_row_err (rows : list row) : option N :=
  match rows with
  | [] => None
  | r :: rest => if negb (rw_err r =? 0) then Some (rw_err r) else first_row_err rest
  end.

(* writeBackupChannel: the section of one cut, or the class of the first failing check *)
Definition export_chan (vt : valid_table) (d : chan_dump) (c : cut) : res raw_chan :=
  match (match ch_cat d with
         | Some (id, ty) => if negb (ch_cat_err d =? 0) then Some (ch_cat_err d)
                            else if negb (bytes_eqb id (cu_id c) && (ty =? cu_type c)) then Some ECorruptState else None
         | None => None
         end) with
  | Some e => Err e
  | None =>
    match (match ch_ret d with
           | Some (e, retained) => if negb (e =? 0) then Err e else Ok (N.max (last_seq (ch_rows d)) retained)
           | None => Ok (last_seq (ch_rows d))
           end) with
    | Err e => Err e
    | Ok leo =>
      if leo <? cu_hw c then Err ECorruptState
      else match filter_sys (cu_hw c) (ch_sys d) with
      | Err e => Err e
      | Ok kept =>
        match lookup_valid vt (ch_key d) (cu_hw c) (map se_key kept) with
        | None => Err 99                  (* the case does not say: never equal to an observed class *)
        | Some v =>
          if negb (v =? 0) then Err v
          else let rows := if cu_hw c =? 0 then [] else rows_through (cu_hw c) (ch_rows d) in
               match first_row_err rows with
               | Some e => Err e
               | None =>
                 if negb (forallb rw_ident_ok rows) then Err ECorruptState
                 else Ok (RC (cu_key c) (cu_id c) (cu_type c) (enc_checkpoint (cu_epoch c) (cu_logstart c) (cu_hw c))
                             (map (fun e => (se_key e, se_val e)) kept) (N.of_nat (length rows))
                             (map (fun r => RR (rw_seq r) (rw_header r) (rw_payload r)) rows))
               end
        end
      end
    end
  end.

Fixpoint export_chans (vt : valid_table) (src : list chan_dump) (cuts : list cut) : res (list raw_chan) :=
  match cuts with
  | [] => Ok []
  | c :: r => match export_chan vt (find_dump (cu_key c) src) c with
              | Err e => Err e
              | Ok s => match export_chans vt src r with
                        | Err e => Err e
                        | Ok l => Ok (s :: l)
                        end
              end
  end.

Section WithCk.
  (* hash/crc32.ChecksumIEEE *)
  Variable ck : bytes -> N.

  Definition seal (payload : bytes) : bytes := payload ++ put_u32 (ck payload).

  (* OpenBackupSnapshot read to the end: the stream, or the class of the first error *)
  Definition export_msg (vt : valid_table) (src : list chan_dump) (hs : N) (cuts : list cut) : res bytes :=
    let sorted := sort_cuts cuts in
    match check_cuts None sorted with
    | Some e => Err e
    | None => match export_chans vt src sorted with
              | Err e => Err e
              | Ok cs => Ok (seal (enc_msg_payload (RS hs cs)))
              end
    end.

  (* ==================================================================================== *)
  (* ImportBackupSnapshotReader                                                            *)

  (* verifyMessageBackupStreamChecksum; Ok = the bytes before the trailer *)
  Definition verify_checksum (stream : bytes) : res bytes :=
    if Nat.ltb (length stream) 16 then Err ECorruptValue
    else let p := firstn (length stream - 4) stream in
         let t := skipn (length stream - 4) stream in
         if ck p =? be_get t then Ok p else Err EChecksum.

  (* the context: [None] never fails; [Some k] = the (k+1)-th check fails *)
  Definition ctx := option N.
  Definition ctx_check (c : ctx) : option ctx :=     (* None = cancelled *)
    match c with
    | None => Some None
    | Some 0 => None
    | Some k => Some (Some (k - 1))
    end.

  (* the header of one channel section as parseMessageBackupStream reads it *)
  Definition parse_chan_header (prev : bytes) (bs : bytes) : res (raw_chan * bytes) :=
    match get_field maxMessageBackupStreamFieldBytes bs with
    | None => Err ECorruptValue
    | Some (key, r1) =>
      match get_field maxMessageBackupStreamFieldBytes r1 with
      | None => Err ECorruptValue
      | Some (id, r2) =>
        match r2 with
        | [] => Err ECorruptValue
        | ty :: r3 =>
          if bytes_eqb key [] || bytes_eqb id [] || (negb (bytes_eqb prev []) && negb (bytes_ltb prev key))
          then Err ECorruptValue
          else match take 24 r3 with
          | None => Err ECorruptValue
          | Some (ckp, r4) =>
            match get_uvarint r4 with
            | None => Err ECorruptValue
            | Some (nsys, r5) =>
              if maxMessageBackupSystemEntries <? nsys then Err ECorruptValue
              else match dec_sys_list (bounded nsys r5) r5 with
              | None => Err ECorruptValue
              | Some (sys, r6) =>
                if negb (forallb (fun e => prefixb (sys_all_prefix key) (fst e) && negb (bytes_eqb (fst e) (checkpoint_key key))) sys)
                then Err ECorruptValue
                else match get_uvarint r6 with
                | None => Err ECorruptValue
                | Some (cnt, r7) =>
                  if 9223372036854775807 <? cnt then Err ECorruptValue
                  else Ok (RC key id ty ckp sys cnt [], r7)
                end
              end
            end
          end
        end
      end
    end.

  (* readMessageBackupStreamRow + the identity check of the visitor; returns the row, its
     message id and the rest *)
  Definition read_row (c : ctx) (hw prev_seq : N) (o : option row_orc) (bs : bytes) : res (ctx * raw_row * N * bytes) :=
    match ctx_check c with
    | None => Err EOther
    | Some c' =>
      match get_be 8 bs with
      | None => Err ECorruptValue
      | Some (seq, r0) =>
        if (seq =? 0) || (hw <? seq) || (negb (prev_seq =? 0) && (seq <=? prev_seq)) then Err ECorruptValue
        else match get_field maxMessageBackupStreamFieldBytes r0 with
        | None => Err ECorruptValue
        | Some (h, r1) =>
          match get_field maxMessageBackupStreamFieldBytes r1 with
          | None => Err ECorruptValue
          | Some (p, r2) =>
            match o with
            | None => Err 98              (* the case has no oracle for this row *)
            | Some (e, mid, chan_ok, ident_ok) =>
              if negb (e =? 0) then Err e
              else if negb chan_ok then Err ECorruptState
              else if negb ident_ok then Err ECorruptState
              else Ok (c', RR seq h p, mid, r2)
            end
          end
        end
      end
    end.

  (* the row loop of validateMessageBackupChannel / importMessageBackupChannelStream:
     reads [n] rows; returns them (in order), the greatest message id, the rest *)
  Fixpoint read_rows (n : nat) (c : ctx) (hw prev_seq : N) (os : list row_orc) (bs : bytes) (acc : list raw_row) (maxid : N)
    : (list raw_row) * res (ctx * N * bytes) :=       (* the rows read before an error are returned too *)
    match n with
    | O => (rev acc, Ok (c, maxid, bs))
    | S n' =>
      match read_row c hw prev_seq (hd_error os) bs with
      | Err e => (rev acc, Err e)
      | Ok (c', r, mid, rest) => read_rows n' c' hw (rr_seq r) (tl os) rest (r :: acc) (N.max maxid mid)
      end
    end.

  (* ---- the target store: set-semantics inserts in key / sequence order ------------------ *)
  Fixpoint put_sys (k v : bytes) (l : list sys_entry) : list sys_entry :=
    match l with
    | [] => [SE k v 0 0 0 true 0]
    | e :: r => if bytes_eqb (se_key e) k then SE k v 0 0 0 true 0 :: r
                else if bytes_ltb k (se_key e) then SE k v 0 0 0 true 0 :: l
                else e :: put_sys k v r
    end.
  Fixpoint put_row (x : raw_row) (l : list row) : list row :=
    let nr := RW (rr_seq x) (rr_header x) (rr_payload x) 0 0 true true in
    match l with
    | [] => [nr]
    | e :: r => if rw_seq e =? rr_seq x then nr :: r
                else if rr_seq x <? rw_seq e then nr :: l
                else e :: put_row x r
    end.
  (* update the dump of [key] in place; a channel the store does not list yet is inserted in key order *)
  Fixpoint update_in_place (key : bytes) (f : chan_dump -> chan_dump) (ds : list chan_dump) : list chan_dump :=
    match ds with
    | [] => []
    | d :: r => if bytes_eqb (ch_key d) key then f d :: r else d :: update_in_place key f r
    end.
  Fixpoint insert_dump (x : chan_dump) (ds : list chan_dump) : list chan_dump :=
    match ds with
    | [] => [x]
    | d :: r => if bytes_ltb (ch_key x) (ch_key d) then x :: ds else d :: insert_dump x r
    end.
  Definition update_dump (key : bytes) (f : chan_dump -> chan_dump) (ds : list chan_dump) : list chan_dump :=
    if existsb (fun d => bytes_eqb (ch_key d) key) ds then update_in_place key f ds
    else insert_dump (f (empty_dump key)) ds.

  (* the metadata batch of importMessageBackupChannelStream *)
  Definition install_meta (h : raw_chan) (d : chan_dump) : chan_dump :=
    CHD (ch_key d) (Some (rc_id h, rc_type h)) 0 (Some (rc_ckpt h)) (ch_ret d)
        (fold_left (fun l e => put_sys (fst e) (snd e) l) (rc_sys h) (ch_sys d)) (ch_rows d).
  Definition install_rows (rows : list raw_row) (d : chan_dump) : chan_dump :=
    CHD (ch_key d) (ch_cat d) (ch_cat_err d) (ch_ckpt d) (ch_ret d) (ch_sys d)
        (fold_left (fun l r => put_row r l) rows (ch_rows d)).

  (* the rows committed when the row loop stops after [k] rows of [n]: whole batches of
     backupImportBatchMessages, and the last partial batch only when all n rows were read *)
  Definition committed_rows (n : N) (rows : list raw_row) : list raw_row :=
    if N.of_nat (length rows) =? n then rows
    else firstn (N.to_nat ((N.of_nat (length rows) / backupImportBatchMessages) * backupImportBatchMessages)) rows.

  (* one pass of parseMessageBackupStream.  [install]: false = validateMessageBackupChannel,
     true = importMessageBackupChannelStream.  State: the target, the context, the stats. *)
  Fixpoint parse_chans (install : bool) (n : nat) (c : ctx) (prev : bytes) (orc : list chan_orc) (bs : bytes)
           (tgt : list chan_dump) (msgs maxid : N)
    : list chan_dump * res (ctx * N * N * bytes) :=
    match n with
    | O => (tgt, Ok (c, msgs, maxid, bs))
    | S n' =>
      match ctx_check c with
      | None => (tgt, Err EOther)
      | Some c1 =>
        match parse_chan_header prev bs with
        | Err e => (tgt, Err e)
        | Ok (h, r7) =>
          match orc with
          | [] => (tgt, Err 98)
          | o :: orc' =>
            let hw := ckpt_hw (rc_ckpt h) in
            if negb (co_valid o =? 0) then (tgt, Err (co_valid o))
            else if negb (co_ident_err o =? 0) then (tgt, Err (co_ident_err o))
            else
              (* the install pass checks the target before writing *)
              let d := find_dump (rc_key h) tgt in
              let conflict :=
                  install &&
                  (match ch_cat d with
                   | Some (id, ty) => negb (ch_cat_err d =? 0) || negb (bytes_eqb id (rc_id h) && (ty =? rc_type h))
                   | None => false
                   end
                   || match ch_ckpt d with
                      | Some ck0 => negb (bytes_eqb ck0 (rc_ckpt h))
                      | None => false
                      end) in
              if conflict then (tgt, Err EConflict)
              else
                let tgt1 := if install then update_dump (rc_key h) (install_meta h) tgt else tgt in
                match read_rows (bounded (rc_count h) r7) c1 hw 0 (co_rows o) r7 [] 0 with
                | (rows, Err e) =>
                  ((if install then update_dump (rc_key h) (install_rows (committed_rows (rc_count h) rows)) tgt1 else tgt1), Err e)
                | (rows, Ok (c2, mx, rest)) =>
                  let tgt2 := if install then update_dump (rc_key h) (install_rows rows) tgt1 else tgt1 in
                  if 18446744073709551615 - msgs <? rc_count h then (tgt2, Err ECorruptValue)
                  else parse_chans install n' c2 (rc_key h) orc' rest tgt2 (msgs + rc_count h) (N.max maxid mx)
                end
          end
        end
      end
    end.

  (* parseMessageBackupStream over the bytes before the trailer *)
  Definition parse_stream (install : bool) (c : ctx) (orc : list chan_orc) (payload : bytes) (tgt : list chan_dump)
    : list chan_dump * res (ctx * stats) :=
    match take 4 payload with
    | None => (tgt, Err ECorruptValue)
    | Some (mg, r0) =>
      if negb (bytes_eqb mg msgMagic) then (tgt, Err ECorruptValue) else
      match get_be 2 r0 with
      | None => (tgt, Err ECorruptValue)
      | Some (ver, r1) =>
        if negb (ver =? msgVersion) then (tgt, Err ECorruptValue) else
        match get_be 2 r1 with
        | None => (tgt, Err ECorruptValue)
        | Some (hs, r2) =>
          match get_be 4 r2 with
          | None => (tgt, Err ECorruptValue)
          | Some (n, r3) =>
            if maxMessageBackupStreamChannels <? n then (tgt, Err ECorruptValue)
            else match parse_chans install (bounded n r3) c [] orc r3 tgt 0 0 with
                 | (tgt', Err e) => (tgt', Err e)
                 | (tgt', Ok (c', msgs, maxid, rest)) =>
                   match rest with
                   | [] => (tgt', Ok (c', ST hs n msgs maxid))
                   | _ :: _ => (tgt', Err ECorruptValue)
                   end
                 end
          end
        end
      end
    end.

  (* ImportBackupSnapshotReader *)
  Definition import_reader (c : ctx) (orc : list chan_orc) (stream : bytes) (tgt : list chan_dump)
    : list chan_dump * res stats :=
    match verify_checksum stream with
    | Err e => (tgt, Err e)
    | Ok payload =>
      match parse_stream false c orc payload tgt with
      | (_, Err e) => (tgt, Err e)
      | (_, Ok (c1, st)) =>
        match parse_stream true c1 orc payload tgt with
        | (tgt', Err e) => (tgt', Err e)
        | (tgt', Ok (_, installed)) => if stats_eqb installed st then (tgt', Ok installed) else (tgt', Err ECorruptState)
        end
      end
    end.
End WithCk.

(* ---- comparison of observed and computed stores --------------------------------------- *)
Definition sys_kv_eqb (a b : sys_entry) : bool := bytes_eqb (se_key a) (se_key b) && bytes_eqb (se_val a) (se_val b).
Definition row_kv_eqb (a b : row) : bool := (rw_seq a =? rw_seq b) && bytes_eqb (rw_header a) (rw_header b).
Definition dump_eqb (a b : chan_dump) : bool :=
  bytes_eqb (ch_key a) (ch_key b)
  && option_eqb (fun x y => bytes_eqb (fst x) (fst y) && (snd x =? snd y)) (ch_cat a) (ch_cat b)
  && option_eqb bytes_eqb (ch_ckpt a) (ch_ckpt b)
  && list_eqb sys_kv_eqb (ch_sys a) (ch_sys b) && list_eqb row_kv_eqb (ch_rows a) (ch_rows b).
Definition dump_is_empty (d : chan_dump) : bool :=
  match ch_cat d, ch_ckpt d, ch_sys d, ch_rows d with None, None, [], [] => true | _, _, _, _ => false end.
(* stores are compared channel by channel; a channel without any key is the same as an absent one *)
Definition dumps_eqb (a b : list chan_dump) : bool :=
  list_eqb dump_eqb (filter (fun d => negb (dump_is_empty d)) a) (filter (fun d => negb (dump_is_empty d)) b).

(* ====================================================================================== *)
(* The hash-slot metadata snapshot stream (pkg/db/meta)                                    *)

Definition kv := (bytes * bytes)%type.
Definition mdb := list kv.                 (* the metadata domain: key order *)

Definition kv_eqb (a b : kv) : bool := bytes_eqb (fst a) (fst b) && bytes_eqb (snd a) (snd b).

Record raw_meta := RM { rm_slots : list N; rm_count : N; rm_entries : list kv }.

Definition enc_entry (e : kv) : bytes :=
  put_uvarint (N.of_nat (length (fst e))) ++ put_uvarint (N.of_nat (length (snd e))) ++ fst e ++ snd e.
Definition enc_meta_payload (s : raw_meta) : bytes :=
  metaMagic ++ put_u16 metaVersion ++ put_u16 (N.of_nat (length (rm_slots s))) ++ concat (map put_u16 (rm_slots s))
  ++ put_u64 (rm_count s) ++ concat (map enc_entry (rm_entries s)).

Fixpoint dec_u16_list (n : nat) (bs : bytes) : option (list N * bytes) :=
  match n with
  | O => Some ([], bs)
  | S n' => match get_be 2 bs with
            | None => None
            | Some (x, r) => match dec_u16_list n' r with
                             | None => None
                             | Some (l, r') => Some (x :: l, r')
                             end
            end
  end.

(* readSlotStreamSize / readSlotStreamBytes of one entry *)
Definition dec_entry (bs : bytes) : option (kv * bytes) :=
  match get_uvarint bs with
  | None => None
  | Some (kl, r1) =>
    if maxSlotSnapshotStreamEntryBytes <? kl then None else
    match get_uvarint r1 with
    | None => None
    | Some (vl, r2) =>
      if maxSlotSnapshotStreamEntryBytes <? vl then None
      else if (N.of_nat (length r2) <? kl) then None
      else match take (N.to_nat kl) r2 with
      | None => None
      | Some (k, r3) =>
        if N.of_nat (length r3) <? vl then None
        else match take (N.to_nat vl) r3 with
             | None => None
             | Some (v, r4) => Some ((k, v), r4)
             end
      end
    end
  end.
Fixpoint dec_entry_list (n : nat) (bs : bytes) : option (list kv * bytes) :=
  match n with
  | O => Some ([], bs)
  | S n' => match dec_entry bs with
            | None => None
            | Some (e, r) => match dec_entry_list n' r with
                             | None => None
                             | Some (l, r') => Some (e :: l, r')
                             end
            end
  end.
(* framing of everything before the trailer *)
Definition dec_meta_payload (bs : bytes) : option (raw_meta * bytes) :=
  match take 4 bs with
  | None => None
  | Some (mg, r0) =>
    if negb (bytes_eqb mg metaMagic) then None else
    match get_be 2 r0 with
    | None => None
    | Some (ver, r1) =>
      if negb (ver =? metaVersion) then None else
      match get_be 2 r1 with
      | None => None
      | Some (ns, r2) =>
        if ns =? 0 then None else
        match dec_u16_list (N.to_nat ns) r2 with
        | None => None
        | Some (slots, r3) =>
          match get_be 8 r3 with
          | None => None
          | Some (cnt, r4) =>
            if 9223372036854775807 <? cnt then None
            else match dec_entry_list (bounded cnt r4) r4 with
                 | None => None
                 | Some (es, r5) => Some (RM slots cnt es, r5)
                 end
          end
        end
      end
    end
  end.

(* ---- keys and spans ---------------------------------------------------------------------- *)
Definition slot_prefix (hs : N) : bytes := [metaDomain; metaPartition] ++ put_u16 hs.
Definition space_prefix (hs sp : N) : bytes := slot_prefix hs ++ [sp].
Definition row_prefix (hs table : N) : bytes := space_prefix hs metaSpaceRow ++ put_u32 table.           (* encodeRowPrefix *)
Definition index_prefix (hs table idx : N) : bytes := space_prefix hs metaSpaceIndex ++ put_u32 table ++ put_u16 idx.

(* hashSlotAllDataSpans, as prefixes *)
Definition all_spans (hs : N) : list bytes :=
  [space_prefix hs metaSpaceRow; space_prefix hs metaSpaceIndex; space_prefix hs metaSpaceSystem].
(* hashSlotBackupDataSpans *)
Definition backup_spans (hs : N) : list bytes :=
  flat_map (fun t : N * list N * bool * bool => match t with (id, idxs, _, excluded) =>
                       if excluded then [] else row_prefix hs id :: map (index_prefix hs id) idxs end) metaTables
  ++ [space_prefix hs metaSpaceSystem].
(* hashSlotSnapshotReplaceSpans *)
Definition replace_spans (preserve : bool) (hs : N) : list bytes :=
  if preserve
  then flat_map (fun t : N * list N * bool * bool => match t with (id, _, keep, _) => if keep then [] else [row_prefix hs id] end) metaTables
       ++ [space_prefix hs metaSpaceIndex; space_prefix hs metaSpaceSystem]
  else all_spans hs.

Definition in_spans (spans : list bytes) (key : bytes) : bool := existsb (fun p => prefixb p key) spans.
(* snapshotEntryInHashSlots *)
Definition in_slots (slots : list N) (key : bytes) : bool := existsb (fun hs => in_spans (all_spans hs) key) slots.
(* isHashSlotMigrationSnapshotKey: rows of the PreserveOnImport table *)
Definition is_migration_key (slots : list N) (key : bytes) : bool :=
  existsb (fun hs => existsb (fun t : N * list N * bool * bool => match t with (id, _, keep, _) => keep && prefixb (row_prefix hs id) key end) metaTables) slots.

(* orderedHashSlots: duplicates dropped, ascending *)
Fixpoint insert_slot (x : N) (l : list N) : list N :=
  match l with
  | [] => [x]
  | y :: r => if x =? y then l else if x <? y then x :: l else y :: insert_slot x r
  end.
Definition normalize_slots (l : list N) : list N := fold_left (fun a x => insert_slot x a) l [].

(* ---- export -------------------------------------------------------------------------------- *)
(* visitSnapshotEntries: per hash slot, per span, the entries in key order *)
Definition export_entries (db : mdb) (slots : list N) (backup_only : bool) : list kv :=
  flat_map (fun hs => flat_map (fun p => filter (fun e => prefixb p (fst e)) db)
                               (if backup_only then backup_spans hs else all_spans hs)) slots.

(* ---- the store ------------------------------------------------------------------------------ *)
Fixpoint mdb_get (db : mdb) (k : bytes) : option bytes :=
  match db with [] => None | e :: r => if bytes_eqb (fst e) k then Some (snd e) else mdb_get r k end.
Fixpoint mdb_set (k v : bytes) (db : mdb) : mdb :=
  match db with
  | [] => [(k, v)]
  | e :: r => if bytes_eqb (fst e) k then (k, v) :: r
              else if bytes_ltb k (fst e) then (k, v) :: db
              else e :: mdb_set k v r
  end.
Definition mdb_delete_spans (spans : list bytes) (db : mdb) : mdb := filter (fun e => negb (in_spans spans (fst e))) db.

(* invalidateSnapshotAuthenticationToken: user / device rows lose their first length-prefixed string *)
Definition invalidate_token (slots : list N) (key value : bytes) : res bytes :=
  if existsb (fun hs => prefixb (row_prefix hs metaTableUser) key || prefixb (row_prefix hs metaTableDevice) key) slots
  then match get_be 2 value with
       | None => Err ECorruptValue
       | Some (n, rest) => if N.of_nat (length rest) <? n then Err ECorruptValue
                           else Ok ([0; 0] ++ skipn (N.to_nat n) rest)
       end
  else Ok value.

Section MetaWithCk.
  Variable ck : bytes -> N.

  (* writeHashSlotSnapshotStream read to the end *)
  Definition export_meta (db : mdb) (slots : list N) (backup_only : bool) : res bytes :=
    match slots with
    | [] => Err EInvalid
    | _ => let ns := normalize_slots slots in
           let es := export_entries db ns backup_only in
           Ok (seal ck (enc_meta_payload (RM ns (N.of_nat (length es)) es)))
    end.

  (* verifySeekableSnapshotChecksum *)
  Definition verify_meta_checksum (stream : bytes) : res bytes :=
    if Nat.ltb (length stream) 20 then Err ECorruptValue
    else let p := firstn (length stream - 4) stream in
         let t := skipn (length stream - 4) stream in
         if ck p =? be_get t then Ok p else Err EChecksum.

  (* the entry loop of visitSlotSnapshotStream with the two visitors.
     validate pass: every key must lie in the requested hash slots.
     install pass: state = (store, current batch reversed, its entry and byte counts) *)
  Fixpoint validate_entries (n : nat) (c : ctx) (slots : list N) (bs : bytes) : res (ctx * bytes) :=
    match n with
    | O => Ok (c, bs)
    | S n' =>
      match ctx_check c with
      | None => Err EOther
      | Some c1 =>
        match dec_entry bs with
        | None => Err ECorruptValue
        | Some (e, r) => if in_slots slots (fst e) then validate_entries n' c1 slots r else Err EInvalid
        end
      end
    end.

  Definition flush (db : mdb) (batch : list kv) : mdb := fold_left (fun d e => mdb_set (fst e) (snd e) d) (rev batch) db.

  Fixpoint install_entries (n : nat) (c : ctx) (slots : list N) (preserve invalidate : bool) (bs : bytes)
           (db : mdb) (batch : list kv) (nent nbytes : N) : mdb * res (ctx * bytes) :=
    match n with
    | O => (flush db batch, Ok (c, bs))            (* the final flush *)
    | S n' =>
      match ctx_check c with
      | None => (db, Err EOther)
      | Some c1 =>
        match dec_entry bs with
        | None => (db, Err ECorruptValue)
        | Some ((k, v), r) =>
          match (if invalidate then invalidate_token slots k v else Ok v) with
          | Err e => (db, Err e)
          | Ok v' =>
            if negb (in_slots slots k) then (db, Err EInvalid)
            else
              (* a local row of the preserved table wins over the snapshot's *)
              let skip := preserve && is_migration_key slots k
                          && match mdb_get db k with Some _ => true | None => false end in
              let batch' := if skip then batch else (k, v') :: batch in
              let nent' := nent + 1 in
              let nbytes' := nbytes + N.of_nat (length k) + N.of_nat (length v) in
              if (slotSnapshotImportBatchEntries <=? nent') || (slotSnapshotImportBatchBytes <=? nbytes')
              then install_entries n' c1 slots preserve invalidate r (flush db batch') [] 0 0
              else install_entries n' c1 slots preserve invalidate r db batch' nent' nbytes'
          end
        end
      end
    end.

  (* the header of visitSlotSnapshotStream: slots, entry count, the rest *)
  Definition parse_meta_header (payload : bytes) : res (list N * N * bytes) :=
    match take 4 payload with
    | None => Err ECorruptValue
    | Some (mg, r0) =>
      if negb (bytes_eqb mg metaMagic) then Err ECorruptValue else
      match get_be 2 r0 with
      | None => Err ECorruptValue
      | Some (ver, r1) =>
        if negb (ver =? metaVersion) then Err ECorruptValue else
        match get_be 2 r1 with
        | None => Err ECorruptValue
        | Some (ns, r2) =>
          if ns =? 0 then Err ECorruptValue else
          match dec_u16_list (N.to_nat ns) r2 with
          | None => Err ECorruptValue
          | Some (slots, r3) =>
            match get_be 8 r3 with
            | None => Err ECorruptValue
            | Some (cnt, r4) => if 9223372036854775807 <? cnt then Err ECorruptValue else Ok (slots, cnt, r4)
            end
          end
        end
      end
    end.

  (* importHashSlotSnapshotReader(hashSlots, reader, preserveMigrationMeta, invalidateTokens) *)
  Definition import_meta (c : ctx) (req : list N) (preserve invalidate : bool) (stream : bytes) (db : mdb)
    : mdb * res N :=
    match ctx_check c with          (* checkSnapshotDB *)
    | None => (db, Err EOther)
    | Some c0 =>
      match req with
      | [] => (db, Err EInvalid)
      | _ =>
        let slots := normalize_slots req in
        match verify_meta_checksum stream with
        | Err e => (db, Err e)
        | Ok payload =>
          match parse_meta_header payload with
          | Err e => (db, Err e)
          | Ok (sslots, cnt, body) =>
            match validate_entries (bounded cnt body) c0 slots body with
            | Err e => (db, Err e)
            | Ok (c1, rest) =>
              match rest with
              | _ :: _ => (db, Err ECorruptValue)
              | [] =>
                if negb (list_eqb N.eqb sslots slots) then (db, Err EInvalid)
                else
                  let db1 := mdb_delete_spans (flat_map (replace_spans preserve) slots) db in
                  match install_entries (bounded cnt body) c1 slots preserve invalidate body db1 [] 0 0 with
                  | (db2, Err e) => (db2, Err e)
                  | (db2, Ok _) => (db2, Ok cnt)
                  end
              end
            end
          end
        end
      end
    end.
End MetaWithCk.

Definition mdb_eqb (a b : mdb) : bool := list_eqb kv_eqb a b.
