(* Model/Cluster.v — the cluster driven by the harness of C01..C04
   (harness/export/quorumlog_verif.go VerifCluster): one durable replica and one
   volatile owner per node, a set of nodes that are down, and the operations of a
   fault schedule.  Also the case record printed by the harness, the
   correspondence check [q_mismatch] and the observation helpers shared by the
   four property monitors (Model/Monitor_C0x.v).  Definitions only. *)
From WK Require Import Base.Base.
From WK Require Export Gen.Consts_QuorumLog Model.ReplicaLog Model.QuorumLog.
Open Scope N_scope.

(* ---- operations of a schedule ------------------------------------------------------------- *)

Inductive qop :=
| OInstall (node : N) (a : authid) (wf : bool) (q : N) (f : faults)
| OCommit (node : N) (expected : authid) (cmd : tag) (recs : list record) (sa : bool) (f : faults)
| ODown (node : N)
| OUp (node : N)
| ORestart (node : N)
| ORepair (leader follower from through : N)
| OCheckpoint (node hw : N).

Inductive qres :=
| RInstalled (a : authid) (leo hw : N)
| RReceipt (a : authid) (c : tag) (first last hw : N)
| RErr (e : N)
| RNone
| RBool (b : bool).

Record cluster := Cluster { cl_net : net; cl_owners : list (N * qchannel) }.

Fixpoint get_owner (l : list (N * qchannel)) (v : N) : qchannel :=
  match l with
  | [] => qchannel_empty
  | (v', o) :: rest => if v =? v' then o else get_owner rest v
  end.
Fixpoint put_owner (l : list (N * qchannel)) (v : N) (o : qchannel) : list (N * qchannel) :=
  match l with
  | [] => [(v, o)]
  | (v', o') :: rest => if v =? v' then (v, o) :: rest else (v', o') :: put_owner rest v o
  end.

Definition voters_of (cfg : qconfig) : list N := seqN 1 (N.to_nat (cf_voters cfg)).

Definition cluster_init (cfg : qconfig) : cluster :=
  Cluster (Net (cf_kind cfg) (map (fun v => (v, replica_empty)) (voters_of cfg)) [] no_faults 0)
          (map (fun v => (v, qchannel_empty)) (voters_of cfg)).

Definition with_faults (n : net) (f : faults) : net := Net (nt_kind n) (nt_reps n) (nt_down n) f 0.
Definition set_down (n : net) (d : list N) : net := Net (nt_kind n) (nt_reps n) d (nt_flt n) (nt_replaced n).

(* VerifCluster.RepairFollower = runtimeRepairOwner.repairFromFrontier over synchronous links *)
Fixpoint repair_send (n : net) (leader follower : N) (committed : N) (ps : list rproposal) (previous : ident)
  : net * option ident :=
  match ps with
  | [] => (n, Some previous)
  | (m, recs) :: rest =>
      let p := DProp (m_base m + 1) (m_last m) leader m recs (N.min committed (m_last m)) false in
      if negb (replicate_request_valid leader follower p) then (n, None)
      else let '(rp, o, _) := sync (nt_kind n) (net_rep n follower) (dp_mutation p) in
           let n' := net_set n follower rp in
           if negb (outcome_durable o) then (n', None)
           else match SealProposalManifest m recs with
                | Some (_, es) => repair_send n' leader follower committed rest (last_ident es)
                | None => (n', None)
                end
  end.

Fixpoint repair_loop (fuel : nat) (cfg : qconfig) (n : net) (leader follower : N) (state : rstate)
         (from through : N) (previous : ident) : net * bool :=
  match fuel with
  | O => (n, false)
  | S fuel' =>
    if through <? from then (n, true)
    else
    let pageThrough := if maxRecoveryProbeIndexes <=? through - from then from + maxRecoveryProbeIndexes - 1 else through in
    match fetch (nt_kind n) (net_rep n leader) (FetchReq state from pageThrough previous (cf_pagebytes cfg)) with
    | inl _ => (n, false)
    | inr (_, ps) =>
        match ps with
        | [] => (n, false)
        | _ =>
          match repair_send n leader follower (rs_committed state) ps previous with
          | (n', None) => (n', false)
          | (n', Some pv) =>
              repair_loop fuel' cfg n' leader follower state (m_last (fst (last_proposal ps)) + 1) through pv
          end
        end
    end
  end.

Definition RepairFollower (cfg : qconfig) (n : net) (leader follower needFrom through : N) : net * bool :=
  if memN follower (nt_down n) || (needFrom =? 0) then (n, false)
  else
  let indexes := if 1 <? needFrom then [needFrom - 1] else [] in
  match load (nt_kind n) (net_rep n leader) indexes with
  | None => (n, false)
  | Some (state, es) =>
      if (rs_leo state <? through) || (rs_leo state <? needFrom) then (n, false)
      else
      let prev := if 1 <? needFrom then
                    match es with
                    | [p] => if pb_present p then Some (pb_ident p) else None
                    | _ => None
                    end
                  else Some ident_zero in
      match prev with
      | None => (n, false)
      | Some pv => repair_loop (S (N.to_nat (through - needFrom + 1))) cfg n leader follower state needFrom through pv
      end
  end.

Definition node_ok (cfg : qconfig) (v : N) : bool := (1 <=? v) && (v <=? cf_voters cfg).

(* one operation of the schedule *)
Definition q_step (cfg : qconfig) (c : cluster) (op : qop) : cluster * qres :=
  let n := cl_net c in
  match op with
  | OInstall node aid wf q f =>
      let a := Auth aid node (voters_of cfg) q wf in
      let '(n', st', r) := Install cfg (with_faults n f) (get_owner (cl_owners c) node) node a in
      (Cluster (with_faults n' no_faults) (put_owner (cl_owners c) node st'),
       match r with IErr e => RErr e | IOk a' leo hw => RInstalled a' leo hw end)
  | OCommit node expected cmd recs sa f =>
      let '(n', st', r) := Commit cfg (with_faults n f) (get_owner (cl_owners c) node) node
                                  (Proposal expected cmd recs sa) in
      (Cluster (with_faults n' no_faults) (put_owner (cl_owners c) node st'),
       match r with
       | CErr e => RErr e
       | COk rc => RReceipt (rc_auth rc) (rc_cmd rc) (rc_first rc) (rc_last rc) (rc_hw rc)
       end)
  | ODown node => (Cluster (set_down n (node :: filter (fun v => negb (v =? node)) (nt_down n))) (cl_owners c), RNone)
  | OUp node => (Cluster (set_down n (filter (fun v => negb (v =? node)) (nt_down n))) (cl_owners c), RNone)
  | ORestart node => (Cluster n (put_owner (cl_owners c) node qchannel_empty), RNone)
  | ORepair leader follower from through =>
      let '(n', ok) := RepairFollower cfg n leader follower from through in
      (Cluster n' (cl_owners c), RBool ok)
  | OCheckpoint node hw =>
      (* the reactor checkpoints only what its owner has acknowledged *)
      let o := get_owner (cl_owners c) node in
      let w := N.min hw (if qc_ready o then qc_hw o else 0) in
      (Cluster (net_set n node (storeCheckpoint (net_rep n node) w)) (cl_owners c), RBool true)
  end.

(* ---- the case record ------------------------------------------------------------------------ *)

(* one interned entry of the implementation: identity fields, the id of the
   predecessor's digest (0 = zero digest) and the message row *)
Record ent := Ent {
  en_idx : N; en_e : N; en_t : N; en_f : N; en_cmd : tag; en_pt : N; en_pid : N; en_rec : record }.

(* one replica as read back through ReplicaStore.Load: ids.[k] = id of the entry at index k+1 *)
Record robs := RO { ro_err : bool; ro_leo : N; ro_hw : N; ro_ids : list N }.
(* ob_reps lists only the replicas whose observation changed in this step *)
Record qobs := Obs { ob_res : qres; ob_reps : list (N * robs) }.
Record qcase := QCase { cs_cfg : qconfig; cs_tab : list ent; cs_steps : list (qop * qobs) }.

Definition robs_init : robs := RO false 0 0 [].
Fixpoint get_robs (l : list (N * robs)) (v : N) : robs :=
  match l with
  | [] => robs_init
  | (v', o) :: rest => if v =? v' then o else get_robs rest v
  end.
(* the full observation after a step: the previous one overridden by the changes *)
Definition apply_delta (prev delta : list (N * robs)) : list (N * robs) :=
  delta ++ filter (fun p => negb (existsb (fun d => fst d =? fst p) delta)) prev.

Definition tab_get (tab : list ent) (id : N) : option ent :=
  if id =? 0 then None else nth_error tab (N.to_nat (id - 1)).

Definition qres_eqb (a b : qres) : bool :=
  match a, b with
  | RInstalled x l h, RInstalled x' l' h' => authid_eqb x x' && (l =? l') && (h =? h')
  | RReceipt x c f l h, RReceipt x' c' f' l' h' =>
      authid_eqb x x' && tag_eqb c c' && (f =? f') && (l =? l') && (h =? h')
  | RErr e, RErr e' => e =? e'
  | RNone, RNone => true
  | RBool x, RBool y => Bool.eqb x y
  | _, _ => false
  end.

(* does the interned entry describe this model entry? *)
Definition ent_matches (e : ent) (x : ident * record) : bool :=
  let i := fst x in
  (en_idx e =? i_idx i) && (en_e e =? i_e i) && (en_t e =? i_t i) && (en_f e =? i_f i) &&
  tag_eqb (en_cmd e) (i_cmd i) && (en_pt e =? i_pt i) && record_eqb (en_rec e) (snd x).

Fixpoint log_matches (tab : list ent) (ids : list N) (log : list (ident * record)) : bool :=
  match ids, log with
  | [], [] => true
  | id :: ids', x :: log' =>
      match tab_get tab id with
      | Some e => ent_matches e x && log_matches tab ids' log'
      | None => false
      end
  | _, _ => false
  end.

Definition replica_matches (k : store_kind) (tab : list ent) (o : robs) (rp : replica) : bool :=
  match loadExactState k rp with
  | None => ro_err o
  | Some s => negb (ro_err o) && (ro_leo o =? rs_leo s) && (ro_hw o =? rs_committed s) &&
              log_matches tab (ro_ids o) (rp_log rp)
  end.

(* replicas named in the delta must match the model; replicas not named must not have
   changed in the model either (their model replica still matches the old observation) *)
Definition replicas_match (k : store_kind) (tab : list ent) (n : net) (vs : list N) (full : list (N * robs)) : bool :=
  forallb (fun v => replica_matches k tab (get_robs full v) (net_rep n v)) vs.

Fixpoint run_mismatch (cfg : qconfig) (tab : list ent) (c : cluster) (prev : list (N * robs))
         (steps : list (qop * qobs)) : bool :=
  match steps with
  | [] => false
  | (op, o) :: rest =>
      let '(c', r) := q_step cfg c op in
      let full := apply_delta prev (ob_reps o) in
      if qres_eqb r (ob_res o) && replicas_match (cf_kind cfg) tab (cl_net c') (voters_of cfg) full
      then run_mismatch cfg tab c' full rest
      else true
  end.

(* correspondence: true iff the model disagrees with the implementation on this case *)
Definition q_mismatch (c : qcase) : bool :=
  run_mismatch (cs_cfg c) (cs_tab c) (cluster_init (cs_cfg c)) [] (cs_steps c).

(* the model's own trace, for debugging and for the refutation witnesses *)
Fixpoint run_model (cfg : qconfig) (c : cluster) (ops : list qop) : list qres * cluster :=
  match ops with
  | [] => ([], c)
  | op :: rest => let '(c', r) := q_step cfg c op in
                  let '(rs, cf) := run_model cfg c' rest in (r :: rs, cf)
  end.

(* index (from 0) of the first disagreeing step, for debugging *)
Fixpoint first_mismatch (cfg : qconfig) (tab : list ent) (c : cluster) (prev : list (N * robs))
         (steps : list (qop * qobs)) (k : N) : option (N * qres) :=
  match steps with
  | [] => None
  | (op, o) :: rest =>
      let '(c', r) := q_step cfg c op in
      let full := apply_delta prev (ob_reps o) in
      if qres_eqb r (ob_res o) && replicas_match (cf_kind cfg) tab (cl_net c') (voters_of cfg) full
      then first_mismatch cfg tab c' full rest (k + 1)
      else Some (k, r)
  end.
Definition q_first_mismatch (c : qcase) :=
  first_mismatch (cs_cfg c) (cs_tab c) (cluster_init (cs_cfg c)) [] (cs_steps c) 0.

(* the full per-step observations of a case: (operation, result, all replicas) *)
Fixpoint expand_steps (prev : list (N * robs)) (steps : list (qop * qobs))
  : list (qop * qres * list (N * robs)) :=
  match steps with
  | [] => []
  | (op, o) :: rest => let full := apply_delta prev (ob_reps o) in
                       (op, ob_res o, full) :: expand_steps full rest
  end.

(* ---- observation helpers shared by the monitors ------------------------------------------------ *)

(* the id stored by a replica at a 1-based index, 0 when absent *)
Definition obs_id_at (o : robs) (idx : N) : N :=
  if idx =? 0 then 0 else nth (N.to_nat (idx - 1)) (ro_ids o) 0.

(* every id names a table entry at the right index whose predecessor is the id before it *)
Fixpoint chain_ok_from (tab : list ent) (ids : list N) (idx prev : N) : bool :=
  match ids with
  | [] => true
  | id :: rest =>
      match tab_get tab id with
      | Some e => (en_idx e =? idx) && (en_pid e =? prev) && chain_ok_from tab rest (idx + 1) id
      | None => false
      end
  end.
Definition obs_chain_ok (tab : list ent) (o : robs) : bool :=
  ro_err o || ((lenN (ro_ids o) =? ro_leo o) && chain_ok_from tab (ro_ids o) 1 0).

(* ---- the case the MODEL produces for a schedule --------------------------------------------------------
   Used by the refutation witnesses and the bounded exhaustive checks: run the model, read every
   replica back exactly as the harness does (Load with all indexes), intern entries by
   (content, predecessor id) — which coincides with interning by digest, the digest being the
   structural chain — and print deltas. *)

Definition ent_eqb (a b : ent) : bool :=
  (en_idx a =? en_idx b) && (en_e a =? en_e b) && (en_t a =? en_t b) && (en_f a =? en_f b) &&
  tag_eqb (en_cmd a) (en_cmd b) && (en_pt a =? en_pt b) && (en_pid a =? en_pid b) &&
  record_eqb (en_rec a) (en_rec b).

Fixpoint find_ent (tab : list ent) (e : ent) (k : N) : option N :=
  match tab with
  | [] => None
  | x :: r => if ent_eqb x e then Some k else find_ent r e (k + 1)
  end.

Definition ent_of (x : ident * record) (pid : N) : ent :=
  let i := fst x in Ent (i_idx i) (i_e i) (i_t i) (i_f i) (i_cmd i) (i_pt i) pid (snd x).

Fixpoint intern_log (tab : list ent) (log : list (ident * record)) (prev : N) : list ent * list N :=
  match log with
  | [] => (tab, [])
  | x :: r =>
      let e := ent_of x prev in
      match find_ent tab e 1 with
      | Some id => let '(tab', ids) := intern_log tab r id in (tab', id :: ids)
      | None => let id := lenN tab + 1 in
                let '(tab', ids) := intern_log (tab ++ [e]) r id in (tab', id :: ids)
      end
  end.

Definition robs_eqb (a b : robs) : bool :=
  Bool.eqb (ro_err a) (ro_err b) && (ro_leo a =? ro_leo b) && (ro_hw a =? ro_hw b) &&
  list_eqb N.eqb (ro_ids a) (ro_ids b).

(* observe every voter; returns the new table, the full observation and the delta *)
Fixpoint observe_all (k : store_kind) (n : net) (vs : list N) (tab : list ent) (prev : list (N * robs))
  : list ent * list (N * robs) * list (N * robs) :=
  match vs with
  | [] => (tab, [], [])
  | v :: rest =>
      let rp := net_rep n v in
      let '(tab1, o) :=
        match loadExactState k rp with
        | None => (tab, RO true 0 0 [])
        | Some s => let '(t, ids) := intern_log tab (rp_log rp) 0 in (t, RO false (rs_leo s) (rs_committed s) ids)
        end in
      let '(tab2, full, delta) := observe_all k n rest tab1 prev in
      (tab2, (v, o) :: full, if robs_eqb o (get_robs prev v) then delta else (v, o) :: delta)
  end.

Fixpoint model_steps (cfg : qconfig) (c : cluster) (tab : list ent) (prev : list (N * robs)) (ops : list qop)
  : list ent * list (qop * qobs) :=
  match ops with
  | [] => (tab, [])
  | op :: rest =>
      let '(c', r) := q_step cfg c op in
      let '(tab1, full, delta) := observe_all (cf_kind cfg) (cl_net c') (voters_of cfg) tab prev in
      let '(tab2, steps) := model_steps cfg c' tab1 full rest in
      (tab2, (op, Obs r delta) :: steps)
  end.

Definition model_case (cfg : qconfig) (ops : list qop) : qcase :=
  let '(tab, steps) := model_steps cfg (cluster_init cfg) [] [] ops in QCase cfg tab steps.
