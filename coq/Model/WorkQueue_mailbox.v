(* Model/WorkQueue_mailbox.v — pkg/workqueue/sharded_mailbox.go as a transition
   system.  Atomic steps: Submit's closed.Load; Submit's shard.mu critical
   section (closed checks, capacity check, queue send, scheduled false->true
   edge, wg.Add); per shard: the start of drainScheduledShard, nextItem (a
   receive, or the empty check under shard.mu), each receive of collectBatch,
   handler entry and return, finishShardDrain's critical section; Close's
   closed.Store, the shard.closed loop, and its wg.Wait.

   [scheduled] of a shard is "its token is not TNone"; wg counts the shards whose
   token is not TNone.  invokeShard / the overload retry goroutine / the ants
   hand-over all happen while the token is TSched (they change nothing the
   property can see); the executor's Workers bound is not modelled (it only
   removes behaviours).  Close's context never expires, callers' contexts are
   never cancelled.  Queue items carry their enqueue stamp (ghost, for the FIFO
   invariant).  Task ids are the call stamps. *)
From WK Require Import Base.Base Model.WorkQueue.
Open Scope N_scope.

Inductive mpc :=
| MIdle
| MCheck (x st : N) (sh : nat)   (* before m.closed.Load() *)
| MLock (x st : N) (sh : nat).   (* about to take shard.mu *)

Inductive tpc :=
| TNone                                        (* scheduled = false *)
| TSched                                       (* scheduled = true; drain not yet running *)
| TNext (db : N)                               (* draining since db: nextItem *)
| TCollect (db : N) (items : list (N * N))     (* collectBatch *)
| THandler (db rb : N) (items : list (N * N))  (* inside the handler since rb *)
| TFinish (db te : N).                         (* queue seen empty under shard.mu at te (ghost stamp); finishShardDrain pending *)

Record shard := Sh { sh_queue : list (N * N); sh_tok : tpc }.

Inductive tch := TcStep | TcTake | TcGo.

Record mstate := MSt {
  m_now : N;
  m_closed : bool;          (* m.closed *)
  m_shclosed : bool;        (* shard.closed (set for all shards by Close's loop) *)
  m_shards : list shard;
  m_pcs : list mpc;
  m_close : cpc;
  m_cb : N;
  m_subs : list sub;
  m_runs : list runr;
  m_drains : list drn;
  m_clos : list clo }.

Inductive mev :=
| MCall (t : nat) (sh : nat)
| MStep (t : nat)
| MTok (sh : nat) (c : tch)
| MCloseCall
| MCloseStep.

Section Mailbox.
Variable cf : cfg.

Definition mcap : N := c_qsize cf.
Definition mbmax : nat := N.to_nat (N.max 1 (c_batch cf)).
Definition nshards : nat := N.to_nat (N.max 1 (c_shards cf)).

Definition sh0 : shard := Sh [] TNone.
Definition m_pc (s : mstate) (t : nat) : mpc := nth t (m_pcs s) MIdle.
Definition m_sh (s : mstate) (k : nat) : shard := nth k (m_shards s) sh0.

Definition tok_items (p : tpc) : list (N * N) :=
  match p with TCollect _ it | THandler _ _ it => it | _ => [] end.

Definition m_upd (s : mstate) (shards : list shard) (pcs : list mpc) (subs : list sub) : mstate :=
  MSt (m_now s) (m_closed s) (m_shclosed s) shards pcs (m_close s) (m_cb s) subs (m_runs s) (m_drains s) (m_clos s).

Definition m_set_pc (s : mstate) (t : nat) (p : mpc) : mstate :=
  m_upd s (m_shards s) (set_nth t p MIdle (m_pcs s)) (m_subs s).

Definition m_ret (s : mstate) (t : nat) (x st : N) (k : nat) (r : sres) (shards : list shard) : mstate :=
  m_upd s shards (set_nth t MIdle MIdle (m_pcs s)) (Sub x (N.of_nat k) st (m_now s) r :: m_subs s).

Definition m_set_sh (s : mstate) (k : nat) (sh : shard) : mstate :=
  m_upd s (set_nth k sh sh0 (m_shards s)) (m_pcs s) (m_subs s).

Definition m_thread_step (s : mstate) (t : nat) : mstate :=
  match m_pc s t with
  | MIdle => s
  | MCheck x st k =>
      if m_closed s then m_ret s t x st k RClosed (m_shards s) else m_set_pc s t (MLock x st k)
  | MLock x st k =>
      let sh := m_sh s k in
      if m_shclosed s || m_closed s then m_ret s t x st k RClosed (m_shards s)
      else if mcap <=? N.of_nat (length (sh_queue sh)) then m_ret s t x st k RFull (m_shards s)
      else
        let tok := match sh_tok sh with TNone => TSched | p => p end in   (* scheduled false->true edge: wg.Add(1), invokeShard *)
        m_ret s t x st k ROk (set_nth k (Sh (sh_queue sh ++ [(x, m_now s)]) tok) sh0 (m_shards s))
  end.

Fixpoint mk_runs_sh (l : list (N * N)) (k : N) (rb re pos : N) : list runr :=
  match l with
  | [] => []
  | (x, _) :: r => Run x k rb re pos :: mk_runs_sh r k rb re (pos + 1)
  end.

Definition m_tok_step (s : mstate) (k : nat) (c : tch) : mstate :=
  if negb (Nat.ltb k (length (m_shards s))) then s else
  let sh := m_sh s k in
  match sh_tok sh with
  | TNone => s
  | TSched => m_set_sh s k (Sh (sh_queue sh) (TNext (m_now s)))     (* drainScheduledShard starts: observeWorker *)
  | TNext db =>
      match sh_queue sh with
      | it :: r => m_set_sh s k (Sh r (TCollect db [it]))
      | [] => m_set_sh s k (Sh [] (TFinish db (m_now s)))                      (* len(queue)==0 under shard.mu; deferred observeWorker *)
      end
  | TCollect db items =>
      match c with
      | TcTake =>
          match sh_queue sh with
          | it :: r => if Nat.ltb (length items) mbmax then m_set_sh s k (Sh r (TCollect db (items ++ [it]))) else s
          | [] => s
          end
      | TcGo => m_set_sh s k (Sh (sh_queue sh) (THandler db (m_now s) items))
      | _ => s
      end
  | THandler db rb items =>
      let s' := m_set_sh s k (Sh (sh_queue sh) (TNext db)) in
      MSt (m_now s') (m_closed s') (m_shclosed s') (m_shards s') (m_pcs s') (m_close s') (m_cb s') (m_subs s')
          (mk_runs_sh items (N.of_nat k) rb (m_now s) 0 ++ m_runs s') (m_drains s') (m_clos s')
  | TFinish db _ =>
      (* finishShardDrain: scheduled = false; needsSchedule := len(queue) > 0 && !shard.closed && !parent.closed *)
      let needs := negb (match sh_queue sh with [] => true | _ => false end) && negb (m_shclosed s) && negb (m_closed s) in
      let s' := m_set_sh s k (Sh (sh_queue sh) (if needs then TSched else TNone)) in
      MSt (m_now s') (m_closed s') (m_shclosed s') (m_shards s') (m_pcs s') (m_close s') (m_cb s') (m_subs s')
          (m_runs s') (Drn (N.of_nat k) db (m_now s) :: m_drains s') (m_clos s')
  end.

Definition all_unscheduled (l : list shard) : bool :=
  forallb (fun sh => match sh_tok sh with TNone => true | _ => false end) l.

Definition m_set_close (s : mstate) (closed shclosed : bool) (c : cpc) (cb : N) (cl : list clo) : mstate :=
  MSt (m_now s) closed shclosed (m_shards s) (m_pcs s) c cb (m_subs s) (m_runs s) (m_drains s) cl.

Definition m_tick (s : mstate) : mstate :=
  MSt (m_now s + 1) (m_closed s) (m_shclosed s) (m_shards s) (m_pcs s) (m_close s) (m_cb s)
      (m_subs s) (m_runs s) (m_drains s) (m_clos s).

Definition m_step (s0 : mstate) (e : mev) : mstate :=
  let s := m_tick s0 in
  match e with
  | MCall t k =>
      match m_pc s t with
      | MIdle => if Nat.ltb k (length (m_shards s)) then m_set_pc s t (MCheck (m_now s) (m_now s) k) else s
      | _ => s
      end
  | MStep t => m_thread_step s t
  | MTok k c => m_tok_step s k c
  | MCloseCall =>
      match m_close s with
      | CIdle => m_set_close s (m_closed s) (m_shclosed s) (CStart (m_now s)) (m_now s) (m_clos s)
      | _ => s
      end
  | MCloseStep =>
      match m_close s with
      | CStart cb => m_set_close s true (m_shclosed s) (CMid cb) (m_cb s) (m_clos s)      (* m.closed.Store(true) *)
      | CMid cb => m_set_close s (m_closed s) true (CWait cb) (m_cb s) (m_clos s)         (* for each shard: shard.closed = true *)
      | CWait cb =>
          if all_unscheduled (m_shards s)                                                   (* m.wg.Wait() *)
          then m_set_close s (m_closed s) (m_shclosed s) CDone (m_cb s) (Clo cb (m_now s) true :: m_clos s)
          else s
      | _ => s
      end
  end.

Definition m_init : mstate :=
  MSt 0 false false (repeat sh0 nshards) [] CIdle 0 [] [] [] [].

Definition m_run (evs : list mev) : mstate := fold_left m_step evs m_init.

Definition m_hist (s : mstate) : hist := Hist cf (m_subs s) (m_runs s) [] (m_clos s) (m_drains s).

End Mailbox.
