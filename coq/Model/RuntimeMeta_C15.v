(* Model/RuntimeMeta_C15.v — C15 "channel routing metadata never regresses":
   the operations of the public meta.Shard / meta.WriteBatch API that write
   runtime-metadata rows, over the row model of Model/RuntimeMeta.v, the case
   record printed by harness/cmd/C15, [C15_mismatch] (model vs implementation)
   and [C15_monitor] (the property on the implementation's observations alone).

   Go functions transcribed here:
     Shard.UpsertChannelRuntimeMeta, Shard.DeleteChannelRuntimeMeta,
     Shard.AdvanceChannelRetentionThroughSeq           (table_runtime_meta.go)
     Batch.UpsertChannelRuntimeMeta, Batch.CreateChannelRuntimeMeta,
     Batch.Commit (all-or-nothing Build loop)            (batch.go)
     WriteBatch.UpsertChannelRuntimeMeta / CreateChannelRuntimeMeta /
     DeleteChannelRuntimeMeta / AdvanceChannelRetentionThroughSeq / Commit (compat.go)
   Definitions only. *)
From WK Require Import Base.Base.
From WK Require Import Gen.Consts_C15 Model.RuntimeMeta.
Open Scope N_scope.

(* error classes of pkg/db/internal/dberrors as seen through errors.Is *)
Inductive db_err := ENone | EInvalidArgument | ENotFound | EAlreadyExists | EConflict | EOther.

Definition db_err_eqb (a b : db_err) : bool :=
  match a, b with
  | ENone, ENone | EInvalidArgument, EInvalidArgument | ENotFound, ENotFound
  | EAlreadyExists, EAlreadyExists | EConflict, EConflict | EOther, EOther => true
  | _, _ => false
  end.

(* ---- operations ------------------------------------------------------------- *)

(* staged in a WriteBatch *)
Inductive c15_bop :=
| BUpsert (hash_slot : N) (m : runtime_meta)
| BCreate (hash_slot : N) (m : runtime_meta)
| BDelete (k : rm_key)
| BAdvance (hash_slot : N) (req : retention_advance).

Inductive c15_op :=
| OpUpsert (hash_slot : N) (m : runtime_meta)          (* Shard.UpsertChannelRuntimeMeta *)
| OpDelete (k : rm_key)                                (* Shard.DeleteChannelRuntimeMeta *)
| OpAdvance (hash_slot : N) (req : retention_advance)  (* Shard.AdvanceChannelRetentionThroughSeq *)
| OpBatch (ops : list c15_bop).                        (* NewWriteBatch; stage ops; Commit *)

(* what the API reports *)
Inductive c15_obs :=
| ObsUpsert (result : N) (err : db_err)                 (* MonotonicResult (0 on early error), error *)
| ObsErr (err : db_err)
| ObsBatch (stage : list (db_err * bool)) (commit : db_err).
   (* per staged op: error returned by the staging call, and (for BCreate)
      result.Created when Commit returned nil; then Commit's error *)

Definition advance_key (hash_slot : N) (req : retention_advance) : rm_key :=
  RmKey hash_slot (ra_channel_id req) (ra_channel_type req).

(* ---- Shard methods ---------------------------------------------------------- *)

Definition shard_upsert (s : rm_store) (hash_slot : N) (m : runtime_meta) : c15_obs * rm_store :=
  if negb (validateChannelRuntimeMeta m) then (ObsUpsert 0 EInvalidArgument, s) else
  let k := meta_key hash_slot m in
  let '(next, result) :=
    match store_get s k with
    | Some existing => resolveMonotonicChannelRuntimeMeta existing true m
    | None => resolveMonotonicChannelRuntimeMeta runtime_meta_zero false m
    end in
  if result =? MonotonicIgnoredStale then (ObsUpsert result ENone, s)
  else if result =? MonotonicConflict then (ObsUpsert result EConflict, s)
  else (ObsUpsert MonotonicApplied ENone, store_put s k next).

Definition shard_delete (s : rm_store) (k : rm_key) : c15_obs * rm_store :=
  if negb (validateKeyString (k_channel_id k)) then (ObsErr EInvalidArgument, s) else
  match store_get s k with
  | None => (ObsErr ENotFound, s)
  | Some _ => (ObsErr ENone, store_del s k)
  end.

(* shared by the Shard method and the WriteBatch op (the code is duplicated) *)
Definition advance_retention (s : rm_store) (hash_slot : N) (req : retention_advance)
  : db_err * rm_store :=
  let k := advance_key hash_slot req in
  match store_get s k with
  | None => (ENotFound, s)
  | Some existing =>
    if negb (retentionAdvanceMatches existing req) then (EConflict, s)
    else if ra_retention_through_seq req <=? rm_retention_through_seq existing then (ENone, s)
    else (ENone, store_put s k (advanceRetentionRow existing req))
  end.

Definition shard_advance (s : rm_store) (hash_slot : N) (req : retention_advance)
  : c15_obs * rm_store :=
  if negb (validateKeyString (ra_channel_id req)) then (ObsErr EInvalidArgument, s) else
  let '(e, s') := advance_retention s hash_slot req in (ObsErr e, s').

(* ---- WriteBatch --------------------------------------------------------------- *)

(* error returned by the staging call; a failed staging call adds no op *)
Definition bop_stage_err (b : c15_bop) : db_err :=
  match b with
  | BUpsert _ m => if validateChannelRuntimeMeta m then ENone else EInvalidArgument
  | BCreate _ m => if validateChannelRuntimeMeta (normalizeChannelRuntimeMeta m) then ENone else EInvalidArgument
  | BDelete k => if validateKeyString (k_channel_id k) then ENone else EInvalidArgument
  | BAdvance _ _ => ENone
  end.

(* one staged op applied inside Commit's Build loop on the working view [w]
   (committed rows overlaid by the batch's earlier writes): error, new view,
   Created flag *)
Definition bop_apply (w : rm_store) (b : c15_bop) : db_err * rm_store * bool :=
  match b with
  | BUpsert hash_slot m =>
    let k := meta_key hash_slot m in
    let '(next, result) :=
      match store_get w k with
      | Some existing => resolveMonotonicChannelRuntimeMeta existing true m
      | None => resolveMonotonicChannelRuntimeMeta runtime_meta_zero false m
      end in
    if result =? MonotonicIgnoredStale then (ENone, w, false)
    else if result =? MonotonicConflict then (EConflict, w, false)
    else (ENone, store_put w k next, false)
  | BCreate hash_slot m =>
    let staged := normalizeChannelRuntimeMeta m in
    let k := meta_key hash_slot staged in
    match store_get w k with
    | Some _ => (ENone, w, false)
    | None => (ENone, store_put w k staged, true)
    end
  | BDelete k => (ENone, store_del w k, false)
  | BAdvance hash_slot req =>
    let '(e, w') := advance_retention w hash_slot req in (e, w', false)
  end.

(* Build loop: stops at the first error; returns the view and the Created flags so far *)
Fixpoint batch_build (w : rm_store) (ops : list c15_bop) : db_err * rm_store * list bool :=
  match ops with
  | [] => (ENone, w, [])
  | b :: r =>
    if negb (db_err_eqb (bop_stage_err b) ENone)
    then let '(e, w', cs) := batch_build w r in (e, w', false :: cs)   (* never staged *)
    else
      let '(e, w1, created) := bop_apply w b in
      if negb (db_err_eqb e ENone) then (e, w, map (fun _ => false) ops)
      else let '(e', w', cs) := batch_build w1 r in (e', w', created :: cs)
  end.

Definition write_batch (s : rm_store) (ops : list c15_bop) : c15_obs * rm_store :=
  let '(e, w, created) := batch_build s ops in
  let stage := map bop_stage_err ops in
  if db_err_eqb e ENone
  then (ObsBatch (combine stage created) ENone, w)
  else (ObsBatch (combine stage (map (fun _ => false) ops)) e, s).   (* nothing is written *)

Definition c15_step (s : rm_store) (op : c15_op) : c15_obs * rm_store :=
  match op with
  | OpUpsert hash_slot m => shard_upsert s hash_slot m
  | OpDelete k => shard_delete s k
  | OpAdvance hash_slot req => shard_advance s hash_slot req
  | OpBatch ops => write_batch s ops
  end.

(* GetChannelRuntimeMeta for every key of the alphabet *)
Definition snapshot (keys : list rm_key) (s : rm_store) : list (option runtime_meta) :=
  map (store_get s) keys.

(* the model's trace: after each op, what the API reported and what Get returns *)
Fixpoint c15_run (keys : list rm_key) (s : rm_store) (ops : list c15_op)
  : list (c15_op * c15_obs * list (option runtime_meta)) :=
  match ops with
  | [] => []
  | op :: r => let '(o, s') := c15_step s op in (op, o, snapshot keys s') :: c15_run keys s' r
  end.

(* the store after a history (used by the theorems over arbitrary histories) *)
Fixpoint c15_exec (s : rm_store) (ops : list c15_op) : rm_store :=
  match ops with
  | [] => s
  | op :: r => c15_exec (snd (c15_step s op)) r
  end.

(* ---- cases --------------------------------------------------------------------- *)

Inductive c15_case :=
(* one call of the exported resolveMonotonicChannelRuntimeMeta; observations:
   NormalizeChannelRuntimeMeta(existing), NormalizeChannelRuntimeMeta(candidate),
   the returned row and result, validateChannelRuntimeMeta(candidate) == nil *)
| C15Resolve (existing : runtime_meta) (exists_ : bool) (candidate : runtime_meta)
             (obs_existing_norm obs_candidate_norm obs_next : runtime_meta)
             (obs_result : N) (obs_valid : bool)
(* an op history on a fresh DB; per step the op, what the API reported, and
   GetChannelRuntimeMeta of every key in [keys] afterwards *)
| C15History (keys : list rm_key)
             (steps : list (c15_op * c15_obs * list (option runtime_meta))).

(* ---- comparing observations ---------------------------------------------------- *)

Definition obs_eqb (a b : c15_obs) : bool :=
  match a, b with
  | ObsUpsert r e, ObsUpsert r' e' => (r =? r') && db_err_eqb e e'
  | ObsErr e, ObsErr e' => db_err_eqb e e'
  | ObsBatch st e, ObsBatch st' e' =>
    list_eqb (fun x y => db_err_eqb (fst x) (fst y) && Bool.eqb (snd x) (snd y)) st st'
    && db_err_eqb e e'
  | _, _ => false
  end.

Definition snapshot_eqb : list (option runtime_meta) -> list (option runtime_meta) -> bool :=
  list_eqb (option_eqb runtime_meta_eqb).

(* walks the implementation's steps, running the model on the same ops *)
Fixpoint history_mismatch (keys : list rm_key) (s : rm_store)
         (steps : list (c15_op * c15_obs * list (option runtime_meta))) : bool :=
  match steps with
  | [] => false
  | (op, o, snap) :: r =>
    let '(o', s') := c15_step s op in
    negb (obs_eqb o' o && snapshot_eqb (snapshot keys s') snap) || history_mismatch keys s' r
  end.

Definition C15_mismatch (c : c15_case) : bool :=
  match c with
  | C15Resolve existing exists_ candidate en cn next result valid =>
    let '(next', result') := resolveMonotonicChannelRuntimeMeta existing exists_ candidate in
    negb (runtime_meta_eqb (normalizeChannelRuntimeMeta existing) en
          && runtime_meta_eqb (normalizeChannelRuntimeMeta candidate) cn
          && runtime_meta_eqb next' next && (result' =? result)
          && Bool.eqb (validateChannelRuntimeMeta candidate) valid)
  | C15History keys steps => history_mismatch keys [] steps
  end.

(* ---- the property on observations -------------------------------------------------

   Per resolve call (stored row = the normalized existing row):
     Applied on an existing row  => the returned row advances the stored one and
                                    the candidate was not regressing;
     IgnoredStale / Conflict     => the returned row is the stored row;
     any other result code       => violation.
   Per history step, for every key of the alphabet, with [a] the row before
   and [b] the row after:
     - unless the step deliberately deletes the key: a present row stays
       present and [runtime_meta_advances a b];
     - a rejected step (stale, conflict, any error, failed Commit) leaves every
       row unchanged;
     - an Applied direct upsert on an existing row carried a candidate that was
       not regressing (a regressing one must be reported stale or conflicting). *)

Definition bop_deletes (k : rm_key) (b : c15_bop) : bool :=
  match b with BDelete k' => rm_key_eqb k' k | _ => false end.

Definition op_deletes (op : c15_op) (k : rm_key) : bool :=
  match op with
  | OpDelete k' => rm_key_eqb k' k
  | OpBatch ops => existsb (bop_deletes k) ops
  | _ => false
  end.

Definition obs_rejected (o : c15_obs) : bool :=
  match o with
  | ObsUpsert r e => negb (r =? MonotonicApplied) || negb (db_err_eqb e ENone)
  | ObsErr e => negb (db_err_eqb e ENone)
  | ObsBatch _ e => negb (db_err_eqb e ENone)
  end.

Definition row_step_ok (deleted : bool) (a b : option runtime_meta) : bool :=
  if deleted then true else
  match a, b with
  | Some a, Some b => runtime_meta_advances a b
  | Some _, None => false
  | None, _ => true
  end.

Fixpoint rows_step_ok (op : c15_op) (keys : list rm_key) (prev snap : list (option runtime_meta)) : bool :=
  match keys, prev, snap with
  | [], [], [] => true
  | k :: keys', a :: prev', b :: snap' =>
    row_step_ok (op_deletes op k) a b && rows_step_ok op keys' prev' snap'
  | _, _, _ => false     (* malformed case: snapshot length differs from the alphabet *)
  end.

(* the stored row of key [k] in a snapshot *)
Fixpoint snapshot_get (keys : list rm_key) (snap : list (option runtime_meta)) (k : rm_key)
  : option runtime_meta :=
  match keys, snap with
  | k' :: keys', a :: snap' => if rm_key_eqb k' k then a else snapshot_get keys' snap' k
  | _, _ => None
  end.

Definition applied_upsert_ok (keys : list rm_key) (prev : list (option runtime_meta))
           (op : c15_op) (o : c15_obs) : bool :=
  match op, o with
  | OpUpsert hash_slot m, ObsUpsert r e =>
    if (r =? MonotonicApplied) && db_err_eqb e ENone then
      match snapshot_get keys prev (meta_key hash_slot m) with
      | Some stored => candidate_not_regressing stored m
      | None => true
      end
    else true
  | _, _ => true
  end.

Definition step_ok (keys : list rm_key) (prev : list (option runtime_meta))
           (st : c15_op * c15_obs * list (option runtime_meta)) : bool :=
  let '(op, o, snap) := st in
  rows_step_ok op keys prev snap
  && (negb (obs_rejected o) || snapshot_eqb prev snap)
  && applied_upsert_ok keys prev op o.

Fixpoint history_ok (keys : list rm_key) (prev : list (option runtime_meta))
         (steps : list (c15_op * c15_obs * list (option runtime_meta))) : bool :=
  match steps with
  | [] => true
  | st :: r => step_ok keys prev st && history_ok keys (snd st) r
  end.

Definition resolve_ok (exists_ : bool) (candidate stored next : runtime_meta) (result : N) : bool :=
  if negb exists_ then result =? MonotonicApplied
  else if result =? MonotonicApplied
  then runtime_meta_advances stored next && candidate_not_regressing stored candidate
  else if (result =? MonotonicIgnoredStale) || (result =? MonotonicConflict)
  then runtime_meta_eqb next stored
  else false.

Definition C15_monitor (c : c15_case) : N :=
  match c with
  | C15Resolve existing exists_ candidate en cn next result valid =>
    if resolve_ok exists_ candidate en next result then 0 else 1
  | C15History keys steps =>
    if history_ok keys (map (fun _ => None) keys) steps then 0 else 1
  end.
