(* Model/RuntimeMeta.v — channel runtime (routing) metadata rows of pkg/db/meta.

   Transcribes, one Gallina definition per Go function and with the same names,
   pkg/db/meta/table_runtime_meta.go:
     ChannelRuntimeMeta (record), normalizeUint64Set, maxUint64, containsUint64,
     normalizeChannelRuntimeMeta, validateKeyString, validateChannelRuntimeMeta,
     resolveMonotonicChannelRuntimeMeta, preserveRuntimeMetaState,
     bumpRuntimeRoute, runtimeRouteChanged, nextChannelRouteGeneration,
     the row-level core of AdvanceChannelRetentionThroughSeq,
     ChannelRuntimeMetaGuard.matches (batch.go), clearChannelRuntimeMetaFence
     and channelRuntimeMetaEqual (compat_channel_migration_helpers.go),
   plus a keyed row store (hash slot, channel id, channel type) and the
   "row only moves forward" relation [runtime_meta_advances] used by the
   monitors of C15 (and reusable by C17).

   Definitions only.  Numbers are [N] (uint64/uint8) and [Z] (int64); every Go
   addition that can overflow is written with its guard or with [wrap64].
   The enum values of MonotonicResult and maxKeyStringLen come from the
   compiled code (Gen/Consts_C15.v). *)
From WK Require Import Base.Base.
From WK Require Import Gen.Consts_C15.
Open Scope N_scope.

(* ---- the row ------------------------------------------------------------- *)

(* fields in the order of the Go struct *)
Record runtime_meta := RuntimeMeta {
  rm_channel_id : bytes;
  rm_channel_type : Z;
  rm_channel_epoch : N;
  rm_leader_epoch : N;
  rm_route_generation : N;
  rm_replicas : list N;
  rm_isr : list N;
  rm_leader : N;
  rm_min_isr : Z;
  rm_status : N;
  rm_features : N;
  rm_lease_until_ms : Z;
  rm_retention_through_seq : N;
  rm_retention_updated_at_ms : Z;
  rm_write_fence_token : bytes;
  rm_write_fence_version : N;
  rm_write_fence_reason : N;
  rm_write_fence_until_ms : Z;
  rm_directory_generation : N }.

(* the zero value ChannelRuntimeMeta{} *)
Definition runtime_meta_zero : runtime_meta :=
  RuntimeMeta [] 0%Z 0 0 0 [] [] 0 0%Z 0 0 0%Z 0 0%Z [] 0 0 0%Z 0.

(* field updates (Go: meta.X = v) *)
Definition set_route_generation (m : runtime_meta) (v : N) : runtime_meta :=
  RuntimeMeta (rm_channel_id m) (rm_channel_type m) (rm_channel_epoch m) (rm_leader_epoch m)
    v (rm_replicas m) (rm_isr m) (rm_leader m) (rm_min_isr m) (rm_status m) (rm_features m)
    (rm_lease_until_ms m) (rm_retention_through_seq m) (rm_retention_updated_at_ms m)
    (rm_write_fence_token m) (rm_write_fence_version m) (rm_write_fence_reason m)
    (rm_write_fence_until_ms m) (rm_directory_generation m).

Definition set_replicas_isr (m : runtime_meta) (r i : list N) : runtime_meta :=
  RuntimeMeta (rm_channel_id m) (rm_channel_type m) (rm_channel_epoch m) (rm_leader_epoch m)
    (rm_route_generation m) r i (rm_leader m) (rm_min_isr m) (rm_status m) (rm_features m)
    (rm_lease_until_ms m) (rm_retention_through_seq m) (rm_retention_updated_at_ms m)
    (rm_write_fence_token m) (rm_write_fence_version m) (rm_write_fence_reason m)
    (rm_write_fence_until_ms m) (rm_directory_generation m).

Definition set_lease_until_ms (m : runtime_meta) (v : Z) : runtime_meta :=
  RuntimeMeta (rm_channel_id m) (rm_channel_type m) (rm_channel_epoch m) (rm_leader_epoch m)
    (rm_route_generation m) (rm_replicas m) (rm_isr m) (rm_leader m) (rm_min_isr m) (rm_status m)
    (rm_features m) v (rm_retention_through_seq m) (rm_retention_updated_at_ms m)
    (rm_write_fence_token m) (rm_write_fence_version m) (rm_write_fence_reason m)
    (rm_write_fence_until_ms m) (rm_directory_generation m).

Definition set_retention (m : runtime_meta) (through : N) (updated_at : Z) : runtime_meta :=
  RuntimeMeta (rm_channel_id m) (rm_channel_type m) (rm_channel_epoch m) (rm_leader_epoch m)
    (rm_route_generation m) (rm_replicas m) (rm_isr m) (rm_leader m) (rm_min_isr m) (rm_status m)
    (rm_features m) (rm_lease_until_ms m) through updated_at
    (rm_write_fence_token m) (rm_write_fence_version m) (rm_write_fence_reason m)
    (rm_write_fence_until_ms m) (rm_directory_generation m).

Definition set_write_fence (m : runtime_meta) (token : bytes) (version reason : N) (until_ms : Z)
  : runtime_meta :=
  RuntimeMeta (rm_channel_id m) (rm_channel_type m) (rm_channel_epoch m) (rm_leader_epoch m)
    (rm_route_generation m) (rm_replicas m) (rm_isr m) (rm_leader m) (rm_min_isr m) (rm_status m)
    (rm_features m) (rm_lease_until_ms m) (rm_retention_through_seq m) (rm_retention_updated_at_ms m)
    token version reason until_ms (rm_directory_generation m).

Definition set_directory_generation (m : runtime_meta) (v : N) : runtime_meta :=
  RuntimeMeta (rm_channel_id m) (rm_channel_type m) (rm_channel_epoch m) (rm_leader_epoch m)
    (rm_route_generation m) (rm_replicas m) (rm_isr m) (rm_leader m) (rm_min_isr m) (rm_status m)
    (rm_features m) (rm_lease_until_ms m) (rm_retention_through_seq m) (rm_retention_updated_at_ms m)
    (rm_write_fence_token m) (rm_write_fence_version m) (rm_write_fence_reason m)
    (rm_write_fence_until_ms m) v.

(* ---- helpers ------------------------------------------------------------- *)

Definition nlist_eqb : list N -> list N -> bool := list_eqb N.eqb.   (* slices.Equal *)

(* full equality of rows (reflect.DeepEqual on normalized values; nil = empty) *)
Definition runtime_meta_eqb (a b : runtime_meta) : bool :=
  bytes_eqb (rm_channel_id a) (rm_channel_id b)
  && (rm_channel_type a =? rm_channel_type b)%Z
  && (rm_channel_epoch a =? rm_channel_epoch b)
  && (rm_leader_epoch a =? rm_leader_epoch b)
  && (rm_route_generation a =? rm_route_generation b)
  && nlist_eqb (rm_replicas a) (rm_replicas b)
  && nlist_eqb (rm_isr a) (rm_isr b)
  && (rm_leader a =? rm_leader b)
  && (rm_min_isr a =? rm_min_isr b)%Z
  && (rm_status a =? rm_status b)
  && (rm_features a =? rm_features b)
  && (rm_lease_until_ms a =? rm_lease_until_ms b)%Z
  && (rm_retention_through_seq a =? rm_retention_through_seq b)
  && (rm_retention_updated_at_ms a =? rm_retention_updated_at_ms b)%Z
  && bytes_eqb (rm_write_fence_token a) (rm_write_fence_token b)
  && (rm_write_fence_version a =? rm_write_fence_version b)
  && (rm_write_fence_reason a =? rm_write_fence_reason b)
  && (rm_write_fence_until_ms a =? rm_write_fence_until_ms b)%Z
  && (rm_directory_generation a =? rm_directory_generation b).

(* normalizeUint64Set: ascending sort, duplicates removed.  Insertion into a
   strictly ascending list keeps it strictly ascending. *)
Fixpoint insert_uniq (x : N) (l : list N) : list N :=
  match l with
  | [] => [x]
  | y :: r => if x <? y then x :: l
              else if x =? y then l
              else y :: insert_uniq x r
  end.
Definition normalizeUint64Set (values : list N) : list N := fold_right insert_uniq [] values.

Definition containsUint64 (values : list N) (target : N) : bool :=
  existsb (fun v => v =? target) values.

Definition maxUint64 (values : list N) : N := fold_left N.max values 0.

(* the person-channel type whose rows carry a directory generation (literal 1 in the code) *)
Definition personChannelType : Z := 1%Z.

(* ---- normalizeChannelRuntimeMeta ------------------------------------------ *)

Definition normalizeChannelRuntimeMeta (m : runtime_meta) : runtime_meta :=
  let m := set_replicas_isr m (normalizeUint64Set (rm_replicas m)) (normalizeUint64Set (rm_isr m)) in
  let m := if rm_route_generation m =? 0
           then set_route_generation m
                  (maxUint64 [rm_channel_epoch m; rm_leader_epoch m; rm_write_fence_version m; 1])
           else m in
  if (rm_channel_type m =? personChannelType)%Z && (rm_directory_generation m =? 0)
  then set_directory_generation m 1 else m.

(* ---- validateKeyString / validateChannelRuntimeMeta (true = nil error;
        the only error is ErrInvalidArgument) -------------------------------- *)

Definition validateKeyString (s : bytes) : bool :=
  match s with
  | [] => false
  | _ => N.of_nat (length s) <=? maxKeyStringLen
  end.

Definition validateChannelRuntimeMeta (m : runtime_meta) : bool :=
  if negb (validateKeyString (rm_channel_id m)) then false else
  let m := normalizeChannelRuntimeMeta m in
  match rm_replicas m with
  | [] => false
  | _ =>
    if (rm_min_isr m <=? 0)%Z || (Z.of_nat (length (rm_replicas m)) <? rm_min_isr m)%Z then false
    else if negb (forallb (fun member => containsUint64 (rm_replicas m) member) (rm_isr m)) then false
    else if negb (rm_leader m =? 0)
            && negb (containsUint64 (rm_replicas m) (rm_leader m) && containsUint64 (rm_isr m) (rm_leader m))
         then false
    else match rm_write_fence_token m with
         | [] => negb (negb (rm_write_fence_reason m =? 0) || negb (rm_write_fence_until_ms m =? 0)%Z)
         | _ => negb ((rm_write_fence_version m =? 0) || (rm_write_fence_reason m =? 0)
                      || (rm_write_fence_until_ms m <=? 0)%Z)
         end
  end.

(* ---- route generation ------------------------------------------------------ *)

Definition nextChannelRouteGeneration (current : N) : N :=
  if current =? u64max then current else current + 1.

(* the 14 fields whose change must advance the route generation *)
Definition runtimeRouteChanged (a b : runtime_meta) : bool :=
  negb (rm_channel_epoch a =? rm_channel_epoch b)
  || negb (rm_leader_epoch a =? rm_leader_epoch b)
  || negb (rm_leader a =? rm_leader b)
  || negb (nlist_eqb (rm_replicas a) (rm_replicas b))
  || negb (nlist_eqb (rm_isr a) (rm_isr b))
  || negb (rm_min_isr a =? rm_min_isr b)%Z
  || negb (rm_status a =? rm_status b)
  || negb (rm_lease_until_ms a =? rm_lease_until_ms b)%Z
  || negb (rm_retention_through_seq a =? rm_retention_through_seq b)
  || negb (rm_retention_updated_at_ms a =? rm_retention_updated_at_ms b)%Z
  || negb (bytes_eqb (rm_write_fence_token a) (rm_write_fence_token b))
  || negb (rm_write_fence_version a =? rm_write_fence_version b)
  || negb (rm_write_fence_reason a =? rm_write_fence_reason b)
  || negb (rm_write_fence_until_ms a =? rm_write_fence_until_ms b)%Z.

Definition bumpRuntimeRoute (existing candidate : runtime_meta) (candidateHadRouteGeneration : bool)
  : runtime_meta :=
  let candidate :=
    if negb candidateHadRouteGeneration && (rm_route_generation candidate <? rm_route_generation existing)
    then set_route_generation candidate (rm_route_generation existing) else candidate in
  if runtimeRouteChanged existing candidate
     && (rm_route_generation candidate <=? rm_route_generation existing)
  then set_route_generation candidate (nextChannelRouteGeneration (rm_route_generation existing))
  else candidate.

(* ---- preserveRuntimeMetaState (returns the updated candidate) ------------- *)

Definition preserveRuntimeMetaState (existing candidate : runtime_meta) : runtime_meta :=
  let candidate :=
    if rm_directory_generation candidate <? rm_directory_generation existing
    then set_directory_generation candidate (rm_directory_generation existing) else candidate in
  let candidate :=
    if (rm_retention_through_seq candidate <? rm_retention_through_seq existing)
       || ((rm_retention_through_seq candidate =? rm_retention_through_seq existing)
           && (rm_retention_updated_at_ms candidate <? rm_retention_updated_at_ms existing)%Z)
    then set_retention candidate (rm_retention_through_seq existing) (rm_retention_updated_at_ms existing)
    else candidate in
  if rm_write_fence_version candidate <=? rm_write_fence_version existing
  then set_write_fence candidate (rm_write_fence_token existing) (rm_write_fence_version existing)
         (rm_write_fence_reason existing) (rm_write_fence_until_ms existing)
  else candidate.

(* ---- resolveMonotonicChannelRuntimeMeta ------------------------------------ *)

Definition resolveMonotonicChannelRuntimeMeta (existing : runtime_meta) (exists_ : bool)
           (candidate : runtime_meta) : runtime_meta * N :=
  let candidateHadRouteGeneration := negb (rm_route_generation candidate =? 0) in
  let candidate := normalizeChannelRuntimeMeta candidate in
  if negb exists_ then (candidate, MonotonicApplied) else
  let existing := normalizeChannelRuntimeMeta existing in
  if candidateHadRouteGeneration && (rm_route_generation candidate <? rm_route_generation existing)
  then (existing, MonotonicIgnoredStale)
  else if rm_channel_epoch candidate <? rm_channel_epoch existing
  then (existing, MonotonicIgnoredStale)
  else if rm_channel_epoch existing <? rm_channel_epoch candidate
  then (bumpRuntimeRoute existing (preserveRuntimeMetaState existing candidate) candidateHadRouteGeneration,
        MonotonicApplied)
  else if rm_leader_epoch candidate <? rm_leader_epoch existing
  then (existing, MonotonicIgnoredStale)
  else if rm_leader_epoch existing <? rm_leader_epoch candidate
  then (bumpRuntimeRoute existing (preserveRuntimeMetaState existing candidate) candidateHadRouteGeneration,
        MonotonicApplied)
  else if negb (rm_leader candidate =? rm_leader existing)
  then (existing, MonotonicConflict)
  else
    let candidate :=
      if (rm_lease_until_ms candidate <? rm_lease_until_ms existing)%Z
      then set_lease_until_ms candidate (rm_lease_until_ms existing) else candidate in
    (bumpRuntimeRoute existing (preserveRuntimeMetaState existing candidate) candidateHadRouteGeneration,
     MonotonicApplied).

(* ---- AdvanceChannelRetentionThroughSeq, row-level core --------------------- *)

Record retention_advance := RetentionAdvance {
  ra_channel_id : bytes;
  ra_channel_type : Z;
  ra_expected_channel_epoch : N;
  ra_expected_leader_epoch : N;
  ra_expected_leader : N;
  ra_expected_lease_until_ms : Z;
  ra_retention_through_seq : N;
  ra_retention_updated_at_ms : Z }.

(* the observation fence of the request *)
Definition retentionAdvanceMatches (existing : runtime_meta) (req : retention_advance) : bool :=
  (rm_channel_epoch existing =? ra_expected_channel_epoch req)
  && (rm_leader_epoch existing =? ra_expected_leader_epoch req)
  && (rm_leader existing =? ra_expected_leader req)
  && (rm_lease_until_ms existing =? ra_expected_lease_until_ms req)%Z.

(* the row written when the request passes the fence and moves the boundary *)
Definition advanceRetentionRow (existing : runtime_meta) (req : retention_advance) : runtime_meta :=
  set_route_generation
    (set_retention existing (ra_retention_through_seq req) (ra_retention_updated_at_ms req))
    (nextChannelRouteGeneration (rm_route_generation existing)).

(* ---- guards and fence helpers shared with the migration commands (C17) ----- *)

Record runtime_meta_guard := RuntimeMetaGuard {
  g_channel_id : bytes;
  g_channel_type : Z;
  g_expected_channel_epoch : N;
  g_expected_leader_epoch : N;
  g_expected_leader : N;
  g_expected_route_generation : N;
  g_expected_write_fence_token : bytes;
  g_expected_write_fence_version : N }.

(* ChannelRuntimeMetaGuard.matches (batch.go) *)
Definition runtimeMetaGuardMatches (g : runtime_meta_guard) (m : runtime_meta) : bool :=
  (rm_channel_epoch m =? g_expected_channel_epoch g)
  && (rm_leader_epoch m =? g_expected_leader_epoch g)
  && (rm_leader m =? g_expected_leader g)
  && (rm_route_generation m =? g_expected_route_generation g)
  && bytes_eqb (rm_write_fence_token m) (g_expected_write_fence_token g)
  && (rm_write_fence_version m =? g_expected_write_fence_version g).

(* clearChannelRuntimeMetaFence / clearRuntimeFence: WriteFenceVersion++ wraps *)
Definition clearChannelRuntimeMetaFence (m : runtime_meta) : runtime_meta :=
  set_write_fence m [] (wrap64 (rm_write_fence_version m + 1)) 0 0%Z.

(* channelRuntimeMetaEqual *)
Definition channelRuntimeMetaEqual (a b : runtime_meta) : bool :=
  runtime_meta_eqb (normalizeChannelRuntimeMeta a) (normalizeChannelRuntimeMeta b).

(* ---- keyed row store --------------------------------------------------------
   one row per (hash slot, channel id, channel type); association list, first
   binding wins, [store_put] replaces in place or appends *)

Record rm_key := RmKey { k_hash_slot : N; k_channel_id : bytes; k_channel_type : Z }.

Definition rm_key_eqb (a b : rm_key) : bool :=
  (k_hash_slot a =? k_hash_slot b) && bytes_eqb (k_channel_id a) (k_channel_id b)
  && (k_channel_type a =? k_channel_type b)%Z.

Definition rm_store := list (rm_key * runtime_meta).

Fixpoint store_get (s : rm_store) (k : rm_key) : option runtime_meta :=
  match s with
  | [] => None
  | (k', m) :: r => if rm_key_eqb k' k then Some m else store_get r k
  end.

Fixpoint store_put (s : rm_store) (k : rm_key) (m : runtime_meta) : rm_store :=
  match s with
  | [] => [(k, m)]
  | (k', m') :: r => if rm_key_eqb k' k then (k', m) :: r else (k', m') :: store_put r k m
  end.

Fixpoint store_del (s : rm_store) (k : rm_key) : rm_store :=
  match s with
  | [] => []
  | (k', m') :: r => if rm_key_eqb k' k then store_del r k else (k', m') :: store_del r k
  end.

Definition meta_key (hash_slot : N) (m : runtime_meta) : rm_key :=
  RmKey hash_slot (rm_channel_id m) (rm_channel_type m).

(* ---- "the stored row only moves forward" ------------------------------------
   [runtime_meta_advances a b]: row [a] was replaced by row [b] (same key, no
   delete in between) without regressing:
     - (ChannelEpoch, LeaderEpoch) lexicographically non-decreasing,
     - unchanged epochs => same leader and the lease not shortened,
     - retention boundary, write-fence version, route generation non-decreasing,
     - a change of any of the 14 route fields strictly increases the route
       generation, except at the saturation point 2^64-1 of
       nextChannelRouteGeneration. *)

Definition epochs_lex_le (a b : runtime_meta) : bool :=
  (rm_channel_epoch a <? rm_channel_epoch b)
  || ((rm_channel_epoch a =? rm_channel_epoch b) && (rm_leader_epoch a <=? rm_leader_epoch b)).

Definition same_epochs (a b : runtime_meta) : bool :=
  (rm_channel_epoch a =? rm_channel_epoch b) && (rm_leader_epoch a =? rm_leader_epoch b).

Definition route_generation_advances (a b : runtime_meta) : bool :=
  (rm_route_generation a <=? rm_route_generation b)
  && (negb (runtimeRouteChanged a b)
      || (rm_route_generation a <? rm_route_generation b)
      || (rm_route_generation a =? u64max)).

Definition runtime_meta_advances (a b : runtime_meta) : bool :=
  epochs_lex_le a b
  && (negb (same_epochs a b)
      || ((rm_leader a =? rm_leader b) && (rm_lease_until_ms a <=? rm_lease_until_ms b)%Z))
  && (rm_retention_through_seq a <=? rm_retention_through_seq b)
  && (rm_write_fence_version a <=? rm_write_fence_version b)
  && route_generation_advances a b.

(* a candidate that an accepted same-row upsert may carry: not older than the
   stored row, and no leader switch inside unchanged epochs *)
Definition candidate_not_regressing (stored candidate : runtime_meta) : bool :=
  epochs_lex_le stored candidate
  && (negb (same_epochs stored candidate) || (rm_leader stored =? rm_leader candidate)).
