(* Model/Identity_sha256.v — executable SHA-256 (FIPS 180-4) over byte lists.
   Used ONLY to instantiate the abstract hash [H] of Model/Identity.v when the
   model is evaluated on harness cases (sha256 (model pre-image) must equal the
   digest the Go code computed with crypto/sha256).  No theorem depends on it:
   the theorems of C05 are stated for an arbitrary [H]. *)
From WK Require Import Base.Base Base.Bytes.
Open Scope N_scope.

Definition m32 : N := 4294967295.
Definition w32 (x : N) : N := N.land x m32.
Definition rotr (x n : N) : N := w32 (N.lor (N.shiftr x n) (N.shiftl x (32 - n))).
Definition add32 (a b : N) : N := w32 (a + b).

Definition sha_K : list N := [
  1116352408; 1899447441; 3049323471; 3921009573; 961987163; 1508970993; 2453635748; 2870763221;
  3624381080; 310598401; 607225278; 1426881987; 1925078388; 2162078206; 2614888103; 3248222580;
  3835390401; 4022224774; 264347078; 604807628; 770255983; 1249150122; 1555081692; 1996064986;
  2554220882; 2821834349; 2952996808; 3210313671; 3336571891; 3584528711; 113926993; 338241895;
  666307205; 773529912; 1294757372; 1396182291; 1695183700; 1986661051; 2177026350; 2456956037;
  2730485921; 2820302411; 3259730800; 3345764771; 3516065817; 3600352804; 4094571909; 275423344;
  430227734; 506948616; 659060556; 883997877; 958139571; 1322822218; 1537002063; 1747873779;
  1955562222; 2024104815; 2227730452; 2361852424; 2428436474; 2756734187; 3204031479; 3329325298].

Definition sha_H0 : list N :=
  [1779033703; 3144134277; 1013904242; 2773480762; 1359893119; 2600822924; 528734635; 1541459225].

Definition ssig0 (x : N) : N := N.lxor (N.lxor (rotr x 7) (rotr x 18)) (N.shiftr x 3).
Definition ssig1 (x : N) : N := N.lxor (N.lxor (rotr x 17) (rotr x 19)) (N.shiftr x 10).
Definition bsig0 (x : N) : N := N.lxor (N.lxor (rotr x 2) (rotr x 13)) (rotr x 22).
Definition bsig1 (x : N) : N := N.lxor (N.lxor (rotr x 6) (rotr x 11)) (rotr x 25).
Definition ch (x y z : N) : N := N.lxor (N.land x y) (N.land (N.lxor x m32) z).
Definition maj (x y z : N) : N := N.lxor (N.lxor (N.land x y) (N.land x z)) (N.land y z).

(* message schedule; [ws] holds the words newest first *)
Fixpoint schedule (k : nat) (ws : list N) : list N :=
  match k with
  | O => ws
  | S k' =>
    let w := add32 (add32 (ssig1 (nth 1 ws 0)) (nth 6 ws 0))
                   (add32 (ssig0 (nth 14 ws 0)) (nth 15 ws 0)) in
    schedule k' (w :: ws)
  end.

(* 16 big-endian words of a 64-byte block, newest (last) first *)
Fixpoint words_rev (n : nat) (blk : bytes) (acc : list N) : list N :=
  match n with
  | O => acc
  | S n' => words_rev n' (skipn 4 blk) (be_get (firstn 4 blk) :: acc)
  end.

Record sha_st := ShaSt { sa : N; sb : N; sc : N; sd : N; se : N; sf : N; sg : N; sh : N }.

Definition sha_round (s : sha_st) (kw : N * N) : sha_st :=
  let t1 := add32 (add32 (add32 (sh s) (bsig1 (se s))) (add32 (ch (se s) (sf s) (sg s)) (fst kw))) (snd kw) in
  let t2 := add32 (bsig0 (sa s)) (maj (sa s) (sb s) (sc s)) in
  ShaSt (add32 t1 t2) (sa s) (sb s) (sc s) (add32 (sd s) t1) (se s) (sf s) (sg s).

Definition sha_block (s : sha_st) (blk : bytes) : sha_st :=
  let ws := rev (schedule 48 (words_rev 16 blk [])) in
  let r := fold_left sha_round (combine sha_K ws) s in
  ShaSt (add32 (sa s) (sa r)) (add32 (sb s) (sb r)) (add32 (sc s) (sc r)) (add32 (sd s) (sd r))
        (add32 (se s) (se r)) (add32 (sf s) (sf r)) (add32 (sg s) (sg r)) (add32 (sh s) (sh r)).

Fixpoint sha_blocks (fuel : nat) (s : sha_st) (bs : bytes) : sha_st :=
  match fuel with
  | O => s
  | S f => match bs with
           | [] => s
           | _ => sha_blocks f (sha_block s (firstn 64 bs)) (skipn 64 bs)
           end
  end.

Definition sha_pad (msg : bytes) : bytes :=
  let l := length msg in
  let z := ((64 - ((l + 9) mod 64)) mod 64)%nat in
  msg ++ [128] ++ repeat 0 z ++ put_u64 (8 * N.of_nat l).

Definition sha256 (msg : bytes) : bytes :=
  let p := sha_pad msg in
  let s0 := ShaSt 1779033703 3144134277 1013904242 2773480762 1359893119 2600822924 528734635 1541459225 in
  let s := sha_blocks (S (length p / 64)) s0 p in
  put_u32 (sa s) ++ put_u32 (sb s) ++ put_u32 (sc s) ++ put_u32 (sd s)
  ++ put_u32 (se s) ++ put_u32 (sf s) ++ put_u32 (sg s) ++ put_u32 (sh s).
