(* Model/QuorumLog.v — the durable quorum log owner of
   pkg/channel/replication: quorum_log.go (Install, Commit, finishCommit,
   remember, reconcileCommandConflict, sealBusinessProposal), quorum_round.go
   (runDurableRound), recovery_owner.go (recoverQuorumPrefix), recovery.go
   (quorumFrontier, quorumIdentityAt, ...), recovery_repair.go
   (repairQuorumPrefix), recovery_barrier.go (writeCurrentTermBarrier), and the
   follower side of exchange_server.go as far as one synchronous request needs it.

   Definitions only.  The network is the deterministic dispatcher of the harness
   (harness/export/quorumlog_verif.go): every submission completes synchronously,
   in submission order; a voter that is down or in the Drop set of the running
   call never receives the request (completion Unknown / error), a voter in the
   Lose set applies the request but its response is lost (Unknown).  Hedge
   timers, peer batching, context cancellation and the recovery continuation
   token (never passed by Install) are not represented. *)
From WK Require Import Base.Base.
From WK Require Import Gen.Consts_QuorumLog Model.ReplicaLog.
Open Scope N_scope.

(* ---- authorities -------------------------------------------------------------------- *)

Definition authid := (N * N * N)%type.     (* ChannelEpoch, LeaderTerm, FenceVersion *)
Definition aid_e (a : authid) : N := fst (fst a).
Definition aid_t (a : authid) : N := snd (fst a).
Definition aid_f (a : authid) : N := snd a.
Definition authid_zero : authid := (0, 0, 0).
Definition authid_eqb (a b : authid) : bool :=
  (aid_e a =? aid_e b) && (aid_t a =? aid_t b) && (aid_f a =? aid_f b).

(* compareAuthorityID *)
Definition compareAuthorityID (l r : authid) : comparison :=
  match aid_e l ?= aid_e r with
  | Lt => Lt | Gt => Gt
  | Eq => match aid_t l ?= aid_t r with
          | Lt => Lt | Gt => Gt
          | Eq => aid_f l ?= aid_f r
          end
  end.

(* Authority (api.go); Key and ChannelID are fixed; WriteFence is Set() or zero *)
Record authority := Auth {
  a_id : authid; a_leader : N; a_voters : list N; a_q : N; a_wf : bool }.

Definition listN_eqb : list N -> list N -> bool := list_eqb N.eqb.

(* sameAuthority *)
Definition sameAuthority (l r : authority) : bool :=
  authid_eqb (a_id l) (a_id r) && (a_leader l =? a_leader r) && (a_q l =? a_q r) &&
  Bool.eqb (a_wf l) (a_wf r) && listN_eqb (a_voters l) (a_voters r).

(* validateRecoveryTopology *)
Definition validateRecoveryTopology (voters : list N) (q : N) : bool :=
  negb (lenN voters =? 0) && (lenN voters <=? maxRecoveryProbeVoters) && (0 <? q) && (q <=? lenN voters) &&
  (lenN voters <? q * 2) && forallb (fun v => negb (v =? 0)) voters && nodupN voters.

(* validAuthority (recovery_barrier.go) *)
Definition validAuthority (a : authority) : bool :=
  negb (aid_e (a_id a) =? 0) && negb (aid_t (a_id a) =? 0) && negb (aid_f (a_id a) =? 0) &&
  negb (a_leader a =? 0) && validateRecoveryTopology (a_voters a) (a_q a) &&
  existsb (N.eqb (a_leader a)) (a_voters a).

(* frontierUsesAuthority *)
Definition frontierUsesAuthority (s : rstate) (a : authid) : bool :=
  (0 <? rs_leo s) && (m_e (rs_manifest s) =? aid_e a) && (m_t (rs_manifest s) =? aid_t a) &&
  (m_f (rs_manifest s) =? aid_f a).

(* ---- the network of the harness -------------------------------------------------------- *)

(* fl_lose / fl_drop: responses lost / requests never delivered, for the whole call; fl_rb: crash point
   between recovery pages; fl_pdrop: voters whose IDENTITY-PAGE probe replies (probe rounds with a non-empty
   index list) are lost although they answered the frontier round *)
Record faults := Flt { fl_lose : list N; fl_drop : list N; fl_rb : option N; fl_pdrop : list N }.
Definition no_faults : faults := Flt [] [] None [].

Record net := Net {
  nt_kind : store_kind;
  nt_reps : list (N * replica);       (* voter -> durable replica *)
  nt_down : list N;                   (* crashed / partitioned nodes *)
  nt_flt : faults;                    (* fault plan of the running call *)
  nt_replaced : N }.                  (* recovery pages replaced by the running call *)

Definition memN (x : N) (l : list N) : bool := existsb (N.eqb x) l.

Fixpoint get_rep (l : list (N * replica)) (v : N) : replica :=
  match l with
  | [] => replica_empty
  | (v', r) :: rest => if v =? v' then r else get_rep rest v
  end.
Fixpoint put_rep (l : list (N * replica)) (v : N) (r : replica) : list (N * replica) :=
  match l with
  | [] => [(v, r)]
  | (v', r') :: rest => if v =? v' then (v, r) :: rest else (v', r') :: put_rep rest v r
  end.
Definition net_rep (n : net) (v : N) : replica := get_rep (nt_reps n) v.
Definition net_set (n : net) (v : N) (r : replica) : net :=
  Net (nt_kind n) (put_rep (nt_reps n) v r) (nt_down n) (nt_flt n) (nt_replaced n).
Definition net_known (n : net) (v : N) : bool := existsb (fun p => fst p =? v) (nt_reps n).

(* verifDispatcher.unreachable *)
Definition unreachable (n : net) (local v : N) : bool :=
  negb (v =? local) && (memN v (nt_down n) || memN v (fl_drop (nt_flt n))).

(* ---- one durability round (quorum_round.go) ---------------------------------------------- *)

(* durableProposal *)
Record dproposal := DProp {
  dp_first : N; dp_last : N; dp_leader : N; dp_manifest : manifest; dp_records : list record;
  dp_committed : N; dp_sa : bool }.

Definition dp_mutation (p : dproposal) : mutation :=
  Mutation (dp_manifest p) (dp_records p) (dp_committed p) (dp_sa p).

(* ReplicateRequest.Valid, for the requests a round can build *)
Definition replicate_request_valid (leader follower : N) (p : dproposal) : bool :=
  negb (leader =? 0) && negb (follower =? 0) && negb (leader =? follower) &&
  ValidFor (dp_manifest p) (m_base (dp_manifest p)) (lenN (dp_records p)) &&
  (dp_committed p <=? m_last (dp_manifest p)) &&
  match DeriveProposalEntries (dp_manifest p) (dp_records p) with
  | Some es => digest_eqb (i_dg (last_ident es)) (m_dg (dp_manifest p))
  | None => false
  end.

(* verifDispatcher.submitLocal = runtimeLocalDurability.runBatch for one item *)
Definition submitLocal (n : net) (local : N) (p : dproposal) : net * outcome :=
  if memN local (fl_drop (nt_flt n)) then (n, ONotWritten)
  else let '(rp, o, _) := sync (nt_kind n) (net_rep n local) (dp_mutation p) in
       let n' := net_set n local rp in
       if memN local (fl_lose (nt_flt n)) then (n', OUnknown) else (n', o).

(* verifDispatcher.replicate: ExchangeServer.Handle + mapMutationResult + the
   completion mapping of batchingDurabilityDispatcher.  A NeedFrom answer becomes
   DefinitelyNotWritten (with repair evidence), every transport problem Unknown. *)
Definition submitReplica (n : net) (local follower : N) (p : dproposal) : net * outcome :=
  if unreachable n local follower then (n, OUnknown)
  else if negb (net_known n follower) || negb (replicate_request_valid (dp_leader p) follower p) then (n, OUnknown)
  else let '(rp, o, nf) := sync (nt_kind n) (net_rep n follower) (dp_mutation p) in
       let n' := net_set n follower rp in
       if memN follower (fl_lose (nt_flt n)) then (n', OUnknown)
       else match o with
            | OConflict => if 0 <? nf then (n', ONotWritten) else (n', OConflict)
            | _ => (n', o)
            end.

(* durableRoundResult *)
Record roundres := RoundRes { rr_local : bool; rr_votes : N; rr_outcome : outcome; rr_ok : bool }.

Fixpoint rotate {A} (l : list A) (k : nat) : list A :=
  match k, l with
  | S k', x :: r => rotate (r ++ [x]) k'
  | _, _ => l
  end.

(* the follower order of runDurableRound: voters without the local node, rotated
   by preferredFollowerIndex(channelKey, len(followers)) when there are at least two *)
Definition round_followers (voters : list N) (local rot : N) : list N :=
  let fs := filter (fun v => negb (v =? local)) voters in
  if 1 <? lenN fs then rotate fs (N.to_nat (rot mod lenN fs)) else fs.

Fixpoint submit_all (n : net) (local : N) (p : dproposal) (vs : list N) (q : list (bool * outcome))
  : net * list (bool * outcome) :=
  match vs with
  | [] => (n, q)
  | v :: rest => let '(n', o) := submitReplica n local v p in
                 submit_all n' local p rest (q ++ [(false, o)])
  end.

(* the result loop; [queue] = completions not yet consumed, [next] = followers not yet
   submitted.  Fuel: every voter is submitted at most once. *)
Fixpoint round_loop (fuel : nat) (n : net) (local wq : N) (p : dproposal)
         (queue : list (bool * outcome)) (next : list N)
         (localDurable : bool) (votes : N) (out : outcome) (conflict localFailed : bool)
  : net * roundres :=
  match fuel with
  | O => (n, RoundRes localDurable votes OUnknown false)
  | S fuel' =>
    match queue with
    | [] =>
        let out' := match out with
                    | OUnknown => OUnknown
                    | _ => if conflict then OConflict else out
                    end in
        (n, RoundRes localDurable votes out' false)
    | (isLocal, o) :: queue' =>
        let durable := outcome_durable o in
        let votes' := if durable then votes + 1 else votes in
        let localDurable' := localDurable || (durable && isLocal) in
        let out' := if durable then OUnknown
                    else match o with OUnknown => OUnknown | _ => out end in
        let conflict' := conflict || (match o with OConflict => true | _ => false end) in
        if localDurable' && (wq <=? votes') then
          (* submitRemainingDeferred: trailing followers still get the proposal *)
          let '(n', _) := submit_all n local p next [] in
          (n', RoundRes localDurable' votes' ODurable true)
        else if isLocal && negb durable then
          let '(n', queue'') := submit_all n local p next queue' in
          round_loop fuel' n' local wq p queue'' [] localDurable' votes' out' conflict' true
        else if negb localFailed && negb isLocal && negb durable then
          match next with
          | v :: next' =>
              let '(n', o') := submitReplica n local v p in
              round_loop fuel' n' local wq p (queue' ++ [(false, o')]) next' localDurable' votes' out' conflict' localFailed
          | [] => round_loop fuel' n local wq p queue' next localDurable' votes' out' conflict' localFailed
          end
        else round_loop fuel' n local wq p queue' next localDurable' votes' out' conflict' localFailed
    end
  end.

(* runDurableRound.  rr_ok = false stands for errDurableQuorumUnavailable; the
   ErrInvalidConfig exits are excluded by validAuthority on every installed authority. *)
Definition runDurableRound (n : net) (local : N) (voters : list N) (wq rot : N) (p : dproposal)
  : net * roundres :=
  let fs := round_followers voters local rot in
  let '(n1, o1) := submitLocal n local p in
  let firstk := firstn (N.to_nat (wq - 1)) fs in
  let rest := skipn (N.to_nat (wq - 1)) fs in
  let '(n2, queue) := submit_all n1 local p firstk [(true, o1)] in
  round_loop (S (S (length voters))) n2 local wq p queue rest false 0 ONotWritten false false.

(* ---- recovery: the quorum-identical prefix (recovery_owner.go, recovery.go) ----------------- *)

(* one probe: local store through mapProbeResult, remote voter through
   ExchangeServer.Handle + validPeerProbeResult.  None = the completion carries an error *)
Definition submitRecoveryProbe (n : net) (local v : N) (indexes : list N) : option (rstate * list probe) :=
  if unreachable n local v then None
  else if negb (v =? local) && negb (lenN indexes =? 0) && memN v (fl_pdrop (nt_flt n)) then None
  else if negb (net_known n v) then None
  else load (nt_kind n) (net_rep n v) indexes.

(* validRecoveryProbeResult, the part not already enforced by [load] *)
Definition validRecoveryProbeResult (r : rstate * list probe) : bool :=
  let '(s, es) := r in
  validReplicaState s && (lenN es <=? maxRecoveryProbeIndexes) &&
  forallb (fun p => negb (pb_idx p =? 0) &&
                    (if pb_idx p <=? rs_leo s then pb_present p else negb (pb_present p)) &&
                    (if pb_present p && (pb_idx p =? rs_leo s) then ident_eqb (pb_ident p) (rs_tail s) else true)) es &&
  nodupN (map pb_idx es) && validProbeEntryChain es.

(* collectRecoveryProbeRound: inl ErrLogConflict | inr reports (in voter order) *)
Fixpoint collectRecoveryProbeRound (n : net) (local : N) (voters : list N) (indexes : list N)
  : N + list (N * (rstate * list probe)) :=
  match voters with
  | [] => inr []
  | v :: rest =>
      match submitRecoveryProbe n local v indexes with
      | None => collectRecoveryProbeRound n local rest indexes
      | Some r =>
          if validRecoveryProbeResult r && listN_eqb (map pb_idx (snd r)) indexes
          then match collectRecoveryProbeRound n local rest indexes with
               | inr l => inr ((v, r) :: l)
               | inl e => inl e
               end
          else inl EConflict
      end
  end.

(* insertion sort, descending *)
Fixpoint insert_desc (x : N) (l : list N) : list N :=
  match l with
  | [] => [x]
  | y :: r => if y <=? x then x :: l else y :: insert_desc x r
  end.
Definition sort_desc (l : list N) : list N := fold_right insert_desc [] l.

(* quorumFrontier: the quorum-th largest value *)
Definition quorumFrontier (values : list N) (q : N) : N :=
  nth (N.to_nat (q - 1)) (sort_desc values) 0.

Definition report := (N * (rstate * list probe))%type.
Definition rep_state (r : report) : rstate := fst (snd r).
Definition rep_entry (r : report) (position : nat) : probe :=
  nth position (snd (snd r)) (Probe 0 false ident_zero).

(* quorumIdentityAt / quorumCommittedIdentityAt: the first identity that reaches the quorum *)
Fixpoint count_ident (i : ident) (l : list ident) : N :=
  match l with
  | [] => 0
  | x :: r => (if ident_eqb x i then 1 else 0) + count_ident i r
  end.
Fixpoint first_quorum (seen : list ident) (rest : list ident) (q : N) : option ident :=
  match rest with
  | [] => None
  | x :: r => if q <=? count_ident x (x :: seen) then Some x else first_quorum (x :: seen) r q
  end.
Definition quorumIdentityAt (reports : list report) (position : nat) (index q : N) : option ident :=
  first_quorum [] (map (fun r => pb_ident (rep_entry r position))
     (filter (fun r => let e := rep_entry r position in (pb_idx e =? index) && pb_present e) reports)) q.
Definition quorumCommittedIdentityAt (reports : list report) (position : nat) (index q : N) : option ident :=
  quorumIdentityAt (filter (fun r => index <=? rs_committed (rep_state r)) reports) position index q.

(* recoverySelection (without the continuation) *)
Record selection := Sel {
  sl_index : N; sl_ident : ident; sl_cc : N; sl_cident : ident; sl_supporters : list (N * rstate) }.

(* recoverySupportersFor *)
Definition recoverySupportersFor (reports : list report) (position : nat) (i : ident) : list (N * rstate) :=
  map (fun r => (fst r, rep_state r))
      (filter (fun r => let e := rep_entry r position in pb_present e && ident_eqb (pb_ident e) i) reports).

Fixpoint seqN (first : N) (count : nat) : list N :=
  match count with
  | O => []
  | S c => first :: seqN (first + 1) c
  end.

(* the position loop of one page *)
Fixpoint page_positions (reports : list report) (q : N) (indexes : list N) (position : nat)
         (sel : selection) : N + (selection * bool) :=   (* bool: stopped before the page end *)
  match indexes with
  | [] => inr (sel, false)
  | index :: rest =>
      match quorumIdentityAt reports position index q with
      | None => inr (sel, true)
      | Some i =>
          let chain_ok :=
            if sl_index sel =? 0
            then (index =? 1) && (i_pidx i =? 0) && (i_pt i =? 0) && digest_is_zero (i_pd i)
            else (i_pidx i =? i_idx (sl_ident sel)) && (i_pt i =? i_t (sl_ident sel)) &&
                 digest_eqb (i_pd i) (i_dg (sl_ident sel)) in
          if negb chain_ok then inl EConflict
          else page_positions reports q rest (S position)
                 (Sel index i (sl_cc sel) (sl_cident sel) (recoverySupportersFor reports position i))
      end
  end.

(* the page loop of recoverQuorumPrefix *)
Fixpoint recover_pages (fuel : nat) (n : net) (local : N) (voters : list N) (q cc qleo : N)
         (stable : list (N * rstate)) (pageStart : N) (sel : selection) : N + selection :=
  match fuel with
  | O => inl EOther
  | S fuel' =>
    let pageSize := N.min (qleo - pageStart + 1) maxRecoveryProbeIndexes in
    let indexes := seqN pageStart (N.to_nat pageSize) in
    let stableVoters := filter (fun v => existsb (fun s => fst s =? v) stable) voters in
    match collectRecoveryProbeRound n local stableVoters indexes with
    | inl e => inl e
    | inr pageReports =>
      let stable' := filter (fun s => existsb (fun r => (fst r =? fst s) && rstate_eqb (rep_state r) (snd s)) pageReports) stable in
      if lenN stable' <? q then inl EProbeIncomplete
      else
      let stableReports := filter (fun r => existsb (fun s => fst s =? fst r) stable') pageReports in
      if negb (quorumFrontier (map (fun r => rs_committed (rep_state r)) stableReports) q =? cc) ||
         negb (quorumFrontier (map (fun r => rs_leo (rep_state r)) stableReports) q =? qleo)
      then inl EProbeIncomplete
      else
      let start :=
        if (pageStart =? cc) && (0 <? cc) then
          match quorumCommittedIdentityAt stableReports 0 cc q with
          | None => inl EConflict
          | Some i => inr (Sel cc i cc i (recoverySupportersFor stableReports 0 i), 1%nat)
          end
        else inr (sel, 0%nat) in
      match start with
      | inl e => inl e
      | inr (sel1, position) =>
        match page_positions stableReports q (skipn position indexes) position sel1 with
        | inl e => inl e
        | inr (sel2, true) => inr sel2
        | inr (sel2, false) =>
            let pageEnd := pageStart + pageSize - 1 in
            if pageEnd =? qleo then inr sel2
            else
              let stable'' := recoverySupportersFor stableReports (N.to_nat pageSize - 1) (sl_ident sel2) in
              if lenN stable'' <? q then inl EProbeIncomplete
              else recover_pages fuel' n local voters q cc qleo stable'' (pageEnd + 1) sel2
        end
      end
    end
  end.

(* recoverQuorumPrefix *)
Definition recoverQuorumPrefix (n : net) (local : N) (voters : list N) (q : N) : N + selection :=
  match collectRecoveryProbeRound n local voters [] with
  | inl e => inl e
  | inr frontier =>
    if lenN frontier <? q then inl ERecoveryQuorum
    else
    let cc := quorumFrontier (map (fun r => rs_committed (rep_state r)) frontier) q in
    let qleo := quorumFrontier (map (fun r => rs_leo (rep_state r)) frontier) q in
    if qleo <? cc then inl EConflict
    else if qleo =? 0 then inr (Sel 0 ident_zero cc ident_zero [])
    else
    let firstIndex := if cc =? 0 then 1 else cc in
    recover_pages (S (N.to_nat (qleo / maxRecoveryProbeIndexes))) n local voters q cc qleo
                  (map (fun r => (fst r, rep_state r)) frontier) firstIndex
                  (Sel 0 ident_zero cc ident_zero [])
  end.

(* ---- recovery: local suffix repair (recovery_repair.go) ------------------------------------- *)

(* validRecoveryRepairSelection *)
Definition validRecoveryRepairSelection (s : selection) (voters : list N) (q : N) : bool :=
  if sl_index s <? sl_cc s then false
  else if sl_index s =? 0
  then ident_is_zero (sl_ident s) && (sl_cc s =? 0) && ident_is_zero (sl_cident s) && (lenN (sl_supporters s) =? 0)
  else
    validEntryIdentity (sl_ident s) && (i_idx (sl_ident s) =? sl_index s) && (q <=? lenN (sl_supporters s)) &&
    (if sl_cc s =? 0 then ident_is_zero (sl_cident s)
     else validEntryIdentity (sl_cident s) && (i_idx (sl_cident s) =? sl_cc s)) &&
    forallb (fun p => memN (fst p) voters && validReplicaState (snd p) && (sl_index s <=? rs_leo (snd p)))
            (sl_supporters s) &&
    nodupN (map fst (sl_supporters s)).

(* loadRecoveryReplicaState *)
Definition loadRecoveryReplicaState (n : net) (local : N) (indexes : list N) : N + (rstate * list probe) :=
  match load (nt_kind n) (net_rep n local) indexes with
  | None => inl EConflict
  | Some (s, es) =>
      if validReplicaState s && listN_eqb (map pb_idx es) indexes then inr (s, es) else inl EConflict
  end.

(* one donor: verifDispatcher.submitRecoveryFetch followed by validPeerFetchResult *)
Definition fetch_from (n : net) (local donor : N) (q : fetchreq) : N + list rproposal :=
  let valid_page (r : rstate * list rproposal) :=
      rstate_eqb (fst r) (fq_expected q) &&
      validRecoveryProposals (fq_from q) (fq_through q) (fq_previous q) (fq_maxbytes q) (snd r) in
  if donor =? local then
    match fetch (nt_kind n) (net_rep n local) q with
    | inl e => inl e
    | inr r => if valid_page r then inr (snd r) else inl EExchange
    end
  else if unreachable n local donor then inl EInjected
  else if negb (net_known n donor) then inl EInjected
  else
    (* FetchRequest.Valid is implied by the checks of [fetch] *)
    match fetch (nt_kind n) (net_rep n donor) q with
    | inl e => if e =? EInvalid then inl EInvalid else inl EExchange
    | inr r => if valid_page r then inr (snd r) else inl EExchange
    end.

(* fetchRecoveryPage: the first supporter that returns a valid page *)
Fixpoint fetchRecoveryPage (n : net) (local : N) (supporters : list (N * rstate))
         (from through : N) (previous : ident) (maxBytes : N) (lastErr : option N) : N + list rproposal :=
  match supporters with
  | [] => match lastErr with Some e => inl e | None => inl ERecoveryQuorum end
  | (donor, st) :: rest =>
      match fetch_from n local donor (FetchReq st from through previous maxBytes) with
      | inr ps => inr ps
      | inl e => fetchRecoveryPage n local rest from through previous maxBytes (Some e)
      end
  end.

(* recoveryProposalIdentityAt *)
Fixpoint recoveryProposalIdentityAt (ps : list rproposal) (index : N) : option ident :=
  match ps with
  | [] => None
  | (m, recs) :: rest =>
      if (index <=? m_base m) || (m_last m <? index) then recoveryProposalIdentityAt rest index
      else match SealProposalManifest m recs with
           | Some (_, es) => nth_error es (N.to_nat (index - m_base m - 1))
           | None => None
           end
  end.

(* verifLocalStore.Replace + storeAdapter.Replace *)
Definition local_replace (n : net) (local : N) (q : replacement) : net * (N + N) :=
  match fl_rb (nt_flt n) with
  | Some b => if b <=? nt_replaced n then (n, inl EInjected)
              else match replace (nt_kind n) (net_rep n local) q with
                   | inl e => (Net (nt_kind n) (nt_reps n) (nt_down n) (nt_flt n) (nt_replaced n + 1), inl e)
                   | inr (rp, lastOffset) =>
                       (Net (nt_kind n) (put_rep (nt_reps n) local rp) (nt_down n) (nt_flt n) (nt_replaced n + 1), inr lastOffset)
                   end
  | None => match replace (nt_kind n) (net_rep n local) q with
            | inl e => (n, inl e)
            | inr (rp, lastOffset) => (net_set n local rp, inr lastOffset)
            end
  end.

Definition last_proposal (ps : list rproposal) : rproposal := last ps (manifest_zero, []).

(* the page loop of repairQuorumPrefix *)
Fixpoint repair_pages (fuel : nat) (n : net) (local : N) (sel : selection) (maxBytes : N)
         (current : rstate) (from keepThrough : N) (previous : ident) (firstPage : bool)
  : net * (N + (rstate * N)) :=     (* current state, next from *)
  match fuel with
  | O => (n, inl EOther)
  | S fuel' =>
    if sl_index sel <? from then (n, inr (current, from))
    else
    let through := if maxRecoveryProbeIndexes <=? sl_index sel - from
                   then from + maxRecoveryProbeIndexes - 1 else sl_index sel in
    match fetchRecoveryPage n local (sl_supporters sel) from through previous maxBytes None with
    | inl e => (n, inl e)
    | inr ps =>
      (* recoveryPageTail *)
      if negb (validRecoveryProposals from through previous maxBytes ps) then (n, inl EConflict)
      else
      let '(lm, lrecs) := last_proposal ps in
      match SealProposalManifest lm lrecs with
      | None => (n, inl EConflict)
      | Some (_, les) =>
        let lastOff := m_last lm in
        let tail := last_ident les in
        if (i_idx previous <? sl_cc sel) && (sl_cc sel <=? lastOff) &&
           negb (match recoveryProposalIdentityAt ps (sl_cc sel) with
                 | Some c => ident_eqb c (sl_cident sel)
                 | None => false
                 end)
        then (n, inl EConflict)
        else
        let pageKeep := if firstPage then keepThrough else rs_leo current in
        let '(n', res) := local_replace n local (Replacement current pageKeep ps lastOff) in
        match res with
        | inl e => (n', inl e)
        | inr lo =>
          if negb (lo =? lastOff) then (n', inl EConflict)
          else match loadRecoveryReplicaState n' local [] with
          | inl e => (n', inl e)
          | inr (loaded, _) =>
              let want := RState lastOff lastOff lm tail in
              if negb (rstate_eqb loaded want) then (n', inl EConflict)
              else repair_pages fuel' n' local sel maxBytes loaded (lastOff + 1) keepThrough tail false
          end
        end
      end
    end
  end.

(* repairQuorumPrefix *)
Definition repairQuorumPrefix (n : net) (local : N) (voters : list N) (q : N) (sel : selection)
           (maxBytes : N) : net * (N + rstate) :=
  if negb (memN local voters) || negb (validRecoveryRepairSelection sel voters q) then (n, inl EInvalid)
  else match loadRecoveryReplicaState n local [] with
  | inl e => (n, inl e)
  | inr (localSt, _) =>
    if sl_index sel <? rs_committed localSt then (n, inl EConflict)
    else
    let keepThrough := rs_committed localSt in
    let prev :=
      if 0 <? keepThrough then
        match loadRecoveryReplicaState n local [keepThrough] with
        | inl e => inl e
        | inr (st, es) =>
            match es with
            | [p] => if rstate_eqb st localSt && pb_present p then
                       let pv := pb_ident p in
                       if (keepThrough =? sl_cc sel) && negb (ident_eqb pv (sl_cident sel)) then inl EConflict
                       else if (keepThrough =? sl_index sel) && negb (ident_eqb pv (sl_ident sel)) then inl EConflict
                       else inr pv
                     else inl EStale
            | _ => inl EStale
            end
        end
      else inr ident_zero in
    match prev with
    | inl e => (n, inl e)
    | inr previous =>
      if (rs_leo localSt =? sl_index sel) && ident_eqb (rs_tail localSt) (sl_ident sel) &&
         (rs_committed localSt =? sl_index sel)
      then (n, inr localSt)
      else
      match repair_pages (S (N.to_nat (sl_index sel))) n local sel maxBytes localSt (keepThrough + 1)
                         keepThrough previous true with
      | (n1, inl e) => (n1, inl e)
      | (n1, inr (current, from)) =>
        let '(n2, cur2) :=
          if (from =? 1) && (sl_index sel =? 0) then
            let '(n', res) := local_replace n1 local (Replacement current 0 [] 0) in
            match res with
            | inl e => (n', inl e)
            | inr lo => if lo =? 0 then (n', inr rstate_zero) else (n', inl EConflict)
            end
          else (n1, inr current) in
        match cur2 with
        | inl e => (n2, inl e)
        | inr c =>
            if negb (rs_leo c =? sl_index sel) || negb (rs_committed c =? sl_index sel) ||
               negb (ident_eqb (rs_tail c) (sl_ident sel))
            then (n2, inl EConflict) else (n2, inr c)
        end
      end
    end
  end.

(* ---- the barrier (recovery_barrier.go) ---------------------------------------------------- *)

Definition barrier_tag (a : authority) : tag :=
  TBarrier (aid_e (a_id a)) (aid_t (a_id a)) (aid_f (a_id a)) (a_leader a).
(* recoveryBarrierContent: command id and record are functions of the authority *)
Definition recoveryBarrierContent (a : authority) : tag * record :=
  (barrier_tag a, Rec (barrier_tag a) 0 0 0 1 true (aid_e (a_id a))).

(* writeCurrentTermBarrier: inl err | inr barrier state *)
Definition writeCurrentTermBarrier (n : net) (a : authority) (recovered : rstate) (rot : N)
  : net * (N + rstate) :=
  if negb (validAuthority a) || negb (validReplicaState recovered) ||
     negb (rs_committed recovered =? rs_leo recovered) then (n, inl EInvalid)
  else
  let tail := rs_tail recovered in
  if (0 <? rs_leo recovered) &&
     ((aid_e (a_id a) <? i_e tail) || ((aid_e (a_id a) =? i_e tail) && (aid_t (a_id a) <=? i_t tail)))
  then (n, inl EStale)
  else
  let '(cmd, rec) := recoveryBarrierContent a in
  let m0 := Manifest (aid_e (a_id a)) (aid_t (a_id a)) (aid_f (a_id a)) cmd
                     (rs_leo recovered) (rs_leo recovered + 1) (i_t tail) (rs_leo recovered) (i_dg tail) D0 in
  match SealProposalManifest m0 [rec] with
  | None => (n, inl EInvalid)
  | Some (m, es) =>
      let p := DProp (rs_leo recovered + 1) (rs_leo recovered + 1) (a_leader a) m [rec] (rs_leo recovered) false in
      let '(n', r) := runDurableRound n (a_leader a) (a_voters a) (a_q a) rot p in
      if negb (rr_ok r) then (n', inl EQuorumUnavailable)
      else if negb (rr_local r) || (rr_votes r <? a_q a) || negb (outcome_durable (rr_outcome r))
      then (n', inl EQuorumUnavailable)
      else (n', inr (RState (m_last m) (rs_leo recovered) m (last_ident es)))
  end.

(* ---- the owner (quorum_log.go) -------------------------------------------------------------- *)

Record receipt := Receipt { rc_auth : authid; rc_cmd : tag; rc_first : N; rc_last : N; rc_hw : N }.
Record retained := Retained { rt_prop : dproposal; rt_receipt : receipt; rt_durable : bool }.
Definition receipt_zero : receipt := Receipt authid_zero tag_zero 0 0 0.

(* quorumChannel.  qc_auth = None: the zero authority (channel object without install) *)
Record qchannel := QChan {
  qc_auth : option authority; qc_frontier : rstate; qc_hw : N; qc_ready : bool;
  qc_pending : option retained; qc_retained : list (tag * retained); qc_order : list tag }.
Definition qchannel_empty : qchannel := QChan None rstate_zero 0 false None [] [].

(* owner-side configuration (quorumLogConfig) *)
Record qconfig := QCfg {
  cf_kind : store_kind; cf_voters : N; cf_quorum : N; cf_retained : N; cf_maxrecs : N;
  cf_pagebytes : N; cf_rot : N }.
Definition cf_maxvoters : N := 16.

(* fenceQuorumChannel *)
Definition fenceQuorumChannel (a : authority) : qchannel := QChan (Some a) rstate_zero 0 false None [] [].

Inductive install_result := IErr (e : N) | IOk (a : authid) (leo hw : N).

(* quorumLog.Install *)
Definition Install (cfg : qconfig) (n : net) (st : qchannel) (local : N) (a : authority)
  : net * qchannel * install_result :=
  if negb (validAuthority a) || (cf_maxvoters <? lenN (a_voters a)) || negb (a_leader a =? local)
  then (n, st, IErr EInvalid)
  else
  (* the admission prefix: Some result = return now, None = go on with state st1 *)
  let adm : qchannel * option install_result :=
    match qc_auth st with
    | Some cur =>
        match compareAuthorityID (a_id a) (a_id cur) with
        | Lt => (st, Some (IErr EStale))
        | Eq => if negb (sameAuthority a cur) then (st, Some (IErr EConflict))
                else if a_wf a then (st, Some (IErr EFenced))
                else if qc_ready st then (st, Some (IOk (a_id cur) (rs_leo (qc_frontier st)) (qc_hw st)))
                else (st, None)
        | Gt => (fenceQuorumChannel a, None)
        end
    | None => (fenceQuorumChannel a, None)
    end in
  match adm with
  | (st1, Some r) => (n, st1, r)
  | (st1, None) =>
    if a_wf a then (n, st1, IErr EFenced)
    else match recoverQuorumPrefix n local (a_voters a) (a_q a) with
    | inl e => (n, st1, IErr e)
    | inr sel =>
      match repairQuorumPrefix n local (a_voters a) (a_q a) sel (cf_pagebytes cfg) with
      | (n1, inl e) => (n1, st1, IErr e)
      | (n1, inr recovered) =>
        let fin (n' : net) (fr : rstate) :=
          (n', QChan (qc_auth st1) fr (rs_leo fr) true None [] [], IOk (a_id a) (rs_leo fr) (rs_leo fr)) in
        if negb (rstate_is_zero recovered) && negb (frontierUsesAuthority recovered (a_id a)) then
          match writeCurrentTermBarrier n1 a recovered (cf_rot cfg) with
          | (n2, inl e) => (n2, st1, IErr e)
          | (n2, inr bs) => fin n2 bs
          end
        else fin n1 recovered
      end
    end
  end.

(* Proposal (api.go) *)
Record proposal := Proposal {
  pr_expected : authid; pr_cmd : tag; pr_records : list record; pr_sa : bool }.

(* validProposalRecords; MaxProposalBytes (1 MiB in the harness) is never reached *)
Definition validProposalRecords (recs : list record) : bool :=
  forallb (fun r => negb (tag_is_zero (r_id r)) && negb (r_epoch r =? 0) && negb (r_ts r =? 0)) recs.

(* sealBusinessProposal *)
Definition sealBusinessProposal (a : authority) (frontier : rstate) (hw : N) (cmd : tag)
           (recs : list record) (sa : bool) : option dproposal :=
  let m0 := Manifest (aid_e (a_id a)) (aid_t (a_id a)) (aid_f (a_id a)) cmd (rs_leo frontier)
                     (rs_leo frontier + lenN recs) (i_t (rs_tail frontier)) (rs_leo frontier)
                     (i_dg (rs_tail frontier)) D0 in
  match SealProposalManifest m0 recs with
  | Some (m, es) =>
      if lenN es =? lenN recs
      then Some (DProp (rs_leo frontier + 1) (m_last m) (a_leader a) m recs hw sa)
      else None
  | None => None
  end.

(* sameProposalContent *)
Definition sameProposalContent (p : dproposal) (recs : list record) : bool :=
  (lenN recs =? lenN (dp_records p)) &&
  match SealProposalManifest (dp_manifest p) recs with
  | Some (m, _) => manifest_eqb m (dp_manifest p)
  | None => false
  end.

Fixpoint get_retained (l : list (tag * retained)) (c : tag) : option retained :=
  match l with
  | [] => None
  | (c', r) :: rest => if tag_eqb c c' then Some r else get_retained rest c
  end.
Definition del_retained (l : list (tag * retained)) (c : tag) : list (tag * retained) :=
  filter (fun p => negb (tag_eqb (fst p) c)) l.

(* quorumLog.remember: bounded FIFO of recent commands *)
Definition remember (cfg : qconfig) (st : qchannel) (r : retained) : qchannel :=
  let c := m_cmd (dp_manifest (rt_prop r)) in
  match get_retained (qc_retained st) c with
  | Some _ =>
      QChan (qc_auth st) (qc_frontier st) (qc_hw st) (qc_ready st) (qc_pending st)
            ((c, r) :: del_retained (qc_retained st) c) (qc_order st)
  | None =>
      let '(ret, ord) :=
        if lenN (qc_order st) =? cf_retained cfg then
          match qc_order st with
          | old :: ord' => (del_retained (qc_retained st) old, ord')
          | [] => (qc_retained st, [])
          end
        else (qc_retained st, qc_order st) in
      QChan (qc_auth st) (qc_frontier st) (qc_hw st) (qc_ready st) (qc_pending st)
            ((c, r) :: ret) (ord ++ [c])
  end.

Inductive commit_result := CErr (e : N) | COk (r : receipt).

(* quorumLog.finishCommit *)
Definition finishCommit (cfg : qconfig) (st : qchannel) (a : authority) (r : retained) (res : roundres)
  : qchannel * commit_result :=
  if negb (rr_local res) || (rr_votes res <? a_q a) || negb (outcome_durable (rr_outcome res))
  then (st, CErr EQuorumUnavailable)
  else
  let p := rt_prop r in
  match SealProposalManifest (dp_manifest p) (dp_records p) with
  | None => (st, CErr EConflict)
  | Some (_, es) =>
      let rc := Receipt (a_id a) (m_cmd (dp_manifest p)) (dp_first p) (dp_last p) (dp_last p) in
      let st1 := QChan (qc_auth st) (RState (dp_last p) (dp_committed p) (dp_manifest p) (last_ident es))
                       (dp_last p) (qc_ready st) None (qc_retained st) (qc_order st) in
      (remember cfg st1 (Retained p rc true), COk rc)
  end.

(* quorumLog.retryPending *)
Definition retryPending (cfg : qconfig) (n : net) (st : qchannel) (a : authority) (local : N) (r : retained)
  : net * qchannel * commit_result :=
  let '(n', res) := runDurableRound n local (a_voters a) (a_q a) (cf_rot cfg) (rt_prop r) in
  if negb (rr_ok res) then (n', st, CErr EQuorumUnavailable)
  else let '(st', out) := finishCommit cfg st a r res in (n', st', out).

(* quorumLog.loadRetainedProposal: inl err | inr (Some retained) | inr None *)
Definition loadRetainedProposal (cfg : qconfig) (n : net) (st : qchannel) (a : authority) (local : N) (c : tag)
  : N + option retained :=
  match lookupCommand (nt_kind n) (net_rep n local) c (cf_maxrecs cfg) with
  | inl e => inl e
  | inr None => inr None
  | inr (Some (m, recs)) =>
      if negb (StructurallyValid m) || negb (tag_eqb (m_cmd m) c) || (qc_hw st <? m_last m) ||
         negb (m_e m =? aid_e (a_id a)) || negb (m_t m =? aid_t (a_id a)) || negb (m_f m =? aid_f (a_id a))
      then inl EConflict
      else match SealProposalManifest m recs with
      | Some (sealed, es) =>
          if negb (manifest_eqb sealed m) || (lenN es =? 0) then inl EConflict
          else
            let rc := Receipt (a_id a) c (m_base m + 1) (m_last m) (m_last m) in
            inr (Some (Retained (DProp (rc_first rc) (rc_last rc) (a_leader a) m recs (m_base m) false) rc true))
      | None => inl EConflict
      end
  end.

(* quorumLog.reconcileCommandConflict *)
Definition reconcileCommandConflict (cfg : qconfig) (n : net) (st : qchannel) (a : authority) (local : N)
           (p : proposal) : qchannel * commit_result :=
  match loadRetainedProposal cfg n st a local (pr_cmd p) with
  | inl e => (st, CErr e)
  | inr None => (st, CErr EConflict)
  | inr (Some loaded) =>
      if negb (sameProposalContent (rt_prop loaded) (pr_records p)) then (st, CErr EConflict)
      else (remember cfg st loaded, COk (rt_receipt loaded))
  end.

Definition set_pending (st : qchannel) (p : option retained) : qchannel :=
  QChan (qc_auth st) (qc_frontier st) (qc_hw st) (qc_ready st) p (qc_retained st) (qc_order st).

(* quorumLog.Commit *)
Definition Commit (cfg : qconfig) (n : net) (st : qchannel) (local : N) (p : proposal)
  : net * qchannel * commit_result :=
  if authid_eqb (pr_expected p) authid_zero || tag_is_zero (pr_cmd p) || (lenN (pr_records p) =? 0) ||
     (cf_maxrecs cfg <? lenN (pr_records p)) || negb (validProposalRecords (pr_records p))
  then (n, st, CErr EInvalid)
  else if negb (qc_ready st) then (n, st, CErr ENotReady)
  else match qc_auth st with
  | None => (n, st, CErr ENotReady)
  | Some a =>
    if negb (authid_eqb (pr_expected p) (a_id a)) then (n, st, CErr EStale)
    else if a_wf a then (n, st, CErr EFenced)
    else
    match get_retained (qc_retained st) (pr_cmd p) with
    | Some r =>
        if negb (sameProposalContent (rt_prop r) (pr_records p)) then (n, st, CErr EConflict)
        else if rt_durable r then (n, st, COk (rt_receipt r))
        else retryPending cfg n st a local r
    | None =>
      match qc_pending st with
      | Some pend =>
          if tag_eqb (m_cmd (dp_manifest (rt_prop pend))) (pr_cmd p) then
            if negb (sameProposalContent (rt_prop pend) (pr_records p)) then (n, st, CErr EConflict)
            else retryPending cfg n st a local pend
          else (n, st, CErr EBackpressured)
      | None =>
        match sealBusinessProposal a (qc_frontier st) (qc_hw st) (pr_cmd p) (pr_records p) (pr_sa p) with
        | None => (n, st, CErr EInvalid)
        | Some d =>
            let pend := Retained d receipt_zero false in
            let st1 := set_pending st (Some pend) in
            let '(n', res) := runDurableRound n local (a_voters a) (a_q a) (cf_rot cfg) d in
            if negb (rr_ok res) then
              match rr_outcome res with
              | OConflict =>
                  let st2 := set_pending st1 None in
                  let '(st3, out) := reconcileCommandConflict cfg n' st2 a local p in
                  (n', st3, out)
              | _ => (n', st1, CErr EQuorumUnavailable)
              end
            else let '(st2, out) := finishCommit cfg st1 a pend res in (n', st2, out)
        end
      end
    end
  end.
