(* MsgStore_C07.v — case record, correspondence check and property monitor of C07:
   "the message store behaves as a faithful sequential log".

   The monitor is the SPECIFICATION: per channel a plain list of rows and a log
   end, driven only by the inputs and by the results the implementation reported
   (success or error); after every step every dump, read and lookup the
   implementation produced must be what this plain log gives.  It never looks at
   the model.  Proof/MsgStore_C07*.v proves that the model's own observations
   always pass it ([c07_model_satisfies_monitor]). *)
From WK Require Import Base.Base Model.KV Gen.Consts_C07 Model.MsgStore.

(* ---- case record ---------------------------------------------------------------------- *)

Inductive entry := E (o : op) (x : out) (ds : list dump).

(* the physical keys of the history, decoded by the harness *)
Inductive kvent :=
| KRow (c seq id c2 : N) (cno uid : bytes) (hash : N) (pl : bytes) (ts : Z) (flags : N)
| KGid (id c2 seq : N)
| KCidx (c : N) (cno : bytes) (seq v : N)
| KIdem (c : N) (cno uid : bytes) (seq id hash : N)
| KSseq (c : N) (uid : bytes) (seq id : N)
| KCkpt (c e lso hw : N)
| KRet (c l p r : N)
| KHist (c off epoch : N)
| KCat (c c2 : N)
| KBad (c : N)
| KOther (c : N).

Record c07_case := C07Case { c_compact : bool; c_steps : list entry; c_kv : list kvent }.

(* ---- equality of observations ------------------------------------------------------------ *)

Definition msg_eqb (a b : msg) : bool :=
  (m_seq a =? m_seq b) && (m_id a =? m_id b) && (m_ch a =? m_ch b)
  && bytes_eqb (m_cno a) (m_cno b) && bytes_eqb (m_uid a) (m_uid b)
  && (m_hash a =? m_hash b) && bytes_eqb (m_payload a) (m_payload b) && (m_ts a =? m_ts b)%Z.

Definition msgs_eqb : list msg -> list msg -> bool := list_eqb msg_eqb.

Definition triple_eqb (a b : N * N * N) : bool :=
  let '(a1, a2, a3) := a in let '(b1, b2, b3) := b in (a1 =? b1) && (a2 =? b2) && (a3 =? b3).
Definition quad_eqb (a b : N * N * N * N) : bool :=
  let '(a1, a2, a3, a4) := a in let '(b1, b2, b3, b4) := b in
  (a1 =? b1) && (a2 =? b2) && (a3 =? b3) && (a4 =? b4).
Definition npair_eqb (a b : N * N) : bool := (fst a =? fst b) && (snd a =? snd b).

Definition out_eqb (a b : out) : bool :=
  match a, b with
  | XErr e, XErr e' => e =? e'
  | XOk, XOk => true
  | XApp b1 l1 n1, XApp b2 l2 n2 => (b1 =? b2) && (l1 =? l2) && (n1 =? n2)
  | XN n, XN n' => n =? n'
  | XTrim d1 n1 m1, XTrim d2 n2 m2 => (d1 =? d2) && (n1 =? n2) && Bool.eqb m1 m2
  | XMsgs l, XMsgs l' => msgs_eqb l l'
  | XMsgO m, XMsgO m' => option_eqb msg_eqb m m'
  | XPage l1 h1 n1, XPage l2 h2 n2 => msgs_eqb l1 l2 && Bool.eqb h1 h2 && (n1 =? n2)
  | XHit h, XHit h' => option_eqb quad_eqb h h'
  | XNO n, XNO n' => option_eqb N.eqb n n'
  | XTriple t, XTriple t' => option_eqb triple_eqb t t'
  | XPairs l, XPairs l' => list_eqb npair_eqb l l'
  | XBatch l, XBatch l' => list_eqb triple_eqb l l'
  | _, _ => false
  end.

Definition sum_eqb {A} (eqb : A -> A -> bool) (a b : A + N) : bool :=
  match a, b with
  | inl x, inl y => eqb x y
  | inr e, inr e' => e =? e'
  | _, _ => false
  end.

Definition dump_eqb (a b : dump) : bool :=
  match a, b with
  | D c l r n, D c' l' r' n' =>
    (c =? c') && sum_eqb N.eqb l l' && sum_eqb (list_eqb triple_eqb) r r' && sum_eqb msgs_eqb n n'
  end.

(* ---- correspondence: model vs implementation ------------------------------------------------ *)

Definition row_eqb (a b : row) : bool :=
  msg_eqb (messageFromRow a) (messageFromRow b) && (r_flags a =? r_flags b).

Definition value_eqb (a b : value) : bool :=
  match a, b with
  | VRow r, VRow r' => row_eqb r r'
  | VGid c q, VGid c' q' => (c =? c') && (q =? q')
  | VNum n, VNum n' => n =? n'
  | VIdem q i h, VIdem q' i' h' => (q =? q') && (i =? i') && (h =? h')
  | VTriple a1 a2 a3, VTriple b1 b2 b3 => (a1 =? b1) && (a2 =? b2) && (a3 =? b3)
  | VUnit, VUnit => true
  | _, _ => false
  end.

Definition kv_of_ent (e : kvent) : option (key * value) :=
  match e with
  | KRow c q i c2 cno uid h pl ts fl => Some (KyRow c q, VRow (Row q i fl cno uid c2 h pl ts))
  | KGid i c2 q => Some (KyGid i, VGid c2 q)
  | KCidx c cno q v => Some (KyCidx c cno q, VNum v)
  | KIdem c cno uid q i h => Some (KyIdem c cno uid, VIdem q i h)
  | KSseq c uid q i => Some (KySseq c uid q, VNum i)
  | KCkpt c e l h => Some (KyCkpt c, VTriple e l h)
  | KRet c l p r => Some (KyRet c, VTriple l p r)
  | KHist c o e => Some (KyHist c o e, VUnit)
  | KCat c c2 => if c =? c2 then Some (KyCat c, VUnit) else None
  | KBad _ | KOther _ => None
  end.

Definition kv_agree (impl : list kvent) (model : kvs) : bool :=
  Nat.eqb (length impl) (length model)
  && forallb (fun e => match kv_of_ent e with
                       | Some (k, v) => match kget k model with
                                        | Some v' => value_eqb v v'
                                        | None => false
                                        end
                       | None => false
                       end) impl.

Definition entry_op (e : entry) : op := match e with E o _ _ => o end.

Definition entry_agrees (e : entry) (m : out * list dump) : bool :=
  match e with E _ x ds => out_eqb x (fst m) && list_eqb dump_eqb ds (snd m) end.

Fixpoint all2 {A B} (f : A -> B -> bool) (a : list A) (b : list B) : bool :=
  match a, b with
  | [], [] => true
  | x :: a', y :: b' => f x y && all2 f a' b'
  | _, _ => false
  end.

Definition C07_mismatch (c : c07_case) : bool :=
  let '(st, tr) := xrun (c_compact c) (map entry_op (c_steps c)) in
  negb (all2 entry_agrees (c_steps c) tr && kv_agree (c_kv c) (st_kv _ st)).

(* ---- the specification: a plain sequential log per channel ------------------------------------ *)

(* one stored row of the specification log: the message and whether it is a
   sync-once row (FramerFlags & 4), which the sender-sequence lookup skips *)
Record arow := AR { a_msg : msg; a_sync : bool }.

Record alog := AL {
  al_rows : list arow;             (* ascending sequence order *)
  al_leo : N;                      (* log end *)
  al_ck : option (N * N * N);      (* last stored checkpoint *)
  al_hist : list (N * N);          (* stored epoch points (startOffset, epoch), sorted *)
  al_tpairs : list (bytes * bytes) (* (uid, cno) pairs that were ever stored twice at once *)
}.

Record aspec := AS {
  as_log : N -> alog;
  as_tids : list N }.              (* message ids that were ever stored twice at once (any channels) *)

Definition al_init : alog := AL [] 0 None [] [].
Definition as_init : aspec := AS (fun _ => al_init) [].

Definition set_log (s : aspec) (c : N) (l : alog) : aspec :=
  AS (fun c' => if c' =? c then l else as_log s c') (as_tids s).

Definition msg_of_rec (c seq : N) (x : rec) : arow :=
  AR (M seq (i_id x) c (i_cno x) (i_uid x) (hashPayload (i_payload x)) (i_payload x) (i_ts x))
     (negb (N.land (i_flags x) syncOnceFlag =? 0)).

(* typed records (ChannelLog.Append / ApplyFetch) carry no framer flags *)
Definition typed (x : rec) : rec :=
  R (i_id x) (i_cno x) (i_uid x) (i_payload x) (i_ts x) 0 (i_ridx x) (i_rid x).

Fixpoint msgs_from (c seq : N) (recs : list rec) : list arow :=
  match recs with
  | [] => []
  | x :: r => msg_of_rec c seq x :: msgs_from c (seq + 1) r
  end.

Definition id_stored (s : aspec) (i : N) : bool :=
  existsb (fun c => existsb (fun a => m_id (a_msg a) =? i) (al_rows (as_log s c))) all_chans.

Definition pair_stored (l : alog) (uid cno : bytes) : bool :=
  existsb (fun a => bytes_eqb (m_uid (a_msg a)) uid && bytes_eqb (m_cno (a_msg a)) cno) (al_rows l).

Definition both_nonempty (uid cno : bytes) : bool := negb (is_nil uid) && negb (is_nil cno).

(* append the rows one by one, recording ids / pairs that become stored twice *)
Fixpoint spec_append (s : aspec) (c : N) (rows : list arow) : aspec :=
  match rows with
  | [] => s
  | a :: rest =>
    let m := a_msg a in
    let l := as_log s c in
    let tids := if id_stored s (m_id m) then m_id m :: as_tids s else as_tids s in
    let tp := if both_nonempty (m_uid m) (m_cno m) && pair_stored l (m_uid m) (m_cno m)
              then (m_uid m, m_cno m) :: al_tpairs l else al_tpairs l in
    let l' := AL (al_rows l ++ [a]) (m_seq m) (al_ck l) (al_hist l) tp in
    spec_append (AS (fun c' => if c' =? c then l' else as_log s c') tids) c rest
  end.

Definition keep_rows (p : N -> bool) (l : alog) (leo : N) : alog :=
  AL (filter (fun a => p (m_seq (a_msg a))) (al_rows l)) leo (al_ck l) (al_hist l) (al_tpairs l).

Definition set_ck (l : alog) (ck : N * N * N) : alog :=
  AL (al_rows l) (al_leo l) (Some ck) (al_hist l) (al_tpairs l).

Definition add_hist (l : alog) (p : N * N) : alog :=
  AL (al_rows l) (al_leo l) (al_ck l)
     (if existsb (npair_eqb p) (al_hist l) then al_hist l else insert_pair p (al_hist l)) (al_tpairs l).

(* reading a plain list with the API's count / byte budget *)
Fixpoint spec_take (rows : list msg) (limit maxb : Z) (n total : Z) : list msg :=
  match rows with
  | [] => []
  | m :: rest =>
    let pb := Z.of_nat (length (m_payload m)) in
    if (0 <? maxb)%Z && (0 <? n)%Z && (maxb <? total + pb)%Z then []
    else if (0 <? limit)%Z && (limit <=? n + 1)%Z then [m]
    else m :: spec_take rest limit maxb (n + 1)%Z (total + pb)%Z
  end.

Definition amsgs (l : alog) : list msg := map a_msg (al_rows l).

Definition spec_read (l : alog) (fromSeq : N) (limit maxb : Z) : list msg :=
  let f := if fromSeq =? 0 then 1 else fromSeq in
  spec_take (filter (fun m => f <=? m_seq m) (amsgs l)) limit maxb 0%Z 0%Z.

Definition spec_rread (l : alog) (fromSeq : N) (limit maxb : Z) : list msg :=
  let f := if fromSeq =? 0 then al_leo l else fromSeq in
  spec_take (rev (filter (fun m => (f =? 0) || (m_seq m <=? f)) (amsgs l))) limit maxb 0%Z 0%Z.

Definition spec_get (l : alog) (q : N) : option msg := find (fun m => m_seq m =? q) (amsgs l).

Definition cno_tainted (l : alog) (cno : bytes) : bool :=
  existsb (fun p => bytes_eqb (snd p) cno) (al_tpairs l).

Definition pair_tainted (l : alog) (uid cno : bytes) : bool :=
  existsb (fun p => bytes_eqb (fst p) uid && bytes_eqb (snd p) cno) (al_tpairs l).

Definition in_msgs (m : msg) (l : alog) : bool := existsb (msg_eqb m) (amsgs l).

(* did the implementation's answer to a read / lookup agree with the plain log? *)
Definition spec_check_read (s : aspec) (o : op) (x : out) : bool :=
  match o, x with
  | ORead c f lim mb, XMsgs ms => msgs_eqb ms (spec_read (as_log s c) f lim mb)
  | ORRead c f lim mb, XMsgs ms => msgs_eqb ms (spec_rread (as_log s c) f lim mb)
  | OGet c q, XMsgO mo => option_eqb msg_eqb mo (spec_get (as_log s c) q)
  | OGet c q, XErr e => (q =? 0) && (e =? EInvalid)
  | OById c i, XMsgO mo =>
    let l := as_log s c in
    let stored := find (fun m => m_id m =? i) (amsgs l) in
    if existsb (N.eqb i) (as_tids s)
    then match mo with Some m => in_msgs m l && (m_id m =? i) | None => true end
    else option_eqb msg_eqb mo stored
  | OById c i, XErr e =>
    ((i =? 0) && (e =? EInvalid)) || (existsb (N.eqb i) (as_tids s) && (e =? ECorruptState))
  | OByCno c cno before lim, XPage ms more nb =>
    let l := as_log s c in
    let want := rev (filter (fun m => bytes_eqb (m_cno m) cno && ((before =? 0) || (m_seq m <? before))) (amsgs l)) in
    if cno_tainted l cno
    then forallb (fun m => in_msgs m l && bytes_eqb (m_cno m) cno) ms
    else if (lim <? Z.of_nat (length want))%Z
         then let page := firstn (Z.to_nat lim) want in
              msgs_eqb ms page && more && (nb =? match rev page with m :: _ => m_seq m | [] => 0 end)
         else msgs_eqb ms want && negb more && (nb =? 0)
  | OByCno c cno before lim, XErr e =>
    ((is_nil cno || (lim <=? 0)%Z) && (e =? EInvalid)) || (cno_tainted (as_log s c) cno && (e =? ECorruptState))
  | OIdem c uid cno, XHit h =>
    let l := as_log s c in
    let stored := find (fun m => bytes_eqb (m_uid m) uid && bytes_eqb (m_cno m) cno) (amsgs l) in
    match h with
    | Some (q, i, off, hh) =>
      (off =? q - 1)
      && existsb (fun m => (m_seq m =? q) && (m_id m =? i) && (m_hash m =? hh)
                           && bytes_eqb (m_uid m) uid && bytes_eqb (m_cno m) cno) (amsgs l)
    | None => match stored with Some _ => pair_tainted l uid cno | None => true end
    end
  | OIdem c uid cno, XErr e =>
    ((is_nil uid || is_nil cno) && (e =? EInvalid)) || (pair_tainted (as_log s c) uid cno && (e =? ECorruptState))
  | OLastS c uid t, XNO r =>
    let l := as_log s c in
    let qs := flat_map (fun a => if bytes_eqb (m_uid (a_msg a)) uid && negb (a_sync a) && (m_seq (a_msg a) <=? t)
                                 then [m_seq (a_msg a)] else []) (al_rows l) in
    option_eqb N.eqb r (match qs with [] => None | _ => Some (fold_left N.max qs 0) end)
  | OLastS c uid t, XErr e => (is_nil uid || (t =? 0)) && (e =? EInvalid)
  | OLeo c, XN n => n =? al_leo (as_log s c)
  | ORet _, XTriple _ => true
  | OLoadCk c, XTriple t => option_eqb triple_eqb t (al_ck (as_log s c))
  | OHist c, XPairs ps => list_eqb npair_eqb ps (al_hist (as_log s c))
  | _, _ => false
  end.

Definition all_le (t : N) (rows : list arow) : bool := forallb (fun a => m_seq (a_msg a) <=? t) rows.
Definition none_le (t : N) (rows : list arow) : bool := forallb (fun a => negb (m_seq (a_msg a) <=? t)) rows.

(* StoreAppendBatch: item by item; an accepted item appends at its channel's log end *)
Fixpoint spec_batch (s : aspec) (items : list (N * N * list rec)) (rs : list (N * N * N)) : option aspec :=
  match items, rs with
  | [], [] => Some s
  | (c, _, recs) :: items', (e, base, last) :: rs' =>
    if e =? 0 then
      if (base =? al_leo (as_log s c)) && (last =? base + N.of_nat (length recs))
      then spec_batch (spec_append s c (msgs_from c (base + 1) recs)) items' rs'
      else None
    else spec_batch s items' rs'
  | _, _ => None
  end.

(* the plain log's reaction to a mutation the implementation reported as [x];
   None = the reported result is impossible for a sequential log *)
Definition spec_mutate (s : aspec) (o : op) (x : out) : option aspec :=
  match o, x with
  | OCBatch items, XBatch rs => spec_batch s items rs
  | (OAppend _ _ _ _ | OApply _ _ _ _ _ | OCApp _ _ _ | OTrunc _ _ | OCTrunc _ _ | OTrim _ _ _ _
     | OCkpt _ _ _ _ | OCkptM _ _ _ _ _ _ | ODiscard _), XErr _ => Some s
  | OAppend c _ base recs, XApp b l n =>
    let lg := as_log s c in
    match recs with
    | [] => if (b =? 0) && (l =? 0) && (n =? 0) then Some s else None
    | _ => if (b =? al_leo lg + 1) && ((base =? 0) || (base =? b))
              && (l + 1 =? b + N.of_nat (length recs)) && (n =? N.of_nat (length recs))
           then Some (spec_append s c (msgs_from c b (map typed recs))) else None
    end
  | OApply c base recs ck ep, XApp b l n =>
    let lg := as_log s c in
    let s1 :=
      match recs with
      | [] => if (b =? 0) && (l =? 0) && (n =? 0) then Some s else None
      | _ => if (b =? al_leo lg + 1) && ((base =? 0) || (base =? b))
                && (l + 1 =? b + N.of_nat (length recs)) && (n =? N.of_nat (length recs))
             then Some (spec_append s c (msgs_from c b (map typed recs))) else None
      end in
    match s1 with
    | None => None
    | Some s1 =>
      let lg1 := as_log s1 c in
      let lg2 := match ck with Some k => set_ck lg1 k | None => lg1 end in
      let lg3 := match ep with Some (epoch, off) => add_hist lg2 (off, epoch) | None => lg2 end in
      Some (set_log s1 c lg3)
    end
  | OCApp c _ recs, XN base =>
    if base =? al_leo (as_log s c) then Some (spec_append s c (msgs_from c (base + 1) recs)) else None
  | OTrunc c f, XOk =>
    let lg := as_log s c in
    let f := if f =? 0 then 1 else f in
    if al_leo lg <? f then Some s else Some (set_log s c (keep_rows (fun q => q <? f) lg (f - 1)))
  | OCTrunc c t, XOk =>
    let lg := as_log s c in
    if al_leo lg <=? t then Some s else Some (set_log s c (keep_rows (fun q => q <=? t) lg t))
  | OTrim c t mm mb, XTrim dt n more =>
    let lg := as_log s c in
    if t =? 0 then (if (dt =? 0) && (n =? 0) && negb more then Some s else None)
    else
      let k := N.to_nat n in
      let deleted := firstn k (al_rows lg) in
      let rest := skipn k (al_rows lg) in
      if Nat.eqb (length deleted) k && all_le t deleted
         && (dt =? match rev deleted with a :: _ => m_seq (a_msg a) | [] => 0 end)
         && (more || none_le t rest)
         && (negb (0 <? mm)%Z || (Z.of_N n <=? mm)%Z)
      then Some (set_log s c (AL rest (N.max (al_leo lg) t) (al_ck lg) (al_hist lg) (al_tpairs lg)))
      else None
  | OCkpt c e l h, XOk => Some (set_log s c (set_ck (as_log s c) (e, l, h)))
  | OCkptM c e l h _ _, XOk => Some (set_log s c (set_ck (as_log s c) (e, l, h)))
  | ORelease _, XOk => Some s
  | OReopen, XOk => Some s
  | ODiscard c, XOk => Some (set_log s c al_init)       (* the channel is gone: an empty log from sequence 1 *)
  | _, _ => None
  end.

(* after a step the dumped channel must show exactly the plain log: the log
   end, every row (seq, id, payload hash), and the freshly appended rows with
   every field *)
Definition mcompact (m : msg) : N * N * N := (m_seq m, m_id m, m_hash m).

Definition spec_check_dump (s : aspec) (nr : option (N * Z)) (d : dump) : bool :=
  match d with
  | D c (inl leo) (inl rows) (inl news) =>
    (leo =? al_leo (as_log s c))
    && list_eqb triple_eqb rows (map mcompact (amsgs (as_log s c)))
    && msgs_eqb news (match nr with
                      | None => []
                      | Some (f, n) => spec_read (as_log s c) f n 0
                      end)
  | _ => false
  end.

Definition is_read (o : op) : bool := negb (is_mutation o) && match o with OReopen => false | _ => true end.

Definition spec_step (s : aspec) (e : entry) : option aspec :=
  match e with
  | E o x ds =>
    if is_read o then (if spec_check_read s o x then Some s else None)
    else match spec_mutate s o x with
         | None => None
         | Some s' => if forallb (spec_check_dump s' (new_range o x)) ds then Some s' else None
         end
  end.

Fixpoint spec_run (s : aspec) (tr : list entry) : bool :=
  match tr with
  | [] => true
  | e :: rest => match spec_step s e with Some s' => spec_run s' rest | None => false end
  end.

(* Sender idempotency of the plain log: an append in strict or server-allocated-id
   mode that carries a (sender, client msg no) pair which a row of the channel's
   log holds -- and which no trusted apply ever stored twice -- is a retry and
   must be rejected, whatever happened to OTHER rows (prefix trims, truncations,
   lease close) in between.  [spec_mutate] alone would accept the second row and
   merely taint the pair. *)
Definition out_accepted (x : out) : bool := match x with XErr _ => false | _ => true end.

Definition stored_pair_retry (s : aspec) (c mode : N) (recs : list rec) : bool :=
  negb (mode =? AppendTrustedContiguous)
  && existsb (fun x => both_nonempty (i_uid x) (i_cno x)
                       && pair_stored (as_log s c) (i_uid x) (i_cno x)
                       && negb (pair_tainted (as_log s c) (i_uid x) (i_cno x))) recs.

Definition retry_accepted (s : aspec) (e : entry) : bool :=
  match e with
  | E (OAppend c mode _ recs) x _ => out_accepted x && stored_pair_retry s c mode recs
  | E (OCApp c mode recs) x _ => out_accepted x && stored_pair_retry s c mode recs
  | _ => false
  end.

(* true = some step accepted a retry of a stored pair (or the trace left the spec) *)
Fixpoint retry_run (s : aspec) (tr : list entry) : bool :=
  match tr with
  | [] => false
  | e :: rest =>
    match spec_step s e with
    | Some s' => retry_accepted s e || retry_run s' rest
    | None => true
    end
  end.

(* C07 on the implementation's observations alone *)
Definition C07_monitor (c : c07_case) : N :=
  if spec_run as_init (c_steps c) then (if retry_run as_init (c_steps c) then 1 else 0) else 1.
