(* Model/Archive.v — pkg/backup: the scheduled full-backup archive format.

   Transcribes (one definition per Go function, same names in snake case):
     core.go                    validateBackupIdentity, validateRepositoryKey, validateSHA256
     chunk_v1.go                validateChunkDescriptor, DecodeChunk (comparison part)
     slot_manifest_v1.go        validateSlotManifest, MarshalSlotManifest, LoadSlotManifest
     message_chunk_manifest.go  validateMessageChunkManifest, NewMessageChunkManifest,
                                Marshal/Load/LoadStoredMessageChunkManifest
     archive_v1.go              validateArchiveManifest, validateSlotManifestKey,
                                validateCompleteMarker, Marshal/LoadArchiveManifest,
                                NewCompleteMarker, Marshal/LoadCompleteMarker
     repository_v1.go           validateRepositoryMarker, Marshal/LoadRepositoryMarker, EnsureRepository
     archive_verify.go          ReadStoredObject, loadStoredSlotAtKey, LoadStoredSlot,
                                LoadStoredSlotReference, LoadPublishedArchiveMetadata,
                                VerifyPublishedArchive
     internal/runtime/backup/full_publish.go   PublishArchive, putImmutableObject, publishCatalogEntry

   What is abstract (Section variables): the type [body] of stored object contents with
   its length [blen], SHA-256 as [H] (lower-case hex digest string), Zstandard decoding
   [unz], encoding/json strict decoding [json_*], and json.Marshal + bytes.Equal as
   [canon_*] / [enc_*].  What is concrete: every validator, the composition of the
   verification functions, and — for [body := bytes] — the canonical JSON encoders
   [enc_*_bytes] (json.Marshal of the manifest structs, Go string escaping included)
   together with the canonical-form check [canon_*_bytes m b := enc m =? b].

   Definitions only. *)
From WK Require Import Base.Base.
From WK Require Import Gen.Consts_C38.
Open Scope N_scope.

(* ASCII literal -> bytes *)
Definition sx (s : string) : bytes := map N_of_ascii (list_ascii_of_string s).

(* long byte strings in case files come in pieces: one string literal of 100 kB is too deep a term *)
Definition hxs (l : list string) : bytes := concat (map hx l).

(* case-file literals: an entry of the case's string table; a JSON document written with
   apostrophes for its double quotes *)
Definition sv (t : list bytes) (k : N) : bytes := nth (N.to_nat k) t [].
Definition jx (s : string) : bytes := map (fun c => if c =? 39 then 34 else c) (sx s).
Definition jxs (l : list string) : bytes := concat (map jx l).

(* ---- error classes (errors.Is against the package's sentinels) ------------------ *)
Inductive err := EManifest | EVersion | EObject | ECorrupt | ENotFound | EExists | EIncomplete | EOther.
Inductive res (A : Type) := Ok (a : A) | Err (e : err).
Arguments Ok {A} a. Arguments Err {A} e.

Definition err_code (e : err) : N :=
  match e with EManifest => 1 | EVersion => 2 | EObject => 3 | ECorrupt => 4 | ENotFound => 5
             | EExists => 6 | EIncomplete => 7 | EOther => 8 end.
Definition err_eqb (a b : err) : bool := err_code a =? err_code b.
Definition res_eqb {A} (eqb : A -> A -> bool) (a b : res A) : bool :=
  match a, b with Ok x, Ok y => eqb x y | Err e, Err f => err_eqb e f | _, _ => false end.
Definition is_ok {A} (r : res A) : bool := match r with Ok _ => true | Err _ => false end.

(* ---- the manifest structs ---------------------------------------------------------- *)
Record chunk_desc := CD { cd_stored_sha : bytes; cd_logical_sha : bytes; cd_logical_bytes : N;
                          cd_stored_bytes : N; cd_compression : bytes }.
Record chunk_ref := CR { cr_kind : bytes; cr_sequence : N; cr_stream : N; cr_part : N; cr_final : bool;
                         cr_key : bytes; cr_desc : chunk_desc; cr_records : N; cr_max_id : N }.
Record slot_cut := SC { sc_phys : N; sc_leader_term : N; sc_applied_term : N; sc_conf_ver : N;
                        sc_applied_index : N; sc_captured : Z }.
Record slot_manifest := SM { sm_format : bytes; sm_version : N; sm_hash_slot : N; sm_cut : slot_cut;
                             sm_chunks : list chunk_ref; sm_logical : N; sm_stored : N;
                             sm_records : N; sm_max_id : N }.
Record slot_ref := SR { sr_hash_slot : N; sr_key : bytes; sr_sha : bytes; sr_logical : N;
                        sr_stored : N; sr_records : N; sr_max_id : N }.
Record archive_manifest := AM {
  am_format : bytes; am_version : N; am_id : bytes; am_trigger : bytes; am_cluster : bytes;
  am_app : bytes; am_hash_slot_count : Z; am_started : Z; am_completed : Z; am_cut_started : Z;
  am_cut_ended : Z; am_compression : bytes; am_checksum : bytes; am_logical : N; am_stored : N;
  am_records : N; am_max_id : N; am_slots : list slot_ref }.
Record complete_marker := CM { cm_format : bytes; cm_version : N; cm_sha : bytes; cm_bytes : N }.
Record msg_manifest := MM { mm_format : bytes; mm_version : N; mm_hash_slot : N; mm_chunks : list chunk_ref;
                            mm_logical : N; mm_stored : N; mm_records : N; mm_max_id : N }.
Record repo_marker := RM { rm_format : bytes; rm_version : N; rm_cluster : bytes; rm_hash_slot_count : Z;
                           rm_created : Z }.

(* struct equality (==, reflect.DeepEqual) *)
Definition chunk_desc_eqb (a b : chunk_desc) : bool :=
  bytes_eqb (cd_stored_sha a) (cd_stored_sha b) && bytes_eqb (cd_logical_sha a) (cd_logical_sha b)
  && (cd_logical_bytes a =? cd_logical_bytes b) && (cd_stored_bytes a =? cd_stored_bytes b)
  && bytes_eqb (cd_compression a) (cd_compression b).
Definition chunk_ref_eqb (a b : chunk_ref) : bool :=
  bytes_eqb (cr_kind a) (cr_kind b) && (cr_sequence a =? cr_sequence b) && (cr_stream a =? cr_stream b)
  && (cr_part a =? cr_part b) && Bool.eqb (cr_final a) (cr_final b) && bytes_eqb (cr_key a) (cr_key b)
  && chunk_desc_eqb (cr_desc a) (cr_desc b) && (cr_records a =? cr_records b) && (cr_max_id a =? cr_max_id b).
Definition slot_cut_eqb (a b : slot_cut) : bool :=
  (sc_phys a =? sc_phys b) && (sc_leader_term a =? sc_leader_term b) && (sc_applied_term a =? sc_applied_term b)
  && (sc_conf_ver a =? sc_conf_ver b) && (sc_applied_index a =? sc_applied_index b)
  && (sc_captured a =? sc_captured b)%Z.
Definition slot_manifest_eqb (a b : slot_manifest) : bool :=
  bytes_eqb (sm_format a) (sm_format b) && (sm_version a =? sm_version b) && (sm_hash_slot a =? sm_hash_slot b)
  && slot_cut_eqb (sm_cut a) (sm_cut b) && list_eqb chunk_ref_eqb (sm_chunks a) (sm_chunks b)
  && (sm_logical a =? sm_logical b) && (sm_stored a =? sm_stored b) && (sm_records a =? sm_records b)
  && (sm_max_id a =? sm_max_id b).
Definition slot_ref_eqb (a b : slot_ref) : bool :=
  (sr_hash_slot a =? sr_hash_slot b) && bytes_eqb (sr_key a) (sr_key b) && bytes_eqb (sr_sha a) (sr_sha b)
  && (sr_logical a =? sr_logical b) && (sr_stored a =? sr_stored b) && (sr_records a =? sr_records b)
  && (sr_max_id a =? sr_max_id b).
Definition archive_manifest_eqb (a b : archive_manifest) : bool :=
  bytes_eqb (am_format a) (am_format b) && (am_version a =? am_version b) && bytes_eqb (am_id a) (am_id b)
  && bytes_eqb (am_trigger a) (am_trigger b) && bytes_eqb (am_cluster a) (am_cluster b)
  && bytes_eqb (am_app a) (am_app b) && (am_hash_slot_count a =? am_hash_slot_count b)%Z
  && (am_started a =? am_started b)%Z && (am_completed a =? am_completed b)%Z
  && (am_cut_started a =? am_cut_started b)%Z && (am_cut_ended a =? am_cut_ended b)%Z
  && bytes_eqb (am_compression a) (am_compression b) && bytes_eqb (am_checksum a) (am_checksum b)
  && (am_logical a =? am_logical b) && (am_stored a =? am_stored b) && (am_records a =? am_records b)
  && (am_max_id a =? am_max_id b) && list_eqb slot_ref_eqb (am_slots a) (am_slots b).
Definition complete_marker_eqb (a b : complete_marker) : bool :=
  bytes_eqb (cm_format a) (cm_format b) && (cm_version a =? cm_version b) && bytes_eqb (cm_sha a) (cm_sha b)
  && (cm_bytes a =? cm_bytes b).
Definition msg_manifest_eqb (a b : msg_manifest) : bool :=
  bytes_eqb (mm_format a) (mm_format b) && (mm_version a =? mm_version b) && (mm_hash_slot a =? mm_hash_slot b)
  && list_eqb chunk_ref_eqb (mm_chunks a) (mm_chunks b) && (mm_logical a =? mm_logical b)
  && (mm_stored a =? mm_stored b) && (mm_records a =? mm_records b) && (mm_max_id a =? mm_max_id b).
Definition repo_marker_eqb (a b : repo_marker) : bool :=
  bytes_eqb (rm_format a) (rm_format b) && (rm_version a =? rm_version b) && bytes_eqb (rm_cluster a) (rm_cluster b)
  && (rm_hash_slot_count a =? rm_hash_slot_count b)%Z && (rm_created a =? rm_created b)%Z.

(* ---- string helpers ---------------------------------------------------------------- *)
Fixpoint prefixb (p s : bytes) : bool :=       (* strings.HasPrefix(s, p) *)
  match p, s with
  | [], _ => true
  | a :: p', b :: s' => (a =? b) && prefixb p' s'
  | _ :: _, [] => false
  end.
Definition suffixb (p s : bytes) : bool := prefixb (rev p) (rev s).   (* strings.HasSuffix(s, p) *)
Fixpoint containsb (sub s : bytes) : bool :=   (* strings.Contains(s, sub) *)
  prefixb sub s || match s with [] => false | _ :: r => containsb sub r end.

(* strings.Split(s, sep) for a one-byte separator; [cur] is the reversed current segment *)
Fixpoint split_on (sep : N) (s cur : bytes) : list bytes :=
  match s with
  | [] => [rev cur]
  | c :: r => if c =? sep then rev cur :: split_on sep r [] else split_on sep r (c :: cur)
  end.

(* strconv decimal *)
Fixpoint dec_digits (fuel : nat) (n : N) (acc : bytes) : bytes :=
  match fuel with
  | O => acc
  | S f => let acc' := (48 + n mod 10) :: acc in
           if n / 10 =? 0 then acc' else dec_digits f (n / 10) acc'
  end.
Definition dec_N (n : N) : bytes := dec_digits (S (N.to_nat (N.log2 n))) n [].
Definition dec_Z (z : Z) : bytes :=
  if (z <? 0)%Z then 45 :: dec_N (Z.to_N (- z)) else dec_N (Z.to_N z).
(* %0<w>d *)
Definition pad0 (w : nat) (d : bytes) : bytes := repeat 48 (w - length d) ++ d.

Definition is_lower (c : N) : bool := (97 <=? c) && (c <=? 122).
Definition is_upper (c : N) : bool := (65 <=? c) && (c <=? 90).
Definition is_digit (c : N) : bool := (48 <=? c) && (c <=? 57).
Definition is_lower_hex (c : N) : bool := is_digit c || ((97 <=? c) && (c <=? 102)).

(* ---- core.go -------------------------------------------------------------------------- *)

(* validateBackupIdentity: the range loop sees runes, but every accepted rune is ASCII, so a
   value is accepted iff each BYTE is in the set ('.' not at index 0) *)
Fixpoint ident_chars_ok (first : bool) (s : bytes) : bool :=
  match s with
  | [] => true
  | c :: r => (is_lower c || is_upper c || is_digit c || (c =? 45) || (c =? 95) || ((c =? 46) && negb first))
              && ident_chars_ok false r
  end.
Definition validate_backup_identity (v : bytes) : bool :=
  negb (Nat.eqb (length v) 0) && Nat.leb (length v) 128 && ident_chars_ok true v
  && negb (containsb [46; 46] v).

(* validateRepositoryKey: key != "", no backslash, no leading "/", path.Clean(key) == key,
   clean not "." / ".." / "../…".  path.Clean(key) == key for a relative key iff no segment
   is "", "." or a ".." that Clean would resolve; the remaining ".." cases are the excluded
   ones — so: every "/"-separated segment is none of "", ".", "..". *)
Definition segment_ok (s : bytes) : bool :=
  negb (bytes_eqb s []) && negb (bytes_eqb s [46]) && negb (bytes_eqb s [46; 46]).
Definition validate_repository_key (key : bytes) : bool :=
  negb (bytes_eqb key []) && negb (existsb (N.eqb 92) key) && forallb segment_ok (split_on 47 key []).

(* validateSHA256: 64 lower-case hexadecimal characters *)
Definition validate_sha256 (v : bytes) : bool := Nat.eqb (length v) 64 && forallb is_lower_hex v.

(* path.Base of a key that passed validateRepositoryKey: its last segment *)
Definition path_base (key : bytes) : bytes := last (split_on 47 key []) [].

(* ---- chunk_v1.go ---------------------------------------------------------------------- *)
Definition validate_chunk_descriptor (d : chunk_desc) : bool :=
  bytes_eqb (cd_compression d) CompressionZstd && (cd_logical_bytes d <=? MaxChunkLogicalBytes)
  && negb (cd_stored_bytes d =? 0) && validate_sha256 (cd_stored_sha d) && validate_sha256 (cd_logical_sha d).

(* ---- slot_manifest_v1.go ------------------------------------------------------------- *)
Definition slot_prefix (hs : N) : bytes := sx "slots/" ++ pad0 3 (dec_N hs).   (* "slots/%03d" *)

(* per-kind loop state: nextSequence, nextStream, currentPart, streamFinal *)
Record kst := KST { k_seq : N; k_stream : N; k_part : N; k_final : bool }.
Definition step_kst (s : kst) (c : chunk_ref) : option kst :=
  if negb (cr_sequence c =? k_seq s) then None else
  let seq' := wrap32 (k_seq s + 1) in
  match (if cr_stream c =? k_stream s then Some (KST seq' (k_stream s) (k_part s) (k_final s))
         else if negb (cr_stream c =? wrap32 (k_stream s + 1)) || negb (k_final s) then None
         else Some (KST seq' (cr_stream c) 0 false)) with
  | None => None
  | Some s2 => if negb (cr_part c =? wrap32 (k_part s2 + 1)) || k_final s2 then None
               else Some (KST (k_seq s2) (k_stream s2) (cr_part c) (cr_final c))
  end.

Definition slot_chunk_key_ok (hs : N) (key_prefix : bytes) (c : chunk_ref) : bool :=
  let want_suffix := [47] ++ key_prefix ++ [45] ++ pad0 6 (dec_N (cr_sequence c)) ++ sx ".zst" in
  let want_legacy := slot_prefix hs ++ want_suffix in
  let attempt_prefix := slot_prefix hs ++ sx "/attempts/" in
  bytes_eqb (cr_key c) want_legacy || (prefixb attempt_prefix (cr_key c) && suffixb want_suffix (cr_key c)).

(* the chunk loop of validateSlotManifest; [None] = an ErrInvalidManifest return *)
Fixpoint validate_slot_chunks (hs : N) (cs : list chunk_ref) (meta msg : kst) (last_order : N)
         (lb sb rc mx : N) : option (kst * kst * (N * N * N * N)) :=
  match cs with
  | [] => Some (meta, msg, (lb, sb, rc, mx))
  | c :: rest =>
    let is_meta := bytes_eqb (cr_kind c) ChunkKindMetadata in
    let is_msg := bytes_eqb (cr_kind c) ChunkKindMessages in
    if negb (is_meta || is_msg) then None else
    let order := if is_meta then 1 else 2 in
    if order <? last_order then None else
    match step_kst (if is_meta then meta else msg) c with
    | None => None
    | Some s' =>
      if negb (slot_chunk_key_ok hs (if is_meta then sx "meta" else sx "messages") c) then None
      else if negb (validate_chunk_descriptor (cr_desc c)) then None
      else if is_meta && negb (cr_max_id c =? 0) then None
      else validate_slot_chunks hs rest (if is_meta then s' else meta) (if is_meta then msg else s') order
             (wrap64 (lb + cd_logical_bytes (cr_desc c))) (wrap64 (sb + cd_stored_bytes (cr_desc c)))
             (wrap64 (rc + cr_records c)) (N.max mx (cr_max_id c))
    end
  end.

(* validateSlotManifest; [None] = nil *)
Definition validate_slot_manifest (m : slot_manifest) : option err :=
  if negb (bytes_eqb (sm_format m) SlotManifestFormat) then Some EManifest
  else if negb (sm_version m =? SlotManifestVersion) then Some EVersion
  else if (DefaultHashSlotCount <=? sm_hash_slot m) || (sc_phys (sm_cut m) =? 0)
          || (sc_leader_term (sm_cut m) =? 0) || (sc_applied_term (sm_cut m) =? 0)
          || (sc_conf_ver (sm_cut m) =? 0) || (sc_applied_index (sm_cut m) =? 0)
          || (sc_captured (sm_cut m) <=? 0)%Z then Some EManifest
  else if Nat.eqb (length (sm_chunks m)) 0 then Some EManifest
  else match validate_slot_chunks (sm_hash_slot m) (sm_chunks m) (KST 1 0 0 false) (KST 1 1 0 false) 0 0 0 0 0 with
       | None => Some EManifest
       | Some (meta, msg, (lb, sb, rc, mx)) =>
         if negb (k_final meta) || ((1 <? k_seq msg) && negb (k_final msg)) then Some EManifest
         else if negb ((sm_logical m =? lb) && (sm_stored m =? sb) && (sm_records m =? rc) && (sm_max_id m =? mx))
         then Some EManifest else None
       end.

(* ---- message_chunk_manifest.go -------------------------------------------------------- *)
Fixpoint validate_msg_chunks (first : chunk_ref) (n : nat) (index : N) (cs : list chunk_ref)
         (lb sb rc mx : N) : option (N * N * N * N) :=
  match cs with
  | [] => Some (lb, sb, rc, mx)
  | c :: rest =>
    if negb (bytes_eqb (cr_kind c) ChunkKindMessages)
       || negb (cr_sequence c =? wrap32 (cr_sequence first + wrap32 index))
       || negb (cr_stream c =? cr_stream first)
       || negb (cr_part c =? wrap32 (wrap32 index + 1))
       || negb (Bool.eqb (N.of_nat n - 1 =? index) (cr_final c))
       || negb (validate_chunk_descriptor (cr_desc c))
       || negb (validate_repository_key (cr_key c)) then None
    else validate_msg_chunks first n (index + 1) rest
           (wrap64 (lb + cd_logical_bytes (cr_desc c))) (wrap64 (sb + cd_stored_bytes (cr_desc c)))
           (wrap64 (rc + cr_records c)) (N.max mx (cr_max_id c))
  end.

Definition validate_message_chunk_manifest (m : msg_manifest) : option err :=
  if negb (bytes_eqb (mm_format m) messageChunkManifestFormat) || negb (mm_version m =? messageChunkManifestVersion)
     || (DefaultHashSlotCount <=? mm_hash_slot m) then Some EManifest
  else match mm_chunks m with
  | [] => Some EManifest
  | first :: _ =>
    if maxMessageChunks <? N.of_nat (length (mm_chunks m)) then Some EManifest
    else if negb (bytes_eqb (cr_kind first) ChunkKindMessages) || (cr_sequence first =? 0)
            || (cr_stream first =? 0) || negb (cr_part first =? 1) then Some EManifest
    else match validate_msg_chunks first (length (mm_chunks m)) 0 (mm_chunks m) 0 0 0 0 with
         | None => Some EManifest
         | Some (lb, sb, rc, mx) =>
           if negb ((mm_logical m =? lb) && (mm_stored m =? sb) && (mm_records m =? rc) && (mm_max_id m =? mx))
           then Some EManifest else None
         end
  end.

(* NewMessageChunkManifest *)
Definition new_message_chunk_manifest (hs : N) (chunks : list chunk_ref) : res msg_manifest :=
  let m := MM messageChunkManifestFormat messageChunkManifestVersion hs chunks
              (fold_left (fun a c => wrap64 (a + cd_logical_bytes (cr_desc c))) chunks 0)
              (fold_left (fun a c => wrap64 (a + cd_stored_bytes (cr_desc c))) chunks 0)
              (fold_left (fun a c => wrap64 (a + cr_records c)) chunks 0)
              (fold_left (fun a c => N.max a (cr_max_id c)) chunks 0) in
  match validate_message_chunk_manifest m with Some e => Err e | None => Ok m end.

(* ---- archive_v1.go ------------------------------------------------------------------- *)
Definition validate_slot_manifest_key (hs : N) (key : bytes) : bool :=
  validate_repository_key key && prefixb (slot_prefix hs ++ [47]) key
  && bytes_eqb (path_base key) (sx "manifest.json").

(* the slot loop of validateArchiveManifest; [seen] is a bit set *)
Fixpoint validate_slot_refs (slots : list slot_ref) (seen lb sb rc mx : N) : option (N * (N * N * N * N)) :=
  match slots with
  | [] => Some (seen, (lb, sb, rc, mx))
  | r :: rest =>
    if (DefaultHashSlotCount <=? sr_hash_slot r) || N.testbit seen (sr_hash_slot r) then None
    else if negb (validate_slot_manifest_key (sr_hash_slot r) (sr_key r)) then None
    else if negb (validate_sha256 (sr_sha r)) then None
    else validate_slot_refs rest (N.setbit seen (sr_hash_slot r)) (wrap64 (lb + sr_logical r))
           (wrap64 (sb + sr_stored r)) (wrap64 (rc + sr_records r)) (N.max mx (sr_max_id r))
  end.

Definition validate_archive_manifest (m : archive_manifest) : option err :=
  if negb (bytes_eqb (am_format m) ArchiveFormat) then Some EManifest
  else if negb (am_version m =? ArchiveVersion) then Some EVersion
  else if negb (validate_backup_identity (am_id m)) then Some EManifest
  else if negb (validate_backup_identity (am_cluster m)) then Some EManifest
  else if Nat.eqb (length (am_app m)) 0 || Nat.ltb 128 (length (am_app m)) then Some EManifest
  else if negb (bytes_eqb (am_trigger m) TriggerInitial || bytes_eqb (am_trigger m) TriggerScheduled
                || bytes_eqb (am_trigger m) TriggerManual) then Some EManifest
  else if negb (am_hash_slot_count m =? Z.of_N DefaultHashSlotCount)%Z
          || negb (N.of_nat (length (am_slots m)) =? DefaultHashSlotCount) then Some EManifest
  else if (am_started m <=? 0)%Z || (am_completed m <? am_started m)%Z || (am_cut_started m <? am_started m)%Z
          || (am_cut_ended m <? am_cut_started m)%Z || (am_completed m <? am_cut_ended m)%Z then Some EManifest
  else if negb (bytes_eqb (am_compression m) CompressionZstd) || negb (bytes_eqb (am_checksum m) ChecksumSHA256)
  then Some EManifest
  else match validate_slot_refs (am_slots m) 0 0 0 0 0 with
       | None => Some EManifest
       | Some (seen, (lb, sb, rc, mx)) =>
         if negb (seen =? N.ones DefaultHashSlotCount) then Some EManifest
         else if negb (am_logical m =? 0) && negb (am_logical m =? lb) then Some EManifest
         else if negb (am_stored m =? 0) && negb (am_stored m =? sb) then Some EManifest
         else if negb (am_records m =? 0) && negb (am_records m =? rc) then Some EManifest
         else if negb (am_max_id m =? 0) && negb (am_max_id m =? mx) then Some EManifest
         else None
       end.

Definition validate_complete_marker (m : complete_marker) : option err :=
  if negb (bytes_eqb (cm_format m) CompleteMarkerFormat) || negb (cm_version m =? CompleteMarkerVersion)
     || (cm_bytes m =? 0) then Some EManifest
  else if negb (validate_sha256 (cm_sha m)) then Some EManifest else None.

(* ---- repository_v1.go ---------------------------------------------------------------- *)
Definition validate_repository_marker (m : repo_marker) : option err :=
  if negb (bytes_eqb (rm_format m) RepositoryFormat) || negb (rm_version m =? RepositoryVersion)
     || negb (rm_hash_slot_count m =? Z.of_N DefaultHashSlotCount)%Z || (rm_created m <=? 0)%Z then Some EManifest
  else if negb (validate_backup_identity (rm_cluster m)) then Some EManifest else None.

(* ---- json.Marshal of the structs (body := bytes) --------------------------------------- *)
Definition hexdig (n : N) : N := if n <? 10 then 48 + n else 87 + n.
Definition u00 (b : N) : bytes := [92; 117; 48; 48; hexdig (b / 16); hexdig (b mod 16)].   (* \u00XX *)
Definition ufffd : bytes := sx "\ufffd".   (* the six characters \ u f f f d *)
(* one ASCII byte through appendString with escapeHTML = true *)
Definition esc_ascii (b : N) : bytes :=
  if (b =? 34) || (b =? 92) then [92; b]
  else if b =? 8 then [92; 98] else if b =? 12 then [92; 102] else if b =? 10 then [92; 110]
  else if b =? 13 then [92; 114] else if b =? 9 then [92; 116]
  else if (b <? 32) || (b =? 60) || (b =? 62) || (b =? 38) then u00 b
  else [b].
Definition cont (b : N) : bool := (128 <=? b) && (b <=? 191).
Definition ok3 (b b1 : N) : bool :=
  if b =? 224 then (160 <=? b1) && (b1 <=? 191) else if b =? 237 then (128 <=? b1) && (b1 <=? 159) else cont b1.
Definition ok4 (b b1 : N) : bool :=
  if b =? 240 then (144 <=? b1) && (b1 <=? 191) else if b =? 244 then (128 <=? b1) && (b1 <=? 143) else cont b1.

(* the loop of appendString: ASCII escapes, invalid UTF-8 -> �, U+2028/9 escaped *)
Fixpoint json_str_body (s : bytes) : bytes :=
  match s with
  | [] => []
  | b :: r =>
    if b <? 128 then esc_ascii b ++ json_str_body r
    else if (194 <=? b) && (b <=? 223) then
      match r with
      | b1 :: r1 => if cont b1 then b :: b1 :: json_str_body r1 else ufffd ++ json_str_body r
      | [] => ufffd
      end
    else if (224 <=? b) && (b <=? 239) then
      match r with
      | b1 :: (b2 :: r2) =>
        if ok3 b b1 && cont b2 then
          (if (b =? 226) && (b1 =? 128) && ((b2 =? 168) || (b2 =? 169))
           then [92; 117; 50; 48; 50; hexdig (b2 - 160)] else [b; b1; b2]) ++ json_str_body r2
        else ufffd ++ json_str_body r
      | _ => ufffd ++ json_str_body r
      end
    else if (240 <=? b) && (b <=? 244) then
      match r with
      | b1 :: (b2 :: (b3 :: r3)) =>
        if ok4 b b1 && cont b2 && cont b3 then [b; b1; b2; b3] ++ json_str_body r3
        else ufffd ++ json_str_body r
      | _ => ufffd ++ json_str_body r
      end
    else ufffd ++ json_str_body r
  end.
Definition jstr (s : bytes) : bytes := [34] ++ json_str_body s ++ [34].
Definition jbool (b : bool) : bytes := if b then sx "true" else sx "false".
Fixpoint jjoin (l : list bytes) : bytes :=
  match l with [] => [] | [x] => x | x :: r => x ++ [44] ++ jjoin r end.
Definition jarr (l : list bytes) : bytes := [91] ++ jjoin l ++ [93].
Fixpoint jkv (names vals : list bytes) : list bytes :=
  match names, vals with
  | n :: ns, v :: vs => ([34] ++ n ++ [34; 58] ++ v) :: jkv ns vs
  | _, _ => []
  end.
(* a struct: the field names are the json tags of the compiled struct (Gen/Consts_C38) *)
Definition jobj (names vals : list bytes) : bytes := [123] ++ jjoin (jkv names vals) ++ [125].

Definition enc_chunk_desc (d : chunk_desc) : bytes :=
  jobj fields_ChunkDescriptor [jstr (cd_stored_sha d); jstr (cd_logical_sha d); dec_N (cd_logical_bytes d);
                               dec_N (cd_stored_bytes d); jstr (cd_compression d)].
Definition enc_chunk_ref (c : chunk_ref) : bytes :=
  jobj fields_ChunkReference [jstr (cr_kind c); dec_N (cr_sequence c); dec_N (cr_stream c); dec_N (cr_part c);
                              jbool (cr_final c); jstr (cr_key c); enc_chunk_desc (cr_desc c);
                              dec_N (cr_records c); dec_N (cr_max_id c)].
Definition enc_slot_cut (c : slot_cut) : bytes :=
  jobj fields_SlotCut [dec_N (sc_phys c); dec_N (sc_leader_term c); dec_N (sc_applied_term c);
                       dec_N (sc_conf_ver c); dec_N (sc_applied_index c); dec_Z (sc_captured c)].
Definition enc_slot_manifest_bytes (m : slot_manifest) : bytes :=
  jobj fields_SlotManifest [jstr (sm_format m); dec_N (sm_version m); dec_N (sm_hash_slot m);
                            enc_slot_cut (sm_cut m); jarr (map enc_chunk_ref (sm_chunks m));
                            dec_N (sm_logical m); dec_N (sm_stored m); dec_N (sm_records m); dec_N (sm_max_id m)].
Definition enc_slot_ref (r : slot_ref) : bytes :=
  jobj fields_SlotReference [dec_N (sr_hash_slot r); jstr (sr_key r); jstr (sr_sha r); dec_N (sr_logical r);
                             dec_N (sr_stored r); dec_N (sr_records r); dec_N (sr_max_id r)].
Definition enc_archive_manifest_bytes (m : archive_manifest) : bytes :=
  jobj fields_ArchiveManifest
    [jstr (am_format m); dec_N (am_version m); jstr (am_id m); jstr (am_trigger m); jstr (am_cluster m);
     jstr (am_app m); dec_Z (am_hash_slot_count m); dec_Z (am_started m); dec_Z (am_completed m);
     dec_Z (am_cut_started m); dec_Z (am_cut_ended m); jstr (am_compression m); jstr (am_checksum m);
     dec_N (am_logical m); dec_N (am_stored m); dec_N (am_records m); dec_N (am_max_id m);
     jarr (map enc_slot_ref (am_slots m))].
Definition enc_complete_marker_bytes (m : complete_marker) : bytes :=
  jobj fields_CompleteMarker [jstr (cm_format m); dec_N (cm_version m); jstr (cm_sha m); dec_N (cm_bytes m)].
Definition enc_msg_manifest_bytes (m : msg_manifest) : bytes :=
  jobj fields_MessageChunkManifest [jstr (mm_format m); dec_N (mm_version m); dec_N (mm_hash_slot m);
                                    jarr (map enc_chunk_ref (mm_chunks m)); dec_N (mm_logical m);
                                    dec_N (mm_stored m); dec_N (mm_records m); dec_N (mm_max_id m)].
Definition enc_repo_marker_bytes (m : repo_marker) : bytes :=
  jobj fields_RepositoryMarker [jstr (rm_format m); dec_N (rm_version m); jstr (rm_cluster m);
                                dec_Z (rm_hash_slot_count m); dec_Z (rm_created m)].

Definition blen_bytes (b : bytes) : N := N.of_nat (length b).
(* canonical, err := json.Marshal(manifest); err != nil || !bytes.Equal(canonical, body) *)
Definition canon_archive_bytes (m : archive_manifest) (b : bytes) : bool := bytes_eqb (enc_archive_manifest_bytes m) b.
Definition canon_slot_bytes (m : slot_manifest) (b : bytes) : bool := bytes_eqb (enc_slot_manifest_bytes m) b.
Definition canon_marker_bytes (m : complete_marker) (b : bytes) : bool := bytes_eqb (enc_complete_marker_bytes m) b.
Definition canon_msg_bytes (m : msg_manifest) (b : bytes) : bool := bytes_eqb (enc_msg_manifest_bytes m) b.
Definition canon_repo_bytes (m : repo_marker) (b : bytes) : bool := bytes_eqb (enc_repo_marker_bytes m) b.

(* repository key literals *)
Definition root_of (id : bytes) : bytes := sx "backups/" ++ id ++ [47].
Definition manifest_key (id : bytes) : bytes := root_of id ++ sx "manifest.json".
Definition complete_key (id : bytes) : bytes := root_of id ++ sx "COMPLETE".
Definition corrupt_key (id : bytes) : bytes := root_of id ++ sx "CORRUPT".
Definition catalog_key (id : bytes) : bytes := sx "catalog/" ++ id.
Definition repo_marker_max : N := 65536.   (* 64<<10, a literal inside EnsureRepository *)

(* internal/runtime/backup.PublishArchiveRequest *)
Record publish_request := PR { pr_id : bytes; pr_trigger : bytes; pr_cluster : bytes; pr_app : bytes;
                               pr_started : Z; pr_completed : Z; pr_slots : list slot_ref }.

(* ====================================================================================== *)
Section Oracles.
  Variable body : Type.
  Variable blen : body -> N.                   (* len(body) *)
  Variable H : body -> bytes.                  (* hex.EncodeToString(sha256.Sum256(body)) *)
  Variable unz : body -> option (N * bytes).   (* zstd stream decoded through EOF: logical length, H(logical) *)
  Variable json_archive : body -> option archive_manifest.   (* decodeStrictJSON into the struct *)
  Variable json_slot : body -> option slot_manifest.
  Variable json_marker : body -> option complete_marker.
  Variable json_msg : body -> option msg_manifest.
  Variable json_repo : body -> option repo_marker.
  Variable canon_archive : archive_manifest -> body -> bool.  (* bytes.Equal(json.Marshal(m), body) *)
  Variable canon_slot : slot_manifest -> body -> bool.
  Variable canon_marker : complete_marker -> body -> bool.
  Variable canon_msg : msg_manifest -> body -> bool.
  Variable canon_repo : repo_marker -> body -> bool.
  Variable enc_archive : archive_manifest -> body.            (* json.Marshal *)
  Variable enc_marker : complete_marker -> body.
  Variable enc_repo : repo_marker -> body.
  Variable body_eqb : body -> body -> bool.                   (* bytes.Equal *)

  (* ---- strict loaders -------------------------------------------------------------- *)
  Definition load_archive_manifest (b : body) : res archive_manifest :=
    match json_archive b with
    | None => Err EManifest
    | Some m => match validate_archive_manifest m with
                | Some e => Err e
                | None => if canon_archive m b then Ok m else Err EManifest
                end
    end.
  Definition load_slot_manifest (b : body) : res slot_manifest :=
    match json_slot b with
    | None => Err EManifest
    | Some m => match validate_slot_manifest m with
                | Some e => Err e
                | None => if canon_slot m b then Ok m else Err EManifest
                end
    end.
  Definition load_message_chunk_manifest (b : body) : res msg_manifest :=
    match json_msg b with
    | None => Err EManifest
    | Some m => match validate_message_chunk_manifest m with
                | Some e => Err e
                | None => if canon_msg m b then Ok m else Err EManifest
                end
    end.
  Definition load_repository_marker (b : body) : res repo_marker :=
    match json_repo b with
    | None => Err EManifest
    | Some m => match validate_repository_marker m with
                | Some e => Err e
                | None => if canon_repo m b then Ok m else Err EManifest
                end
    end.
  (* LoadCompleteMarker(markerBody, manifestBody) *)
  Definition load_complete_marker (kb mb : body) : res complete_marker :=
    match json_marker kb with
    | None => Err EManifest
    | Some m =>
      match validate_complete_marker m with
      | Some e => Err e
      | None =>
        if negb (canon_marker m kb) then Err EManifest
        else if negb (cm_bytes m =? blen mb) then Err ECorrupt
        else if negb (bytes_eqb (cm_sha m) (H mb)) then Err ECorrupt
        else match load_archive_manifest mb with Err e => Err e | Ok _ => Ok m end
      end
    end.
  (* NewCompleteMarker *)
  Definition new_complete_marker (mb : body) : res complete_marker :=
    match load_archive_manifest mb with
    | Err e => Err e
    | Ok _ => Ok (CM CompleteMarkerFormat CompleteMarkerVersion (H mb) (blen mb))
    end.
  (* Marshal*: validate, then json.Marshal *)
  Definition marshal_archive_manifest (m : archive_manifest) : res body :=
    match validate_archive_manifest m with Some e => Err e | None => Ok (enc_archive m) end.
  Definition marshal_complete_marker (m : complete_marker) : res body :=
    match validate_complete_marker m with Some e => Err e | None => Ok (enc_marker m) end.
  Definition marshal_repository_marker (m : repo_marker) : res body :=
    match validate_repository_marker m with Some e => Err e | None => Ok (enc_repo m) end.

  (* ---- the repository: key -> (contents, size the store reports) ------------------- *)
  Definition store := list (bytes * option (body * N)).
  Fixpoint get (st : store) (k : bytes) : option (body * N) :=
    match st with
    | [] => None
    | (k', o) :: r => if bytes_eqb k' k then o else get r k
    end.
  Definition put (k : bytes) (b : body) (sz : N) (st : store) : store := (k, Some (b, sz)) :: st.
  Definition del (k : bytes) (st : store) : store := (k, None) :: st.
  (* ArchiveStore.Put of an honest store: ExpectedBytes = len(body); IfAbsent *)
  Definition store_put (st : store) (k : bytes) (b : body) (if_absent : bool) : res store :=
    match (if if_absent then get st k else None) with
    | Some _ => Err EExists
    | None => Ok (put k b (blen b) st)
    end.

  (* ReadStoredObject *)
  Definition read_stored_object (st : store) (key : bytes) (maxb : N) : res body :=
    match get st key with
    | None => Err ENotFound
    | Some (b, sz) =>
      if (sz =? 0) || (maxb <? sz) then Err ECorrupt
      else if negb (blen b =? sz) || (maxb <? blen b) then Err ECorrupt
      else Ok b
    end.

  (* bytes ReadStoredObject pulls from the object's reader: nothing when the reported size is
     refused, otherwise at most maxBytes+1 (io.LimitReader) *)
  Definition read_pulled (st : store) (key : bytes) (maxb : N) : N :=
    match get st key with
    | None => 0
    | Some (b, sz) => if (sz =? 0) || (maxb <? sz) then 0 else N.min (blen b) (maxb + 1)
    end.

  (* DecodeChunk(io.Discard, reader, descriptor) *)
  Definition decode_chunk (b : body) (d : chunk_desc) : res unit :=
    if negb (validate_chunk_descriptor d) then Err EObject
    else match unz b with
         | None => Err ECorrupt
         | Some (ll, lh) =>
           if negb (blen b =? cd_stored_bytes d) || negb (bytes_eqb (H b) (cd_stored_sha d))
              || negb (ll =? cd_logical_bytes d) || negb (bytes_eqb lh (cd_logical_sha d))
           then Err ECorrupt else Ok tt
         end.

  (* the verifyChunks loop of loadStoredSlotAtKey *)
  Fixpoint verify_chunks (st : store) (root : bytes) (cs : list chunk_ref) : res unit :=
    match cs with
    | [] => Ok tt
    | c :: rest =>
      match get st (root ++ cr_key c) with
      | None => Err ENotFound
      | Some (b, sz) =>
        if negb (sz =? cd_stored_bytes (cr_desc c)) then Err ECorrupt
        else match decode_chunk b (cr_desc c) with
             | Err e => Err e
             | Ok _ => verify_chunks st root rest
             end
      end
    end.

  Definition load_stored_slot_at_key (st : store) (id : bytes) (hs : N) (rel_key : bytes) (verify : bool)
    : res (slot_ref * slot_manifest) :=
    match read_stored_object st (root_of id ++ rel_key) maxStoredManifestBytes with
    | Err e => Err e
    | Ok b =>
      match load_slot_manifest b with
      | Err e => Err e
      | Ok m =>
        if negb (sm_hash_slot m =? hs) then Err ECorrupt
        else match (if verify then verify_chunks st (root_of id) (sm_chunks m) else Ok tt) with
             | Err e => Err e
             | Ok _ => Ok (SR hs rel_key (H b) (sm_logical m) (sm_stored m) (sm_records m) (sm_max_id m), m)
             end
      end
    end.

  (* LoadStoredSlot *)
  Definition load_stored_slot (st : store) (id : bytes) (hs : N) (verify : bool) : res (slot_ref * slot_manifest) :=
    if DefaultHashSlotCount <=? hs then Err EObject
    else load_stored_slot_at_key st id hs (slot_prefix hs ++ sx "/manifest.json") verify.

  (* LoadStoredSlotReference *)
  Definition load_stored_slot_reference (st : store) (id : bytes) (expected : slot_ref) (verify : bool)
    : res (slot_ref * slot_manifest) :=
    if (DefaultHashSlotCount <=? sr_hash_slot expected)
       || negb (validate_slot_manifest_key (sr_hash_slot expected) (sr_key expected))
       || negb (validate_sha256 (sr_sha expected)) then Err EObject
    else match load_stored_slot_at_key st id (sr_hash_slot expected) (sr_key expected) verify with
         | Err e => Err e
         | Ok (actual, m) => if slot_ref_eqb actual expected then Ok (actual, m) else Err ECorrupt
         end.

  (* LoadPublishedArchiveMetadata *)
  Definition load_published_archive_metadata (st : store) (id : bytes) : res archive_manifest :=
    if bytes_eqb id [] then Err EObject
    else match get st (corrupt_key id) with
    | Some _ => Err ECorrupt
    | None =>
      match read_stored_object st (manifest_key id) maxStoredManifestBytes with
      | Err e => Err e
      | Ok mb =>
        match read_stored_object st (complete_key id) maxStoredManifestBytes with
        | Err e => Err e
        | Ok kb =>
          match load_complete_marker kb mb with
          | Err e => Err e
          | Ok _ =>
            match load_archive_manifest mb with
            | Err e => Err e
            | Ok m => if bytes_eqb (am_id m) id then Ok m else Err ECorrupt
            end
          end
        end
      end
    end.

  (* the loop of VerifyPublishedArchive: [i] is the index of the head of [slots] *)
  Fixpoint verify_slots (st : store) (id : bytes) (i : N) (slots : list slot_ref) : res unit :=
    match slots with
    | [] => Ok tt
    | expected :: rest =>
      match load_stored_slot_reference st id expected true with
      | Err e => Err e
      | Ok (actual, _) =>
        if negb (sr_hash_slot actual =? i mod 65536) then Err ECorrupt
        else verify_slots st id (i + 1) rest
      end
    end.

  (* VerifyPublishedArchive *)
  Definition verify_published_archive (st : store) (id : bytes) : res archive_manifest :=
    match load_published_archive_metadata st id with
    | Err e => Err e
    | Ok m => match verify_slots st id 0 (am_slots m) with
              | Err e => Err e
              | Ok _ => Ok m
              end
    end.

  (* LoadStoredMessageChunkManifest *)
  Definition load_stored_message_chunk_manifest (st : store) (id key expected_sha : bytes) : res msg_manifest :=
    if negb (validate_sha256 expected_sha) || negb (validate_repository_key (root_of id ++ key)) then Err EObject
    else match read_stored_object st (root_of id ++ key) MaxSlotManifestBytes with
         | Err e => Err e
         | Ok b => if negb (bytes_eqb (H b) expected_sha) then Err ECorrupt else load_message_chunk_manifest b
         end.

  (* EnsureRepository(store, clusterID, now) — returns the store too *)
  Definition ensure_repository (st : store) (cluster : bytes) (now : Z) : store * res repo_marker :=
    if bytes_eqb cluster [] || (now <=? 0)%Z then (st, Err EObject)
    else match get st RepositoryMarkerKey with
    | Some (b, sz) =>
      if (sz =? 0) || (repo_marker_max <? sz) then (st, Err ECorrupt)
      else if negb (blen b =? sz) then (st, Err ECorrupt)
      else match load_repository_marker b with
           | Err e => (st, Err e)
           | Ok m => if bytes_eqb (rm_cluster m) cluster then (st, Ok m) else (st, Err EIncomplete)
           end
    | None =>
      let m := RM RepositoryFormat RepositoryVersion cluster (Z.of_N DefaultHashSlotCount) now in
      match marshal_repository_marker m with
      | Err e => (st, Err e)
      | Ok b => match store_put st RepositoryMarkerKey b true with
                | Err e => (st, Err e)     (* unreachable: the key was absent *)
                | Ok st' => (st', Ok m)
                end
      end
    end.

  (* putImmutableObject / publishCatalogEntry (same shape) *)
  Definition put_immutable_object (st : store) (key : bytes) (b : body) : store * res unit :=
    match store_put st key b true with
    | Ok st' => (st', Ok tt)
    | Err EExists =>
      match read_stored_object st key maxArchiveManifestBytes with
      | Err e => (st, Err e)
      | Ok existing => if body_eqb existing b then (st, Ok tt) else (st, Err EOther)
      end
    | Err e => (st, Err e)
    end.

  (* the per-slot loop of PublishArchive: verifies each reference with its chunks and
     accumulates totals and the cut interval; [acc] = (refs reversed, lb, sb, rc, mx, cut_started, cut_ended) *)
  Fixpoint publish_slots (st : store) (id : bytes) (i : N) (slots : list slot_ref)
           (refs : list slot_ref) (lb sb rc mx : N) (cs ce : Z)
    : res (list slot_ref * (N * N * N * N) * (Z * Z)) :=
    match slots with
    | [] => Ok (rev refs, (lb, sb, rc, mx), (cs, ce))
    | expected :: rest =>
      if negb (sr_hash_slot expected =? i) then Err EOther
      else match load_stored_slot_reference st id expected true with
           | Err e => Err e
           | Ok (r, sm) =>
             let cap := sc_captured (sm_cut sm) in
             publish_slots st id (i + 1) rest (r :: refs)
               (wrap64 (lb + sr_logical r)) (wrap64 (sb + sr_stored r)) (wrap64 (rc + sr_records r))
               (N.max mx (sr_max_id r))
               (if (cs =? 0)%Z || (cap <? cs)%Z then cap else cs)
               (if (ce <? cap)%Z then cap else ce)
           end
    end.

  (* PublishArchive *)
  Definition publish_archive (st : store) (rq : publish_request) : store * res archive_manifest :=
    let id := pr_id rq in
    match read_stored_object st (complete_key id) maxArchiveManifestBytes with
    | Ok existing =>
      match verify_published_archive st id with
      | Err e => (st, Err e)
      | Ok m =>
        if negb (bytes_eqb (am_trigger m) (pr_trigger rq)) || negb (bytes_eqb (am_cluster m) (pr_cluster rq))
           || negb (bytes_eqb (am_app m) (pr_app rq)) || negb (am_started m =? pr_started rq)%Z
           || negb (am_completed m =? pr_completed rq)%Z then (st, Err EOther)
        else match put_immutable_object st (catalog_key id) existing with
             | (st', Err e) => (st', Err e)
             | (st', Ok _) => (st', Ok m)
             end
      end
    | Err ENotFound =>
      match ensure_repository st (pr_cluster rq) (pr_completed rq) with
      | (st1, Err e) => (st1, Err e)
      | (st1, Ok _) =>
        if negb (N.of_nat (length (pr_slots rq)) =? DefaultHashSlotCount) then (st1, Err EOther)
        else match publish_slots st1 id 0 (pr_slots rq) [] 0 0 0 0 0%Z 0%Z with
        | Err e => (st1, Err e)
        | Ok (refs, (lb, sb, rc, mx), (cs, ce)) =>
          let m := AM ArchiveFormat ArchiveVersion id (pr_trigger rq) (pr_cluster rq) (pr_app rq)
                      (Z.of_N DefaultHashSlotCount) (pr_started rq) (pr_completed rq) cs ce
                      CompressionZstd ChecksumSHA256 lb sb rc mx refs in
          match marshal_archive_manifest m with
          | Err e => (st1, Err e)
          | Ok b =>
            match put_immutable_object st1 (manifest_key id) b with
            | (st2, Err e) => (st2, Err e)
            | (st2, Ok _) =>
              match read_stored_object st2 (manifest_key id) maxArchiveManifestBytes with
              | Err e => (st2, Err e)
              | Ok loaded =>
                match load_archive_manifest loaded with
                | Err e => (st2, Err e)
                | Ok _ =>
                  match new_complete_marker loaded with
                  | Err e => (st2, Err e)
                  | Ok marker =>
                    match marshal_complete_marker marker with
                    | Err e => (st2, Err e)
                    | Ok kb =>
                      match put_immutable_object st2 (complete_key id) kb with
                      | (st3, Err e) => (st3, Err e)
                      | (st3, Ok _) =>
                        match put_immutable_object st3 (catalog_key id) kb with
                        | (st4, Err e) => (st4, Err e)
                        | (st4, Ok _) => (st4, Ok m)
                        end
                      end
                    end
                  end
                end
              end
            end
          end
        end
      end
    | Err e => (st, Err e)
    end.

  (* ---- the property as a decidable predicate on a repository -------------------------
     [consistentb st id m]: the repository holds a complete, internally bound archive [id]
     whose top-level manifest is [m] — stated object by object, not as the control flow of
     VerifyPublishedArchive. *)

  (* the object under [key] exists, the store reports its true size, 0 < size <= max *)
  Definition honest_object (st : store) (key : bytes) (maxb : N) : option body :=
    match get st key with
    | Some (b, sz) => if (sz =? blen b) && (0 <? sz) && (sz <=? maxb) then Some b else None
    | None => None
    end.

  (* a chunk object matches its (well-formed) descriptor: reported and real stored size,
     stored digest, decodes, logical size and digest *)
  Definition chunk_consistentb (st : store) (root : bytes) (c : chunk_ref) : bool :=
    match get st (root ++ cr_key c) with
    | Some (b, sz) =>
      validate_chunk_descriptor (cr_desc c)
      && (sz =? cd_stored_bytes (cr_desc c)) && (blen b =? cd_stored_bytes (cr_desc c))
      && bytes_eqb (H b) (cd_stored_sha (cr_desc c))
      && match unz b with
         | Some (ll, lh) => (ll =? cd_logical_bytes (cr_desc c)) && bytes_eqb lh (cd_logical_sha (cr_desc c))
         | None => false
         end
    | None => false
    end.

  (* the i-th slot reference: position = hash slot, its manifest object is a canonical valid
     Slot manifest of that hash slot with the referenced digest and totals, every chunk matches *)
  Definition slot_consistentb (st : store) (id : bytes) (i : N) (r : slot_ref) : bool :=
    (sr_hash_slot r =? i)
    && match honest_object st (root_of id ++ sr_key r) maxStoredManifestBytes with
       | Some b =>
         match load_slot_manifest b with
         | Ok sm => (sm_hash_slot sm =? sr_hash_slot r) && bytes_eqb (H b) (sr_sha r)
                    && (sm_logical sm =? sr_logical r) && (sm_stored sm =? sr_stored r)
                    && (sm_records sm =? sr_records r) && (sm_max_id sm =? sr_max_id r)
                    && forallb (chunk_consistentb st (root_of id)) (sm_chunks sm)
         | Err _ => false
         end
       | None => false
       end.

  Fixpoint forallb_idx {A} (f : N -> A -> bool) (i : N) (l : list A) : bool :=
    match l with [] => true | x :: r => f i x && forallb_idx f (i + 1) r end.

  Definition consistentb (st : store) (id : bytes) (m : archive_manifest) : bool :=
    negb (bytes_eqb id [])
    && match get st (corrupt_key id) with Some _ => false | None => true end
    && match honest_object st (manifest_key id) maxStoredManifestBytes,
             honest_object st (complete_key id) maxStoredManifestBytes with
       | Some mb, Some kb =>
         match load_archive_manifest mb, json_marker kb with
         | Ok m', Some k =>
           archive_manifest_eqb m m' && bytes_eqb (am_id m) id
           && match validate_complete_marker k with None => true | Some _ => false end
           && canon_marker k kb && (cm_bytes k =? blen mb) && bytes_eqb (cm_sha k) (H mb)
           && forallb_idx (slot_consistentb st id) 0 (am_slots m')
         | _, _ => false
         end
       | _, _ => false
       end.

  (* the manifest a consistent archive can only have *)
  Definition stored_manifest (st : store) (id : bytes) : option archive_manifest :=
    match get st (manifest_key id) with
    | Some (mb, _) => match load_archive_manifest mb with Ok m => Some m | Err _ => None end
    | None => None
    end.
End Oracles.

