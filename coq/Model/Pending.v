(* Model/Pending.v — the RPC pending-request table
   (pkg/transport/internal/rpc/pending.go) and the part of conn.Conn that uses
   it (pkg/transport/internal/conn/conn.go: Call, handleRPCResponse, shutdown).

   The table's methods are NOT atomic as a whole: Complete removes the entry
   under the shard lock and sends outside it; Store on a closed table reads
   [closed] under closeMu and sends after releasing it; FailAll swaps each
   shard's map under the shard lock and sends afterwards.  The model therefore
   has two layers:
     * atomic steps ([insert], [remove], [send], ...) = the lock-protected
       sections and the channel operations; theorems quantify over arbitrary
       interleavings of these;
     * the methods ([store], [complete], [fail_all], ...) defined as the step
       sequences a single uninterrupted call performs; used for the exact
       sequential correspondence with the Go table.
   Sharding (id & mask) only partitions the map by a function of the id, so the
   entries are one association list here; the shard count normalisation of
   NewPendingTable is modelled separately ([shard_count], [shard_for]).
   Definitions only. *)
From WK Require Import Base.Base Base.Bytes.
From WK Require Import Gen.Consts_C26.
Open Scope N_scope.

(* rpc.Response as seen by the receiver.  [m_err] = 0 is a nil error.  [m_tag] is
   ghost: the request id handed to the Complete call that produced the message
   (None for the failure paths FailAll / Store-after-close). *)
Record msg := Msg { m_tag : option N; m_payload : bytes; m_err : N }.

Record pstate := PState {
  ps_entries : list (N * N);      (* request id -> caller-owned channel (a channel number) *)
  ps_closed : bool;
  ps_close_err : N;
  ps_inflight : list (N * msg);   (* (channel, message): send decided, trySend not yet executed *)
  ps_bufs : list (N * msg) }.     (* messages sitting in channel buffers, oldest first *)

Definition pinit : pstate := PState [] false 0 [] [].

Definition lookup (id : N) (es : list (N * N)) : option N :=
  match find (fun e => fst e =? id) es with Some e => Some (snd e) | None => None end.
Definition remove_id (id : N) (es : list (N * N)) : list (N * N) :=
  filter (fun e => negb (fst e =? id)) es.
Definition count_chan {A} (c : N) (l : list (N * A)) : N :=
  N.of_nat (length (filter (fun x => fst x =? c) l)).

(* ---- atomic steps ------------------------------------------------------------- *)

(* shard.entries[id] = ch (under closeMu.RLock + shard lock) *)
Definition insert (id c : N) (s : pstate) : pstate :=
  PState ((id, c) :: remove_id id (ps_entries s)) (ps_closed s) (ps_close_err s) (ps_inflight s) (ps_bufs s).

(* delete(shard.entries, id) *)
Definition delete (id : N) (s : pstate) : pstate :=
  PState (remove_id id (ps_entries s)) (ps_closed s) (ps_close_err s) (ps_inflight s) (ps_bufs s).

(* Complete's critical section: ch, ok := entries[id]; if ok { delete } *)
Definition remove (id : N) (m : msg) (s : pstate) : pstate * bool :=
  match lookup id (ps_entries s) with
  | Some c => (PState (remove_id id (ps_entries s)) (ps_closed s) (ps_close_err s)
                      (ps_inflight s ++ [(c, m)]) (ps_bufs s), true)
  | None => (s, false)
  end.

(* FailAll: if !closed { closed = true; closeErr = err } *)
Definition close (e : N) (s : pstate) : pstate :=
  if ps_closed s then s
  else PState (ps_entries s) true e (ps_inflight s) (ps_bufs s).

(* FailAll: one entry swapped out of its shard map; it will be sent Response{Err: err} *)
Definition fail_one (id e : N) (s : pstate) : pstate :=
  fst (remove id (Msg None [] e) s).

(* Store on a closed table: err := closeErr (read under RLock), send after unlock *)
Definition store_closed (c : N) (s : pstate) : pstate :=
  PState (ps_entries s) (ps_closed s) (ps_close_err s)
         (ps_inflight s ++ [(c, Msg None [] (ps_close_err s))]) (ps_bufs s).

Fixpoint remove_nth {A} (k : nat) (l : list A) : list A :=
  match k, l with
  | _, [] => []
  | O, _ :: r => r
  | S k', x :: r => x :: remove_nth k' r
  end.

(* trySend: select { case ch <- resp: default: } for in-flight item k.
   Returns also whether the message was dropped (buffer full). *)
Definition send (cap : N -> N) (k : nat) (s : pstate) : pstate * bool :=
  match nth_error (ps_inflight s) k with
  | None => (s, false)
  | Some (c, m) =>
    let infl := remove_nth k (ps_inflight s) in
    if count_chan c (ps_bufs s) <? cap c
    then (PState (ps_entries s) (ps_closed s) (ps_close_err s) infl (ps_bufs s ++ [(c, m)]), false)
    else (PState (ps_entries s) (ps_closed s) (ps_close_err s) infl (ps_bufs s), true)
  end.

(* non-blocking receive from channel c *)
Fixpoint take_first (c : N) (l : list (N * msg)) : option msg * list (N * msg) :=
  match l with
  | [] => (None, [])
  | x :: r => if fst x =? c then (Some (snd x), r)
              else let (m, r') := take_first c r in (m, x :: r')
  end.
Definition recv (c : N) (s : pstate) : pstate * option msg :=
  let (m, b) := take_first c (ps_bufs s) in
  (PState (ps_entries s) (ps_closed s) (ps_close_err s) (ps_inflight s) b, m).

(* ---- the methods, as one uninterrupted call performs them ----------------------- *)

Fixpoint send_all (cap : N -> N) (fuel : nat) (s : pstate) : pstate :=
  match fuel with
  | O => s
  | S f => match ps_inflight s with
           | [] => s
           | _ => send_all cap f (fst (send cap 0 s))
           end
  end.
Definition flush (cap : N -> N) (s : pstate) : pstate := send_all cap (length (ps_inflight s)) s.

(* PendingTable.Store (the channel has already passed the nil/unbuffered check) *)
Definition store (cap : N -> N) (id c : N) (s : pstate) : pstate :=
  if ps_closed s then flush cap (store_closed c s) else insert id c s.

(* PendingTable.Complete *)
Definition complete (cap : N -> N) (id : N) (payload : bytes) (err : N) (s : pstate) : pstate * bool :=
  let (s1, ok) := remove id (Msg (Some id) payload err) s in
  (if ok then flush cap s1 else s1, ok).

(* PendingTable.FailAll *)
Definition fail_all (cap : N -> N) (e : N) (s : pstate) : pstate :=
  let s1 := close e s in
  flush cap (fold_left (fun st id => fail_one id e st) (map fst (ps_entries s1)) s1).

(* PendingTable.Len *)
Definition plen (s : pstate) : N := N.of_nat (length (ps_entries s)).

(* NewPendingTable: shard count, and shardFor *)
Definition is_pow2 (n : Z) : bool := (0 <? n)%Z && (Z.land n (n - 1) =? 0)%Z.
Definition shard_count (n : Z) : N :=
  if (n <=? 0)%Z || negb (is_pow2 n) then defaultPendingShards else Z.to_N n.
Definition shard_for (n : Z) (id : N) : N := N.land id (shard_count n - 1).

(* ---- sequential histories over the table ------------------------------------------ *)

Inductive pop :=
| PStore (id c : N)
| PDelete (id : N)
| PComplete (id : N) (payload : bytes) (err : N)
| PFailAll (err : N)
| PLen
| PRecv (c : N).

Inductive pobs :=
| OUnit | OPanic | OBool (b : bool) | ONum (n : N) | ORecv (m : option (bytes * N)).

Definition cap_of (caps : list N) (c : N) : N := nth (N.to_nat c) caps 0.

Definition pstep (caps : list N) (s : pstate) (o : pop) : pstate * pobs :=
  match o with
  | PStore id c =>
      (* ch == nil || cap(ch) < 1 => panic (channel numbers beyond [caps] are nil) *)
      if cap_of caps c =? 0 then (s, OPanic) else (store (cap_of caps) id c s, OUnit)
  | PDelete id => (delete id s, OUnit)
  | PComplete id p e => let (s', ok) := complete (cap_of caps) id p e s in (s', OBool ok)
  | PFailAll e => (fail_all (cap_of caps) e s, OUnit)
  | PLen => (s, ONum (plen s))
  | PRecv c => let (s', m) := recv c s in
               (s', ORecv (match m with Some x => Some (m_payload x, m_err x) | None => None end))
  end.

Fixpoint prun (caps : list N) (s : pstate) (ops : list pop) : list pobs :=
  match ops with
  | [] => []
  | o :: r => let (s', ob) := pstep caps s o in ob :: prun caps s' r
  end.

(* ---- interleavings of atomic steps (for the theorems) -------------------------------- *)

Inductive tstep :=
| TInsert (id c : N)                  (* Store, table open *)
| TStoreClosed (c : N)                (* Store, table closed *)
| TDelete (id : N)
| TRemove (id : N) (payload : bytes) (err : N)   (* Complete's critical section *)
| TClose (e : N)                      (* FailAll marks the table closed *)
| TFailOne (id e : N)                 (* FailAll takes one entry *)
| TSend (k : nat)                     (* some pending trySend executes *)
| TRecv (c : N).                      (* a caller receives from its channel *)

(* ghost bookkeeping: which request id each channel was registered for, which
   channels were handed to a closed table, what callers received, how many
   sends found the buffer full *)
Record gstate := GState {
  g_st : pstate;
  g_owner : list (N * N);       (* (channel, id) for every TInsert *)
  g_cchans : list N;            (* channels of TStoreClosed *)
  g_recvd : list (N * msg);     (* (channel, message) received, newest first *)
  g_drops : N }.

Definition ginit : gstate := GState pinit [] [] [] 0.

Definition chan_used (c : N) (g : gstate) : bool :=
  existsb (fun x => fst x =? c) (g_owner g) || existsb (N.eqb c) (g_cchans g).
Definition id_used (id : N) (g : gstate) : bool := existsb (fun x => snd x =? id) (g_owner g).

(* one atomic step; None = the step is not one a well-formed client performs in
   this state: request ids come from a strictly increasing counter and every call
   makes its own buffered channel (Conn.Call), Store inserts only while the table
   is open, the failure steps belong to a FailAll that has closed the table *)
Definition texec (cap : N -> N) (g : gstate) (t : tstep) : option gstate :=
  let s := g_st g in
  match t with
  | TInsert id c =>
      if ps_closed s || id_used id g || chan_used c g || (cap c =? 0) then None
      else Some (GState (insert id c s) ((c, id) :: g_owner g) (g_cchans g) (g_recvd g) (g_drops g))
  | TStoreClosed c =>
      if negb (ps_closed s) || chan_used c g || (cap c =? 0) then None
      else Some (GState (store_closed c s) (g_owner g) (c :: g_cchans g) (g_recvd g) (g_drops g))
  | TDelete id => Some (GState (delete id s) (g_owner g) (g_cchans g) (g_recvd g) (g_drops g))
  | TRemove id p e =>
      Some (GState (fst (remove id (Msg (Some id) p e) s)) (g_owner g) (g_cchans g) (g_recvd g) (g_drops g))
  | TClose e => Some (GState (close e s) (g_owner g) (g_cchans g) (g_recvd g) (g_drops g))
  | TFailOne id e =>
      if negb (ps_closed s) then None
      else Some (GState (fail_one id e s) (g_owner g) (g_cchans g) (g_recvd g) (g_drops g))
  | TSend k =>
      let (s', dropped) := send cap k s in
      Some (GState s' (g_owner g) (g_cchans g) (g_recvd g) (if dropped then g_drops g + 1 else g_drops g))
  | TRecv c =>
      let (s', m) := recv c s in
      Some (GState s' (g_owner g) (g_cchans g)
                   (match m with Some x => (c, x) :: g_recvd g | None => g_recvd g end) (g_drops g))
  end.

Fixpoint trun (cap : N -> N) (g : gstate) (tr : list tstep) : option gstate :=
  match tr with
  | [] => Some g
  | t :: r => match texec cap g t with Some g' => trun cap g' r | None => None end
  end.

(* ======================================================================
   conn.Conn on top of the table: Call / handleRPCResponse / shutdown, driven
   by a scripted peer on the other end of a synchronous pipe.  Every script op
   completes before the next one starts (the harness synchronises with barrier
   frames), so the order of the table operations is the script order; what
   remains nondeterministic is Go's select among several ready channels, which
   the model expresses as a SET of allowed outcomes per call.
   ====================================================================== *)

(* error classes of Call results *)
Definition E_remote : N := 20.          (* core.RemoteError, generic code; message in the payload slot *)
Definition E_remote_notfound : N := 21. (* core.RemoteError, service_not_found *)
Definition E_canceled : N := 30.        (* core.ErrCanceled *)
Definition E_stopped : N := 31.         (* core.ErrStopped *)
Definition E_read : N := 32.            (* the read loop's I/O error (peer closed the pipe) *)
Definition E_invalid_frame : N := 34.   (* core.ErrInvalidFrame from the read loop *)

Definition outcome := (bytes * N)%type.   (* (payload or remote message, error class; 0 = nil) *)

(* [rep w n] = the word w repeated n times: how the harness prints large stamped
   payloads (Coq's string-literal parser is the expensive part of a case file) *)
Definition rep (w : bytes) (n : N) : bytes := concat (repeat w (N.to_nat n)).

(* OWNERSHIP CLAUSE of the acceptor (not a theorem of the table model): what Call
   returns is the caller's private copy.  The harness keeps the returned slice and
   reads its bytes only when the case ends, after all later traffic (further large
   frames on the same process-wide slab pool); the observation compared with the
   allowed outcomes below is that late reading.  conn.handleRPCResponse satisfies
   it by copying the payload out of the frame body before Complete. *)

Inductive cop :=
| CStart (k : N) (payload : bytes)           (* go Call(ctx_k, payload); peer reads the request frame *)
| CStartCanceled (k : N) (payload : bytes)   (* Call with an already cancelled context *)
| CRespond (reqid status : N) (payload : bytes)  (* peer writes an RPC response frame: body = status ‖ payload *)
| CRespondEmpty (reqid : N)                  (* ... with an empty body *)
| CCancel (k : N)                            (* cancel ctx_k, wait for Call k to return *)
| CAwait (k : N)                             (* wait for Call k to return *)
| CReset                                     (* peer closes the pipe; wait for the conn to shut down *)
| CGarbage                                   (* peer writes a header with a bad magic; wait for shutdown *)
| CClose (e : N).                            (* local Conn.Close(err); e = 0 means nil *)

Inductive cobs :=
| CoNone
| CoRead (reqid : N) (payload : bytes)       (* what the peer read from the wire *)
| CoWrite (ok : bool)                        (* whether the peer's write was taken by the conn *)
| CoOutcome (payload : bytes) (err : N).     (* what Call returned *)

Record cstate := CState {
  cs_p : pstate;
  cs_next : N;                               (* Conn.nextRequestID *)
  cs_calls : list (N * N);                   (* running calls: k -> request id; call k's channel is number k *)
  cs_fin : list (N * list outcome);          (* calls that have returned but were not collected: allowed outcomes *)
  cs_down : bool }.

Definition cinit : cstate := CState pinit 0 [] [] false.

Definition cap1 (_ : N) : N := 1.
Definition msg_outcome (m : msg) : outcome := (m_payload m, m_err m).

Definition lookup_fin (k : N) (l : list (N * list outcome)) : option (list outcome) :=
  match find (fun e => fst e =? k) l with Some e => Some (snd e) | None => None end.

Definition outcome_eqb (a b : outcome) : bool := bytes_eqb (fst a) (fst b) && (snd a =? snd b).
Definition allowed (o : outcome) (l : list outcome) : bool := existsb (outcome_eqb o) l.

(* Conn.shutdown(err): FailAll; every running call returns: its buffered response
   if it has one, else the FailAll error or ErrStopped (ctx.Done may win the select
   before FailAll has delivered) *)
Definition shutdown (e : N) (s : cstate) : cstate :=
  if cs_down s then s else
  let fin := map (fun kc =>
                    let '(k, _) := kc in
                    match fst (take_first k (ps_bufs (cs_p s))) with
                    | Some m => (k, [msg_outcome m])
                    | None => (k, [([], e); ([], E_stopped)])
                    end) (cs_calls s) in
  CState (fail_all cap1 e (cs_p s)) (cs_next s) [] (fin ++ cs_fin s) true.

(* handleRPCResponse *)
Definition response_msg (reqid : N) (body : option (N * bytes)) : bytes * N :=
  match body with
  | None => ([], 0)
  | Some (status, payload) =>
      if status =? ResponseOK then (payload, 0)
      else (payload, if status =? ResponseServiceNotFound then E_remote_notfound else E_remote)
  end.

(* one script op: new state, and whether the observation is one the model allows *)
Definition cstep (s : cstate) (o : cop) (ob : cobs) : cstate * bool :=
  match o with
  | CStart k payload =>
      let id := cs_next s + 1 in
      if cs_down s
      then (* Store on the closed table, Send fails with ErrStopped, Delete *)
        (CState (delete id (store cap1 id k (cs_p s))) id (cs_calls s) (cs_fin s) true,
         match ob with CoOutcome p e => outcome_eqb (p, e) ([], E_stopped) | _ => false end)
      else
        (CState (store cap1 id k (cs_p s)) id ((k, id) :: cs_calls s) (cs_fin s) false,
         match ob with CoRead r p => (r =? id) && bytes_eqb p payload | _ => false end)
  | CStartCanceled k payload =>
      let id := cs_next s + 1 in
      (CState (delete id (store cap1 id k (cs_p s))) id (cs_calls s) (cs_fin s) (cs_down s),
       (* Scheduler.Enqueue looks at ctx.Err() before anything else *)
       match ob with CoOutcome p e => outcome_eqb (p, e) ([], E_canceled) | _ => false end)
  | CRespond reqid status payload =>
      if cs_down s then (s, match ob with CoWrite false => true | _ => false end)
      else
        let '(p, e) := response_msg reqid (Some (status, payload)) in
        (CState (fst (complete cap1 reqid p e (cs_p s))) (cs_next s) (cs_calls s) (cs_fin s) false,
         match ob with CoWrite true => true | _ => false end)
  | CRespondEmpty reqid =>
      if cs_down s then (s, match ob with CoWrite false => true | _ => false end)
      else
        (CState (fst (complete cap1 reqid [] 0 (cs_p s))) (cs_next s) (cs_calls s) (cs_fin s) false,
         match ob with CoWrite true => true | _ => false end)
  | CCancel k =>
      match lookup_fin k (cs_fin s) with
      | Some al =>
          (* the conn is down and the call WILL return one of [al]; but its goroutine may
             not have looked yet, and then ctx.Done is one more ready case of its select *)
          (CState (cs_p s) (cs_next s) (cs_calls s) (filter (fun e => negb (fst e =? k)) (cs_fin s)) (cs_down s),
           match ob with CoOutcome p e => allowed (p, e) (([], E_canceled) :: al) | _ => false end)
      | None =>
        match lookup k (cs_calls s) with
        | None => (s, match ob with CoNone => true | _ => false end)
        | Some id =>
            let (p1, m) := recv k (cs_p s) in
            (CState (delete id p1) (cs_next s) (filter (fun e => negb (fst e =? k)) (cs_calls s)) (cs_fin s) (cs_down s),
             match ob with
             | CoOutcome p e =>
                 allowed (p, e) (([], E_canceled) :: match m with Some x => [msg_outcome x] | None => [] end)
             | _ => false end)
        end
      end
  | CAwait k =>
      match lookup_fin k (cs_fin s) with
      | Some al =>
          (CState (cs_p s) (cs_next s) (cs_calls s) (filter (fun e => negb (fst e =? k)) (cs_fin s)) (cs_down s),
           match ob with CoOutcome p e => allowed (p, e) al | _ => false end)
      | None =>
        match lookup k (cs_calls s) with
        | None => (s, match ob with CoNone => true | _ => false end)
        | Some id =>
            let (p1, m) := recv k (cs_p s) in
            match m with
            | Some x =>
                (CState p1 (cs_next s) (filter (fun e => negb (fst e =? k)) (cs_calls s)) (cs_fin s) (cs_down s),
                 match ob with CoOutcome p e => outcome_eqb (p, e) (msg_outcome x) | _ => false end)
            | None => (s, false)    (* the call cannot have returned: the script never awaits such a call *)
            end
        end
      end
  | CReset => (shutdown E_read s, match ob with CoNone => true | _ => false end)
  | CGarbage => (shutdown E_invalid_frame s, match ob with CoNone => true | _ => false end)
  | CClose e => (shutdown (if e =? 0 then E_stopped else e) s, match ob with CoNone => true | _ => false end)
  end.

Fixpoint crun (s : cstate) (ops : list (cop * cobs)) : cstate * bool :=
  match ops with
  | [] => (s, true)
  | (o, ob) :: r => let (s1, ok1) := cstep s o ob in
                    let (s2, ok2) := crun s1 r in (s2, ok1 && ok2)
  end.

(* after the script the harness closes the conn (Close(nil)) and collects every call left *)
Definition cfinal_ok (s : cstate) (final : list (N * outcome)) : bool :=
  let s' := shutdown E_stopped s in
  Nat.eqb (length final) (length (cs_fin s'))
  && forallb (fun ko => match lookup_fin (fst ko) (cs_fin s') with
                        | Some al => allowed (snd ko) al
                        | None => false
                        end) final.
