(* Model/WKStream.v — C23 case-file interface: a client byte stream delivered in
   chunks to the gateway (Model/WKProto.v: DecodeFrame, Adapter_Decode, onData).
   Definitions only. *)
From WK Require Import Base.Base Base.Bytes.
From WK Require Import Gen.Consts_C22 Model.WKProto.
Open Scope N_scope.

(* what the harness sees of the real core.Server after each chunk: the batches of
   frames its adapter returned with progress, the buffered inbound bytes (taken as
   [] once closed) and the closed flag *)
Record step_obs := Step {
  st_batches : list (list (frame * meta)); st_inbound : bytes; st_closed : bool }.

Fixpoint feed_obs (limit : N) (sv : option N) (st : gw_state) (chunks : list bytes) : list step_obs :=
  match chunks with
  | [] => []
  | c :: cs =>
    let '(st1, b) := onData limit sv st c in
    Step b (if gw_closed st1 then [] else gw_inbound st1) (gw_closed st1)
    :: feed_obs limit sv st1 cs
  end.

(* The harness prints the buffered bytes of a step as [InSuffix k] when they are the
   last k bytes delivered so far (always the case unless something is wrong) — only
   to keep the case files small; [resolve_steps] expands it back to the bytes. *)
Inductive inb := InSuffix (k : N) | InBytes (b : bytes).
Record step_raw := StepR { sr_batches : list (list (frame * meta)); sr_inbound : inb; sr_closed : bool }.

Definition resolve_inb (received : bytes) (i : inb) : bytes :=
  match i with
  | InSuffix k => skipn (length received - N.to_nat k) received
  | InBytes b => b
  end.

Fixpoint resolve_steps (chunks : list bytes) (steps : list step_raw) (received : bytes) : list step_obs :=
  match steps with
  | [] => []
  | s :: ss =>
    let c := match chunks with c :: _ => c | [] => [] end in
    let received' := received ++ c in
    Step (sr_batches s) (resolve_inb received' (sr_inbound s)) (sr_closed s)
    :: resolve_steps (tl chunks) ss received'
  end.

(* likewise an encoding that is literally stream[off : off+len] is printed [EncAt off len] *)
Inductive enc_raw := EncAt (off len : N) | EncLit (e : enc_result).
Definition resolve_enc (stream : bytes) (e : enc_raw) : enc_result :=
  match e with
  | EncAt off len => EncOk (firstn (N.to_nat len) (skipn (N.to_nat off) stream))
  | EncLit r => r
  end.

Record c23_case := C23Case {
  c23_sv : option N;                 (* protocol version stored on the session, if any *)
  c23_limit : N;                     (* MaxInboundBytes of the server *)
  c23_frames : list frame;           (* frames the stream claims to be made of (may be []) *)
  c23_encs_raw : list enc_raw;       (* the implementation's EncodeFrame of each of them *)
  c23_chunks : list bytes;
  c23_whole : adapter_result;        (* Adapter.Decode on the concatenation of the chunks *)
  c23_steps_raw : list step_raw;     (* the gateway fed chunk by chunk *)
  c23_detach : bool }.               (* SEND payloads survived overwriting the input buffer *)

Definition c23_encs (c : c23_case) : list enc_result :=
  map (resolve_enc (concat (c23_chunks c))) (c23_encs_raw c).

Definition c23_steps (c : c23_case) : list step_obs :=
  resolve_steps (c23_chunks c) (c23_steps_raw c) [].

Definition step_eqb (a b : step_obs) : bool :=
  list_eqb (list_eqb fm_eqb) (st_batches a) (st_batches b)
  && bytes_eqb (st_inbound a) (st_inbound b) && Bool.eqb (st_closed a) (st_closed b).

Definition C23_mismatch (c : c23_case) : bool :=
  let v := sessionVersion_inbound (c23_sv c) in
  negb (list_eqb enc_result_eqb (map (fun f => EncodeFrame f v) (c23_frames c)) (c23_encs c)
        && adapter_result_eqb (Adapter_Decode (c23_sv c) (concat (c23_chunks c))) (c23_whole c)
        && list_eqb step_eqb (feed_obs (c23_limit c) (c23_sv c) gw_init (c23_chunks c)) (c23_steps c)).

(* ---- the property on the implementation's observations ------------------------- *)

Fixpoint encs_bytes (l : list enc_result) : option (list bytes) :=
  match l with
  | [] => Some []
  | EncOk b :: r => match encs_bytes r with Some bs => Some (b :: bs) | None => None end
  | _ :: _ => None
  end.

Definition frames_eqb (a b : list frame) : bool := list_eqb frame_eqb a b.

Definition sum_len (l : list bytes) : N := fold_right (fun b acc => blen b + acc) 0 l.

(* the type recorded in the Framer of every decoded frame is the frame's type *)
Definition types_ok (fs : list (frame * meta)) : bool :=
  forallb (fun fm => m_type (snd fm) =? frame_type (fst fm)) fs.

(* Walk over the steps of a VALID stream.  [expected] = the normalized frames,
   [encs] = their encodings, [got] = frames dispatched so far, [received] = bytes
   delivered so far.  After every chunk: no close; the frames dispatched so far are
   a prefix of the expected ones, in order; and the bytes of exactly these frames
   have been consumed — what is buffered is the rest of what was received (so no
   progress was ever reported on an incomplete frame, and nothing was lost). *)
Fixpoint valid_steps_ok (expected : list frame) (encs : list bytes)
         (chunks : list bytes) (steps : list step_obs) (got : list frame) (received : N) : bool :=
  match chunks, steps with
  | [], [] =>
      (* at the end everything has been dispatched and nothing is buffered *)
      frames_eqb got expected
  | c :: cs, s :: ss =>
      let fms := concat (st_batches s) in
      let got' := got ++ map fst fms in
      let received' := received + blen c in
      let k := length got' in
      negb (st_closed s)
      && types_ok fms
      && frames_eqb got' (firstn k expected)
      && (sum_len (firstn k encs) + blen (st_inbound s) =? received')
      && (match cs with [] => blen (st_inbound s) =? 0 | _ => true end)
      && valid_steps_ok expected encs cs ss got' received'
  | _, _ => false
  end.

(* safety on ANY input: no panic, consumed within the input (nothing is read past
   it), a closed session stays closed and dispatches nothing, decoded SEND payloads
   do not alias the read buffer *)
Fixpoint closed_stays (steps : list step_obs) (closed : bool) : bool :=
  match steps with
  | [] => true
  | s :: ss =>
    (if closed then st_closed s && (match st_batches s with [] => true | _ => false end) else true)
    && closed_stays ss (st_closed s)
  end.

Definition safety_ok (c : c23_case) : bool :=
  match c23_whole c with
  | APanic => false
  | AErr => true
  | AOk fs consumed => consumed <=? blen (concat (c23_chunks c))
  end
  && closed_stays (c23_steps c) false
  && (length (c23_steps c) =? length (c23_chunks c))%nat
  && c23_detach c.

(* a case is a valid stream when every claimed frame is within the protocol limits,
   the implementation encoded all of them, the chunks concatenate to these
   encodings, and the stream fits the inbound limit (limit 0 = unlimited) *)
Definition valid_stream (c : c23_case) : option (list bytes) :=
  let v := sessionVersion_inbound (c23_sv c) in
  match encs_bytes (c23_encs c) with
  | Some bs =>
    if forallb (within_limits v) (c23_frames c)
       && (length bs =? length (c23_frames c))%nat
       && bytes_eqb (concat (c23_chunks c)) (concat bs)
       && ((c23_limit c =? 0) || (blen (concat bs) <=? c23_limit c))
    then Some bs else None
  | None => None
  end.

Definition C23_monitor (c : c23_case) : N :=
  let v := sessionVersion_inbound (c23_sv c) in
  if negb (safety_ok c) then 1
  else
    match valid_stream c with
    | None => 0
    | Some bs =>
      let expected := map (normalize v) (c23_frames c) in
      if (match c23_whole c with
          | AOk fs consumed =>
              frames_eqb (map fst fs) expected && (consumed =? blen (concat (c23_chunks c)))
          | _ => false
          end)
         && valid_steps_ok expected bs (c23_chunks c) (c23_steps c) [] 0
      then 0 else 1
    end.
