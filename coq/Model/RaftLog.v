(* Model/RaftLog.v — C14: pkg/raftlog (pebble_store / pebble_writer / pebble_reader,
   memory.go) as executable Gallina, plus the reference Raft storage (etcd
   MemoryStorage semantics, driven the way pkg/slot/multiraft drives its own
   in-memory copy) and the C14 case record, mismatch and monitor.

   One Gallina definition per Go function, same names where possible.
   Pebble is modelled as per-scope rows (the key prefixes of different scopes are
   disjoint and every operation of a scope only touches keys below its own
   prefix); a Pebble batch is a list of row operations applied atomically.
   Snapshot payload directories are a map  id -> bytes  that is written
   ("published") before the batch that references the id is committed. *)
From WK Require Import Base.Base Gen.Consts_C14.
Open Scope N_scope.

(* ---------------------------------------------------------------- data *)

Record hardstate := HS { hs_term : N; hs_vote : N; hs_commit : N }.
Definition hs0 : hardstate := HS 0 0 0.

Definition conf := list N.          (* ConfState: voters only (sorted by the raft library) *)

(* raftpb.Entry.  [e_cc] is the decoded ConfChange (type, node) of an
   EntryConfChange entry; it is a function of (e_typ, e_data) computed by the
   harness with raftpb's own Unmarshal (the protobuf codec is not modelled). *)
Record entry := E { e_idx : N; e_term : N; e_typ : N; e_data : bytes; e_cc : option (N * N) }.

(* raftpb.Snapshot; [s_sum] = crc32c of the data (snapshotChecksum), supplied by the harness *)
Record snapshot := SN { s_idx : N; s_term : N; s_conf : conf; s_data : bytes; s_sum : N }.
Definition snap0 : snapshot := SN 0 0 [] [] 0.

Record smeta := SM { sm_idx : N; sm_term : N; sm_conf : conf }.   (* raftpb.SnapshotMetadata *)
Definition smeta0 : smeta := SM 0 0 [].
Definition smeta_of (s : snapshot) : smeta := SM (s_idx s) (s_term s) (s_conf s).

Inductive res (A : Type) := Ok (a : A) | Err (code : N).
Arguments Ok {A} a. Arguments Err {A} code.
(* error classes seen by a caller *)
Definition errSnapOutOfDate : N := 1.     (* raft.ErrSnapOutOfDate *)
Definition errOther : N := 2.             (* any other error of the package *)
Definition errInjected : N := 3.          (* commit refused by writeCommitTestHook *)

(* ---- equality tests *)
Definition conf_eqb : conf -> conf -> bool := list_eqb N.eqb.
Definition hs_eqb (a b : hardstate) : bool :=
  (hs_term a =? hs_term b) && (hs_vote a =? hs_vote b) && (hs_commit a =? hs_commit b).
Definition cc_eqb (a b : option (N * N)) : bool :=
  option_eqb (fun x y => (fst x =? fst y) && (snd x =? snd y)) a b.
Definition entry_eqb (a b : entry) : bool :=
  (e_idx a =? e_idx b) && (e_term a =? e_term b) && (e_typ a =? e_typ b)
  && bytes_eqb (e_data a) (e_data b) && cc_eqb (e_cc a) (e_cc b).
Definition entries_eqb : list entry -> list entry -> bool := list_eqb entry_eqb.
(* the checksum is not an observable of a snapshot *)
Definition snap_eqb (a b : snapshot) : bool :=
  (s_idx a =? s_idx b) && (s_term a =? s_term b) && conf_eqb (s_conf a) (s_conf b)
  && bytes_eqb (s_data a) (s_data b).

(* ---- raftpb.Entry.Size (gogoproto): sovRaft = length of the varint *)
Fixpoint sov_fuel (f : nat) (x : N) : N :=
  match f with
  | O => 1
  | S f' => if x <? 128 then 1 else 1 + sov_fuel f' (x / 128)
  end.
Definition sovRaft (x : N) : N := sov_fuel 10 x.
Definition blen (b : bytes) : N := N.of_nat (length b).
Definition entry_size (e : entry) : N :=
  (1 + sovRaft (e_typ e)) + (1 + sovRaft (e_term e)) + (1 + sovRaft (e_idx e))
  + match e_data e with [] => 0 | _ => 1 + blen (e_data e) + sovRaft (blen (e_data e)) end.

(* the size window shared by pebbleStore.Entries and memoryStore.Entries:
     if maxSize > 0 && len(out) > 0 && size+entry.Size() > maxSize { break } *)
Fixpoint limit_size_from (maxSize : N) (n : nat) (size : N) (l : list entry) : list entry :=
  match l with
  | [] => []
  | e :: r =>
      if (0 <? maxSize) && (match n with O => false | _ => true end) && (maxSize <? size + entry_size e)
      then []
      else e :: limit_size_from maxSize (S n) (size + entry_size e) r
  end.
Definition limit_size (maxSize : N) (l : list entry) : list entry := limit_size_from maxSize 0 0 l.

(* ---------------------------------------------------------------- conf state (meta.go) *)

Fixpoint cs_insert (v : N) (l : conf) : conf :=
  match l with
  | [] => [v]
  | x :: r => if v <? x then v :: l else if v =? x then l else x :: cs_insert v r
  end.
Definition cs_remove (v : N) (l : conf) : conf := filter (fun x => negb (x =? v)) l.

(* confchange.Changer.apply for one ConfChangeSingle, followed by the
   "removed all voters" check; learners / joint configs are not modelled *)
Definition apply_cc (c : conf) (cc : N * N) : option conf :=
  let c' := if snd cc =? 0 then c
            else if fst cc =? c14_ConfChangeAddNode then cs_insert (snd cc) c
            else if fst cc =? c14_ConfChangeRemoveNode then cs_remove (snd cc) c
            else c in
  match c' with [] => None | _ => Some c' end.

(* confchange.Restore for a voters-only ConfState: one Simple(AddNode v) per voter *)
Fixpoint restore_conf (acc : conf) (vs : list N) : option conf :=
  match vs with
  | [] => Some acc
  | v :: r => match apply_cc acc (c14_ConfChangeAddNode, v) with
              | None => None
              | Some acc' => restore_conf acc' r
              end
  end.

Fixpoint derive_entries (c : conf) (last committed : N) (ents : list entry) : option conf :=
  match ents with
  | [] => Some c
  | e :: r =>
      if (e_idx e <=? last) || (committed <? e_idx e) then derive_entries c last committed r
      else if e_typ e =? c14_EntryConfChange then
        match e_cc e with
        | None => None                       (* cc.Unmarshal error *)
        | Some cc => match apply_cc c cc with
                     | None => None
                     | Some c' => derive_entries c' last committed r
                     end
        end
      else derive_entries c last committed r  (* EntryNormal; ConfChangeV2 is not modelled *)
  end.

(* deriveConfState(snapshot, entries, committed) *)
Definition deriveConfState (sm : smeta) (ents : list entry) (committed : N) : option conf :=
  let emptysnap := sm_idx sm =? 0 in                       (* raft.IsEmptySnap *)
  let base := if emptysnap then [] else sm_conf sm in
  let last := if emptysnap then 0 else sm_idx sm in
  match (match base with [] => Some [] | _ => restore_conf [] base end) with
  | None => None
  | Some c0 => derive_entries c0 last (if committed <? last then last else committed) ents
  end.

(* ---------------------------------------------------------------- rows of one scope *)

Record manifest := MF { mf_idx : N; mf_term : N; mf_conf : conf; mf_size : N; mf_sum : N; mf_id : N }.
Record meta := M { m_first : N; m_last : N; m_applied : N; m_sidx : N; m_sterm : N; m_conf : conf }.
Definition meta0 : meta := M 0 0 0 0 0 [].

Record rows := RW {
  k_hs : hardstate;               (* recordTypeHardState; a missing row reads as the zero HardState *)
  k_applied : N;                  (* recordTypeAppliedIndex; missing reads as 0 *)
  k_cfg : N;                      (* recordTypeConfigIndex *)
  k_snap : option manifest;       (* recordTypeSnapshot *)
  k_meta : option meta;           (* recordTypeMeta *)
  k_ents : list entry }.          (* recordTypeEntry rows, ascending by key (= e_idx) *)
Definition rows0 : rows := RW hs0 0 0 None None [].

Fixpoint row_put (e : entry) (l : list entry) : list entry :=
  match l with
  | [] => [e]
  | x :: r => if e_idx e <? e_idx x then e :: l
              else if e_idx e =? e_idx x then e :: r
              else x :: row_put e r
  end.
(* DeleteRange [lo, hi)   (hi = None: up to encodeEntryPrefixEnd) *)
Definition in_range (lo : N) (hi : option N) (i : N) : bool :=
  (lo <=? i) && match hi with None => true | Some h => i <? h end.
Definition row_del (lo : N) (hi : option N) (l : list entry) : list entry :=
  filter (fun x => negb (in_range lo hi (e_idx x))) l.
Definition row_get (i : N) (l : list entry) : option entry := find (fun x => e_idx x =? i) l.

(* operations staged in a pebble.Batch, tagged with the scope whose prefix they address *)
Inductive bop :=
| BHs (sc : N) (h : hardstate)
| BApplied (sc : N) (i : N)
| BCfg (sc : N) (i : N)
| BSnap (sc : N) (m : manifest)
| BMeta (sc : N) (m : meta)
| BEnt (sc : N) (e : entry)
| BDel (sc : N) (lo : N) (hi : option N).

Definition bop_scope (b : bop) : N :=
  match b with BHs s _ | BApplied s _ | BCfg s _ | BSnap s _ | BMeta s _ | BEnt s _ | BDel s _ _ => s end.

Definition apply_bop_rows (r : rows) (b : bop) : rows :=
  match b with
  | BHs _ h => RW h (k_applied r) (k_cfg r) (k_snap r) (k_meta r) (k_ents r)
  | BApplied _ i => RW (k_hs r) i (k_cfg r) (k_snap r) (k_meta r) (k_ents r)
  | BCfg _ i => RW (k_hs r) (k_applied r) i (k_snap r) (k_meta r) (k_ents r)
  | BSnap _ m => RW (k_hs r) (k_applied r) (k_cfg r) (Some m) (k_meta r) (k_ents r)
  | BMeta _ m => RW (k_hs r) (k_applied r) (k_cfg r) (k_snap r) (Some m) (k_ents r)
  | BEnt _ e => RW (k_hs r) (k_applied r) (k_cfg r) (k_snap r) (k_meta r) (row_put e (k_ents r))
  | BDel _ lo hi => RW (k_hs r) (k_applied r) (k_cfg r) (k_snap r) (k_meta r) (row_del lo hi (k_ents r))
  end.

(* association lists keyed by scope *)
Fixpoint aget {A} (k : N) (l : list (N * A)) : option A :=
  match l with
  | [] => None
  | (k', v) :: r => if k' =? k then Some v else aget k r
  end.
Fixpoint aset {A} (k : N) (v : A) (l : list (N * A)) : list (N * A) :=
  match l with
  | [] => [(k, v)]
  | (k', v') :: r => if k' =? k then (k, v) :: r else (k', v') :: aset k v r
  end.
Definition rows_of (sc : N) (kv : list (N * rows)) : rows :=
  match aget sc kv with Some r => r | None => rows0 end.

Definition apply_bop (kv : list (N * rows)) (b : bop) : list (N * rows) :=
  aset (bop_scope b) (apply_bop_rows (rows_of (bop_scope b) kv) b) kv.
Definition apply_batch (kv : list (N * rows)) (b : list bop) : list (N * rows) :=
  fold_left apply_bop b kv.

(* ---------------------------------------------------------------- writer state (pebble_writer.go) *)

Record wstate := WS {
  w_hs : hardstate;
  w_snap : smeta;                 (* scopeWriteState.snapshot (metadata only) *)
  w_mf : option manifest;         (* scopeWriteState.snapshotManifest *)
  w_ents : list entry;            (* the cached tail: payloads only for conf changes *)
  w_meta : meta }.

Definition is_cc_typ (t : N) : bool := (t =? c14_EntryConfChange) || (t =? c14_EntryConfChangeV2).

(* cloneCachedEntry / compactCachedEntryPayloads *)
Definition cloneCachedEntry (e : entry) : entry :=
  if is_cc_typ (e_typ e) then e else E (e_idx e) (e_term e) (e_typ e) [] (e_cc e).

(* "cut": existing[:cut] where cut is the first position with Index >= first *)
Fixpoint take_below (first : N) (l : list entry) : list entry :=
  match l with
  | [] => []
  | x :: r => if first <=? e_idx x then [] else x :: take_below first r
  end.

Definition replaceCachedEntriesFromIndex (existing : list entry) (first : N) (incoming : list entry) : list entry :=
  take_below first existing ++ map cloneCachedEntry incoming.

Definition trimCachedEntriesAfterSnapshot (existing : list entry) (snapshotIndex : N) : list entry :=
  map cloneCachedEntry (filter (fun e => snapshotIndex <? e_idx e) existing).

Definition filterEntriesAfterSnapshot (ents : list entry) (snapshotIndex : N) : list entry :=
  filter (fun e => snapshotIndex <? e_idx e) ents.

Definition snapshotManifestEquivalent (a b : manifest) : bool :=
  (mf_idx a =? mf_idx b) && (mf_term a =? mf_term b) && (mf_size a =? mf_size b)
  && (mf_sum a =? mf_sum b) && conf_eqb (mf_conf a) (mf_conf b).

Definition last_idx_of (l : list entry) : option N :=
  match rev l with [] => None | e :: _ => Some (e_idx e) end.

Definition set_first (m : meta) (f : N) : meta := M f (m_last m) (m_applied m) (m_sidx m) (m_sterm m) (m_conf m).
Definition set_applied (m : meta) (a : N) : meta := M (m_first m) (m_last m) a (m_sidx m) (m_sterm m) (m_conf m).
Definition set_commit (h : hardstate) (c : N) : hardstate := HS (hs_term h) (hs_vote h) c.

(* updateScopeWriteMeta *)
Definition updateScopeWriteMeta (st : wstate) : res wstate :=
  match deriveConfState (w_snap st) (w_ents st) (hs_commit (w_hs st)) with
  | None => Err errOther
  | Some cs =>
      let sidx := sm_idx (w_snap st) in
      let last := match last_idx_of (w_ents st) with
                  | Some li => if sidx <? li then li else sidx
                  | None => sidx
                  end in
      let first0 := m_first (w_meta st) in
      let first1 :=
        if first0 =? 0 then
          match w_ents st with
          | e :: _ => e_idx e
          | [] => if negb (sidx =? 0) && (last <? c14_MaxUint64) then last + 1 else 1
          end
        else first0 in
      let first2 := if (last <? first1) && (last <? c14_MaxUint64) then last + 1 else first1 in
      Ok (WS (w_hs st) (w_snap st) (w_mf st) (w_ents st)
             (M first2 last (m_applied (w_meta st)) sidx (sm_term (w_snap st)) cs))
  end.

(* persistentWriteState *)
Record wsave := WSv { ws_hs : option hardstate; ws_ents : list entry; ws_snap : option smeta; ws_mf : option manifest }.

(* saveOp.apply, sub-step 1: the snapshot.  Returns staged ops, state, hs, snapshotIndex *)
Definition save_snapshot_step (sc : N) (st : wstate) (hs : hardstate) (sv : wsave)
  : res (list bop * wstate * hardstate * N) :=
  match ws_snap sv with
  | None => Ok ([], st, hs, 0)
  | Some sm =>
      match ws_mf sv with
      | None => Err errOther                                   (* snapshot save missing manifest *)
      | Some mf =>
          if sm_idx sm <? sm_idx (w_snap st) then Err errSnapOutOfDate
          else if (sm_idx sm =? sm_idx (w_snap st))
                  && match w_mf st with
                     | Some old => negb (snapshotManifestEquivalent old mf)   (* allowSnapshotReplace = false *)
                     | None => false
                     end
          then Err errOther                                    (* same-index snapshot manifest mismatch *)
          else
            let i := sm_idx sm in
            let del := if i <? c14_MaxUint64 then BDel sc 0 (Some (i + 1)) else BDel sc 0 None in
            let first' := if i <? c14_MaxUint64 then i + 1 else c14_MaxUint64 in
            let hs' := if hs_commit hs <? i then set_commit hs i else hs in
            Ok ([BSnap sc mf; del],
                WS (w_hs st) sm (Some mf) (trimCachedEntriesAfterSnapshot (w_ents st) i)
                   (set_first (w_meta st) first'),
                hs', i)
      end
  end.

(* sub-step 2: the entries *)
Definition save_entries_step (sc : N) (st : wstate) (sv : wsave) (snapshotIndex : N)
  : list bop * wstate :=
  let entries := if 0 <? snapshotIndex then filterEntriesAfterSnapshot (ws_ents sv) snapshotIndex
                 else ws_ents sv in
  match entries with
  | [] => ([], st)
  | e0 :: _ =>
      let first := e_idx e0 in
      let m := w_meta st in
      let m' := if (m_last m <? m_first m) || (first <? m_first m) then set_first m first else m in
      (* a pure tail append stages no range tombstone *)
      let del := if first <=? m_last m' then [BDel sc first None] else [] in
      (del ++ map (BEnt sc) entries,
       WS (w_hs st) (w_snap st) (w_mf st) (replaceCachedEntriesFromIndex (w_ents st) first entries) m')
  end.

(* saveOp.apply (allowSnapshotReplace = false) *)
Definition saveOp_apply (sc : N) (st : wstate) (sv : wsave) : res (list bop * wstate) :=
  let hs := match ws_hs sv with Some h => h | None => w_hs st end in
  let persistHardState := match ws_hs sv, ws_snap sv with None, None => false | _, _ => true end in
  match save_snapshot_step sc st hs sv with
  | Err c => Err c
  | Ok (b1, st1, hs1, snapshotIndex) =>
      let '(b2, st2) := save_entries_step sc st1 sv snapshotIndex in
      let b3 := if persistHardState then [BHs sc hs1] else [] in
      match updateScopeWriteMeta (WS hs1 (w_snap st2) (w_mf st2) (w_ents st2) (w_meta st2)) with
      | Err c => Err c
      | Ok st3 => Ok (b1 ++ b2 ++ b3 ++ [BMeta sc (w_meta st3)], st3)      (* store.setMeta *)
      end
  end.

(* markAppliedOp.apply / markConfigAppliedOp.apply *)
Definition markAppliedOp_apply (sc : N) (st : wstate) (index : N) : list bop * wstate :=
  let m := set_applied (w_meta st) index in
  ([BApplied sc index; BMeta sc m], WS (w_hs st) (w_snap st) (w_mf st) (w_ents st) m).
Definition markConfigAppliedOp_apply (sc : N) (st : wstate) (index : N) : list bop * wstate :=
  ([BCfg sc index], st).

Inductive writeOp := WOSave (sv : wsave) | WOMark (i : N) | WOCfg (i : N).
Definition writeOp_apply (sc : N) (st : wstate) (o : writeOp) : res (list bop * wstate) :=
  match o with
  | WOSave sv => saveOp_apply sc st sv
  | WOMark i => Ok (markAppliedOp_apply sc st i)
  | WOCfg i => Ok (markConfigAppliedOp_apply sc st i)
  end.

(* ---------------------------------------------------------------- readers (pebble_reader.go, meta.go) *)

(* validateManifestMetaConsistency *)
Definition validateManifestMetaConsistency (r : rows) : bool :=
  match k_snap r, k_meta r with
  | Some _, None => false
  | None, Some m => m_sidx m =? 0
  | None, None => true
  | Some mf, Some m =>
      (m_sidx m =? mf_idx mf) && (m_sterm m =? mf_term mf)
      && negb ((m_last m <=? m_sidx m) && negb (conf_eqb (m_conf m) (mf_conf mf)))
  end.

(* updateLogMeta (meta.go) *)
Definition updateLogMeta (m : meta) (sm : smeta) (ents : list entry) (committed : N) : res meta :=
  match deriveConfState sm ents committed with
  | None => Err errOther
  | Some cs =>
      let '(f, l) :=
        match ents with
        | e :: _ => (e_idx e, match last_idx_of ents with Some li => li | None => e_idx e end)
        | [] => if negb (sm_idx sm =? 0) then (sm_idx sm + 1, sm_idx sm) else (1, 0)
        end in
      Ok (M f l (m_applied m) (sm_idx sm) (sm_term sm) cs)
  end.

(* loadEntries(lo, hi): 0 means "unbounded" on either side *)
Definition loadEntries (r : rows) (lo hi : N) : list entry :=
  filter (fun e => (lo <=? e_idx e) && ((hi =? 0) || (e_idx e <? hi))) (k_ents r).

Definition smeta_of_manifest (mf : manifest) : smeta := SM (mf_idx mf) (mf_term mf) (mf_conf mf).

(* currentMeta: the stored meta row, or the legacy reconstruction *)
Definition currentMeta (r : rows) : res (meta * bool) :=
  if negb (validateManifestMetaConsistency r) then Err errOther else
  match k_meta r with
  | Some m => Ok (m, true)
  | None =>
      match updateLogMeta (M 0 0 (k_applied r) 0 0 []) smeta0 (loadEntries r 0 0) (hs_commit (k_hs r)) with
      | Err c => Err c
      | Ok m => Ok (m, false)
      end
  end.

(* ensureMeta: persists a reconstructed meta row (a read that writes) *)
Definition ensureMeta (r : rows) : res (meta * rows) :=
  match currentMeta r with
  | Err c => Err c
  | Ok (m, true) => Ok (m, r)
  | Ok (m, false) => Ok (m, RW (k_hs r) (k_applied r) (k_cfg r) (k_snap r) (Some m) (k_ents r))
  end.

(* loadScopeWriteState on a stateCache miss *)
Definition load_from_rows (r : rows) : res wstate :=
  if negb (validateManifestMetaConsistency r) then Err errOther else
  let activeFirst := match k_snap r with
                     | Some mf => if mf_idx mf <? c14_MaxUint64 then mf_idx mf + 1 else 0
                     | None => 0
                     end in
  let ents := map cloneCachedEntry (loadEntries r activeFirst 0) in
  let sm := match k_snap r with Some mf => smeta_of_manifest mf | None => smeta0 end in
  match k_meta r with
  | Some m => Ok (WS (k_hs r) sm (k_snap r) ents m)
  | None =>
      match updateLogMeta meta0 sm ents (hs_commit (k_hs r)) with
      | Err c => Err c
      | Ok m => Ok (WS (k_hs r) sm (k_snap r) ents m)
      end
  end.

(* ---------------------------------------------------------------- the DB *)

Record cstate := CS {
  c_kv : list (N * rows);          (* durable Pebble contents, per scope *)
  c_cache : list (N * wstate);     (* DB.stateCache *)
  c_files : list (N * bytes);      (* published snapshot payload directories, by id *)
  c_next : N }.                    (* next snapshot id (the random nonce in the code) *)
Definition cstate0 : cstate := CS [] [] [] 0.

(* loadScopeWriteState(cache, scope) *)
Definition loadScopeWriteState (c : cstate) (lc : list (N * wstate)) (sc : N) : res wstate :=
  match aget sc lc with
  | Some st => Ok st
  | None => match aget sc (c_cache c) with
            | Some st => Ok st
            | None => load_from_rows (rows_of sc (c_kv c))
            end
  end.

(* the loop of flushWriteRequests: stage every request into one batch *)
Fixpoint stage_requests (c : cstate) (lc : list (N * wstate)) (batch : list bop)
         (reqs : list (N * writeOp)) : res (list bop * list (N * wstate)) :=
  match reqs with
  | [] => Ok (batch, lc)
  | (sc, o) :: r =>
      match loadScopeWriteState c lc sc with
      | Err e => Err e
      | Ok st =>
          match writeOp_apply sc st o with
          | Err e => Err e
          | Ok (b, st') => stage_requests c (aset sc st' lc) (batch ++ b) r
          end
      end
  end.

Definition publish_cache (lc cache : list (N * wstate)) : list (N * wstate) :=
  fold_left (fun acc p => aset (fst p) (snd p) acc) lc cache.

(* flushWriteRequests; [hook_fails] = writeCommitTestHook returns an error *)
Definition flushWriteRequests (c : cstate) (hook_fails : bool) (reqs : list (N * writeOp)) : cstate * N :=
  match stage_requests c [] [] reqs with
  | Err e => (c, e)
  | Ok (batch, lc) =>
      if hook_fails then (c, errInjected)
      else (CS (apply_batch (c_kv c) batch) (publish_cache lc (c_cache c)) (c_files c) (c_next c), 0)
  end.

(* ---- pebbleStore.Save up to the submitWrite: planSnapshotSave + prepareAndWriteSnapshot + publish *)
Inductive wreq :=
| WSave (hs : option hardstate) (ents : list entry) (snap : option snapshot)
| WMark (i : N)
| WCfg (i : N).

Definition plan_save (c : cstate) (sc : N) (hs : option hardstate) (ents : list entry) (snap : option snapshot)
  : res (cstate * wsave) :=
  match snap with
  | None => Ok (c, WSv hs ents None None)
  | Some s =>
      let r := rows_of sc (c_kv c) in
      if negb (validateManifestMetaConsistency r) then Err errOther else
      let sm := smeta_of s in
      let fents := filterEntriesAfterSnapshot ents (s_idx s) in
      let external :=
        if (s_idx s =? 0) || (s_term s =? 0) then Err errOther      (* snapshotStore.prepare *)
        else
          let mf := MF (s_idx s) (s_term s) (s_conf s) (blen (s_data s)) (s_sum s) (c_next c) in
          Ok (CS (c_kv c) (c_cache c) ((c_next c, s_data s) :: c_files c) (c_next c + 1),
              WSv hs fents (Some sm) (Some mf)) in
      match k_snap r with
      | None => external
      | Some mf =>
          if s_idx s <? mf_idx mf then Err errSnapOutOfDate
          else if mf_idx mf <? s_idx s then external
          else if negb (s_term s =? mf_term mf) || negb (conf_eqb (s_conf s) (mf_conf mf))
                  || negb (blen (s_data s) =? mf_size mf) || negb (s_sum s =? mf_sum mf)
          then Err errOther
          else Ok (c, WSv hs fents (Some sm) (Some mf))
      end
  end.

Definition plan_req (c : cstate) (sc : N) (q : wreq) : res (cstate * writeOp) :=
  match q with
  | WSave hs ents snap =>
      match plan_save c sc hs ents snap with
      | Err e => Err e
      | Ok (c', sv) => Ok (c', WOSave sv)
      end
  | WMark i => Ok (c, WOMark i)
  | WCfg i => Ok (c, WOCfg i)
  end.

(* one group of concurrent requests (distinct scopes): everything that was
   enqueued is flushed as one batch.  Returns the state and, per request, either
   its own pre-enqueue error or None (= it shares the result of the flush). *)
Fixpoint plan_group (c : cstate) (reqs : list (N * wreq))
  : cstate * list (N * writeOp) * list (option N) :=
  match reqs with
  | [] => (c, [], [])
  | (sc, q) :: r =>
      match plan_req c sc q with
      | Err e => let '(c', qs, cs) := plan_group c r in (c', qs, Some e :: cs)
      | Ok (c1, o) => let '(c', qs, cs) := plan_group c1 r in (c', (sc, o) :: qs, None :: cs)
      end
  end.

Definition drop_cache (c : cstate) : cstate := CS (c_kv c) [] (c_files c) (c_next c).

(* mode 0: commit; 1: writeCommitTestHook refuses the commit, the DB stays open;
   2: the process is killed at the commit cut and reopened on the files as they were *)
Definition run_group (c : cstate) (mode : N) (reqs : list (N * wreq)) : cstate * list N :=
  let '(c1, qs, pre) := plan_group c reqs in
  let '(c2, code) := match qs with
                     | [] => (c1, 0)
                     | _ => flushWriteRequests c1 (negb (mode =? 0)) qs
                     end in
  ((if mode =? 2 then drop_cache c2 else c2),
   map (fun p => match p with Some e => e | None => code end) pre).

Definition reopen (c : cstate) : cstate := drop_cache c.

(* ---- observable reads of one scope *)
Record fullobs := FO {
  o_hs : hardstate; o_conf : conf; o_applied : N; o_cfg : N;
  o_first : N; o_last : N; o_snap : snapshot; o_ents : list entry }.

Definition fullobs_eqb (a b : fullobs) : bool :=
  hs_eqb (o_hs a) (o_hs b) && conf_eqb (o_conf a) (o_conf b) && (o_applied a =? o_applied b)
  && (o_cfg a =? o_cfg b) && (o_first a =? o_first b) && (o_last a =? o_last b)
  && snap_eqb (o_snap a) (o_snap b) && entries_eqb (o_ents a) (o_ents b).

Definition set_rows (c : cstate) (sc : N) (r : rows) : cstate :=
  CS (aset sc r (c_kv c)) (c_cache c) (c_files c) (c_next c).

Fixpoint file_get (id : N) (l : list (N * bytes)) : option bytes :=
  match l with
  | [] => None
  | (k, d) :: r => if k =? id then Some d else file_get id r
  end.

(* loadSnapshot: manifest (validated against the meta row) + payload files *)
Definition loadSnapshot (c : cstate) (sc : N) : option snapshot :=
  let r := rows_of sc (c_kv c) in
  if negb (validateManifestMetaConsistency r) then None else
  match k_snap r with
  | None => Some snap0
  | Some mf =>
      match file_get (mf_id mf) (c_files c) with
      | None => None
      | Some d => if (blen d =? mf_size mf) then Some (SN (mf_idx mf) (mf_term mf) (mf_conf mf) d (mf_sum mf))
                  else None
      end
  end.

(* InitialState, FirstIndex, LastIndex, Snapshot, Entries(0,0,0) in this order *)
Definition observe (c : cstate) (sc : N) : cstate * option fullobs :=
  let r := rows_of sc (c_kv c) in
  match ensureMeta r with
  | Err _ => (c, None)
  | Ok (m, r') =>
      let c' := match k_meta r with Some _ => c | None => set_rows c sc r' end in
      match loadSnapshot c' sc with
      | None => (c', None)
      | Some s =>
          (c', Some (FO (k_hs r) (m_conf m) (m_applied m) (k_cfg r) (m_first m) (m_last m) s
                        (loadEntries r 0 0)))
      end
  end.

(* pebbleStore.Entries(lo, hi, maxSize) *)
Definition pebble_entries (c : cstate) (sc : N) (lo hi maxSize : N) : list entry :=
  limit_size maxSize (loadEntries (rows_of sc (c_kv c)) lo hi).

(* pebbleStore.Term(index) *)
Definition pebble_term (c : cstate) (sc : N) (index : N) : cstate * option N :=
  let r := rows_of sc (c_kv c) in
  match row_get index (k_ents r) with
  | Some e => (c, Some (e_term e))
  | None =>
      if index =? 0 then (c, Some 0) else
      match ensureMeta r with
      | Err _ => (c, None)
      | Ok (m, r') =>
          let c' := match k_meta r with Some _ => c | None => set_rows c sc r' end in
          (c', Some (if m_sidx m =? index then m_sterm m else 0))
      end
  end.

(* ---------------------------------------------------------------- memory.go *)

Record mstate := MS { ms_hs : hardstate; ms_applied : N; ms_cfg : N; ms_ents : list entry; ms_snap : snapshot }.
Definition mstate0 : mstate := MS hs0 0 0 [] snap0.

(* replaceEntriesFromIndex / trimEntriesAfterSnapshot (meta.go) *)
Definition replaceEntriesFromIndex (existing : list entry) (first : N) (incoming : list entry) : list entry :=
  take_below first existing ++ incoming.
Definition trimEntriesAfterSnapshot (existing : list entry) (snapshotIndex : N) : list entry :=
  filter (fun e => snapshotIndex <? e_idx e) existing.

(* memoryStore.Save *)
Definition mem_save (m : mstate) (hs : option hardstate) (ents : list entry) (snap : option snapshot) : mstate :=
  let h1 := match hs with Some h => h | None => ms_hs m end in
  let '(h2, e2, s2) :=
    match snap with
    | None => (h1, ms_ents m, ms_snap m)
    | Some s => ((if hs_commit h1 <? s_idx s then set_commit h1 (s_idx s) else h1),
                 trimEntriesAfterSnapshot (ms_ents m) (s_idx s), s)
    end in
  let e3 := match ents with
            | [] => e2
            | e0 :: _ => replaceEntriesFromIndex e2 (e_idx e0) ents
            end in
  MS h2 (ms_applied m) (ms_cfg m) e3 s2.

Definition mem_req (m : mstate) (q : wreq) : mstate :=
  match q with
  | WSave hs ents snap => mem_save m hs ents snap
  | WMark i => MS (ms_hs m) i (ms_cfg m) (ms_ents m) (ms_snap m)
  | WCfg i => MS (ms_hs m) (ms_applied m) i (ms_ents m) (ms_snap m)
  end.

Definition mem_first (m : mstate) : N :=
  match ms_ents m with
  | e :: _ => e_idx e
  | [] => if negb (s_idx (ms_snap m) =? 0) then s_idx (ms_snap m) + 1 else 1
  end.
Definition mem_last (m : mstate) : N :=
  match last_idx_of (ms_ents m) with Some li => li | None => s_idx (ms_snap m) end.

(* InitialState, FirstIndex, LastIndex, Snapshot, Entries(0, MaxUint64, 0) *)
Definition mem_observe (m : mstate) : option fullobs :=
  match deriveConfState (smeta_of (ms_snap m)) (ms_ents m) (hs_commit (ms_hs m)) with
  | None => None
  | Some cs => Some (FO (ms_hs m) cs (ms_applied m) (ms_cfg m) (mem_first m) (mem_last m) (ms_snap m)
                        (filter (fun e => e_idx e <? c14_MaxUint64) (ms_ents m)))
  end.

Definition mem_entries (m : mstate) (lo hi maxSize : N) : list entry :=
  limit_size maxSize (filter (fun e => negb ((e_idx e <? lo) || (hi <=? e_idx e))) (ms_ents m)).

Definition mem_term (m : mstate) (index : N) : N :=
  match find (fun e => e_idx e =? index) (ms_ents m) with
  | Some e => e_term e
  | None => if s_idx (ms_snap m) =? index then s_term (ms_snap m) else 0
  end.

(* ---------------------------------------------------------------- the reference Raft storage *)

(* etcd raft.MemoryStorage as a value: hardState, snapshot, ents.  The dummy
   entry ents[0] always carries (snapshot index, snapshot term) here because
   multiraft only compacts at the snapshot index, so it is not stored separately;
   r_ents are ents[1:]. *)
Record rstate := RS { r_hs : hardstate; r_applied : N; r_cfg : N; r_snap : snapshot; r_ents : list entry }.
Definition rstate0 : rstate := RS hs0 0 0 snap0 [].

Definition r_sidx (r : rstate) : N := s_idx (r_snap r).
Definition r_first (r : rstate) : N := r_sidx r + 1.                                   (* firstIndex *)
Definition r_last (r : rstate) : N := r_sidx r + N.of_nat (length (r_ents r)).          (* lastIndex *)

(* MemoryStorage.Term: ErrCompacted / ErrUnavailable are None *)
Definition r_term (r : rstate) (i : N) : option N :=
  if i <? r_sidx r then None
  else if i =? r_sidx r then Some (s_term (r_snap r))
  else match nth_error (r_ents r) (N.to_nat (i - r_sidx r - 1)) with
       | Some e => Some (e_term e)
       | None => None
       end.

(* raftLog.matchTerm against the stable storage *)
Definition r_match_term (r : rstate) (i t : N) : bool :=
  match r_term r i with Some t' => t' =? t | None => false end.

(* MemoryStorage.Append; None = the library panics ("missing log entry") *)
Definition ms_Append (r : rstate) (ents : list entry) : option rstate :=
  match ents with
  | [] => Some r
  | e0 :: _ =>
      let first := r_first r in
      let last_in := e_idx e0 + N.of_nat (length ents) - 1 in
      if last_in <? first then Some r
      else
        let ents' := if e_idx e0 <? first then skipn (N.to_nat (first - e_idx e0)) ents else ents in
        match ents' with
        | [] => Some r
        | e1 :: _ =>
            let offset := e_idx e1 - r_sidx r in          (* position in ms.ents, dummy included *)
            let len := N.of_nat (length (r_ents r)) + 1 in
            if offset <=? len
            then Some (RS (r_hs r) (r_applied r) (r_cfg r) (r_snap r)
                          (firstn (N.to_nat (offset - 1)) (r_ents r) ++ ents'))
            else None
        end
  end.

(* MemoryStorage.ApplySnapshot (the ErrSnapOutOfDate test is done by the caller) *)
Definition ms_ApplySnapshot (r : rstate) (s : snapshot) : rstate :=
  RS (r_hs r) (r_applied r) (r_cfg r) s [].
(* MemoryStorage.CreateSnapshot(i, cs, data) followed by Compact(i): the suffix stays *)
Definition ms_CreateSnapshotCompact (r : rstate) (s : snapshot) : rstate :=
  RS (r_hs r) (r_applied r) (r_cfg r) s (skipn (N.to_nat (s_idx s - r_sidx r)) (r_ents r)).

Inductive rres := ROk (r : rstate) | RRej (code : N) | RInvalid.

Definition same_snapshot (a b : snapshot) : bool := snap_eqb a b.

(* The Storage.Save contract on the reference: what multiraft does to its own
   MemoryStorage for the same PersistentState (applyReadyToMemory for a Ready,
   CreateSnapshot+Compact for a local compaction), with the package's result
   classes for snapshots that are not newer.
   [keep] = false is the reference.  [keep] = true is the variant that keeps the
   log suffix above a snapshot that does NOT match the log (known finding K1). *)
Definition ref_save (keep : bool) (r : rstate) (hs : option hardstate) (ents : list entry)
           (snap : option snapshot) : rres :=
  let h1 := match hs with Some h => h | None => r_hs r end in
  let step1 : rres :=
    match snap with
    | None => ROk (RS h1 (r_applied r) (r_cfg r) (r_snap r) (r_ents r))
    | Some s =>
        if s_idx s <? r_sidx r then RRej errSnapOutOfDate
        else
          let h2 := if hs_commit h1 <? s_idx s then set_commit h1 (s_idx s) else h1 in
          if s_idx s =? r_sidx r then
          (if same_snapshot s (r_snap r) then ROk (RS h2 (r_applied r) (r_cfg r) (r_snap r) (r_ents r))
           else RRej errOther)
        else
          let r1 := RS h2 (r_applied r) (r_cfg r) (r_snap r) (r_ents r) in
          if r_match_term r (s_idx s) (s_term s) || keep
          then ROk (ms_CreateSnapshotCompact r1 s)
          else ROk (ms_ApplySnapshot r1 s)
    end in
  match step1 with
  | ROk r1 => match ms_Append r1 ents with Some r2 => ROk r2 | None => RInvalid end
  | x => x
  end.

Definition ref_req (keep : bool) (r : rstate) (q : wreq) : rres :=
  match q with
  | WSave hs ents snap => ref_save keep r hs ents snap
  | WMark i => ROk (RS (r_hs r) i (r_cfg r) (r_snap r) (r_ents r))
  | WCfg i => ROk (RS (r_hs r) (r_applied r) i (r_snap r) (r_ents r))
  end.

Definition ref_conf (r : rstate) : option conf :=
  deriveConfState (smeta_of (r_snap r)) (r_ents r) (hs_commit (r_hs r)).

Definition ref_observe (r : rstate) : option fullobs :=
  match ref_conf r with
  | None => None
  | Some cs => Some (FO (r_hs r) cs (r_applied r) (r_cfg r) (r_first r) (r_last r) (r_snap r) (r_ents r))
  end.

(* MemoryStorage.Entries(lo, hi, maxSize) for first <= lo <= hi <= last+1, errors mapped to [] *)
Definition ref_entries (r : rstate) (lo hi maxSize : N) : list entry :=
  limit_size maxSize
    (firstn (N.to_nat (hi - lo)) (skipn (N.to_nat (lo - r_sidx r - 1)) (r_ents r))).

(* ---- Raft-valid requests, judged on the reference state *)

Fixpoint contiguous_from (i : N) (l : list entry) : bool :=
  match l with
  | [] => true
  | e :: r => (e_idx e =? i) && contiguous_from (i + 1) r
  end.

Fixpoint strictly_sorted (l : conf) : bool :=
  match l with
  | [] => true
  | x :: r => match r with [] => true | y :: _ => (x <? y) && strictly_sorted r end
  end.
Definition conf_ok (c : conf) : bool :=
  match c with [] => false | x :: _ => (0 <? x) && strictly_sorted c end.

Definition entry_ok (e : entry) : bool :=
  (e_idx e <? c14_MaxUint64)
  && (if e_typ e =? c14_EntryConfChange then match e_cc e with Some _ => true | None => false end
      else (e_typ e =? c14_EntryNormal) && match e_cc e with None => true | Some _ => false end).

(* the structural signature of finding K1: a snapshot newer than the stored one,
   strictly inside the log, whose (index, term) the log does not contain *)
Definition k1_signature (r : rstate) (q : wreq) : bool :=
  match q with
  | WSave _ _ (Some s) =>
      (r_sidx r <? s_idx s) && (s_idx s <? r_last r) && negb (r_match_term r (s_idx s) (s_term s))
  | _ => false
  end.

Definition snapshot_ok (r : rstate) (s : snapshot) : bool :=
  (0 <? s_idx s) && (s_idx s <? c14_MaxUint64) && (0 <? s_term s) && conf_ok (s_conf s)
  (* the checksum is a function of the bytes and, for a re-save at the stored index,
     does not collide: same size and checksum <-> same bytes *)
  && (negb ((s_idx s =? r_sidx r) && (s_term s =? s_term (r_snap r)) && conf_eqb (s_conf s) (s_conf (r_snap r)))
      || Bool.eqb (bytes_eqb (s_data s) (s_data (r_snap r)))
                  ((blen (s_data s) =? blen (s_data (r_snap r))) && (s_sum s =? s_sum (r_snap r)))).

Definition req_valid (r : rstate) (q : wreq) : bool :=
  match q with
  | WSave hs ents snap =>
      forallb entry_ok ents
      && match ents with [] => true | e0 :: _ => contiguous_from (e_idx e0) ents end
      && match snap with
         | Some s => snapshot_ok r s
         | None => match ents with [] => true | e0 :: _ => r_sidx r <? e_idx e0 end
         end
      && match ref_save false r hs ents snap with
         | ROk r' => match ref_conf r' with Some _ => true | None => false end
         | RRej _ => true
         | RInvalid => false
         end
  | WMark _ | WCfg _ => true
  end.

(* ---------------------------------------------------------------- the case *)

Inductive query := QEntries (lo hi maxSize : N) | QTerm (i : N).

Inductive op :=
| OWrite (mode : N) (reqs : list (N * wreq))
| OReopen
| OObserve (sc : N)
| OQuery (sc : N) (q : query).

Inductive oresult :=
| RWrite (codes : list N)
| RNone
| RObs (pebble mem : option fullobs)
| REntries (pebble : option (list entry)) (mem : list entry)
| RTerm (pebble : option N) (mem : N).

Record c14_case := C14Case { cs_steps : list (op * oresult) }.

(* ---- the concrete model run: pebble DB + one memoryStore per scope *)
Record mdl := MD { md_c : cstate; md_m : list (N * mstate) }.
Definition mdl0 : mdl := MD cstate0 [].
Definition mem_of (sc : N) (ms : list (N * mstate)) : mstate :=
  match aget sc ms with Some m => m | None => mstate0 end.

(* the memory stores receive exactly the requests the durable store accepted *)
Fixpoint mem_group (ms : list (N * mstate)) (reqs : list (N * wreq)) (codes : list N) : list (N * mstate) :=
  match reqs, codes with
  | (sc, q) :: r, c :: cr =>
      mem_group (if c =? 0 then aset sc (mem_req (mem_of sc ms) q) ms else ms) r cr
  | _, _ => ms
  end.

Definition mdl_step (s : mdl) (o : op) : mdl * oresult :=
  match o with
  | OWrite mode reqs =>
      let '(c', codes) := run_group (md_c s) mode reqs in
      (MD c' (mem_group (md_m s) reqs codes), RWrite codes)
  | OReopen => (MD (reopen (md_c s)) (md_m s), RNone)
  | OObserve sc =>
      let '(c', o) := observe (md_c s) sc in
      (MD c' (md_m s), RObs o (mem_observe (mem_of sc (md_m s))))
  | OQuery sc (QEntries lo hi mx) =>
      (s, REntries (Some (pebble_entries (md_c s) sc lo hi mx)) (mem_entries (mem_of sc (md_m s)) lo hi mx))
  | OQuery sc (QTerm i) =>
      let '(c', t) := pebble_term (md_c s) sc i in
      (MD c' (md_m s), RTerm t (mem_term (mem_of sc (md_m s)) i))
  end.

Fixpoint mdl_run (s : mdl) (ops : list op) : list oresult :=
  match ops with
  | [] => []
  | o :: r => let '(s', x) := mdl_step s o in x :: mdl_run s' r
  end.

Definition codes_eqb : list N -> list N -> bool := list_eqb N.eqb.
Definition oresult_eqb (a b : oresult) : bool :=
  match a, b with
  | RWrite x, RWrite y => codes_eqb x y
  | RNone, RNone => true
  | RObs p m, RObs p' m' => option_eqb fullobs_eqb p p' && option_eqb fullobs_eqb m m'
  | REntries p m, REntries p' m' => option_eqb entries_eqb p p' && entries_eqb m m'
  | RTerm p m, RTerm p' m' => option_eqb N.eqb p p' && (m =? m')
  | _, _ => false
  end.

Definition C14_mismatch (c : c14_case) : bool :=
  negb (list_eqb oresult_eqb (mdl_run mdl0 (map fst (cs_steps c))) (map snd (cs_steps c))).

(* ---------------------------------------------------------------- the monitor *)

(* per scope: the reference state, the K1 variant (Some after a K1-signature save
   until the divergence is seen), whether the scope is still judged, and whether
   memory.go (a test double that does not filter a same-save overlap with the
   snapshot) is still judged *)
Record mscope := MSC { q_ref : rstate; q_k1 : option rstate; q_judged : bool; q_mem : bool }.
Definition mscope0 : mscope := MSC rstate0 None true true.
Definition msc_of (sc : N) (l : list (N * mscope)) : mscope :=
  match aget sc l with Some m => m | None => mscope0 end.

Record mon := MON { mn_sc : list (N * mscope); mn_code : N }.
Definition mon0 : mon := MON [] 0.

Definition worse (a b : N) : N :=          (* 1 (violation) dominates 2 (known finding) dominates 0 *)
  if (a =? 1) || (b =? 1) then 1 else if (a =? 0) then b else a.
Definition flag (m : mon) (c : N) : mon := MON (mn_sc m) (worse (mn_code m) c).
Definition set_msc (m : mon) (sc : N) (q : mscope) : mon := MON (aset sc q (mn_sc m)) (mn_code m).
Definition unjudge (m : mon) (sc : N) : mon :=
  let q := msc_of sc (mn_sc m) in set_msc m sc (MSC (q_ref q) (q_k1 q) false false).

Definition expected_code (x : rres) : N :=
  match x with ROk _ => 0 | RRej c => c | RInvalid => 0 end.

Fixpoint scopes_distinct (l : list N) : bool :=
  match l with
  | [] => true
  | x :: r => negb (existsb (N.eqb x) r) && scopes_distinct r
  end.

(* what a raft Ready can contain: the entries of a save that carries a snapshot lie above it *)
Definition req_ready_shaped (q : wreq) : bool :=
  match q with
  | WSave _ (e0 :: _) (Some s) => s_idx s <? e_idx e0
  | _ => true
  end.

(* one request of a committed group (mode 0).  [strict] = every request of the
   group is Raft-valid, so the result classes are determined *)
Definition mon_req (strict : bool) (m : mon) (sc : N) (q : wreq) (code : N) : mon :=
  let s := msc_of sc (mn_sc m) in
  if negb (q_judged s) then m else
  if negb (req_valid (q_ref s) q) then unjudge m sc else
  let x := ref_req false (q_ref s) q in
  let m1 := if strict && negb (code =? expected_code x) then flag m 1 else m in
  if negb (code =? 0) then m1                              (* refused: must have no effect *)
  else match x with
       | ROk r' =>
           let k1' := match q_k1 s with
                      | Some rk => match ref_req true rk q with ROk rk' => Some rk' | _ => None end
                      | None => if k1_signature (q_ref s) q
                                then match ref_req true (q_ref s) q with ROk rk' => Some rk' | _ => None end
                                else None
                      end in
           set_msc m1 sc (MSC r' k1' true (q_mem s && req_ready_shaped q))
       | _ => (* accepted although the reference refuses it *)
           if strict then m1 else unjudge m1 sc
       end.

Fixpoint mon_reqs (strict : bool) (m : mon) (reqs : list (N * wreq)) (codes : list N) : mon :=
  match reqs, codes with
  | [], [] => m
  | (sc, q) :: r, c :: cr => mon_reqs strict (mon_req strict m sc q c) r cr
  | _, _ => flag m 1                                       (* a result is missing *)
  end.

Definition group_strict (m : mon) (reqs : list (N * wreq)) : bool :=
  forallb (fun p => let s := msc_of (fst p) (mn_sc m) in q_judged s && req_valid (q_ref s) (snd p)) reqs.

(* 0: [f] holds of the reference; 2: only of the K1 variant; 1: of neither *)
Definition k1_or (s : mscope) (f : rstate -> bool) : N :=
  if f (q_ref s) then 0
  else match q_k1 s with Some rk => if f rk then 2 else 1 | None => 1 end.

Definition obs_is (o : option fullobs) (r : rstate) : bool :=
  match ref_observe r, o with
  | Some want, Some got => fullobs_eqb got want
  | _, _ => false
  end.

(* entries returned by any query: inside [first,last] and [lo,hi), each equal to the reference entry *)
Definition ref_entry_at (r : rstate) (i : N) : option entry :=
  if (r_sidx r <? i) then nth_error (r_ents r) (N.to_nat (i - r_sidx r - 1)) else None.
Definition entries_safe (r : rstate) (lo hi : N) (l : list entry) : bool :=
  forallb (fun e => (lo <=? e_idx e) && ((hi =? 0) || (e_idx e <? hi))
                    && match ref_entry_at r (e_idx e) with Some e' => entry_eqb e e' | None => false end) l
  && match l with [] => true | e0 :: _ => contiguous_from (e_idx e0) l end.

Definition judge_entries (lo hi mx : N) (l : list entry) (r : rstate) : bool :=
  if (r_first r <=? lo) && (lo <=? hi) && (hi <=? r_last r + 1)
  then entries_eqb l (ref_entries r lo hi mx)
  else entries_safe r lo hi l.

Definition judge_term (i t : N) (r : rstate) : bool :=
  match r_term r i with
  | Some t' => t =? t'
  | None => t =? 0                      (* no term for an index it does not hold *)
  end.

Definition mon_step (m : mon) (st : op * oresult) : mon :=
  match st with
  | (OWrite mode reqs, RWrite codes) =>
      if negb (scopes_distinct (map fst reqs)) then flag m 1      (* the harness never runs such a group *)
      else if mode =? 0 then mon_reqs (group_strict m reqs) m reqs codes
      else (* the commit was refused or cut: every request reports an error, nothing changes *)
        if forallb (fun c => negb (c =? 0)) codes && (length codes =? length reqs)%nat then m else flag m 1
  | (OReopen, RNone) => m
  | (OObserve sc, RObs p mm) =>
      let s := msc_of sc (mn_sc m) in
      if negb (q_judged s) then m else
      match ref_observe (q_ref s) with
      | None => m
      | Some _ =>
          let cp := k1_or s (obs_is p) in
          let cm := if q_mem s then k1_or s (obs_is mm) else 0 in
          let m' := flag (flag m cp) cm in
          (* once the K1 divergence has been seen the scope is off the reference *)
          if cp =? 2 then unjudge m' sc else m'
      end
  | (OQuery sc (QEntries lo hi mx), REntries p mm) =>
      let s := msc_of sc (mn_sc m) in
      if negb (q_judged s) then m else
      match p with
      | None => flag m 1
      | Some l => flag (flag m (k1_or s (judge_entries lo hi mx l)))
                       (if (0 <? hi) && q_mem s then k1_or s (judge_entries lo hi mx mm) else 0)
      end
  | (OQuery sc (QTerm i), RTerm p mm) =>
      let s := msc_of sc (mn_sc m) in
      if negb (q_judged s) then m else
      match p with
      | None => flag m 1
      | Some t => flag (flag m (k1_or s (judge_term i t)))
                       (if q_mem s then k1_or s (judge_term i mm) else 0)
      end
  | _ => flag m 1                        (* malformed trace *)
  end.

Definition C14_monitor (c : c14_case) : N := mn_code (fold_left mon_step (cs_steps c) mon0).
