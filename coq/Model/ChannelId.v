(* Model/ChannelId.v — pkg/protocol/channelid: person.go, command.go, agent.go.
   Go strings are byte strings ([bytes] = list N); one Gallina definition per
   Go function, same names.  crc32.ChecksumIEEE is [crc32_bitwise] of
   Model/Crc32.v (tied to the stdlib on every C21 and C35 run).  The constants
   the code writes (command suffix, the separator each encoder emits) come from
   Gen/Consts_C35.v; the separator the decoders split on is the literal "@". *)
From WK Require Import Base.Base Model.Crc32.
From WK Require Import Gen.Consts_C35.
Open Scope N_scope.

(* the literal "@" of strings.Split / strings.Contains in person.go and agent.go *)
Definition at_sign : N := 64.

(* ---- Go string primitives ------------------------------------------------ *)

Definition is_nil (s : bytes) : bool := match s with [] => true | _ => false end.

(* s > t on Go strings: bytewise lexicographic *)
Fixpoint bytes_compare (a b : bytes) : comparison :=
  match a, b with
  | [], [] => Eq
  | [], _ :: _ => Lt
  | _ :: _, [] => Gt
  | x :: a', y :: b' => match x ?= y with
                        | Eq => bytes_compare a' b'
                        | c => c
                        end
  end.
Definition bytes_gtb (a b : bytes) : bool :=
  match bytes_compare a b with Gt => true | _ => false end.

(* strings.Split(s, "@"): all parts, never an empty list *)
Fixpoint split_on (sep : N) (s : bytes) : list bytes :=
  match s with
  | [] => [[]]
  | c :: r => if c =? sep then [] :: split_on sep r
              else match split_on sep r with
                   | p :: ps => (c :: p) :: ps
                   | [] => [[c]]
                   end
  end.

(* strings.Contains(s, "@") *)
Definition contains (sep : N) (s : bytes) : bool := existsb (N.eqb sep) s.

(* strings.HasSuffix / strings.TrimSuffix *)
Definition has_suffix (s suf : bytes) : bool :=
  (length suf <=? length s)%nat && bytes_eqb (skipn (length s - length suf) s) suf.
Definition trim_suffix (s suf : bytes) : bytes :=
  if has_suffix s suf then firstn (length s - length suf) s else s.
Definition has_prefix (s pre : bytes) : bool :=
  (length pre <=? length s)%nat && bytes_eqb (firstn (length pre) s) pre.

(* ---- person.go ------------------------------------------------------------ *)

Definition EncodePersonChannel (leftUID rightUID : bytes) : bytes :=
  let leftHash := crc32_bitwise leftUID in
  let rightHash := crc32_bitwise rightUID in
  if rightHash <? leftHash then leftUID ++ PersonSeparator ++ rightUID
  else if (leftHash =? rightHash) && bytes_gtb leftUID rightUID
       then leftUID ++ PersonSeparator ++ rightUID
       else rightUID ++ PersonSeparator ++ leftUID.

(* None = ErrInvalidPersonChannel *)
Definition DecodePersonChannel (channelID : bytes) : option (bytes * bytes) :=
  match split_on at_sign channelID with
  | [p0; p1] => if is_nil p0 || is_nil p1 then None else Some (p0, p1)
  | _ => None
  end.

Definition NormalizePersonChannel (senderUID channelID : bytes) : option bytes :=
  if is_nil senderUID || is_nil channelID then None
  else if negb (contains at_sign channelID)
       then Some (EncodePersonChannel senderUID channelID)
       else match DecodePersonChannel channelID with
            | None => None
            | Some (lft, rgt) =>
                if negb (bytes_eqb lft senderUID) && negb (bytes_eqb rgt senderUID)
                then None
                else Some (EncodePersonChannel lft rgt)
            end.

(* ---- command.go ------------------------------------------------------------ *)

Definition IsCommandChannel (channelID : bytes) : bool :=
  has_suffix channelID CommandChannelSuffix.

Definition ToCommandChannel (channelID : bytes) : bytes :=
  if IsCommandChannel channelID then channelID
  else channelID ++ CommandChannelSuffix.

Definition FromCommandChannel (channelID : bytes) : bytes * bool :=
  if negb (IsCommandChannel channelID) then (channelID, false)
  else (trim_suffix channelID CommandChannelSuffix, true).

(* ---- agent.go -------------------------------------------------------------- *)

Definition EncodeAgentChannel (uid agentUID : bytes) : bytes :=
  uid ++ AgentSeparator ++ agentUID.

(* None = ErrInvalidAgentChannel *)
Definition DecodeAgentChannel (channelID : bytes) : option (bytes * bytes) :=
  match split_on at_sign channelID with
  | [p0; p1] => if is_nil p0 || is_nil p1 then None else Some (p0, p1)
  | _ => None
  end.

(* ---- case-file interface -----------------------------------------------------
   inputs a b (uids), c (channel-id string given to Normalize by sender a),
   x (string for the command functions); then what the implementation returned. *)
Record c35_case := C35Case {
  c35_a : bytes; c35_b : bytes; c35_c : bytes; c35_x : bytes;
  c35_crc_a : N; c35_crc_b : N;                      (* crc32.ChecksumIEEE *)
  c35_enc_ab : bytes; c35_enc_ba : bytes;            (* Encode(a,b), Encode(b,a) *)
  c35_dec_enc : option (bytes * bytes);              (* Decode(Encode(a,b)) *)
  c35_dec_c : option (bytes * bytes);                (* Decode(c) *)
  c35_norm_ab : option bytes; c35_norm_ba : option bytes;      (* Normalize(a,b), Normalize(b,a) *)
  c35_norm_a_enc : option bytes; c35_norm_b_enc : option bytes; (* Normalize(a|b, Encode(a,b)) *)
  c35_norm_ac : option bytes;                        (* Normalize(a,c) *)
  c35_norm_ac2 : option bytes;                       (* Normalize(a, r) when Normalize(a,c) = r, else None *)
  c35_is_x : bool; c35_to_x : bytes; c35_to_to_x : bytes; c35_is_to_x : bool;
  c35_from_x : bytes * bool; c35_from_to_x : bytes * bool;
  c35_agent_enc : bytes;                             (* EncodeAgentChannel(a,b) *)
  c35_agent_dec : option (bytes * bytes);            (* DecodeAgentChannel(of that) *)
  c35_agent_dec_c : option (bytes * bytes) }.        (* DecodeAgentChannel(c) *)

Definition pair_eqb (p q : bytes * bytes) : bool :=
  bytes_eqb (fst p) (fst q) && bytes_eqb (snd p) (snd q).
Definition opair_eqb := option_eqb pair_eqb.
Definition obytes_eqb := option_eqb bytes_eqb.
Definition fromres_eqb (p q : bytes * bool) : bool :=
  bytes_eqb (fst p) (fst q) && Bool.eqb (snd p) (snd q).

(* the model run on the inputs of a case *)
Definition c35_model (a b c x : bytes) : c35_case :=
  let enc := EncodePersonChannel a b in
  let nac := NormalizePersonChannel a c in
  let tox := ToCommandChannel x in
  let ag := EncodeAgentChannel a b in
  C35Case a b c x (crc32_bitwise a) (crc32_bitwise b)
    enc (EncodePersonChannel b a) (DecodePersonChannel enc) (DecodePersonChannel c)
    (NormalizePersonChannel a b) (NormalizePersonChannel b a)
    (NormalizePersonChannel a enc) (NormalizePersonChannel b enc)
    nac (match nac with Some r => NormalizePersonChannel a r | None => None end)
    (IsCommandChannel x) tox (ToCommandChannel tox) (IsCommandChannel tox)
    (FromCommandChannel x) (FromCommandChannel tox)
    ag (DecodeAgentChannel ag) (DecodeAgentChannel c).

Definition c35_case_eqb (p q : c35_case) : bool :=
  (c35_crc_a p =? c35_crc_a q) && (c35_crc_b p =? c35_crc_b q)
  && bytes_eqb (c35_enc_ab p) (c35_enc_ab q) && bytes_eqb (c35_enc_ba p) (c35_enc_ba q)
  && opair_eqb (c35_dec_enc p) (c35_dec_enc q) && opair_eqb (c35_dec_c p) (c35_dec_c q)
  && obytes_eqb (c35_norm_ab p) (c35_norm_ab q) && obytes_eqb (c35_norm_ba p) (c35_norm_ba q)
  && obytes_eqb (c35_norm_a_enc p) (c35_norm_a_enc q) && obytes_eqb (c35_norm_b_enc p) (c35_norm_b_enc q)
  && obytes_eqb (c35_norm_ac p) (c35_norm_ac q) && obytes_eqb (c35_norm_ac2 p) (c35_norm_ac2 q)
  && Bool.eqb (c35_is_x p) (c35_is_x q) && bytes_eqb (c35_to_x p) (c35_to_x q)
  && bytes_eqb (c35_to_to_x p) (c35_to_to_x q) && Bool.eqb (c35_is_to_x p) (c35_is_to_x q)
  && fromres_eqb (c35_from_x p) (c35_from_x q) && fromres_eqb (c35_from_to_x p) (c35_from_to_x q)
  && bytes_eqb (c35_agent_enc p) (c35_agent_enc q)
  && opair_eqb (c35_agent_dec p) (c35_agent_dec q) && opair_eqb (c35_agent_dec_c p) (c35_agent_dec_c q).

Definition C35_mismatch (k : c35_case) : bool :=
  negb (c35_case_eqb (c35_model (c35_a k) (c35_b k) (c35_c k) (c35_x k)) k).

(* ---- the property on implementation observations alone -----------------------
   Specification-level vocabulary (independent of the model's functions above):
   the separator is "@", [join l r] = l@r, a uid is [clean] when it is non-empty
   and contains no "@" (only such uids can be decoded back unambiguously). *)
Definition join (l r : bytes) : bytes := l ++ at_sign :: r.
Definition clean (u : bytes) : bool := negb (is_nil u) && negb (contains at_sign u).
Definition is_some {A} (o : option A) : bool := match o with Some _ => true | None => false end.

(* r is the channel of s and some other user: s@… or …@s *)
Definition contains_user (s r : bytes) : bool :=
  has_prefix r (s ++ [at_sign]) || has_suffix r (at_sign :: s).

(* the two-user id of l and r, in either order *)
Definition is_id_of (l r id : bytes) : bool :=
  bytes_eqb id (join l r) || bytes_eqb id (join r l).

(* decoding a two-user id of (a,b): never a pair other than the two users in the
   order written; must succeed when both uids are clean *)
Definition decode_ok (a b enc : bytes) (d : option (bytes * bytes)) : bool :=
  match d with
  | Some (l, r) => bytes_eqb enc (join l r)
                   && ((bytes_eqb l a && bytes_eqb r b) || (bytes_eqb l b && bytes_eqb r a))
  | None => negb (clean a && clean b)
  end.

(* one observed Normalize(s, ch) = res, with dch the observed Decode(ch) when known *)
Definition normalize_ok (s ch : bytes) (dch : option (option (bytes * bytes))) (res : option bytes) : bool :=
  match res with
  | None => true
  | Some r =>
      negb (is_nil s) && contains_user s r
      && (if contains at_sign ch
          then match dch with
               | Some (Some (l, r')) => (bytes_eqb l s || bytes_eqb r' s) && is_id_of l r' r
               | Some None => false          (* an undecodable id was accepted *)
               | None => true
               end
          else is_id_of s ch r)
  end.

Definition person_ok (k : c35_case) : bool :=
  let a := c35_a k in let b := c35_b k in let enc := c35_enc_ab k in
  (* same id whichever user sends; it is a@b or b@a *)
  bytes_eqb enc (c35_enc_ba k) && is_id_of a b enc
  (* decoding yields the two users *)
  && decode_ok a b enc (c35_dec_enc k)
  (* for decodable uids: both senders get the canonical id from the peer uid,
     and normalizing the canonical id changes nothing *)
  && (if clean a && clean b
      then obytes_eqb (c35_norm_ab k) (Some enc) && obytes_eqb (c35_norm_ba k) (Some enc)
           && obytes_eqb (c35_norm_a_enc k) (Some enc) && obytes_eqb (c35_norm_b_enc k) (Some enc)
      else true)
  (* a sender only ever obtains a channel that contains them *)
  && normalize_ok a b None (c35_norm_ab k) && normalize_ok b a None (c35_norm_ba k)
  && normalize_ok a enc (Some (c35_dec_enc k)) (c35_norm_a_enc k)
  && normalize_ok b enc (Some (c35_dec_enc k)) (c35_norm_b_enc k)
  && normalize_ok a (c35_c k) (Some (c35_dec_c k)) (c35_norm_ac k)
  (* normalizing a normalized id changes nothing (sender uid without "@") *)
  && match c35_norm_ac k with
     | Some r => if contains at_sign a then true else obytes_eqb (c35_norm_ac2 k) (Some r)
     | None => true
     end.

Definition command_ok (k : c35_case) : bool :=
  let x := c35_x k in let suf := CommandChannelSuffix in
  let tox := c35_to_x k in
  Bool.eqb (c35_is_x k) (has_suffix x suf)
  && bytes_eqb (c35_to_to_x k) tox && c35_is_to_x k
  && (if has_suffix x suf then bytes_eqb tox x else bytes_eqb tox (x ++ suf))
  && snd (c35_from_to_x k) && bytes_eqb (fst (c35_from_to_x k) ++ suf) tox
  && (if has_suffix x suf
      then snd (c35_from_x k) && bytes_eqb (fst (c35_from_x k) ++ suf) x
      else negb (snd (c35_from_x k)) && bytes_eqb (fst (c35_from_x k)) x
           && bytes_eqb (fst (c35_from_to_x k)) x).

Definition agent_ok (k : c35_case) : bool :=
  bytes_eqb (c35_agent_enc k) (join (c35_a k) (c35_b k))
  && match c35_agent_dec k with
     | Some (l, r) => bytes_eqb l (c35_a k) && bytes_eqb r (c35_b k)
     | None => negb (clean (c35_a k) && clean (c35_b k))
     end.

Definition C35_monitor (k : c35_case) : N :=
  if person_ok k && command_ok k && agent_ok k then 0 else 1.
